import NixModel.Gen.Tables
import NixModel.Proto
import NixModel.Version
import NixModel.Spec.C10
import NixModel.Props.C10
import NixModel.Drive.Common
import NixModel.Drive.Version
