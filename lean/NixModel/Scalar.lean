/-
  `double` as a type parameter.

  `Scalar α` provides the *operations* the nix index code performs on doubles and NO laws.
  Theorems state the laws they need as explicit hypotheses (`Std.IsLinearOrder`, `LawfulBEq'`,
  `LawfulRounding` …): on finite non-NaN IEEE-754 values `<`/`≤` form a linear order, `==` is
  equality, `floor`/`ceil` are exact and `(double)n` is strictly monotone below 2^53.  Nothing is
  ever assumed about `+ - * /`: a computed quotient, product or sum is just a value of type `α`.
-/
namespace Nix

class Scalar (α : Type) extends LT α, LE α where
  add : α → α → α
  sub : α → α → α
  mul : α → α → α
  div : α → α → α
  floor : α → α
  ceil : α → α
  round : α → α
  zero : α
  ofNat : Nat → α          -- (double) n
  toNat : α → Nat          -- static_cast<ndsize_t>(x)
  isFinite : α → Bool
  pow10 : Int → α         -- std::stod("1e<k>")
  eps : α                  -- std::numeric_limits<double>::epsilon()
  beq : α → α → Bool       -- operator==
  decLt : DecidableRel (fun a b : α => a < b)
  decLe : DecidableRel (fun a b : α => a ≤ b)

instance {α} [Scalar α] : DecidableRel (fun a b : α => a < b) := Scalar.decLt
instance {α} [Scalar α] : DecidableRel (fun a b : α => a ≤ b) := Scalar.decLe
instance {α} [Scalar α] (a b : α) : Decidable (a < b) := Scalar.decLt a b
instance {α} [Scalar α] (a b : α) : Decidable (a ≤ b) := Scalar.decLe a b

/-- hardware binary64: what the driver runs, bit-comparable with the C++ -/
instance : Scalar Float where
  add := (· + ·)
  sub := (· - ·)
  mul := (· * ·)
  div := (· / ·)
  floor := Float.floor
  ceil := Float.ceil
  round := Float.round
  zero := 0.0
  ofNat := Float.ofNat
  toNat := fun f => f.toUInt64.toNat
  isFinite := Float.isFinite
  pow10 := fun k => if k ≥ 0 then Float.ofScientific 1 false k.toNat else Float.ofScientific 1 true (-k).toNat
  eps := Float.ofBits 0x3cb0000000000000
  beq := fun a b => a == b
  decLt := fun a b => Float.decLt a b
  decLe := fun a b => Float.decLe a b

/-- a lawful instance used in non-vacuity examples (`decide` reduces `Int`) -/
instance : Scalar Int where
  add := (· + ·)
  sub := (· - ·)
  mul := (· * ·)
  div := (· / ·)
  floor := id
  ceil := id
  round := id
  zero := 0
  ofNat := Int.ofNat
  toNat := Int.toNat
  isFinite := fun _ => true
  pow10 := fun k => if k ≥ 0 then (10 : Int) ^ k.toNat else 0
  eps := 0
  beq := fun a b => a == b
  decLt := fun a b => Int.decLt a b
  decLe := fun a b => Int.decLe a b

/-- a lawful field instance (`decide +kernel` reduces `Rat`) -/
instance : Scalar Rat where
  add := (· + ·)
  sub := (· - ·)
  mul := (· * ·)
  div := (· / ·)
  floor := fun q => (q.floor : Rat)
  ceil := fun q => (q.ceil : Rat)
  round := fun q => if 0 ≤ q then ((q + 1/2).floor : Rat) else ((q - 1/2).ceil : Rat)
  zero := 0
  ofNat := fun n => (n : Rat)
  toNat := fun q => q.floor.toNat
  isFinite := fun _ => true
  pow10 := fun k => if k ≥ 0 then (10 : Rat) ^ k.toNat else 1 / (10 : Rat) ^ (-k).toNat
  eps := 0
  beq := fun a b => a == b
  decLt := fun _ _ => inferInstance
  decLe := fun _ _ => inferInstance

/-- `==` decides equality (IEEE: true away from NaN; for `-0.0 == 0.0` both are the same coordinate) -/
class LawfulScalarEq (α : Type) [Scalar α] : Prop where
  beq_iff : ∀ a b : α, Scalar.beq a b = true ↔ a = b

instance : LawfulScalarEq Int := ⟨by intro a b; simp [Scalar.beq]⟩
instance : LawfulScalarEq Rat := ⟨by intro a b; simp [Scalar.beq]⟩

end Nix
