import NixModel.Scalar
/-
  Model of the position→index kernels of src/Dimensions.cpp:
  `getIndex` (range), `getSampledIndex`, `getSetIndex`, `getDataFrameIndex`, and the start/end
  pair functions built from them.  Statement order follows the C++.
-/
namespace Nix
open Scalar

inductive PositionMatch | equal | less | greater | greaterOrEqual | lessOrEqual
deriving DecidableEq, Repr

inductive RangeMatch | inclusive | exclusive
deriving DecidableEq, Repr

def PositionMatch.isGreater : PositionMatch → Bool
  | .greater | .greaterOrEqual => true
  | _ => false
def PositionMatch.isLess : PositionMatch → Bool
  | .less | .lessOrEqual => true
  | _ => false

/-- `match == Inclusive ? LessOrEqual : Less` -/
def RangeMatch.endMatch : RangeMatch → PositionMatch
  | .inclusive => .lessOrEqual
  | .exclusive => .less

variable {α : Type} [Scalar α]

/-! ### range dimension: `getIndex(position, ticks, matching)` -/

/-- `std::lower_bound(ticks.begin(), ticks.end(), p) - ticks.begin()` for a partitioned range:
    the number of leading elements `< p` -/
def lowerBound (p : α) : List α → Nat
  | [] => 0
  | t :: ts => if t < p then lowerBound p ts + 1 else 0

def getIndex (p : α) (ticks : List α) (m : PositionMatch) : Option Nat :=
  match ticks with
  | [] => none
  | t0 :: rest =>
    let last := (t0 :: rest).getLast (by simp)
    if p < t0 then
      if m.isGreater then some 0 else none
    else if last < p then
      if m.isLess then some ((t0 :: rest).length - 1) else none
    else
      let lo := lowerBound p (t0 :: rest)
      -- `*lower`: in range whenever `¬ last < p` (theorem `lowerBound_lt_length`)
      match (t0 :: rest)[lo]? with
      | none => none
      | some tl =>
        if m.isGreater then
          if m == .greater && beq tl p then
            if lo + 1 < (t0 :: rest).length then some (lo + 1) else none
          else some lo
        else if m == .lessOrEqual && p < tl then
          if 1 ≤ lo then some (lo - 1) else none
        else if m == .less && p ≤ tl then
          if 1 ≤ lo then some (lo - 1) else none
        else
          if beq tl p then some lo else none

/-! ### sampled dimension -/

/-- `SampledDimension::positionAt(index) = index * sampling_interval + offset` -/
def posAt (si off : α) (i : Nat) : α := add (mul (ofNat i) si) off

/-- `while (idx > 0 && position_at(idx) > position) idx -= 1` -/
def corrDown (x : Nat → α) (p : α) : Nat → Nat
  | 0 => 0
  | g + 1 => if p < x (g + 1) then corrDown x p g else g + 1

/-- `while (position_at(idx+1) <= position && position_at(idx+1) > position_at(idx)) idx += 1`
    (`none`: more than `fuel` iterations) -/
def corrUp (x : Nat → α) (p : α) : Nat → Nat → Option Nat
  | 0, _ => none
  | f + 1, g => if x (g + 1) ≤ p ∧ x g < x (g + 1) then corrUp x p f (g + 1) else some g

/-- `getSampledIndex(position, offset, sampling_interval, match)` -/
def getSampledIndex (fuel : Nat) (p off si : α) (m : PositionMatch) : Option Nat :=
  if p < off then
    if m.isGreater then some 0 else none
  else if !(decide (zero < si)) || !(isFinite p) || !(isFinite off) then none
  else
    let q := floor (div (sub p off) si)
    -- an estimate of 2^53 or more (or an overflowed quotient) cannot be corrected in steps of one: no index (fix df344c6)
    if !(decide (q < ofNat 9007199254740992)) then none else
    let est : Nat := if q < zero then 0 else toNat q
    let x := posAt si off
    match corrUp x p fuel (corrDown x p est) with
    | none => none
    | some idx =>
      let equals := beq (x idx) p
      match m with
      | .lessOrEqual => some idx
      | .less => if !equals then some idx else if 1 ≤ idx then some (idx - 1) else none
      | .equal => if equals then some idx else none
      | .greaterOrEqual => if equals then some idx else some (idx + 1)
      | .greater => some (idx + 1)

/-! ### set and data-frame dimensions (the two C++ functions are textually the same kernel) -/

/-- `getSetIndex(position, labels, match)` / `getDataFrameIndex(position, tick_count, match)`;
    `count` = number of labels / rows (0 = unbounded) -/
def rawCountIndex (p : α) (m : PositionMatch) : Option Nat :=
  if p < zero && !m.isGreater then none else
    if m.isGreater then
      let tmp0 := ceil p
      let tmp := if tmp0 < zero then zero else tmp0
      let equals := beq tmp p
      if m == .greater && equals then some (toNat tmp + 1) else some (toNat tmp)
    else if m.isLess then
      let tmp := floor p
      let equals := beq tmp p
      if m == .less && equals then
        if 1 ≤ toNat tmp then some (toNat tmp - 1) else none
      else some (toNat tmp)
    else
      let tmp := round p
      if beq tmp p then some (toNat tmp) else none

/-- the final clipping against the number of labels / rows -/
def clipIndex (count : Nat) (m : PositionMatch) : Option Nat → Option Nat
  | some i =>
    if 0 < count && i > count - 1 then
      if m.isLess then some (count - 1) else none
    else some i
  | none => none

/-- 2^64: a position at or beyond it (or NaN) has no representable index of its own — converting it would be undefined (fix 30460cb) -/
def indexLimit : Nat := 18446744073709551616

/-- the two kernels as repaired: below zero without a Greater rule → none (as `rawCountIndex` starts); a position that is not below
    2^64 (NaN included) → the last index for Less / LessOrEqual on a bounded dimension, else none; otherwise the raw index, clipped -/
def getCountIndex (p : α) (count : Nat) (m : PositionMatch) : Option Nat :=
  if p < zero && !m.isGreater then none
  else if !(decide (p < ofNat indexLimit)) then
    (if beq p p && decide (0 < count) && m.isLess then some (count - 1) else none)
  else clipIndex count m (rawCountIndex p m)

/-! ### start/end pairs -/

/-- the shape shared by `SampledDimension::indexOf(start,end,…)`, `SetDimension::indexOf`,
    `DataFrameDimension::indexOf`: both indices are computed, then checked -/
def pairOf (kernel : α → PositionMatch → Option Nat) (s e : α) (rm : RangeMatch) : Option (Nat × Nat) :=
  if e < s then none else
  match kernel s .greaterOrEqual, kernel e rm.endMatch with
  | some si, some ei => if si ≤ ei then some (si, ei) else none
  | _, _ => none

def sampledPair (fuel : Nat) (off si : α) (s e : α) (rm : RangeMatch) : Option (Nat × Nat) :=
  pairOf (fun p m => getSampledIndex fuel p off si m) s e rm
def countPair (count : Nat) (s e : α) (rm : RangeMatch) : Option (Nat × Nat) :=
  pairOf (fun p m => getCountIndex p count m) s e rm
/-- `RangeDimension::indexOf(start, end, ticks, match)` (returns early when the start has no index:
    observably the same as `pairOf`) -/
def rangePair (ticks : List α) (s e : α) (rm : RangeMatch) : Option (Nat × Nat) :=
  if e < s then none else
  match getIndex s ticks .greaterOrEqual with
  | none => none
  | some si =>
    match getIndex e ticks rm.endMatch with
    | some ei => if si ≤ ei then some (si, ei) else none
    | none => none

end Nix
