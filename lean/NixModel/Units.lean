import NixModel.Gen.Tables
/-
  Model of the unit grammar and scaling of src/util/util.cpp:
  splitUnit, isAtomicSIUnit, isCompoundSIUnit, isSIUnit, isScalable, getSIScaling.

  boost::regex semantics that matter and are modelled:
  * `regex_match(s, A B C)` = some decomposition of the whole string exists;
  * `regex_search(s, m, (a1|a2|…))` = at the leftmost position where any alternative matches,
    the FIRST alternative in source order that matches there (Perl leftmost-first, not longest).
  The alternations come from the generated tables, in source order.
-/
namespace Nix.Units

abbrev Str := List Char

def prefixAlts : List Str := Gen.prefixes.map String.toList
def unitAlts : List Str := Gen.units.map String.toList

/-- first alternative, in order, that is a prefix of `s`; returns (match, rest) -/
def firstAlt (alts : List Str) (s : Str) : Option (Str × Str) :=
  match alts with
  | [] => none
  | a :: as => if a.isPrefixOf s then some (a, s.drop a.length) else firstAlt as s

/-- `regex_search` for a bare alternation: leftmost position, first alternative; returns (match, suffix) -/
def searchAlt (alts : List Str) : Str → Option (Str × Str)
  | [] => firstAlt alts []
  | c :: cs =>
    match firstAlt alts (c :: cs) with
    | some r => some r
    | none => searchAlt alts cs

def isDigit (c : Char) : Bool := '0' ≤ c && c ≤ '9'

/-- optional sign: (negative?, rest) -/
def stripSign : Str → Bool × Str
  | '-' :: r => (true, r)
  | '+' :: r => (false, r)
  | r => (false, r)

/-- whole-string match of `POWER = (\^[+-]?[1-9]\d*)` -/
def matchPower : Str → Bool
  | '^' :: rest =>
    match (stripSign rest).2 with
    | d :: ds => ('1' ≤ d && d ≤ '9') && ds.all isDigit
    | [] => false
  | _ => false

/-- `regex_match(s, PREFIXES UNITS)` -/
def matchPU (s : Str) : Bool :=
  prefixAlts.any fun p => p.isPrefixOf s && unitAlts.any fun u => s.drop p.length == u
/-- `regex_match(s, UNITS POWER)` -/
def matchUP (s : Str) : Bool :=
  unitAlts.any fun u => u.isPrefixOf s && matchPower (s.drop u.length)
/-- `regex_match(s, PREFIXES UNITS POWER)` -/
def matchPUP (s : Str) : Bool :=
  prefixAlts.any fun p => p.isPrefixOf s && matchUP (s.drop p.length)
/-- `regex_match(s, UNITS)` -/
def matchU (s : Str) : Bool := unitAlts.any fun u => s == u

structure Split where
  pre : Str
  unit : Str
  power : Str
deriving DecidableEq, Repr

/-- `util::splitUnit` -/
def splitUnit (s : Str) : Split :=
  if matchPUP s then
    match searchAlt prefixAlts s with
    | some (p, suffix) =>
      match searchAlt unitAlts suffix with
      | some (u, pw) => ⟨p, u, pw.drop 1⟩         -- power = m.suffix().substr(1)
      | none => ⟨p, [], []⟩                       -- unreachable after regex_match
    | none => ⟨[], s, []⟩                         -- unreachable after regex_match
  else if matchUP s then
    match searchAlt unitAlts s with
    | some (u, pw) => ⟨[], u, pw.drop 1⟩
    | none => ⟨[], s, []⟩
  else if matchPU s then
    match searchAlt prefixAlts s with
    | some (p, suffix) => ⟨p, suffix, []⟩
    | none => ⟨[], s, []⟩
  else ⟨[], s, []⟩

/-- `isAtomicSIUnit`: `regex_match(unit, PREFIXES? UNITS POWER?)` -/
def isAtomicSIUnit (s : Str) : Bool := matchU s || matchPU s || matchUP s || matchPUP s

/-- split at every `*` and `/` -/
def splitSep : Str → List Str
  | [] => [[]]
  | c :: cs =>
    match splitSep cs with
    | [] => [[]]   -- unreachable
    | h :: t => if c == '*' || c == '/' then [] :: h :: t else (c :: h) :: t

/-- `isCompoundSIUnit`: `regex_match(unit, (atomic(\*|/))+atomic)`.  No atomic unit contains `*` or `/`,
    so a whole-string match exists iff splitting at every separator gives ≥ 2 atomic parts. -/
def isCompoundSIUnit (s : Str) : Bool :=
  let parts := splitSep s
  !s.isEmpty && parts.length ≥ 2 && parts.all isAtomicSIUnit

def isSIUnit (s : Str) : Bool := !s.isEmpty && (isAtomicSIUnit s || isCompoundSIUnit s)

/-- `isScalable(unitA, unitB)` -/
def isScalable (a b : Str) : Bool :=
  if !(isSIUnit a && isSIUnit b) then false else
  let sa := splitUnit a; let sb := splitUnit b
  sa.unit == sb.unit && sa.power == sb.power

/-- decimal exponent of a prefix, from the generated `PREFIX_EXPONENTS` table (`.at(prefix)`) -/
def prefixExp (tbl : List (String × Int)) (p : Str) : Option Int :=
  (tbl.find? fun e => e.1.toList == p).map (·.2)

/-- `std::stoi` on the power strings the grammar admits (optional sign, digits) -/
def parsePower (s : Str) : Option Int :=
  let neg := (stripSign s).1
  let ds := (stripSign s).2
  if ds.isEmpty || !ds.all isDigit then none else
  let n := ds.foldl (fun acc c => acc * 10 + (c.toNat - '0'.toNat)) 0
  some (if neg then -(n : Int) else (n : Int))

inductive ScaleErr | invalidUnit | noSuchPrefix | badPower
deriving DecidableEq, Repr

/-- `getSIScaling(origin, destination)`: the decimal exponent `k` of the factor `10^k`
    (the C++ returns `std::stod("1e" + std::to_string(k))`) -/
def siScalingExp (tbl : List (String × Int)) (a b : Str) : Except ScaleErr Int :=
  if !isScalable a b then .error .invalidUnit else
  let sa := splitUnit a; let sb := splitUnit b
  if sa.pre == sb.pre && sa.power == sb.power then .ok 0 else
  match (if sa.pre.isEmpty then some 0 else prefixExp tbl sa.pre),
        (if sb.pre.isEmpty then some 0 else prefixExp tbl sb.pre) with
  | some ea, some eb =>
    if sa.power.isEmpty then .ok (ea - eb) else
    match parsePower sa.power with
    | some pw => .ok ((ea - eb) * pw)
    | none => .error .badPower
  | _, _ => .error .noSuchPrefix

/-- the prefix-exponent table the library uses (PREFIX_EXPONENTS when the source has it) -/
def libTable : List (String × Int) := Gen.prefixExponents.getD Gen.prefixFactors

/-- the double the C++ returns for exponent `k`: the decimal literal `1e<k>`, correctly rounded -/
def pow10Float (k : Int) : Float :=
  if k ≥ 0 then Float.ofScientific 1 false k.toNat else Float.ofScientific 1 true (-k).toNat

end Nix.Units
