import NixModel.Property
/-
  DataFrame cells (C15): `DataFrame` front-end templates (include/nix/DataFrame.hpp), `DataFrameHDF5`
  (backend/hdf5/DataFrameHDF5.cpp: createData / columns / rows / Janus / writeCells / writeRow / readCells / readRow /
  writeColumn / readColumn) and the checks of `Block::createDataFrame` (include/nix/Block.hpp), in the statement
  order of the C++.

  A frame is a 1-d dataset of a compound type with one member per column.  The model keeps the schema, the
  row count and the table as a function row → column → cell token, normalised to the column type's fill value
  outside the rows.  Cell values are abstract tokens `V`; the type tag travels in the `Variant`.
  HDF5's compound I/O (member matching by name, numeric member conversion) is modelled, not verified.
-/
namespace Nix.DF
open Nix Nix.PV

structure Col where
  name : String
  unit : String
  dtype : DType
deriving DecidableEq, Repr

structure Frame (V : Type) where
  cols : List Col
  nrows : Nat
  get : Nat → Nat → V          -- row, column

/-- how a cell is addressed in `writeCells` / `readCell` / `writeColumn` / `readColumn`: by name or by index -/
inductive Ref
  | name (n : String)
  | idx (i : Nat)
deriving DecidableEq, Repr

/-- the numeric classes HDF5 converts between when memory and file member types differ -/
def isNumeric : DType → Bool
  | .int32 | .uint32 | .int64 | .uint64 | .double => true
  | _ => false

/-- can a value of memory type `src` be transferred to / from a column of type `dst`? -/
def convertible (src dst : DType) : Bool := src == dst || (isNumeric src && isNumeric dst)

section
variable {V : Type}
-- fill value per column type; numeric conversion between member types (`conv t t = id` by construction below)
variable (zero : DType → V) (conv : DType → DType → V → V)

/-- the token stored / returned when a value of type `src` meets a column of type `dst` -/
def convert (src dst : DType) (v : V) : V := if src = dst then v else conv src dst v

def Frame.ncols (f : Frame V) : Nat := f.cols.length
def Frame.colType (f : Frame V) (c : Nat) : DType := ((f.cols[c]?).map (·.dtype)).getD .nothing

/-- `H5Tget_member_index` -/
def Frame.colIndex (f : Frame V) (name : String) : Option Nat :=
  if f.cols.findIdx (fun c => c.name == name) < f.cols.length then some (f.cols.findIdx (fun c => c.name == name)) else none

/-- `DataType::member_name(index)`: an index past the last member makes `std::string(nullptr)` (std::logic_error) -/
def Frame.colName (f : Frame V) (i : Nat) : Except Err String :=
  match f.cols[i]? with
  | some c => .ok c.name
  | none => .error .other

/-- `Block::createDataFrame`'s loop over the columns: supported cell type, non-empty and unique names -/
def checkCols (seen : List String) : List Col → Option Err
  | [] => none
  | c :: rest =>
    if !c.dtype.isValueType then some .stdInvalidArgument else        -- Variant::supports_type, and not Nothing
    if c.name.isEmpty then some .emptyString else
    if seen.contains c.name then some .consistencyError else checkCols (c.name :: seen) rest

/-- `Block::createDataFrame`'s checks on the columns, then `DataFrameHDF5::createData`: an empty frame -/
def Frame.create (cols : List Col) : Except Err (Frame V) :=
  if cols.isEmpty then .error .stdInvalidArgument else
  match checkCols [] cols with
  | some e => .error e
  | none => .ok { cols := cols, nrows := 0, get := fun _ c => zero (((cols[c]?).map (·.dtype)).getD .nothing) }

/-- `rows(n)` = `H5Dset_extent`: surviving rows keep their cells, new rows are fill values -/
def Frame.setRows (f : Frame V) (n : Nat) : Frame V :=
  { f with nrows := n, get := fun r c => if r < n ∧ r < f.nrows then f.get r c else zero (f.colType c) }

/-- the member name a Cell designates: `c.haveName() ? c.name : dst.member_name(c.col)`; a Cell made from an
    empty name has col = 0 -/
def Frame.cellName (f : Frame V) : Ref → Except Err String
  | .name n => if n.isEmpty then f.colName 0 else .ok n
  | .idx i => f.colName i

/-- the column name a `readCell` / `writeColumn` / `readColumn` overload works with: the given name, or `colName(col)` -/
def Frame.refName (f : Frame V) : Ref → Except Err String
  | .name n => .ok n
  | .idx i => f.colName i

/-- the `Janus(dst, cells)` loop: resolve each cell's member name, refuse unknown and repeated members -/
def Frame.resolve (f : Frame V) : List String → List (Ref × Variant V) → Except Err (List (Nat × Variant V))
  | _, [] => .ok []
  | seen, (ref, v) :: rest =>
    match f.cellName ref with
    | .error e => .error e
    | .ok name =>
      match f.colIndex name with
      | none => .error .h5Error                                   -- no such member in the frame
      | some c =>
        if seen.contains name then .error .h5Error else           -- H5Tinsert: member exists already
        match f.resolve (name :: seen) rest with
        | .error e => .error e
        | .ok l => .ok ((c, v) :: l)

/-- the table after the cells `rc` (column index, value) of row `row` have been transferred -/
def Frame.setCells (f : Frame V) (row : Nat) (rc : List (Nat × Variant V)) : Frame V :=
  { f with get := fun r c =>
      if r = row then (match rc.lookup c with
        | some v => convert conv v.ty (f.colType c) v.val
        | none => f.get r c)
      else f.get r c }

/-- the table after `cnt` elements of `vals` (of memory type `ty`) have been transferred to column `col` from row `offset` on -/
def Frame.setColumn (f : Frame V) (col : Nat) (ty : DType) (offset cnt : Nat) (vals : List V) : Frame V :=
  { f with get := fun r k =>
      if k = col ∧ offset ≤ r ∧ r < offset + cnt then
        (match vals[r - offset]? with
          | some v => convert conv ty (f.colType col) v
          | none => f.get r k)
      else f.get r k }

/-- `count == 0` means "all of `vals`" -/
def effCount (count n : Nat) : Nat := if count = 0 then n else count

/-- `DataFrameHDF5::writeCells(row, cells)` -/
def Frame.writeCells (f : Frame V) (row : Nat) (cells : List (Ref × Variant V)) : Except Err (Frame V) :=
  if cells.any (fun c => !c.2.ty.isValueType) then .error .stdInvalidArgument else   -- data_type_to_h5_memtype(c.type())
  if cells.isEmpty then .error .h5Error else                                          -- makeCompound(0)
  match f.resolve [] cells with
  | .error e => .error e
  | .ok rc =>
    if row ≥ f.nrows then .error .h5Error else                                        -- hyperslab outside the extent
    if rc.any (fun cv => !convertible cv.2.ty (f.colType cv.1)) then .error .h5Error else   -- member conversion
    .ok (f.setCells conv row rc)

/-- `DataFrameHDF5::writeRow(row, vals)`: the k-th value goes to the k-th column -/
def Frame.writeRow (f : Frame V) (row : Nat) (vals : List (Variant V)) : Except Err (Frame V) :=
  if vals.length > f.ncols then .error .other else                -- member_name(k) past the last column
  f.writeCells conv row ((List.range vals.length).zip vals |>.map fun kv => (Ref.idx kv.1, kv.2))

/-- `DataFrameHDF5::readCells(row, names)` -/
def Frame.readCells (f : Frame V) (row : Nat) (names : List String) : Except Err (List (String × Variant V)) :=
  if names.any (fun n => (f.colIndex n).isNone) then .error .h5Error else   -- member_type(name)
  if names.isEmpty then .error .h5Error else                                -- makeCompound(0)
  if !names.Nodup then .error .h5Error else                                 -- H5Tinsert
  if row ≥ f.nrows then .error .h5Error else
  .ok (names.map fun n => let c := (f.colIndex n).getD 0; (n, { ty := f.colType c, val := f.get row c }))

/-- `DataFrameHDF5::readRow(row)` -/
def Frame.readRow (f : Frame V) (row : Nat) : Except Err (List (Variant V)) :=
  if row ≥ f.nrows then .error .h5Error else
  .ok ((List.range f.ncols).map fun c => { ty := f.colType c, val := f.get row c })

/-- `DataFrame::readCell(row, col)` / `readCell(row, name)` -/
def Frame.readCell (f : Frame V) (row : Nat) (ref : Ref) : Except Err (String × Variant V) :=
  match f.refName ref with
  | .error e => .error e
  | .ok name =>
    match f.readCells row [name] with
    | .error e => .error e
    | .ok (c :: _) => .ok c
    | .ok [] => .ok ("", { ty := .nothing, val := zero .nothing })

/-- `DataFrame::writeColumn<T>(name | col, vals, offset, count)` -/
def Frame.writeColumn (f : Frame V) (ref : Ref) (ty : DType) (vals : List V) (offset count : Nat) : Except Err (Frame V) :=
  match f.refName ref with
  | .error e => .error e
  | .ok name =>
    if count > vals.length then .error .outOfBounds else
    match f.colIndex name with
    | none => .error .h5Error                                     -- no such member in the frame
    | some c =>
      if effCount count vals.length = 0 then .ok f else           -- nothing selected
      if offset + effCount count vals.length > f.nrows then .error .h5Error else
      if !convertible ty (f.colType c) then .error .h5Error else
      .ok (f.setColumn conv c ty offset (effCount count vals.length) vals)

/-- `DataFrameHDF5::readColumn` into a buffer that holds `buf` before the call: the first `count` elements are
    replaced, the rest stays -/
def Frame.readColumnRaw (f : Frame V) (name : String) (ty : DType) (buf : List V) (count offset : Nat) : Except Err (List V) :=
  match f.colIndex name with
  | none => .error .h5Error
  | some c =>
    if count = 0 then .ok buf else
    if offset + count > f.nrows then .error .h5Error else
    if !convertible ty (f.colType c) then .error .h5Error else
    .ok ((List.range count).map (fun i => convert conv (f.colType c) ty (f.get (offset + i) c)) ++ buf.drop count)

/-- `DataFrame::readColumn<T>(name | col, vals, count, resize, offset)` -/
def Frame.readColumnN (f : Frame V) (ref : Ref) (ty : DType) (buf : List V) (count : Nat) (resize : Bool) (offset : Nat) :
    Except Err (List V) :=
  match f.refName ref with
  | .error e => .error e
  | .ok name =>
    if resize then
      f.readColumnRaw conv name ty (buf.take count ++ List.replicate (count - buf.length) (zero ty)) count offset
    else if count > buf.length then .error .outOfBounds
    else f.readColumnRaw conv name ty buf count offset

/-- `DataFrame::readColumn<T>(name | col, vals, resize, offset)` -/
def Frame.readColumn (f : Frame V) (ref : Ref) (ty : DType) (buf : List V) (resize : Bool) (offset : Nat) : Except Err (List V) :=
  match f.refName ref with
  | .error e => .error e
  | .ok name =>
    if resize then
      if offset > f.nrows then .error .outOfBounds else
      f.readColumnN zero conv (.name name) ty buf (f.nrows - offset) true offset
    else f.readColumnN zero conv (.name name) ty buf buf.length false offset
end

end Nix.DF

namespace Nix.DF
open Nix Nix.PV

/-! ### the session: one frame, write mode, calls -/

structure FSt (V : Type) where
  frame : Option (Frame V) := none
  writable : Bool := true

inductive Op (V : Type)
  | create (cols : List Col)
  | setRows (n : Nat)
  | writeRow (row : Nat) (vals : List (Variant V))
  | writeCells (row : Nat) (cells : List (Ref × Variant V))
  | writeColumn (ref : Ref) (ty : DType) (vals : List V) (offset count : Nat)
  | reopen (writable : Bool)

section
variable {V : Type} (zero : DType → V) (conv : DType → DType → V → V)

/-- a mutator: the checks nix makes come first, then the HDF5 write, which a read-only file refuses -/
def FSt.mutate (s : FSt V) (f : Frame V → Except Err (Frame V)) : FSt V × Option Err :=
  match s.frame with
  | none => (s, some .uninitializedEntity)
  | some fr =>
    match f fr with
    | .error e => (s, some e)
    | .ok fr' => if s.writable then ({ s with frame := some fr' }, none) else (s, some .h5Error)

def step (s : FSt V) : Op V → FSt V × Option Err
  | .create cols =>
    match Frame.create zero cols with
    | .error e => ({ frame := none, writable := true }, some e)        -- the new (writable) file stays, without a frame
    | .ok fr => ({ frame := some fr, writable := true }, none)
  | .setRows n => s.mutate fun fr => .ok (fr.setRows zero n)
  | .writeRow row vals => s.mutate fun fr => fr.writeRow conv row vals
  | .writeCells row cells => s.mutate fun fr => fr.writeCells conv row cells
  | .writeColumn ref ty vals offset count => s.mutate fun fr => fr.writeColumn conv ref ty vals offset count
  | .reopen w => ({ s with writable := w }, none)

def run (s : FSt V) (ops : List (Op V)) : FSt V := ops.foldl (fun s op => (step zero conv s op).1) s
end

end Nix.DF
