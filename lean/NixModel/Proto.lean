/-
  Lexical layer of the trace protocol (DESIGN.md Appendix B).
  Everything here is glue for the driver; no theorem depends on it.
  Strings are `x` + lower-case hex of their UTF-8 bytes, doubles are `d` + 16 hex digits of the
  IEEE bit pattern, integers decimal, optional values `~`, lists `[a,b,c]`.
-/
namespace Nix.Proto

def hexVal (c : Char) : Option Nat :=
  if '0' ≤ c ∧ c ≤ '9' then some (c.toNat - '0'.toNat)
  else if 'a' ≤ c ∧ c ≤ 'f' then some (c.toNat - 'a'.toNat + 10)
  else if 'A' ≤ c ∧ c ≤ 'F' then some (c.toNat - 'A'.toNat + 10)
  else none

def hexDigit (n : Nat) : Char :=
  if n < 10 then Char.ofNat ('0'.toNat + n) else Char.ofNat ('a'.toNat + (n - 10))

def parseHexNat (cs : List Char) : Option Nat :=
  if cs.isEmpty then none else
  cs.foldl (fun acc c => do let a ← acc; let v ← hexVal c; pure (a * 16 + v)) (some 0)

def hexBytes : List Char → Option (List UInt8)
  | [] => some []
  | [_] => none
  | a :: b :: rest => do
    let x ← hexVal a; let y ← hexVal b; let r ← hexBytes rest
    pure (UInt8.ofNat (x * 16 + y) :: r)

/-- `x68656c6c6f` ↦ `hello` (bytes are kept as a Latin-1-ish char list when not valid UTF-8:
    the model only ever compares, concatenates and pattern-matches strings). -/
def parseStr (tok : String) : Option String :=
  match tok.toList with
  | 'x' :: rest => do
    let bs ← hexBytes rest
    match String.fromUTF8? (ByteArray.mk bs.toArray) with
    | some s => pure s
    | none => pure (String.ofList (bs.map fun b => Char.ofNat b.toNat))
  | _ => none

def fmtStr (s : String) : String :=
  String.ofList ('x' :: (s.toUTF8.toList.flatMap fun b => [hexDigit (b.toNat / 16), hexDigit (b.toNat % 16)]))

def parseNat (tok : String) : Option Nat := tok.toNat?
def parseInt (tok : String) : Option Int := tok.toInt?

def parseBool (tok : String) : Option Bool :=
  if tok == "1" then some true else if tok == "0" then some false else none
def fmtBool (b : Bool) : String := if b then "1" else "0"

/-- `d3ff0000000000000` ↦ 1.0 -/
def parseF64 (tok : String) : Option Float :=
  match tok.toList with
  | 'd' :: rest => if rest.length == 16 then (parseHexNat rest).map (fun n => Float.ofBits (UInt64.ofNat n)) else none
  | _ => none

def fmtHex64 (n : Nat) : String :=
  String.ofList ((List.range 16).reverse.map fun i => hexDigit ((n / 16 ^ i) % 16))

def fmtF64 (f : Float) : String := "d" ++ fmtHex64 f.toBits.toNat

/-- split the inside of `[a,b,c]` (no nesting) -/
def parseList (tok : String) : Option (List String) :=
  match tok.toList with
  | '[' :: rest =>
    match rest.reverse with
    | ']' :: inner =>
      let s := String.ofList inner.reverse
      if s.isEmpty then some [] else some (s.splitOn ",")
    | _ => none
  | _ => none

def parseListOf {α} (f : String → Option α) (tok : String) : Option (List α) := do
  let l ← parseList tok
  l.mapM f

def fmtList (l : List String) : String := "[" ++ ",".intercalate l ++ "]"

def parseOpt {α} (f : String → Option α) (tok : String) : Option (Option α) :=
  if tok == "~" then some none else (f tok).map some

def fmtOpt {α} (f : α → String) : Option α → String
  | none => "~"
  | some a => f a

/-- tokens of a line: op :: args, and the recorded implementation result (after `=>`) -/
def splitLine (line : String) : List String × List String :=
  let toks := (line.trimAscii.toString.splitOn " ").filter (· ≠ "")
  let rec go (acc : List String) : List String → List String × List String
    | [] => (acc.reverse, [])
    | t :: ts => if t == "=>" then (acc.reverse, ts) else go (t :: acc) ts
  go [] toks

end Nix.Proto
