import NixModel.Err
/-
  Idealised n-dimensional array store: what nix asks of an HDF5 dataset through
  DataArray::getData / setData (hyperslab I/O), dataExtent(shape) and appendData, and DataView windows.
  HDF5 itself (chunking, filters, H5Dset_extent zero fill, hyperslab selection) is modelled, not verified;
  every correspondence run exercises the model against the real library.
-/
namespace Nix

abbrev Idx := List Nat

/-- idx lies in the box [off, off+cnt) — all three of the same rank -/
def inBox : (off cnt idx : Idx) → Bool
  | [], [], [] => true
  | o :: os, c :: cs, i :: is => decide (o ≤ i) && decide (i < o + c) && inBox os cs is
  | _, _, _ => false

def zeros (n : Nat) : Idx := List.replicate n 0

/-- idx lies inside an array of the given shape -/
def inShape : (shape idx : Idx) → Bool
  | [], [] => true
  | n :: ns, i :: is => decide (i < n) && inShape ns is
  | _, _ => false

def prod : List Nat → Nat
  | [] => 1
  | c :: cs => c * prod cs

/-- the box [off, off+cnt) lies inside an array of the given shape (all of the same rank) -/
def boxWithin : (shape off cnt : Idx) → Bool
  | [], [], [] => true
  | n :: ns, o :: os, c :: cs => decide (o + c ≤ n) && boxWithin ns os cs
  | _, _, _ => false

/-- all index tuples of a block of the given counts, row-major -/
def tuples : List Nat → List Idx
  | [] => [[]]
  | c :: cs => (List.range c).flatMap fun i => (tuples cs).map fun t => i :: t

/-- row-major linear position of a tuple inside a block of the given counts -/
def linear : (cnt t : Idx) → Nat
  | _ :: cs, i :: is => i * prod cs + linear cs is
  | _, _ => 0

def addIdx (a b : Idx) : Idx := List.zipWith (· + ·) a b
def subIdx (a b : Idx) : Idx := List.zipWith (· - ·) a b

structure NDArray (V : Type) where
  shape : List Nat
  zero : V
  get : Idx → V           -- inside `shape`: the stored element; normalised to `zero` outside

variable {V : Type}

def NDArray.empty (shape : List Nat) (zero : V) : NDArray V := { shape := shape, zero := zero, get := fun _ => zero }

/-- does the hyperslab (off, cnt) lie inside the current extent? -/
def NDArray.boxOk (a : NDArray V) (off cnt : Idx) : Bool := boxWithin a.shape off cnt

/-- `offsetCount2DataSpaces`: the hyperslab actually addressed by (count, offset) —
    empty offset + count: the whole dataset (element counts must agree); offset + empty count: one element -/
def NDArray.resolve (a : NDArray V) (cnt off : Idx) : Except Err (Idx × Idx) :=
  if off.isEmpty && !cnt.isEmpty then
    if prod cnt == prod a.shape then .ok (zeros a.shape.length, a.shape) else .error .h5Error
  else
    let cnt' := if cnt.isEmpty then List.replicate off.length 1 else cnt
    -- `DataSpace::hyperslab` (fix de0d7a0): one entry per dimension of the data is needed from both; `H5Sselect_hyperslab` reads
    -- exactly that many — surplus entries only count for the memory space, whose element count must then agree with the selection
    let r := a.shape.length
    if cnt'.length < r || off.length < r then .error .invalidRank else
    let c := cnt'.take r
    let o := off.take r
    -- a count with a zero entry selects nothing, wherever the offset points (`H5Sselect_hyperslab` → select none)
    if c.contains 0 then .ok (o, c) else
    if a.boxOk o c && prod cnt' == prod c then .ok (o, c) else .error .h5Error

/-- hyperslab read: the elements of the box in row-major order -/
def NDArray.read (a : NDArray V) (cnt off : Idx) : Except Err (List V) :=
  match a.resolve cnt off with
  | .error e => .error e
  | .ok (o, c) => .ok ((tuples c).map fun t => a.get (addIdx o t))

/-- hyperslab write of `vals` (row-major over the box) -/
def NDArray.write (a : NDArray V) (cnt off : Idx) (vals : List V) : Except Err (NDArray V) :=
  match a.resolve cnt off with
  | .error e => .error e
  | .ok (o, c) =>
    let g : Idx → V := fun idx =>
      if inBox o c idx then (match vals[linear c (subIdx idx o)]? with | some v => v | none => a.zero) else a.get idx
    .ok { a with get := g }

/-- `dataExtent(shape)` = `H5Dset_extent`: elements inside both extents keep their value,
    newly exposed elements read as zero, the rank cannot change -/
def NDArray.setExtent (a : NDArray V) (shape : List Nat) : Except Err (NDArray V) :=
  if shape.length != a.shape.length then .error .invalidRank else
  let g : Idx → V := fun idx => if inShape shape idx && inShape a.shape idx then a.get idx else a.zero
  .ok { a with shape := shape, get := g }

/-- `DataArray::appendData(dtype, data, count, axis)` -/
def NDArray.append (a : NDArray V) (cnt : Idx) (axis : Nat) (vals : List V) : Except Err (NDArray V) :=
  if axis ≥ a.shape.length then .error .invalidRank else
  if a.shape.length != cnt.length then .error .incompatibleDimensions else
  if (List.range cnt.length).any fun i => i != axis && a.shape[i]? != cnt[i]? then .error .incompatibleDimensions else
  let off := (List.range a.shape.length).map fun i => if i == axis then (a.shape[i]?).getD 0 else 0
  let ext := (List.range a.shape.length).map fun i => (a.shape[i]?).getD 0 + (if i == axis then (cnt[i]?).getD 0 else 0)
  match a.setExtent ext with
  | .error e => .error e
  | .ok a' => a'.write cnt off vals

/-- element-wise maximum of two shapes of the same rank -/
def maxIdx (a b : Idx) : Idx := List.zipWith max a b

/-- `DataSet::setData(const T &value)` — the whole-array write that also SETS THE EXTENT (after fix 17a5091): grow to cover the old
    and the new shape, write, and only then cut back to the new shape; a write that HDF5 refuses (`accepts = false`: the element
    classes do not convert, e.g. numbers into a string array) restores the old extent.  Returns the array as it is afterwards
    together with the answer, so that "refused and left a trace" is expressible. -/
def NDArray.setWhole (a : NDArray V) (shape : Idx) (vals : List V) (accepts : Bool) : NDArray V × Except Err Unit :=
  if shape.length != a.shape.length then (a, .error .invalidRank) else      -- dataExtent(shape) refuses another rank
  match a.setExtent (maxIdx shape a.shape) with
  | .error e => (a, .error e)
  | .ok b =>
    if !accepts then
      (match b.setExtent a.shape with
       | .ok c => (c, .error .h5Error)
       | .error e => (b, .error e))
    else
      match b.write shape (zeros shape.length) vals with
      | .error e => (match b.setExtent a.shape with | .ok c => (c, .error e) | .error _ => (b, .error e))
      | .ok c => (match c.setExtent shape with | .ok d => (d, .ok ()) | .error e => (c, .error e))

/-- the same entry point as it was on the pinned tree: the extent first, the write afterwards (D40) -/
def NDArray.setWholeNaive (a : NDArray V) (shape : Idx) (vals : List V) (accepts : Bool) : NDArray V × Except Err Unit :=
  match a.setExtent shape with
  | .error e => (a, .error e)
  | .ok b =>
    if !accepts then (b, .error .h5Error) else
    match b.write shape (zeros shape.length) vals with
    | .error e => (b, .error e)
    | .ok c => (c, .ok ())

/-- `DataArray::appendData(dtype, data, count, axis)` with the array afterwards as part of the result (after fix 80dff08: a refused
    write takes the enlargement back).  `accepts`: HDF5 converts the element class of the buffer into that of the array. -/
def NDArray.appendChecked (a : NDArray V) (cnt : Idx) (axis : Nat) (vals : List V) (accepts : Bool) : NDArray V × Except Err Unit :=
  if axis ≥ a.shape.length then (a, .error .invalidRank) else
  if a.shape.length != cnt.length then (a, .error .incompatibleDimensions) else
  if (List.range cnt.length).any fun i => i != axis && a.shape[i]? != cnt[i]? then (a, .error .incompatibleDimensions) else
  let delta := (List.range a.shape.length).map fun i => if i == axis then (cnt[i]?).getD 0 else 0
  let off := (List.range a.shape.length).map fun i => if i == axis then (a.shape[i]?).getD 0 else 0
  match a.setExtent (addIdx a.shape delta) with
  | .error e => (a, .error e)
  | .ok b =>
    match (if accepts then b.write cnt off vals else .error .h5Error) with
    | .ok c => (c, .ok ())
    | .error e => (match b.setExtent a.shape with | .ok c => (c, .error e) | .error _ => (b, .error e))

/-! ### typed transfers of one value / of a vector the library sizes (the templates of include/nix/DataSet.hpp over Hydra)

The count the library works with is derived: a single value is ONE element — `data_traits<T>::resize` accepts an empty count or a
count of one element, an empty count then stands for ones (one per dimension of the data set), never for "all of it" (fix fce2435);
`getData(value, offset)` / `setData(value, offset)` use one per offset entry (one per dimension when the offset is empty too); a
`std::vector` is resized to the last count entry above 1 (`InvalidRank` when there are two, `std::out_of_range` for an empty count). -/

def typedCount (how : String) (rank : Nat) (cnt off : Idx) : Except Err Idx :=
  if how == "rd3" then
    (if !(cnt.isEmpty || prod cnt == 1) then .error .invalidRank else .ok (if cnt.isEmpty then List.replicate rank 1 else cnt))
  else if how == "vec" then
    (if cnt.isEmpty then .error .stdOutOfRange else if (cnt.filter (· > 1)).length > 1 then .error .invalidRank else .ok cnt)
  else .ok (if off.isEmpty then List.replicate rank 1 else List.replicate off.length 1)

/-- the last count entry above 1 -/
def lastBig : List Nat → Option Nat
  | [] => none
  | x :: xs => match lastBig xs with
    | some y => some y
    | none => if x > 1 then some x else none

/-- the size `data_traits<std::vector<T>>::resize` gives the vector: the last entry above 1, the first entry when there is none -/
def vecSize (cnt : Idx) : Nat := (lastBig cnt).getD (cnt.headD 0)

/-! ### DataView -/

structure View where
  offset : Idx
  count : Idx

/-- `NDSize > NDSize` = some component larger (IncompatibleDimensions when the ranks differ) -/
def ndGt (a b : Idx) : Except Err Bool :=
  if a.length != b.length then .error .incompatibleDimensions else
  .ok ((List.zip a b).any fun p => p.1 > p.2)

/-- the `DataView(array, count, offset)` constructor -/
def View.create (shape : List Nat) (cnt off : Idx) : Except Err View :=
  if off.length != shape.length then .error .incompatibleDimensions
  else if cnt.length != shape.length then .error .incompatibleDimensions
  else if (List.zip (addIdx off cnt) shape).any fun p => p.1 > p.2 then .error .outOfBounds
  else .ok { offset := off, count := cnt }

/-- `DataView::transform_coordinates(count, offset)`: the position in the underlying array -/
def View.transform (v : View) (cnt off : Idx) : Except Err Idx :=
  if off.isEmpty then
    match ndGt cnt v.count with
    | .error e => .error e
    | .ok true => .error .outOfBounds
    | .ok false => .ok v.offset
  else
    if cnt.length != off.length then .error .stdOutOfRange else     -- NDSize::operator+=
    match ndGt (addIdx cnt off) v.count with
    | .error e => .error e
    | .ok true => .error .outOfBounds
    | .ok false => .ok (addIdx v.offset off)                          -- ranks agree here

/-- `DataView::ioRead` -/
def View.read (v : View) (a : NDArray V) (cnt off : Idx) : Except Err (List V) :=
  let real := if cnt.isEmpty then v.count else cnt
  match v.transform real off with
  | .error e => .error e
  | .ok base => a.read real base

/-- `DataView::ioWrite` -/
def View.write (v : View) (a : NDArray V) (cnt off : Idx) (vals : List V) : Except Err (NDArray V) :=
  let real := if cnt.isEmpty then v.count else cnt
  match v.transform real off with
  | .error e => .error e
  | .ok base => a.write real base vals

end Nix
