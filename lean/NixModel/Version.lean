import NixModel.Gen.Tables
/-
  Model of `nix::FormatVersion` (include/nix/Version.hpp) and of the header gate
  `FileHDF5::checkHeader` (backend/hdf5/FileHDF5.cpp).
  Components are `Int`: only comparisons are performed on them, so the width of C++ `int` is
  irrelevant.
-/
namespace Nix

structure FormatVersion where
  x : Int
  y : Int
  z : Int
deriving DecidableEq, Repr

namespace FormatVersion

def ofTriple (t : Int × Int × Int) : FormatVersion := ⟨t.1, t.2.1, t.2.2⟩

/-- `FormatVersion(const std::vector<int>&)`: throws unless exactly three entries -/
def ofList? : List Int → Option FormatVersion
  | [a, b, c] => some ⟨a, b, c⟩
  | _ => none

/-- `operator[]` for the three valid indices -/
def get (v : FormatVersion) : Fin 3 → Int
  | 0 => v.x
  | 1 => v.y
  | 2 => v.z

/-- `operator==` -/
def eq (a b : FormatVersion) : Bool := b.x == a.x && b.y == a.y && b.z == a.z

/-- `operator<`: the loop over i = 0,1,2 as written -/
def lt (a b : FormatVersion) : Bool :=
  let step (i : Fin 3) (k : Unit → Bool) : Bool :=
    if a.get i < b.get i then true else if b.get i < a.get i then false else k ()
  step 0 fun _ => step 1 fun _ => step 2 fun _ => false

def ne (a b : FormatVersion) : Bool := !(eq a b)
def gt (a b : FormatVersion) : Bool := lt b a
def le (a b : FormatVersion) : Bool := !(gt a b)
def ge (a b : FormatVersion) : Bool := !(lt a b)

/-- `canWrite`: the library (`lib`) can write the file iff exact match -/
def canWrite (lib file : FormatVersion) : Bool := eq lib file
/-- `canRead` -/
def canRead (lib file : FormatVersion) : Bool := lib.x == file.x && decide (lib.y ≥ file.y)

end FormatVersion

def libVersion : FormatVersion := .ofTriple Gen.libVersion
def idGateVersion : FormatVersion := .ofTriple Gen.idGateVersion

inductive FileMode | readOnly | readWrite | overwrite
deriving DecidableEq, Repr

/-- what `checkHeader` looks at in the root group of an existing file -/
structure Header where
  format  : Option String       -- `none`: attribute missing
  version : Option (List Int)   -- `none`: attribute missing
  hasId   : Bool
deriving Repr, DecidableEq

inductive GateResult
  | accepted
  | invalidFile        -- nix::InvalidFile
  | badVersionVector   -- std::runtime_error from the FormatVersion constructor (not bypassed by Force)
deriving DecidableEq, Repr

/-- `FileHDF5::checkHeader(mode, throw_error := !force)` for an existing file, statement by statement. -/
def checkHeader (lib : FormatVersion) (h : Header) (mode : FileMode) (force : Bool) : GateResult :=
  -- format attribute
  let check₁ : Bool := match h.format with
    | some s => s == Gen.fileFormat
    | none => false
  -- version attribute (only examined when the format was fine)
  let vres : Option (Bool × FormatVersion) :=   -- none = constructor threw
    if check₁ then
      match h.version with
      | some vv =>
        match FormatVersion.ofList? vv with
        | none => none
        | some fv =>
          let c := if mode == .readWrite then lib.canWrite fv else lib.canRead fv
          some (c, fv)
      | none => some (false, lib)
    else some (false, lib)
  match vres with
  | none => .badVersionVector
  | some (check₂, fv) =>
    let check₃ := if check₂ && fv.ge idGateVersion then h.hasId else check₂
    if !check₃ && !force then .invalidFile else .accepted

/-- The header a file written by this library carries, with its version rewritten to `v`. -/
def headerWithVersion (v : FormatVersion) : Header :=
  { format := some Gen.fileFormat, version := some [v.x, v.y, v.z], hasId := true }

/-- open an *existing* file: Overwrite truncates and never consults the header -/
def openExisting (lib : FormatVersion) (h : Header) (mode : FileMode) (force : Bool) : GateResult :=
  match mode with
  | .overwrite => .accepted
  | m => checkHeader lib h m force

end Nix
