import NixModel.Validate
import NixModel.Gen.ValidRules
/-
  The rule tables of src/valid/validate.cpp as the translator hands them over (NixModel/Gen/ValidRules.lean, regenerated from the
  source on every run), and their meaning.

  `evalRules pass id table`: the Result of `validator({ table })` for an entity — `pass getter check` says how the entity fares on
  one (getter, check) pair, `msgCls` maps a message text to the message class of the model.  The STRUCTURE (nesting, severity,
  order, message of every rule) is the source's; what is written by hand is the meaning of the atoms: one line per
  (getter, check expression) pair and per message text.  An atom the tables mention but this file does not know evaluates to `none`:
  then the theorems of Props/C19Source.lean no longer check.
-/
namespace Nix.Validate
open Nix Nix.Gen.Valid

/-- message text ↦ message class -/
def msgCls (m : String) : Option Cls :=
  if m == "id is not set!" then some .id
  else if m == "date is not set!" then some .date
  else if m == "no name set!" || m == "name is not set!" then some .name
  else if m == "no type set!" then some .type
  else if m == "data type is not set!" then some .dtype
  else if m == "data dimensionality does not match number of defined dimensions!" then some .ndims
  else if m == "in some of the Range dimensions the number of ticks differs from the number of data entries along the corresponding data dimension!" then some .ticksN
  else if m == "in some of the Set dimensions the number of labels differs from the number of data entries along the corresponding data dimension!" then some .labelsN
  else if m == "in some of the DataFrame dimensions the number of rows in the DataFrame does not match the number of data entries along the corresponding data dimension!" then some .rowsN
  else if m == "Unit is not SI or composite of SI units." then some .unitSI
  else if m == "polynomial coefficients for calibration are set, but expansion origin is missing!" then some .noOrigin
  else if m == "expansion origin for calibration is set, but polynomial coefficients are missing!" then some .noPoly
  else if m == "position is not set!" then some .pos
  else if m == "positions are not set!" then some .positions
  else if m == "Unit is invalid: not an atomic SI. Note: So far composite units are not supported!" then some .tagUnit
  else if m == "Some of the units in tag are invalid: not an atomic SI. Note: So far composite SI units are not supported!" then some .tagUnit
  else if m == "Some of the referenced DataArrays' dimensions have units that are not convertible to the units set in tag. Note: So far composite SI units are not supported!" then some .refUnits
  else if m == "values are set, but unit is missing!" then some .propNoUnit
  else if m == "index is not set to valid value (size_t > 0)!" then some .index
  else if m == "ticks are not set!" then some .noTicks
  else if m == "dimension type is not correct!" then some .dimType
  else if m == "Unit is set but not an atomic SI. Note: So far composite units are not supported!" then some .dimUnit
  else if m == "Ticks are not sorted!" then some .unsorted
  else if m == "samplingInterval is not set to valid value (> 0)!" then some .interval
  else if m == "offset is set, but no valid unit set!" then some .offsetUnit
  else if m == "data is not set!" then some .featData
  else if m == "linkType is not set!" then some .linkType
  else none

/-- a rule table with its atoms resolved: severity (0 must, 1 should, 2 could), the number of the (getter, check) atom, the message
    class -/
inductive SRule
  | node (kind : Nat) (atom : Nat) (cls : Option Cls) (subs : List SRule)

mutual
/-- resolve one rule of a source table: the atom number of its (getter, check) pair, the class of its message -/
def compileRule (atomIdx : String → String → Option Nat) : Rule → Option SRule
  | .node kind getter check msg subs =>
    match atomIdx getter check, compileRules atomIdx subs with
    | some i, some ss =>
      if kind == "could" then some (.node 2 i none ss)
      else match msgCls msg with
        | none => none
        | some c => if kind == "must" then some (.node 0 i (some c) ss) else if kind == "should" then some (.node 1 i (some c) ss) else none
    | _, _ => none
def compileRules (atomIdx : String → String → Option Nat) : List Rule → Option (List SRule)
  | [] => some []
  | r :: rs =>
    match compileRule atomIdx r, compileRules atomIdx rs with
    | some x, some xs => some (x :: xs)
    | _, _ => none
end

mutual
/-- `must / should / could`: a failed rule reports (error / warning / nothing) and discards its sub-rules -/
def evalS (atoms : Nat → Bool) (id : String) : SRule → Result
  | .node kind atom cls subs =>
    if !atoms atom then
      (match kind, cls with
       | 0, some c => ⟨[⟨id, c⟩], []⟩
       | 1, some c => ⟨[], [⟨id, c⟩]⟩
       | _, _ => Result.empty)
    else evalSs atoms id subs
/-- `validator({ … })`: the results of the rules, concatenated in order -/
def evalSs (atoms : Nat → Bool) (id : String) : List SRule → Result
  | [] => Result.empty
  | r :: rs => (evalS atoms id r).concat (evalSs atoms id rs)
end

/-- the Result of `validator({ table })` for an entity whose atoms evaluate to `atoms` — `none` when the table mentions a
    (getter, check) pair or a message text this file does not know -/
def evalTable (atomIdx : String → String → Option Nat) (atoms : Nat → Bool) (id : String) (table : List Rule) : Option Result :=
  (compileRules atomIdx table).map (evalSs atoms id)

-- ---------------------------------------------------------------------------------------------------
-- the atoms: which (getter, check expression) pairs a table may mention, and how an entity description fares on each
-- ---------------------------------------------------------------------------------------------------

variable {α : Type} [Scalar α]

def entityIdx (g c : String) : Option Nat :=
  if g == "Entity::id" && c == "notEmpty()" then some 0
  else if g == "Entity::createdAt" && c == "notFalse()" then some 1 else none
def entityAtoms (id : String) (created : Got Int) : Nat → Bool
  | 0 => notEmptyS id
  | _ => created.passes (· != 0)

def namedIdx (g c : String) : Option Nat :=
  if g == "NamedEntity::name" && c == "notEmpty()" then some 0
  else if g == "NamedEntity::type" && c == "notEmpty()" then some 1 else none
def namedAtoms (e : Named) : Nat → Bool
  | 0 => notEmptyS e.name
  | _ => e.type.passes notEmptyS

def arrayIdx (g c : String) : Option Nat :=
  if g == "DataArray::dataType" && c == "notEqual<DataType>(DataType::Nothing)" then some 0
  else if g == "DataArray::dimensionCount" && c == "isEqual<size_t>(data_array.dataExtent().size())" then some 1
  else if g == "DataArray::dimensions" && c == "notEmpty()" then some 2
  else if g == "DataArray::dimensions" && c == "dimTicksMatchData(data_array)" then some 3
  else if g == "DataArray::dimensions" && c == "dimLabelsMatchData(data_array)" then some 4
  else if g == "DataArray::dimensions" && c == "dimDataFrameTicksMatchData(data_array)" then some 5
  else if g == "DataArray::unit" && c == "notFalse()" then some 6
  else if g == "DataArray::unit" && c == "isValidUnit()" then some 7
  else if g == "DataArray::polynomCoefficients" && c == "notEmpty()" then some 8
  else if g == "DataArray::expansionOrigin" && c == "notFalse()" then some 9
  else none
def arrayAtoms (a : ArrayDesc α) : Nat → Bool
  | 0 => a.dtypeSet.passes fun b => b
  | 1 => a.dimCount.passes (a.shape.length == ·)
  | 2 => !a.dims.isEmpty
  | 3 => dimTicksMatchData a.shape a.dims
  | 4 => dimLabelsMatchData a.shape a.dims
  | 5 => dimDataFrameTicksMatchData a.shape a.dims
  | 6 => a.unit.passes Option.isSome
  | 7 => a.unit.passes (optUnit isValidUnit)
  | 8 => a.polyN.passes (· != 0)
  | _ => a.originSet.passes fun b => b

/-- Tag and MultiTag: the same atoms up to the class name and the name of the local variable in `tagUnitsMatchRefsUnits(…)` -/
def tagIdx (g c : String) : Option Nat :=
  if g == "Tag::position" && c == "notEmpty()" then some 0
  else if g == "Tag::units" && c == "notEmpty()" then some 1
  else if g == "Tag::units" && c == "isValidUnit()" then some 2
  else if g == "Tag::references" && c == "tagUnitsMatchRefsUnits(tag.units())" then some 3
  else none
def multiTagIdx (g c : String) : Option Nat :=
  if g == "MultiTag::positions" && c == "notFalse()" then some 0
  else if g == "MultiTag::units" && c == "notEmpty()" then some 1
  else if g == "MultiTag::units" && c == "isValidUnit()" then some 2
  else if g == "MultiTag::references" && c == "tagUnitsMatchRefsUnits(multi_tag.units())" then some 3
  else none
def tagAtoms (t : TagDesc) : Nat → Bool
  | 0 => t.posSet.passes fun b => b
  | 1 => !t.units.isEmpty
  | 2 => t.units.all isValidUnit
  | _ => t.refs.passes (tagUnitsMatchRefsUnits t.units)

def propIdx (g c : String) : Option Nat :=
  if g == "Property::name" && c == "notEmpty()" then some 0
  else if g == "Property::valueCount" && c == "notFalse()" then some 1
  else if g == "Property::unit" && c == "notFalse()" then some 2
  else if g == "Property::unit" && c == "isValidUnit()" then some 3
  else none
def propAtoms (p : PropDesc) : Nat → Bool
  | 0 => notEmptyS p.name
  | 1 => p.valueCount.passes (· != 0)
  | 2 => p.unit.passes Option.isSome
  | _ => p.unit.passes (optUnit isValidUnit)

def rangeIdx (g c : String) : Option Nat :=
  if g == "RangeDimension::index" && c == "notSmaller(1)" then some 0
  else if g == "RangeDimension::ticks" && c == "notEmpty()" then some 1
  else if g == "RangeDimension::dimensionType" && c == "isEqual<DimensionType>(DimensionType::Range)" then some 2
  else if g == "RangeDimension::unit" && c == "notFalse()" then some 3
  else if g == "RangeDimension::unit" && c == "isAtomicUnit()" then some 4
  else if g == "RangeDimension::ticks" && c == "isSorted()" then some 5
  else none
def rangeAtoms (index : Nat) (ticks : List α) (unit : Got (Option String)) : Nat → Bool
  | 0 => decide (index ≥ 1)
  | 1 => !ticks.isEmpty
  | 2 => true
  | 3 => unit.passes Option.isSome
  | 4 => unit.passes (optUnit isAtomicUnit)
  | _ => isSorted ticks

def sampledIdx (g c : String) : Option Nat :=
  if g == "SampledDimension::index" && c == "notSmaller(1)" then some 0
  else if g == "SampledDimension::samplingInterval" && c == "isGreater(0)" then some 1
  else if g == "SampledDimension::dimensionType" && c == "isEqual<DimensionType>(DimensionType::Sample)" then some 2
  else if g == "SampledDimension::offset" && c == "notFalse()" then some 3
  else if g == "SampledDimension::unit" && c == "isAtomicUnit()" then some 4
  else if g == "SampledDimension::unit" && c == "notFalse()" then some 5
  else none
def sampledAtoms (index : Nat) (interval : Got α) (offsetSet : Got Bool) (unit : Got (Option String)) : Nat → Bool
  | 0 => decide (index ≥ 1)
  | 1 => interval.passes fun si => decide (Scalar.zero < si)
  | 2 => true
  | 3 => offsetSet.passes fun b => b
  | 4 => unit.passes (optUnit isAtomicUnit)
  | _ => unit.passes Option.isSome

def setIdx (g c : String) : Option Nat :=
  if g == "SetDimension::index" && c == "notSmaller(1)" then some 0
  else if g == "SetDimension::dimensionType" && c == "isEqual<DimensionType>(DimensionType::Set)" then some 1
  else none
def setAtoms (index : Nat) : Nat → Bool
  | 0 => decide (index ≥ 1)
  | _ => true

def featureIdx (g c : String) : Option Nat :=
  if g == "Feature::data" && c == "notFalse()" then some 0
  else if g == "Feature::linkType" && c == "notSmaller(0)" then some 1
  else none
def featureAtoms (f : FeatureDesc) : Nat → Bool
  | 0 => f.dataSet.passes fun b => b
  | _ => f.linkType.passes fun l => decide (l ≥ 0)

end Nix.Validate
