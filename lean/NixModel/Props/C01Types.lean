import NixModel.Gen.Types
/-
  C01 / C02 / C15 — the element type an array (a data-frame column, a property) is created with is the element type it reports
  after the file has been written and read again, and a transfer loses nothing to its memory type.

  The two directions of the element-type mapping of the HDF5 backend (`data_type_to_h5_filetype` / `_memtype`,
  `data_type_from_h5`) are taken from backend/hdf5/h5x/H5DataType.cpp on every run (NixModel/Gen/Types.lean).  What is written by
  hand is what HDF5 says about its predefined types (class, size in bytes, sign) and the wrapper of `data_type_from_h5` (an
  enumeration equal to the boolean file type is Bool, an opaque type is Opaque).  The theorems are finite statements over the
  generated tables, decided by the kernel.
-/
namespace Nix.Types
open Nix.Gen.Types

/-- class, size in bytes (0 = variable), sign of the HDF5 types the tables mention -/
def h5props (t : String) : Option (String × Nat × String) :=
  if t == "H5T_STD_I8LE" || t == "H5T_NATIVE_INT8" then some ("H5T_INTEGER", 1, "signed")
  else if t == "H5T_STD_I16LE" || t == "H5T_NATIVE_INT16" then some ("H5T_INTEGER", 2, "signed")
  else if t == "H5T_STD_I32LE" || t == "H5T_NATIVE_INT32" then some ("H5T_INTEGER", 4, "signed")
  else if t == "H5T_STD_I64LE" || t == "H5T_NATIVE_INT64" then some ("H5T_INTEGER", 8, "signed")
  else if t == "H5T_STD_U8LE" || t == "H5T_NATIVE_UINT8" then some ("H5T_INTEGER", 1, "unsigned")
  else if t == "H5T_STD_U16LE" || t == "H5T_NATIVE_UINT16" then some ("H5T_INTEGER", 2, "unsigned")
  else if t == "H5T_STD_U32LE" || t == "H5T_NATIVE_UINT32" then some ("H5T_INTEGER", 4, "unsigned")
  else if t == "H5T_STD_U64LE" || t == "H5T_NATIVE_UINT64" then some ("H5T_INTEGER", 8, "unsigned")
  else if t == "H5T_IEEE_F32LE" || t == "H5T_NATIVE_FLOAT" then some ("H5T_FLOAT", 4, "")
  else if t == "H5T_IEEE_F64LE" || t == "H5T_NATIVE_DOUBLE" then some ("H5T_FLOAT", 8, "")
  else if t == "h5x::DataType::makeStrType()" then some ("H5T_STRING", 0, "")
  else if t == "boolfiletype" || t == "boolmemtype" then some ("H5T_ENUM", 1, "")      -- an enumeration over a one-byte integer
  else if t == "H5T_NATIVE_OPAQUE" then some ("H5T_OPAQUE", 1, "")
  else none

/-- `data_type_from_h5(class, size, sign)`: the generated decision list, first match wins; nothing matches ⇒ Nothing -/
def fromClass (cls : String) (size : Nat) (sign : String) : String :=
  match fromH5.find? fun r => r.1 == cls && (r.2.1 == 0 || r.2.1 == size) && (r.2.2.1 == "" || r.2.2.1 == sign) with
  | some r => r.2.2.2
  | none => "Nothing"

/-- `data_type_from_h5(const h5x::DataType &)`: the wrapper — opaque is Opaque, everything else goes by class, size and sign
    (for an enumeration the wrapper first asks whether it is the boolean file type; the boolean file type is what `fileType` hands
    out for Bool) -/
def fromFile (t : String) : String :=
  match h5props t with
  | some ("H5T_OPAQUE", _, _) => "Opaque"
  | some (c, n, s) => fromClass c n s
  | none => "Nothing"

/-- **stored_type_reads_back** — every element type that `data_type_to_h5_filetype` accepts comes back from
    `data_type_from_h5` of the file type it was stored with -/
theorem stored_type_reads_back : ∀ p ∈ fileType, p.2 ≠ "" → fromFile p.2 = p.1 := by decide

/-- the element types the library stores: everything but Char and Nothing -/
theorem storable_types : (fileType.filter (·.2 != "")).map (·.1) =
    ["Bool", "Int8", "Int16", "Int32", "Int64", "UInt8", "UInt16", "UInt32", "UInt64", "Float", "Double", "String", "Opaque"] := by decide

/-- **memory_type_matches_file_type** — the memory type of a transfer has the class, the size and the sign of the file type: no
    value is narrowed or re-signed on its way (both tables refuse the same element types) -/
theorem memory_type_matches_file_type : ∀ p ∈ fileType.zip memType, p.1.1 = p.2.1 ∧ (p.1.2 = "" ↔ p.2.2 = "") ∧ h5props p.1.2 = h5props p.2.2 := by
  decide

/-- distinct element types get distinct file types: the mapping back cannot confuse two of them -/
theorem file_types_distinct : ((fileType.filter (·.2 != "")).map fun p => h5props p.2).Nodup := by decide

end Nix.Types
