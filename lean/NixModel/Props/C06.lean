import NixModel.Props.C05
/-
  C06 — MultiTag retrieval returns exactly region i for position index i.  Property theorems.
-/
open Std
set_option linter.unusedSectionVars false
set_option linter.unusedSimpArgs false
namespace Nix.C06
open Nix Scalar Nix.C07 Nix.C05

variable {α : Type} [Scalar α] [IsLinearOrder α] [LawfulOrderLT α] [LawfulScalarEq α] [LawfulRounding α]

/-- structure of a successful `getOffsetAndCount(MultiTag …)`: the j-th result is the assembly row of the
    j-th requested index, which is a function of that index alone -/
theorem mtagOffsetCount_rows (t : MTagIn α) (idx : List Nat) (hne : idx ≠ []) (rs : List (List Nat × List Nat))
    (h : mtagOffsetCount t idx = .ok rs) :
    ∃ maxExt, t.prepare (idx.foldl max 0) = .ok maxExt ∧ rs.length = idx.length ∧
      ∀ j (hj : j < idx.length) (hr : j < rs.length), t.row maxExt idx[j] = .ok rs[j] := by
  unfold mtagOffsetCount at h
  have hemp : idx.isEmpty = false := by cases idx <;> simp_all
  simp only [hemp, Bool.false_eq_true, if_false] at h
  cases hp : t.prepare (idx.foldl max 0) with
  | error x => rw [hp] at h; cases h
  | ok maxExt =>
    rw [hp] at h
    obtain ⟨hl, hall⟩ := mapExcept_ok _ _ _ h
    exact ⟨maxExt, rfl, hl, hall⟩

theorem prepare_ok (t : MTagIn α) (m : Nat) (a : List (α × α)) (h : t.prepare m = .ok a) :
    t.maxExt0 = .ok a ∧ t.indexBad m = false ∧ t.rankBad = false ∧ ∃ u, t.unitCheck = .ok u := by
  unfold MTagIn.prepare at h
  cases hme : t.maxExt0 with
  | error x => rw [hme] at h; cases h
  | ok me =>
    rw [hme] at h
    simp only at h
    cases hb : t.indexBad m with
    | true => simp [hb] at h
    | false =>
      cases hr : t.rankBad with
      | true => simp [hb, hr] at h
      | false =>
        simp only [hb, hr, Bool.false_eq_true, if_false] at h
        cases hu : t.unitCheck with
        | error x => rw [hu] at h; cases h
        | ok u => rw [hu] at h; cases h; exact ⟨rfl, rfl, rfl, u, rfl⟩

theorem prepare_of (t : MTagIn α) (m : Nat) (a : List (α × α)) (u : List (Option α))
    (h1 : t.maxExt0 = .ok a) (h2 : t.indexBad m = false) (h3 : t.rankBad = false) (h4 : t.unitCheck = .ok u) :
    t.prepare m = .ok a := by
  unfold MTagIn.prepare
  simp [h1, h2, h3, h4]

/-- `prepare` returns the same extents whatever the index bound, whenever it succeeds -/
theorem prepare_indep (t : MTagIn α) (m m' : Nat) (a b : List (α × α))
    (h : t.prepare m = .ok a) (h' : t.prepare m' = .ok b) : a = b := by
  have h1 := (prepare_ok t m a h).1
  have h2 := (prepare_ok t m' b h').1
  rw [h1] at h2; exact Except.ok.inj h2

/-- **mtag_list_eq_map_single** — retrieval for a list of indices equals the list of the single retrievals:
    whenever the list retrieval and the single retrieval of its j-th index both succeed, the j-th region of the
    list is the region of the single retrieval -/
theorem mtag_list_eq_map_single (t : MTagIn α) (idx : List Nat) (rs : List (List Nat × List Nat))
    (h : mtagOffsetCount t idx = .ok rs) (j : Nat) (hj : j < idx.length) (r : List Nat × List Nat)
    (h1 : mtagOffsetCount t [idx[j]] = .ok [r]) : ∃ hr : j < rs.length, rs[j] = r := by
  have hne : idx ≠ [] := by intro he; subst he; simp at hj
  obtain ⟨me, hp, hl, hall⟩ := mtagOffsetCount_rows t idx hne rs h
  obtain ⟨me1, hp1, _, hall1⟩ := mtagOffsetCount_rows t [idx[j]] (by simp) [r] h1
  have hr : j < rs.length := by omega
  refine ⟨hr, ?_⟩
  have hme := prepare_indep t _ _ me me1 hp hp1
  subst hme
  have a := hall j hj hr
  have b := hall1 0 (by simp) (by simp)
  simp only [List.getElem_cons_zero] at b
  rw [a] at b
  exact Except.ok.inj b

/-- … and a list retrieval that succeeds makes each single retrieval succeed with the same region -/
theorem mtag_single_of_list (t : MTagIn α) (idx : List Nat) (rs : List (List Nat × List Nat))
    (h : mtagOffsetCount t idx = .ok rs) (j : Nat) (hj : j < idx.length) (hr : j < rs.length)
    (hbound : idx[j] < t.positions.length ∧ (match t.extents with | some ex => idx[j] < ex.length | none => True)) :
    mtagOffsetCount t [idx[j]] = .ok [rs[j]] := by
  have hne : idx ≠ [] := by intro he; subst he; simp at hj
  obtain ⟨me, hp, hl, hall⟩ := mtagOffsetCount_rows t idx hne rs h
  have hp1 : t.prepare ([idx[j]].foldl max 0) = .ok me := by
    have hfold : [idx[j]].foldl max 0 = idx[j] := by simp
    rw [hfold]
    obtain ⟨h1, _, h3, u, h4⟩ := prepare_ok t _ me hp
    refine prepare_of t _ me u h1 ?_ h3 h4
    unfold MTagIn.indexBad
    obtain ⟨hb1, hb2⟩ := hbound
    cases hx : t.extents with
    | none => simp; omega
    | some ex => simp only [hx] at hb2 ⊢; simp; omega
  unfold mtagOffsetCount
  simp only [List.isEmpty_cons, Bool.false_eq_true, if_false]
  rw [hp1]
  simp only [mapExcept, hall j hj hr]

/-- **mtag_all_of_none** — "all positions" of a multi-tag that has no positions is no region at all, for references and for
    features of every link type: no index is ever looked at (the C++ took `*max_element` of the empty list here, D28 / D42) -/
theorem mtag_all_of_none (t : MTagIn α) (hp : t.positions = []) (me : List (α × α)) (hme : t.maxExt0 = .ok me) :
    mtagRegions t [] = .ok [] := by
  simp [mtagRegions, mtagOffsetCount, hp, hme, mapExcept]

theorem mtag_feature_all_of_none (t : MTagIn α) (hp : t.positions = []) (lt : LinkType) (fdims : List (DimDesc α)) (fshape : List Nat)
    (me : List (α × α)) (hme : ({ t with dims := fdims, shape := fshape } : MTagIn α).maxExt0 = .ok me) :
    mtagFeatureRegions t [] lt fdims fshape = .ok [] := by
  cases lt with
  | tagged =>
    simp only [mtagFeatureRegions, hp, List.length_nil, List.range_zero, List.isEmpty_nil, if_true]
    refine mtag_all_of_none _ rfl me ?_
    simpa [hp] using hme
  | untagged => simp [mtagFeatureRegions, hp]
  | indexed => simp [mtagFeatureRegions, hp]

/-- **mtag_index_oob** — an index beyond the number of positions raises OutOfBounds (once the descriptors
    themselves can be read) -/
theorem mtag_index_oob (t : MTagIn α) (i : Nat) (hi : i ≥ t.positions.length) (me : List (α × α))
    (hme : t.maxExt0 = .ok me) : mtagOffsetCount t [i] = .error .outOfBounds := by
  unfold mtagOffsetCount MTagIn.prepare
  have hfold : [i].foldl max 0 = i := by simp
  have hb : t.indexBad i = true := by unfold MTagIn.indexBad; simp [hi]
  rw [hfold, hme]
  simp [hb]

/-- **mtag_region_spec** — per requested index and per dimension the positions row specifies: the same rule
    as for a Tag with position = row entry and extent = extents row entry -/
theorem mtag_region_spec (t : MTagIn α) (maxExt : List (α × α)) (idx : Nat) (off cnt : List Nat)
    (h : t.row maxExt idx = .ok (off, cnt))
    (i : Nat) (hi : i < min (t.posRow idx).length t.dims.length) (d : DimDesc α) (hd : t.dims[i]? = some d) (hwf : DimWF d)
    (u : String) (hu : t.unitsPadded[i]? = some u)
    (p e : α) (hp : (t.posRow idx)[i]? = some p) (he : (t.extRow idx)[i]? = some e)
    (k : Option α) (hk : d.scale u = .ok k)
    (hs : InScope d (applyScale k p)) (hes : InScope d (applyScale k (add p e)))
    (hps : ∀ k', d.scaleScalar u = .ok k' → InScope d (applyScale k' p)) :
    ∃ (ho : i < off.length) (hc : i < cnt.length),
      (∀ x, (off[i] ≤ x ∧ x < off[i] + cnt[i]) ↔ inRegion (axisOf d) t.rm (applyScale k p) (applyScale k (add p e)) x) ∨
      (add p e = p ∧ cnt[i] = 1 ∧ (∀ x, ¬ inRegion (axisOf d) t.rm (applyScale k p) (applyScale k (add p e)) x) ∧
        ∃ k', d.scaleScalar u = .ok k' ∧ isFirstAtOrAfter (axisOf d) (applyScale k' p) off[i]) := by
  unfold MTagIn.row at h
  cases hcells : mapExcept (t.cell maxExt idx) (List.range t.dims.length) with
  | error x => rw [hcells] at h; cases h
  | ok cells =>
    rw [hcells] at h
    simp only at h
    cases h
    obtain ⟨hl, hall⟩ := mapExcept_ok _ _ _ hcells
    simp only [List.length_range] at hl hall
    have hid : i < t.dims.length := by omega
    have hcl : i < cells.length := by omega
    refine ⟨by simp [hl]; exact hid, by simp [hl]; exact hid, ?_⟩
    have hcell := hall i hid hcl
    simp only [List.getElem_range] at hcell
    unfold MTagIn.cell at hcell
    rw [hd, hu] at hcell
    simp only [hi, if_true, hp, he] at hcell
    have hspec := mtagDim_spec d hwf p (add p e) u t.rm k hk hs hes hps
    rw [hcell] at hspec
    simpa using hspec

/-- **mtag_feature_dispatch** — indexed features return slice i along the first dimension, untagged features
    the whole array, tagged features are cut like references -/
theorem mtag_feature_tagged (t : MTagIn α) (idx : List Nat) (fdims : List (DimDesc α)) (fshape : List Nat) :
    mtagFeatureRegions t idx .tagged fdims fshape =
      mtagRegions { t with dims := fdims, shape := fshape } (if idx.isEmpty then List.range t.positions.length else idx) := rfl

theorem mtag_feature_untagged (t : MTagIn α) (idx : List Nat) (hne : idx ≠ []) (fdims : List (DimDesc α)) (fshape : List Nat)
    (hb : idx.foldl max 0 < t.positions.length) :
    mtagFeatureRegions t idx .untagged fdims fshape = .ok (idx.map fun _ => wholeRegion fshape) := by
  unfold mtagFeatureRegions
  have : idx.isEmpty = false := by cases idx <;> simp_all
  simp only [this, Bool.false_eq_true, if_false]
  have hb' : ¬ (idx.foldl max 0 ≥ t.positions.length) := by omega
  simp [hb']

/-- one indexed-feature request: offset (i, 0, …, 0), count (1, rest of the feature's extent) -/
theorem mtag_feature_indexed_single (t : MTagIn α) (i : Nat) (fdims : List (DimDesc α)) (fshape : List Nat)
    (hb : i < t.positions.length) (r : List (List Nat × List Nat))
    (h : mtagFeatureRegions t [i] .indexed fdims fshape = .ok r) :
    r = [((List.range fshape.length).map fun k => if k == 0 then i else 0,
          (List.range fshape.length).map fun k => if k == 0 then 1 else (fshape[k]?).getD 0)] := by
  unfold mtagFeatureRegions at h
  have hfold : [i].foldl max 0 = i := by simp
  simp only [List.isEmpty_cons, Bool.false_eq_true, if_false, hfold] at h
  have hb' : ¬ (i ≥ t.positions.length) := by omega
  simp only [hb', if_false, mapExcept] at h
  split at h
  · cases h
  · rename_i y heq
    cases h
    split at heq
    · cases heq
    · split at heq
      · cases heq
      · cases heq; rfl

/-! ### non-vacuity: a 2-d array tagged by a 3 × 2 positions matrix (integer axes) -/
def demo : MTagIn Int :=
  { positions := [[1, 0], [2, 1], [0, 2]], posRank := 2, extents := some [[1, 1], [0, 0], [2, 0]], units := [],
    dims := [.set 0, .set 0], shape := [4, 3], rm := .exclusive }
example : mtagRegions demo [0, 1, 2] = .ok [([1, 0], [1, 1]), ([2, 1], [1, 1]), ([0, 2], [2, 1])] := by decide
example : mtagRegions demo [1] = .ok [([2, 1], [1, 1])] := by decide
example : mtagRegions demo [3] = .error .outOfBounds := by decide
example : mtagFeatureRegions demo [2] .indexed [.set 0, .set 0] [3, 2] = .ok [([2, 0], [1, 2])] := by decide

end Nix.C06
