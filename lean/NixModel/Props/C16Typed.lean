import NixModel.NDArray
/-
  C16 — the typed transfers (one value, a vector the library sizes): the buffer the library has in hand always holds the number of
  elements it then asks the raw transfer for.  This is the memory-safety content of the fix fce2435 (D50), for every rank, count and
  offset: a single value is asked for exactly ONE element; a vector is at least as long as the element count of its count.
-/
namespace Nix.C16Typed
open Nix

theorem prod_replicate_one : ∀ n : Nat, prod (List.replicate n 1) = 1
  | 0 => rfl
  | n + 1 => by simp [List.replicate, prod, prod_replicate_one n]

/-- **a single value is one element** — whatever count and offset the caller gives (empty, of another rank, …), the raw transfer
    behind `getData(value, count, offset)`, `getData(value, offset)` and `setData(value, offset)` moves exactly one element or is
    refused: the cell of one element is never overrun -/
theorem single_value_transfers_one_element (how : String) (rank : Nat) (cnt off c : Idx) (hv : how ≠ "vec")
    (h : typedCount how rank cnt off = .ok c) : prod c = 1 := by
  unfold typedCount at h
  by_cases h3 : (how == "rd3") = true
  · simp only [h3, if_true] at h
    by_cases he : cnt.isEmpty = true
    · simp [he] at h; subst h; exact prod_replicate_one rank
    · have he' : cnt.isEmpty = false := by simpa using he
      by_cases hp : (prod cnt == 1) = true
      · simp [he', hp] at h; subst h; simpa using hp
      · have hp' : (prod cnt == 1) = false := by simpa using hp
        simp [he', hp'] at h
  · have hvv : (how == "vec") = false := by simpa using hv
    have h3' : (how == "rd3") = false := by simpa using h3
    simp only [h3', hvv, Bool.false_eq_true, if_false] at h
    by_cases ho : off.isEmpty = true
    · simp [ho] at h; subst h; exact prod_replicate_one rank
    · have ho' : off.isEmpty = false := by simpa using ho
      simp [ho'] at h; subst h; exact prod_replicate_one off.length

theorem prod_small : ∀ l : List Nat, (∀ x ∈ l, x ≤ 1) → prod l ≤ 1
  | [], _ => by simp [prod]
  | x :: xs, h => by
    have hx : x ≤ 1 := h x (by simp)
    have := prod_small xs (fun y hy => h y (by simp [hy]))
    simp only [prod]
    calc x * prod xs ≤ 1 * 1 := Nat.mul_le_mul hx this
      _ = 1 := rfl

theorem lastBig_none : ∀ l : List Nat, lastBig l = none → ∀ x ∈ l, x ≤ 1
  | [], _ => by simp
  | x :: xs, h => by
    unfold lastBig at h
    cases hl : lastBig xs with
    | some y => rw [hl] at h; cases h
    | none =>
      rw [hl] at h
      simp only at h
      by_cases hx : x > 1
      · simp [hx] at h
      · intro y hy
        rcases List.mem_cons.1 hy with rfl | hy
        · omega
        · exact lastBig_none xs hl y hy

theorem lastBig_some_filter : ∀ l : List Nat, ∀ b, lastBig l = some b → 1 ≤ (l.filter (· > 1)).length ∧ b > 1
  | [], _, h => by simp [lastBig] at h
  | x :: xs, b, h => by
    unfold lastBig at h
    cases hl : lastBig xs with
    | some y =>
      rw [hl] at h; simp only [Option.some.injEq] at h; subst h
      have := lastBig_some_filter xs y hl
      refine ⟨?_, this.2⟩
      have h1 := this.1
      by_cases hx : x > 1
      · rw [List.filter_cons_of_pos (by simpa using hx)]; simp only [List.length_cons]; omega
      · rw [List.filter_cons_of_neg (by simpa using hx)]; exact h1
    | none =>
      rw [hl] at h; simp only at h
      by_cases hx : x > 1
      · simp [hx] at h; subst h
        exact ⟨by simp [List.filter, hx], hx⟩
      · simp [hx] at h

theorem prod_le_lastBig : ∀ l : List Nat, ∀ b, (l.filter (· > 1)).length ≤ 1 → lastBig l = some b → prod l ≤ b
  | [], _, _, h => by simp [lastBig] at h
  | x :: xs, b, hf, h => by
    unfold lastBig at h
    cases hl : lastBig xs with
    | some y =>
      rw [hl] at h; simp only [Option.some.injEq] at h; subst h
      have hc := (lastBig_some_filter xs y hl).1
      have hx : ¬ x > 1 := by
        intro hx
        rw [List.filter_cons_of_pos (by simpa using hx)] at hf
        simp only [List.length_cons] at hf
        omega
      have hf' : (xs.filter (· > 1)).length ≤ 1 := by
        rw [List.filter_cons_of_neg (by simpa using hx)] at hf; exact hf
      have ih := prod_le_lastBig xs y hf' hl
      simp only [prod]
      have : x ≤ 1 := by omega
      calc x * prod xs ≤ 1 * prod xs := Nat.mul_le_mul_right _ this
        _ = prod xs := by simp
        _ ≤ y := ih
    | none =>
      rw [hl] at h; simp only at h
      by_cases hx : x > 1
      · simp [hx] at h; subst h
        have := prod_small xs (lastBig_none xs hl)
        simp only [prod]
        calc x * prod xs ≤ x * 1 := Nat.mul_le_mul_left _ this
          _ = x := by simp
      · simp [hx] at h

/-- **the vector holds the transfer** — the vector `data_traits<std::vector<T>>::resize` leaves behind is at least as long as the
    number of elements the raw transfer is then asked for (zero entries included) -/
theorem vector_holds_the_transfer (rank : Nat) (cnt off c : Idx) (h : typedCount "vec" rank cnt off = .ok c) :
    prod c ≤ vecSize c := by
  unfold typedCount at h
  have h3 : (("vec" : String) == "rd3") = false := by decide
  have hv : (("vec" : String) == "vec") = true := by decide
  simp only [h3, hv, Bool.false_eq_true, if_false, if_true] at h
  by_cases he : cnt.isEmpty = true
  · simp [he] at h
  · have he' : cnt.isEmpty = false := by simpa using he
    by_cases hm : (cnt.filter (· > 1)).length > 1
    · simp [he', hm] at h
    · simp [he', hm] at h
      subst h
      unfold vecSize
      cases hl : lastBig cnt with
      | some b => simpa using prod_le_lastBig cnt b (by omega) hl
      | none =>
        have hs := lastBig_none cnt hl
        cases cnt with
        | nil => simp at he'
        | cons x xs =>
          simp only [Option.getD, List.headD]
          have hx : x ≤ 1 := hs x (by simp)
          have := prod_small xs (fun y hy => hs y (by simp [hy]))
          simp only [prod]
          calc x * prod xs ≤ x * 1 := Nat.mul_le_mul_left _ this
            _ = x := by simp

/-! non-vacuity -/
example : typedCount "rd3" 2 [] [] = .ok [1, 1] := by decide
example : typedCount "rd2" 3 [] [4, 0] = .ok [1, 1] := by decide
example : typedCount "vec" 2 [1, 5] [0, 0] = .ok [1, 5] ∧ vecSize [1, 5] = 5 := by decide
example : typedCount "vec" 2 [2, 5] [0, 0] = .error .invalidRank := by decide
example : vecSize [1, 0] = 1 ∧ prod [1, 0] = 0 := by decide

end Nix.C16Typed
