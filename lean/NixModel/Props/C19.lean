import NixModel.Proofs.ValidateEntities
/-
  C19 — the validator reports no error for a file whose entities satisfy the hard rules, reports at least one error for
  every entity that breaches one, and reports soft-rule breaches as warnings, never as errors.

  The model is `Validate.validateFile` (NixModel/Validate.lean: the combinators of conditions.hpp, the check functors of
  checks.cpp with their loops, early exits and accumulators, the rule table of every validate(…) overload, the walk of
  File::validate).  The specification (NixModel/Spec/C19.lean) says per entity, without loops, what a breach is
  (`Ent.breaches`, `Ent.soft`), which entities a file has (`entities`), and states the property as the decidable relation
  `Rel`.  All theorems hold for every file description: any number of blocks, arrays, descriptors, tags, references,
  units, ticks; any position of the breaching entity; any number of simultaneous breaches; for any ordered scalar type
  (no law of `<` is used).  `WF` is what the getters guarantee by construction (a descriptor's index is its position,
  dimensionCount() is the number of descriptors) and is checked on every description the implementation produces.
-/
set_option linter.unusedSectionVars false
namespace Nix.C19
open Nix Nix.Validate

variable {α : Type} [Scalar α]

/-- SOUNDNESS: every error is attributed to an entity of the file that breaches a hard rule. -/
theorem validator_sound (d : FileDesc α) :
    ∀ m ∈ (validateFile d).errors, ∃ e ∈ entities d, e.msgId = m.id ∧ e.breaches ≠ [] := by
  intro m hm
  rw [validateFile_errors, List.mem_flatMap] at hm
  obtain ⟨e, he, hme⟩ := hm
  refine ⟨e, he, ((ent_allId e).1 m hme).symm, fun hb => ?_⟩
  have := ent_sound e hb
  simp [NoErr] at this
  simp [this] at hme

/-- … in particular a file all of whose entities conform yields no error, whatever soft rules it breaches. -/
theorem validator_sound_conforming (d : FileDesc α) (h : Conforms d = true) : (validateFile d).errors = [] := by
  cases he : (validateFile d).errors with
  | nil => rfl
  | cons m ms =>
    obtain ⟨e, hmem, _, hb⟩ := validator_sound d m (by simp [he])
    simp only [Conforms, List.all_eq_true, List.isEmpty_iff] at h
    exact absurd (h e hmem) hb

/-- COMPLETENESS: an entity anywhere in the file that breaches a hard rule (of whatever kind, alone or together with any
    other breaches anywhere) gets at least one error attributed to it. -/
theorem validator_complete (d : FileDesc α) (hwf : WF d = true) (e : Ent α) (he : e ∈ entities d) (hb : e.breaches ≠ []) :
    ∃ m ∈ (validateFile d).errors, m.id = e.msgId := by
  have hne : (entValidate e).errors ≠ [] := fun h => hb (ent_complete e (entWF_of_mem hwf he) h)
  cases hl : (entValidate e).errors with
  | nil => exact absurd hl hne
  | cons m ms =>
    refine ⟨m, ?_, (ent_allId e).1 m (by simp [hl])⟩
    rw [validateFile_errors, List.mem_flatMap]
    exact ⟨e, he, by simp [hl]⟩

/-- … counted: the errors attributed to an id are at least as many as the breaching entities carrying that id
    (entity ids are unique; dimension descriptors all carry "unknown": one error at least per breaching descriptor). -/
theorem validator_complete_count (d : FileDesc α) (hwf : WF d = true) (s : String) :
    (entities d).countP (fun e => e.msgId == s && !e.breaches.isEmpty) ≤ countId s (validateFile d).errors := by
  rw [validateFile_errors, countId]
  -- restrict to the entities of the file (well-formedness is a property of the file)
  have key : ∀ l : List (Ent α), (∀ e ∈ l, e ∈ entities d) →
      l.countP (fun e => e.msgId == s && !e.breaches.isEmpty) ≤ (l.flatMap fun e => (entValidate e).errors).countP (fun m => m.id == s) := by
    intro l hl
    apply countP_le_countP_flatMap
    intro e he hq
    simp only [Bool.and_eq_true, beq_iff_eq, Bool.not_eq_true', List.isEmpty_eq_false_iff] at hq
    obtain ⟨hid, hb⟩ := hq
    apply one_le_countP_of_all
    · exact fun h => hb (ent_complete e (entWF_of_mem hwf (hl e he)) h)
    · intro m hm
      simp [(ent_allId e).1 m hm, hid]
  exact key _ (fun e he => he)

/-- SOFT RULES: a soft breach is reported as a warning attributed to the entity … -/
theorem soft_breach_is_warned (d : FileDesc α) (e : Ent α) (he : e ∈ entities d) (hs : e.soft ≠ []) :
    ∃ m ∈ (validateFile d).warnings, m.id = e.msgId := by
  have hne : (entValidate e).warnings ≠ [] := fun h => hs ((ent_noWarn e).mp h)
  cases hl : (entValidate e).warnings with
  | nil => exact absurd hl hne
  | cons m ms =>
    refine ⟨m, ?_, (ent_allId e).2 m (by simp [hl])⟩
    rw [validateFile_warnings, List.mem_flatMap]
    exact ⟨e, he, by simp [hl]⟩

theorem soft_breach_count (d : FileDesc α) (s : String) :
    (entities d).countP (fun e => e.msgId == s && !e.soft.isEmpty) ≤ countId s (validateFile d).warnings := by
  rw [validateFile_warnings, countId]
  apply countP_le_countP_flatMap
  intro e he hq
  simp only [Bool.and_eq_true, beq_iff_eq, Bool.not_eq_true', List.isEmpty_eq_false_iff] at hq
  obtain ⟨hid, hb⟩ := hq
  apply one_le_countP_of_all
  · exact fun h => hb ((ent_noWarn e).mp h)
  · intro m hm
    simp [(ent_allId e).2 m hm, hid]

/-- … a warning is only ever about a soft breach … -/
theorem warning_only_for_soft_breach (d : FileDesc α) :
    ∀ m ∈ (validateFile d).warnings, ∃ e ∈ entities d, e.msgId = m.id ∧ e.soft ≠ [] := by
  intro m hm
  rw [validateFile_warnings, List.mem_flatMap] at hm
  obtain ⟨e, he, hme⟩ := hm
  refine ⟨e, he, ((ent_allId e).2 m hme).symm, fun hb => ?_⟩
  have := (ent_noWarn e).mpr hb
  simp [NoWarn] at this
  simp [this] at hme

/-- … and never an error: an entity that breaches soft rules only contributes no error, and if no entity breaches a
    hard rule the file has no error at all, whatever soft rules are breached (`validator_sound_conforming`). -/
theorem soft_rules_only_warn (d : FileDesc α) :
    (∀ e : Ent α, e.breaches = [] → (entValidate e).errors = []) ∧
    (Conforms d = true → (validateFile d).errors = []) ∧
    (∀ e ∈ entities d, e.soft ≠ [] → ∃ m ∈ (validateFile d).warnings, m.id = e.msgId) ∧
    (∀ m ∈ (validateFile d).warnings, ∃ e ∈ entities d, e.msgId = m.id ∧ e.soft ≠ []) :=
  ⟨fun e h => ent_sound e h, validator_sound_conforming d, soft_breach_is_warned d, warning_only_for_soft_breach d⟩


/-- THE RELATION the driver evaluates on the implementation's answers holds of the model, for every file description
    the getters can produce. -/
theorem holds (d : FileDesc α) (hwf : WF d = true) : Rel d (validateFile d) = true := by
  have hsound : relSound d (validateFile d) = true := by
    simp only [relSound, List.all_eq_true, List.any_eq_true, Bool.and_eq_true, beq_iff_eq, Bool.not_eq_true',
      List.isEmpty_eq_false_iff]
    intro m hm
    obtain ⟨e, he, hid, hb⟩ := validator_sound d m hm
    exact ⟨e, he, hid, hb⟩
  have hflag : ∀ k, relFlagged k d (validateFile d) = true := by
    intro k
    simp only [relFlagged, List.all_eq_true, Bool.or_eq_true, decide_eq_true_eq]
    intro e _
    exact Or.inr (validator_complete_count d hwf e.msgId)
  have hsoft : relSoftWarned d (validateFile d) = true := by
    simp only [relSoftWarned, List.all_eq_true, Bool.or_eq_true, decide_eq_true_eq]
    intro e _
    exact Or.inr (soft_breach_count d e.msgId)
  have hwarn : relWarnOnlySoft d (validateFile d) = true := by
    simp only [relWarnOnlySoft, List.all_eq_true, List.any_eq_true, Bool.and_eq_true, beq_iff_eq, Bool.not_eq_true',
      List.isEmpty_eq_false_iff]
    intro m hm
    obtain ⟨e, he, hid, hb⟩ := warning_only_for_soft_breach d m hm
    exact ⟨e, he, hid, hb⟩
  simp only [Rel, rules, List.all_append, List.all_cons, List.all_nil, List.all_map, Bool.and_true, Bool.and_eq_true,
    List.all_eq_true, Function.comp]
  exact ⟨⟨hsound, fun k _ => hflag k⟩, hsoft, hwarn⟩


-- ---- one lemma per breach kind of the property text: any block, any array / tag / feature in it, any descriptor, any
-- ---- dimension index, any reference, any unit position; whatever else is wrong in the file --------------------------

/-- `unsorted`, index form: some tick is smaller than its predecessor -/
theorem unsorted_iff (l : List α) : unsorted l = true ↔ ∃ i, ∃ h : i + 1 < l.length, l[i + 1] < l[i] := by
  simp only [unsorted, List.any_eq_true, decide_eq_true_eq]
  constructor
  · rintro ⟨p, hp, hlt⟩
    obtain ⟨i, hi, rfl⟩ := List.mem_iff_getElem.mp hp
    simp only [List.length_zip, List.length_tail] at hi
    refine ⟨i, by omega, ?_⟩
    simpa [List.getElem_zip, List.getElem_tail] using hlt
  · rintro ⟨i, h, hlt⟩
    refine ⟨(l[i], l[i + 1]), ?_, hlt⟩
    apply List.mem_iff_getElem.mpr
    refine ⟨i, by simp only [List.length_zip, List.length_tail]; omega, ?_⟩
    simp [List.getElem_zip, List.getElem_tail]

/-- number of dimension descriptors differs from the data rank -/
theorem complete_rank (d : FileDesc α) (hwf : WF d = true) {b : BlockDesc α} {a : ArrayDesc α}
    (hb : b ∈ d.blocks) (ha : a ∈ b.arrays) (h : a.dimCount ≠ .val a.shape.length) :
    ∃ m ∈ (validateFile d).errors, m.id = a.ent.id := by
  apply validator_complete d hwf (.array a) (mem_entities_array hb ha)
  have : Breach.rank ∈ arrayBreaches a := by
    simp only [arrayBreaches, List.mem_append, mem_when]
    refine Or.inl (Or.inr ⟨?_, trivial⟩)
    cases hc : a.dimCount with
    | threw => simp [Got.passes]
    | val n => simp only [Got.passes, Bool.not_eq_true', beq_eq_false_iff_ne]; intro hn; exact h (by rw [hc, hn])
  exact List.ne_nil_of_mem this

theorem size_breach (d : FileDesc α) (hwf : WF d = true) {b : BlockDesc α} {a : ArrayDesc α} {x : DimDesc α} {k : Breach}
    (hb : b ∈ d.blocks) (ha : a ∈ b.arrays) (hx : x ∈ a.dims) (hk : k ∈ dimSizeBreach a.shape x) :
    ∃ m ∈ (validateFile d).errors, m.id = a.ent.id := by
  apply validator_complete d hwf (.array a) (mem_entities_array hb ha)
  have : k ∈ arrayBreaches a := by
    simp only [arrayBreaches, List.mem_append, List.mem_flatMap]
    exact Or.inr ⟨x, hx, hk⟩
  exact List.ne_nil_of_mem this

/-- number of ticks differs from the length of the data along the descriptor's dimension -/
theorem complete_ticks (d : FileDesc α) (hwf : WF d = true) {b : BlockDesc α} {a : ArrayDesc α} {x : DimDesc α}
    {ticks : List α} {u : Got (Option String)} {n : Nat}
    (hb : b ∈ d.blocks) (ha : a ∈ b.arrays) (hx : x ∈ a.dims) (hkind : x.kind = .range ticks u)
    (h1 : 1 ≤ x.index) (hn : a.shape[x.index - 1]? = some n) (hne : ticks.length ≠ n) :
    ∃ m ∈ (validateFile d).errors, m.id = a.ent.id := by
  apply size_breach d hwf hb ha hx (k := .ticks)
  have h0 : x.index ≠ 0 := by omega
  simp [dimSizeBreach, dataLen, h0, hn, hkind, mem_when, hne]

/-- number of labels (if any) differs from the data length -/
theorem complete_labels (d : FileDesc α) (hwf : WF d = true) {b : BlockDesc α} {a : ArrayDesc α} {x : DimDesc α}
    {labels n : Nat} (hb : b ∈ d.blocks) (ha : a ∈ b.arrays) (hx : x ∈ a.dims) (hkind : x.kind = .set labels)
    (h1 : 1 ≤ x.index) (hn : a.shape[x.index - 1]? = some n) (h0 : labels ≠ 0) (hne : labels ≠ n) :
    ∃ m ∈ (validateFile d).errors, m.id = a.ent.id := by
  apply size_breach d hwf hb ha hx (k := .labels)
  have hi : x.index ≠ 0 := by omega
  simp [dimSizeBreach, dataLen, hi, hn, hkind, mem_when, hne, h0]

/-- number of data-frame rows differs from the data length -/
theorem complete_rows (d : FileDesc α) (hwf : WF d = true) {b : BlockDesc α} {a : ArrayDesc α} {x : DimDesc α}
    {rows n : Nat} {cu : Option String} (hb : b ∈ d.blocks) (ha : a ∈ b.arrays) (hx : x ∈ a.dims) (hkind : x.kind = .frame rows cu)
    (h1 : 1 ≤ x.index) (hn : a.shape[x.index - 1]? = some n) (hne : rows ≠ n) :
    ∃ m ∈ (validateFile d).errors, m.id = a.ent.id := by
  apply size_breach d hwf hb ha hx (k := .rows)
  have hi : x.index ≠ 0 := by omega
  simp [dimSizeBreach, dataLen, hi, hn, hkind, mem_when, hne]

/-- unsorted ticks (messages about dimension descriptors carry the id "unknown") -/
theorem complete_unsorted (d : FileDesc α) (hwf : WF d = true) {b : BlockDesc α} {a : ArrayDesc α} {x : DimDesc α}
    {ticks : List α} {u : Got (Option String)} (hb : b ∈ d.blocks) (ha : a ∈ b.arrays) (hx : x ∈ a.dims)
    (hkind : x.kind = .range ticks u) (i : Nat) (hi : i + 1 < ticks.length) (hlt : ticks[i + 1] < ticks[i]) :
    ∃ m ∈ (validateFile d).errors, m.id = dimId := by
  apply validator_complete d hwf (.dim x) (mem_entities_dim hb ha hx)
  have hu : unsorted ticks = true := (unsorted_iff ticks).mpr ⟨i, hi, hlt⟩
  have : Breach.unsorted ∈ dimBreaches x := by simp [dimBreaches, hkind, mem_when, hu]
  exact List.ne_nil_of_mem this

/-- sampling interval missing or not positive -/
theorem complete_interval (d : FileDesc α) (hwf : WF d = true) {b : BlockDesc α} {a : ArrayDesc α} {x : DimDesc α}
    {si : Got α} {off : Got Bool} {u : Got (Option String)} (hb : b ∈ d.blocks) (ha : a ∈ b.arrays) (hx : x ∈ a.dims)
    (hkind : x.kind = .sampled si off u) (h : si = .threw ∨ ∃ v, si = .val v ∧ ¬ Scalar.zero < v) :
    ∃ m ∈ (validateFile d).errors, m.id = dimId := by
  apply validator_complete d hwf (.dim x) (mem_entities_dim hb ha hx)
  have : Breach.interval ∈ dimBreaches x := by
    simp only [dimBreaches, hkind, List.mem_append, mem_when]
    refine Or.inl (Or.inr ⟨?_, trivial⟩)
    rcases h with rfl | ⟨v, rfl, hv⟩ <;> simp [Got.passes, *]
  exact List.ne_nil_of_mem this

/-- a unit of a tag or multi-tag that cannot be converted to the unit of the same dimension of a referenced array:
    any reference, any unit position -/
theorem complete_tag_units (d : FileDesc α) (hwf : WF d = true) {b : BlockDesc α} {t : TagDesc}
    (hb : b ∈ d.blocks) (ht : t ∈ b.tags ∨ t ∈ b.mtags) {rs : List (List String)} (hrs : t.refs = .val rs)
    {ref : List String} (href : ref ∈ rs) (i : Nat) {tu du : String} (htu : t.units[i]? = some tu) (hdu : ref[i]? = some du)
    (h1 : du ≠ "none") (h2 : tu ≠ "") (h3 : tu ≠ "none") (h4 : isScalable tu du = false) :
    ∃ m ∈ (validateFile d).errors, m.id = t.ent.id := by
  apply validator_complete d hwf (.tag t) (ht.elim (mem_entities_tag hb) (mem_entities_mtag hb))
  have hne : t.units.isEmpty = false := by
    cases hu : t.units with
    | nil => simp [hu] at htu
    | cons _ _ => rfl
  have hpair : pairBreach tu du = true := by simp [pairBreach, h1, h2, h3, h4]
  have hz : (tu, du) ∈ t.units.zip ref := by
    apply List.mem_iff_getElem?.mpr
    exact ⟨i, by simp [List.getElem?_zip_eq_some, htu, hdu]⟩
  have hrb : refBreach t.units ref = true := by
    simp only [refBreach, List.any_eq_true]
    exact ⟨(tu, du), hz, hpair⟩
  have : Breach.unitsNotConvertible ∈ tagBreaches t := by
    simp only [tagBreaches, List.mem_append, mem_when, hrs, hne, Bool.not_false, Bool.true_and]
    exact Or.inr ⟨List.any_eq_true.mpr ⟨ref, href, hrb⟩, trivial⟩
  exact List.ne_nil_of_mem this

/-- multi-tag without positions -/
theorem complete_positions (d : FileDesc α) (hwf : WF d = true) {b : BlockDesc α} {t : TagDesc}
    (hb : b ∈ d.blocks) (ht : t ∈ b.mtags) (h : t.posSet ≠ .val true) :
    ∃ m ∈ (validateFile d).errors, m.id = t.ent.id := by
  apply validator_complete d hwf (.tag t) (mem_entities_mtag hb ht)
  have hp : isSet t.posSet = false := by
    cases hc : t.posSet with
    | threw => rfl
    | val v => cases v with
      | false => rfl
      | true => exact absurd hc h
  have : (if t.isMulti then Breach.noPositions else Breach.noPosition) ∈ tagBreaches t := by
    simp [tagBreaches, mem_when, hp]
  exact List.ne_nil_of_mem this

/-- feature without data -/
theorem complete_feature_data (d : FileDesc α) (hwf : WF d = true) {b : BlockDesc α} {t : TagDesc} {f : FeatureDesc}
    (hb : b ∈ d.blocks) (ht : t ∈ b.tags ∨ t ∈ b.mtags) (hf : f ∈ t.features) (h : f.dataSet ≠ .val true) :
    ∃ m ∈ (validateFile d).errors, m.id = f.id := by
  apply validator_complete d hwf (.feature f) (mem_entities_feature hb ht hf)
  have hp : isSet f.dataSet = false := by
    cases hc : f.dataSet with
    | threw => rfl
    | val v => cases v with
      | false => rfl
      | true => exact absurd hc h
  have : Breach.noData ∈ featureBreaches f := by simp [featureBreaches, mem_when, hp]
  exact List.ne_nil_of_mem this


-- ---- non-vacuity: concrete descriptions (scalar type Int), decided by the kernel -----------------------------------------
namespace Example
def ent (i : String) : Named := ⟨i, "n", .val "t", .val 5⟩

/-- a conforming 3x2 array (range + sampled descriptor), non-SI array unit (soft) -/
def a0 : ArrayDesc Int :=
  { ent := ent "a0", dtypeSet := .val true, dimCount := .val 2, shape := [3, 2],
    dims := [⟨1, .range [1, 2, 2] (.val (some "ms"))⟩, ⟨2, .sampled (.val 1) (.val false) (.val none)⟩],
    unit := .val (some "foo"), polyN := .val 0, originSet := .val false }
def t0 : TagDesc := { ent := ent "t0", isMulti := false, posSet := .val true, units := ["s", "kHz"], refs := .val [["ms", "none"]], features := [] }
def p0 : PropDesc := { id := "p0", name := "p", created := .val 5, valueCount := .val 2, unit := .val none }
def conforming : FileDesc Int :=
  { blocks := [{ ent := ent "b0", arrays := [a0], mtags := [], tags := [t0], sources := [ent "o0"] }],
    sections := [{ ent := ent "s0", props := [p0] }] }

/-- the file conforms (8 entities), the validator reports no error; the two soft breaches are warnings -/
example : WF conforming = true ∧ Conforms conforming = true ∧ (entities conforming).length = 8 ∧
    (validateFile conforming).errors = [] ∧
    (validateFile conforming).warnings = [⟨"a0", .unitSI⟩, ⟨"p0", .propNoUnit⟩] := by decide +kernel

/-- 2x3x2 array: second descriptor has 4 ticks for 3 data entries and is unsorted, third has interval 0 -/
def a1 : ArrayDesc Int :=
  { ent := ent "a1", dtypeSet := .val true, dimCount := .val 3, shape := [2, 3, 2],
    dims := [⟨1, .set 0⟩, ⟨2, .range [1, 5, 3, 4] (.val none)⟩, ⟨3, .sampled (.val 0) (.val false) (.val (some "mV"))⟩],
    unit := .val none, polyN := .val 0, originSet := .val false }
/-- one descriptor for two data dimensions -/
def a2 : ArrayDesc Int :=
  { ent := ent "a2", dtypeSet := .val true, dimCount := .val 1, shape := [2, 2], dims := [⟨1, .set 2⟩],
    unit := .val none, polyN := .val 0, originSet := .val false }
/-- the witness of D19: units {mV, V} against dimensions {s, mV}: the first is not convertible, the second is -/
def t1 : TagDesc := { ent := ent "t1", isMulti := false, posSet := .val true, units := ["mV", "V"], refs := .val [["s", "mV"]],
                      features := [{ id := "f1", created := .val 5, dataSet := .val false, linkType := .val 0 }] }
def m1 : TagDesc := { ent := ent "m1", isMulti := true, posSet := .threw, units := [], refs := .val [], features := [] }
def breached : FileDesc Int :=
  { blocks := [{ ent := ent "b0", arrays := [a0], mtags := [], tags := [t0], sources := [] },
               { ent := ent "b1", arrays := [a2, a1], mtags := [m1], tags := [t1], sources := [⟨"o1", "", .val "t", .val 5⟩] }],
    sections := [] }

example : WF breached = true ∧
    (validateFile breached).errors =
      [⟨"a2", .ndims⟩, ⟨"a1", .ticksN⟩, ⟨dimId, .unsorted⟩, ⟨dimId, .interval⟩, ⟨"m1", .positions⟩, ⟨"t1", .refUnits⟩,
       ⟨"f1", .featData⟩, ⟨"o1", .name⟩] ∧
    ((entities breached).filter fun e => !e.breaches.isEmpty).map (fun e => (e.msgId, e.breaches)) =
      [("a2", [.rank]), ("a1", [.ticks]), (dimId, [.unsorted]), (dimId, [.interval]), ("m1", [.noPositions]),
       ("t1", [.unitsNotConvertible]), ("f1", [.noData]), ("o1", [.blankName])] ∧
    Rel breached (validateFile breached) = true := by decide +kernel

/-- D19 on the pinned tree: the loop as it was (`match` overwritten per unit) accepts the witness, so that
    `complete_tag_units` is false of it; the accumulating loop (the `fix:` commit) rejects it -/
example : refsLoopPinned ["mV", "V"] [["s", "mV"]] true = true ∧ tagUnitsMatchRefsUnits ["mV", "V"] [["s", "mV"]] = false ∧
    isScalable "mV" "s" = false := by decide +kernel
/-- … and a unit beyond the referenced array's dimensions reset the flag as well -/
example : refsLoopPinned ["nA", "uS", "mm"] [["km"]] true = true ∧ tagUnitsMatchRefsUnits ["nA", "uS", "mm"] [["km"]] = false := by
  decide +kernel

/-- the relation is not trivially true: it rejects a result that misses the error of a1, one that blames a conforming
    entity, and one that reports a soft breach as an error -/
example : Rel breached ⟨(validateFile breached).errors.filter (·.id != "a1"), []⟩ = false ∧
    Rel conforming ⟨[⟨"t0", .refUnits⟩], (validateFile conforming).warnings⟩ = false ∧
    Rel conforming ⟨[⟨"a0", .unitSI⟩], [⟨"p0", .propNoUnit⟩]⟩ = false ∧
    Rel conforming ⟨[], []⟩ = false := by decide +kernel

/-- why `WF` is a hypothesis of completeness: the loops `break` (not `continue`) at a descriptor whose index lies beyond
    the rank, which would hide a later mismatch — here 3 ticks for 2 data entries behind a descriptor claiming index 5.
    The HDF5 backend cannot produce such a description (a descriptor's index is the position it is fetched from). -/
def notWF : ArrayDesc Int :=
  { ent := ent "x", dtypeSet := .val true, dimCount := .val 2, shape := [2, 2],
    dims := [⟨5, .set 0⟩, ⟨2, .set 3⟩],
    unit := .val none, polyN := .val 0, originSet := .val false }
example : arrayWF notWF = false ∧ arrayBreaches notWF = [.labels] ∧ (validateArray notWF).errors = [] := by decide +kernel
end Example

end Nix.C19
