import NixModel.Spec.C19
namespace Nix.C19
end Nix.C19
