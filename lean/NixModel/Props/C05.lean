import NixModel.Proofs.RegionDim
/-
  C05 — Tag retrieval returns exactly the tagged region.  Property theorems.

  The interval is the tag's position / position+extent as converted to the dimension's unit
  (`applyScale k …`, opaque values: the statements do not depend on how the product or the sum
  rounds).  Descriptors are assumed well-formed (`DimWF`: strictly increasing coordinates) and the
  converted positions in the scope of the sampled kernel (`InScope`: finite, below coordinate 2^62).
-/
open Std
set_option linter.unusedSectionVars false
set_option linter.unusedSimpArgs false
namespace Nix.C05
open Nix Scalar Nix.C07

variable {α : Type} [Scalar α] [IsLinearOrder α] [LawfulOrderLT α] [LawfulScalarEq α] [LawfulRounding α]

theorem mapExcept_ok {β γ ε : Type} (f : β → Except ε γ) (l : List β) (r : List γ) (h : mapExcept f l = .ok r) :
    r.length = l.length ∧ ∀ i (hi : i < l.length) (hr : i < r.length), f l[i] = .ok r[i] := by
  induction l generalizing r with
  | nil => simp only [mapExcept] at h; cases h; exact ⟨rfl, fun i hi => absurd hi (Nat.not_lt_zero i)⟩
  | cons x xs ih =>
    simp only [mapExcept] at h
    cases hx : f x with
    | error e => rw [hx] at h; cases h
    | ok y =>
      rw [hx] at h
      simp only at h
      cases hxs : mapExcept f xs with
      | error e => rw [hxs] at h; cases h
      | ok ys =>
        rw [hxs] at h
        simp only at h
        cases h
        obtain ⟨hl, hall⟩ := ih ys hxs
        refine ⟨by simp [hl], ?_⟩
        intro i hi hr
        cases i with
        | zero => simpa using hx
        | succ j => simpa using hall j (by simpa using hi) (by simpa using hr)

/-- structure of a successful retrieval: one loop cell per dimension, and the block lies inside the data -/
theorem tagRegion_cells (t : TagIn α) (off cnt : List Nat) (h : tagRegion t = .ok (off, cnt)) :
    ∃ maxExt, t.maxExt = .ok maxExt ∧ off.length = t.dims.length ∧ cnt.length = t.dims.length ∧
      (∀ i (hi : i < t.dims.length) (ho : i < off.length) (hc : i < cnt.length), t.cell maxExt i = .ok (off[i], cnt[i])) ∧
      positionAndExtentInData t.shape off cnt = true := by
  unfold tagRegion at h
  cases hoc : tagOffsetCount t with
  | error x => rw [hoc] at h; cases h
  | ok oc =>
    rw [hoc] at h
    obtain ⟨o, c⟩ := oc
    simp only at h
    by_cases hin : positionAndExtentInData t.shape o c = true
    · simp only [hin, Bool.not_true, Bool.false_eq_true, if_false] at h
      cases hdv : dataViewCheck t.shape o c with
      | error x => rw [hdv] at h; cases h
      | ok u =>
        rw [hdv] at h
        simp only at h
        cases h
        unfold tagOffsetCount at hoc
        split at hoc
        · cases hoc
        · cases hme : t.maxExt with
          | error x => rw [hme] at hoc; cases hoc
          | ok maxExt =>
            rw [hme] at hoc
            simp only at hoc
            cases hcells : mapExcept (t.cell maxExt) (List.range t.dims.length) with
            | error x => rw [hcells] at hoc; cases hoc
            | ok cells =>
              rw [hcells] at hoc
              simp only at hoc
              cases hoc
              obtain ⟨hl, hall⟩ := mapExcept_ok _ _ _ hcells
              simp only [List.length_range] at hl hall
              refine ⟨maxExt, rfl, by simp [hl], by simp [hl], ?_, hin⟩
              intro i hi ho hc
              have := hall i hi (by omega)
              simp only [List.getElem_range] at this
              simp [this]
    · have : positionAndExtentInData t.shape o c = false := by simpa using hin
      simp [this] at h

/-- **tag_region_spec** — for every dimension the tag specifies: the returned block holds exactly the
    indices whose coordinate c satisfies p ≤ c ≤ p+e (Inclusive; also used when the tag has no extent) or
    p ≤ c < p+e (Exclusive); only for a zero extent with no coordinate in the interval it is instead the
    single first index at or after the position. -/
theorem tag_region_spec (t : TagIn α) (off cnt : List Nat) (h : tagRegion t = .ok (off, cnt))
    (i : Nat) (hi : i < t.specified) (d : DimDesc α) (hd : t.dims[i]? = some d) (hwf : DimWF d)
    (p : α) (hp : t.position[i]? = some p)
    (k : Option α) (hk : d.scale (t.unitAt i d) = .ok k)
    (hs : InScope d (applyScale k p)) (he : InScope d (applyScale k (add p (t.extentAt i))))
    (hps : ∀ k', d.scaleScalar (t.unitAt i d) = .ok k' → InScope d (applyScale k' p)) :
    ∃ (ho : i < off.length) (hc : i < cnt.length),
      (∀ x, (off[i] ≤ x ∧ x < off[i] + cnt[i]) ↔
          inRegion (axisOf d) t.effRm (applyScale k p) (applyScale k (add p (t.extentAt i))) x) ∨
      (beq (t.extentAt i) zero = true ∧ cnt[i] = 1 ∧
        (∀ x, ¬ inRegion (axisOf d) t.effRm (applyScale k p) (applyScale k (add p (t.extentAt i))) x) ∧
        ∃ k', d.scaleScalar (t.unitAt i d) = .ok k' ∧ isFirstAtOrAfter (axisOf d) (applyScale k' p) off[i]) := by
  obtain ⟨maxExt, _, hlo, hlc, hcells, _⟩ := tagRegion_cells t off cnt h
  have hid : i < t.dims.length := by
    have : i < min t.position.length t.dims.length := hi
    omega
  have ho : i < off.length := by omega
  have hc : i < cnt.length := by omega
  refine ⟨ho, hc, ?_⟩
  have hcell := hcells i hid ho hc
  unfold TagIn.cell at hcell
  rw [hd] at hcell
  simp only [hi, if_true, hp] at hcell
  have hspec := dimOffsetCount_spec d hwf p (add p (t.extentAt i)) (beq (t.extentAt i) zero) (t.unitAt i d) t.effRm k hk hs he hps
  rw [hcell] at hspec
  exact hspec

/-- the block never reaches outside the stored data -/
theorem tag_region_inside_data (t : TagIn α) (off cnt : List Nat) (h : tagRegion t = .ok (off, cnt)) :
    positionAndExtentInData t.shape off cnt = true :=
  (tagRegion_cells t off cnt h).choose_spec.2.2.2.2

/-- **error direction** — when the loop cell of a specified dimension raises OutOfBounds, the interval holds
    no coordinate of that dimension -/
theorem tag_cell_oob_empty (t : TagIn α) (maxExt : List (α × α)) (i : Nat) (hi : i < t.specified)
    (d : DimDesc α) (hd : t.dims[i]? = some d) (hwf : DimWF d) (p : α) (hp : t.position[i]? = some p)
    (k : Option α) (hk : d.scale (t.unitAt i d) = .ok k)
    (hs : InScope d (applyScale k p)) (he : InScope d (applyScale k (add p (t.extentAt i))))
    (hps : ∀ k', d.scaleScalar (t.unitAt i d) = .ok k' → InScope d (applyScale k' p))
    (herr : t.cell maxExt i = .error .outOfBounds) :
    ∀ x, ¬ inRegion (axisOf d) t.effRm (applyScale k p) (applyScale k (add p (t.extentAt i))) x := by
  unfold TagIn.cell at herr
  rw [hd] at herr
  simp only [hi, if_true, hp] at herr
  have hspec := dimOffsetCount_spec d hwf p (add p (t.extentAt i)) (beq (t.extentAt i) zero) (t.unitAt i d) t.effRm k hk hs he hps
  rw [herr] at hspec
  exact hspec.1

/-- **tag_unspecified_dims_full** (Inclusive, which includes every tag without extent) — a dimension the tag
    does not specify is returned in full when no unit conversion applies to it -/
theorem tag_unspecified_dims_full (t : TagIn α) (off cnt : List Nat) (h : tagRegion t = .ok (off, cnt))
    (maxExt : List (α × α)) (hme : t.maxExt = .ok maxExt)
    (i : Nat) (hlt : i < t.dims.length) (hi : ¬ i < t.specified) (d : DimDesc α) (hd : t.dims[i]? = some d) (hwf : DimWF d)
    (n : Nat) (hn : 1 ≤ n) (hcov : (axisOf d).valid (n - 1))
    (hext : maxExt[i]? = some ((axisOf d).coord 0, (axisOf d).coord (n - 1)))
    (hk : d.scale (t.unitAt i d) = .ok none) (hrm : t.effRm = .inclusive)
    (hs : InScope d ((axisOf d).coord 0)) (he : InScope d ((axisOf d).coord (n - 1)))
    (hps : ∀ k', d.scaleScalar (t.unitAt i d) = .ok k' → InScope d (applyScale k' ((axisOf d).coord 0))) :
    ∃ (ho : i < off.length) (hc : i < cnt.length), ∀ x, (off[i] ≤ x ∧ x < off[i] + cnt[i]) ↔ x < n := by
  obtain ⟨maxExt', hme', hlo, hlc, hcells, _⟩ := tagRegion_cells t off cnt h
  rw [hme] at hme'
  cases hme'
  have ho : i < off.length := by omega
  have hc : i < cnt.length := by omega
  refine ⟨ho, hc, ?_⟩
  have hcell := hcells i hlt ho hc
  unfold TagIn.cell at hcell
  rw [hd] at hcell
  simp only [hi, if_false, hext] at hcell
  have hm := axisOf_strictMono d hwf
  have hspec := dimOffsetCount_spec d hwf ((axisOf d).coord 0) ((axisOf d).coord (n - 1))
    (beq (sub ((axisOf d).coord (n - 1)) ((axisOf d).coord 0)) zero) (t.unitAt i d) t.effRm none hk
    (by simpa [applyScale] using hs) (by simpa [applyScale] using he) hps
  rw [hcell] at hspec
  simp only [applyScale, hrm] at hspec
  have hin : ∀ x, inRegion (axisOf d) .inclusive ((axisOf d).coord 0) ((axisOf d).coord (n - 1)) x ↔ x < n := by
    intro x
    simp only [inRegion]
    constructor
    · rintro ⟨hv, _, h2⟩
      apply Nat.lt_of_not_le
      intro hnx
      have : n - 1 < x := by omega
      have := hm (n - 1) x hv this
      grind
    · intro hx
      have hv : (axisOf d).valid x := (axisOf d).valid_of_le hcov (by omega)
      exact ⟨hv, (axisOf d).mono_le hm hv (Nat.zero_le x), (axisOf d).mono_le hm hcov (by omega)⟩
  rcases hspec with hreg | ⟨_, _, hempty, _⟩
  · intro x; rw [hreg x, hin x]
  · exact absurd ((hin 0).2 (by omega)) (hempty 0)

/-- **K2 (known finding), model level** — in Exclusive mode the padded end coordinate is matched with
    `Less`, so an unspecified dimension loses its last element: a concrete witness on an integer axis -/
example :
    tagRegion ({ position := [1], extent := [1], units := [], dims := [.set 0, .set 0], shape := [4, 3], rm := .exclusive } : TagIn Int)
      = .ok ([1, 0], [1, 2]) := by decide
example :
    tagRegion ({ position := [1], extent := [1], units := [], dims := [.set 0, .set 0], shape := [4, 3], rm := .inclusive } : TagIn Int)
      = .ok ([1, 0], [2, 3]) := by decide

/-! ### features -/

/-- tagged features are cut by the same rule (the feature array takes the place of the reference);
    untagged and indexed features are returned whole -/
theorem tag_feature_dispatch (t : TagIn α) (lt : LinkType) (fdims : List (DimDesc α)) (fshape : List Nat) :
    tagFeatureRegion t lt fdims fshape =
      (match lt with
       | .tagged => tagRegion { t with dims := fdims, shape := fshape }
       | .untagged => .ok (fshape.map (fun _ => 0), fshape)
       | .indexed => .ok (fshape.map (fun _ => 0), fshape)) := by
  cases lt <;> rfl

/-! ### non-vacuity -/
example : DimWF (.set 5 : DimDesc Int) ∧ DimWF (.range [1, 4, 6] none : DimDesc Int) := by
  refine ⟨trivial, ?_⟩; simp [DimWF, Sorted]
example :
    tagRegion ({ position := [4], extent := [2], units := [], dims := [.range [1, 4, 6, 9] none], shape := [4], rm := .inclusive } : TagIn Int)
      = .ok ([1], [2]) := by decide
example :
    tagRegion ({ position := [4], extent := [2], units := [], dims := [.range [1, 4, 6, 9] none], shape := [4], rm := .exclusive } : TagIn Int)
      = .ok ([1], [1]) := by decide
example :
    tagRegion ({ position := [5], extent := [], units := [], dims := [.range [1, 4, 6, 9] none], shape := [4], rm := .exclusive } : TagIn Int)
      = .ok ([2], [1]) := by decide
example :
    tagRegion ({ position := [10], extent := [1], units := [], dims := [.range [1, 4, 6, 9] none], shape := [4], rm := .inclusive } : TagIn Int)
      = .error .outOfBounds := by decide

end Nix.C05
