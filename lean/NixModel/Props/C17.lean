import NixModel.Props.C05
import NixModel.Props.C01
/-
  C17 — position-based slices and DataView windows address exactly their region.  Property theorems.
-/
open Std
set_option linter.unusedSectionVars false
set_option linter.unusedSimpArgs false
namespace Nix.C17
open Nix Scalar Nix.C07 Nix.C05

section slices
variable {α : Type} [Scalar α] [IsLinearOrder α] [LawfulOrderLT α] [LawfulScalarEq α] [LawfulRounding α]

/-- **slice_error_iff (start > end)** — a dimension whose start lies after its end is refused -/
theorem slice_start_after_end (d : DimDesc α) (s e : α) (unit : String) (rm : RangeMatch) (h : e < s) :
    sliceDim d s e unit rm = .error .stdInvalidArgument := by
  rw [sliceDim_eq]; simp [h]

/-- **slice_region_spec** — per dimension: exactly the indices whose coordinates lie in [start, end]
    (Inclusive) or [start, end) (Exclusive); only for start = end with no coordinate in the interval the single
    first index at or after start; an OutOfBounds step means the interval holds no coordinate -/
theorem slice_region_spec (d : DimDesc α) (hd : DimWF d) (s e : α) (unit : String) (rm : RangeMatch) (hse : ¬ e < s)
    (k : Option α) (hk : d.scale unit = .ok k)
    (hs : InScope d (applyScale k s)) (he : InScope d (applyScale k e))
    (hp : ∀ k', d.scaleScalar unit = .ok k' → InScope d (applyScale k' s)) :
    match sliceDim d s e unit rm with
    | .ok (o, c) =>
        (∀ i, (o ≤ i ∧ i < o + c) ↔ inRegion (axisOf d) rm (applyScale k s) (applyScale k e) i) ∨
        (beq e s = true ∧ c = 1 ∧ (∀ i, ¬ inRegion (axisOf d) rm (applyScale k s) (applyScale k e) i) ∧
          ∃ k', d.scaleScalar unit = .ok k' ∧ isFirstAtOrAfter (axisOf d) (applyScale k' s) o)
    | .error .outOfBounds =>
        (∀ i, ¬ inRegion (axisOf d) rm (applyScale k s) (applyScale k e) i) ∧
        (beq e s = false ∨ ∃ k', d.scaleScalar unit = .ok k' ∧ ∀ i, (axisOf d).valid i → ¬ applyScale k' s ≤ (axisOf d).coord i)
    | .error _ => True := by
  rw [sliceDim_eq]
  simp only [hse, if_false]
  exact dimOffsetCount_spec d hd s e (beq e s) unit rm k hk hs he hp

/-- the loop argument of a dimension for which both start and end are given is what the caller passed -/
theorem slice_arg_given (t : SliceIn α) (i : Nat) (d : DimDesc α) (hd : t.dims[i]? = some d) (s e : α)
    (hs : t.starts[i]? = some s) (he : t.ends[i]? = some e) :
    t.arg i = .ok (d, s, e, (match t.units[i]? with | some u => u | none => d.unitOrNone), t.rm) := by
  unfold SliceIn.arg
  simp [hd, hs, he]
  rfl

/-- **slice_fills_unspecified** — a dimension with neither start nor end is filled in with its first and last
    coordinate and matched inclusively, whatever the requested RangeMatch -/
theorem slice_arg_unspecified (t : SliceIn α) (i : Nat) (d : DimDesc α) (hd : t.dims[i]? = some d)
    (hs : t.starts[i]? = none) (he : t.ends[i]? = none) (hfill : t.needFill = true) (fs fe : α)
    (h1 : fillStart d = .ok fs) (h2 : fillEnd d ((t.shape[i]?).getD 0) = .ok fe) :
    t.arg i = .ok (d, fs, fe,
      (if (t.units[i]?).isSome && (match d with | .sampled .. => true | .range .. => true | _ => false) then d.unitOrNone
       else match t.units[i]? with | some u => u | none => d.unitOrNone), .inclusive) := by
  unfold SliceIn.arg
  simp only [hd, hs, he, hfill, h1, h2, if_true, Option.isNone_none, Option.isSome_none, Bool.true_and, bne_self_eq_false, Bool.false_and]
  cases hu : t.units[i]? <;> cases d <;> simp

/-- … in the unit of the dimension, whatever unit the caller gave for it (D56: the filled-in bounds of a sampled / range dimension
    were rescaled with the given unit) -/
theorem slice_arg_unspecified_own_unit (t : SliceIn α) (i : Nat) (d : DimDesc α) (hd : t.dims[i]? = some d)
    (hs : t.starts[i]? = none) (he : t.ends[i]? = none) (hfill : t.needFill = true) (fs fe : α)
    (h1 : fillStart d = .ok fs) (h2 : fillEnd d ((t.shape[i]?).getD 0) = .ok fe)
    (hk : (match d with | .sampled .. => true | .range .. => true | _ => false) = true) :
    t.arg i = .ok (d, fs, fe, d.unitOrNone, .inclusive) := by
  rw [slice_arg_unspecified t i d hd hs he hfill fs fe h1 h2]
  cases hu : t.units[i]? <;> simp [hk]

/-- … and such a dimension is returned in full (no unit conversion on its own unit: `scale = none`) -/
theorem slice_unspecified_full (d : DimDesc α) (hwf : DimWF d) (n : Nat) (hn : 1 ≤ n) (hcov : (axisOf d).valid (n - 1))
    (unit : String) (hk : d.scale unit = .ok none)
    (hs : InScope d ((axisOf d).coord 0)) (he : InScope d ((axisOf d).coord (n - 1)))
    (hps : ∀ k', d.scaleScalar unit = .ok k' → InScope d (applyScale k' ((axisOf d).coord 0)))
    (o c : Nat) (h : sliceDim d ((axisOf d).coord 0) ((axisOf d).coord (n - 1)) unit .inclusive = .ok (o, c)) :
    ∀ x, (o ≤ x ∧ x < o + c) ↔ x < n := by
  have hm := axisOf_strictMono d hwf
  have hse : ¬ (axisOf d).coord (n - 1) < (axisOf d).coord 0 := by
    have := (axisOf d).mono_le hm hcov (Nat.zero_le (n - 1)); grind
  have hspec := slice_region_spec d hwf ((axisOf d).coord 0) ((axisOf d).coord (n - 1)) unit .inclusive hse none hk
    (by simpa [applyScale] using hs) (by simpa [applyScale] using he) hps
  rw [h] at hspec
  simp only [applyScale] at hspec
  have hin : ∀ x, inRegion (axisOf d) .inclusive ((axisOf d).coord 0) ((axisOf d).coord (n - 1)) x ↔ x < n := by
    intro x
    simp only [inRegion]
    constructor
    · rintro ⟨hv, _, h2⟩
      apply Nat.lt_of_not_le
      intro hnx
      have := hm (n - 1) x hv (by omega)
      grind
    · intro hx
      have hv : (axisOf d).valid x := (axisOf d).valid_of_le hcov (by omega)
      exact ⟨hv, (axisOf d).mono_le hm hv (Nat.zero_le x), (axisOf d).mono_le hm hcov (by omega)⟩
  rcases hspec with hreg | ⟨_, _, hempty, _⟩
  · intro x; rw [hreg x, hin x]
  · exact absurd ((hin 0).2 (by omega)) (hempty 0)

end slices

section views
variable {V : Type}

theorem ndGt_false_iff : ∀ (a b : Idx), a.length = b.length →
    (((List.zip a b).any fun p => decide (p.1 > p.2)) = false ↔ ∀ i (ha : i < a.length) (hb : i < b.length), a[i] ≤ b[i])
  | [], [], _ => by simp
  | x :: xs, y :: ys, h => by
    have ih := ndGt_false_iff xs ys (by simpa using h)
    simp only [List.zip_cons_cons, List.any_cons, Bool.or_eq_false_iff, decide_eq_false_iff_not, ih]
    constructor
    · rintro ⟨h1, h2⟩ i ha hb
      cases i with
      | zero => simp; omega
      | succ j =>
        simp only [List.getElem_cons_succ]
        exact h2 j (by simpa using ha) (by simpa using hb)
    · intro hall
      refine ⟨by have := hall 0 (by simp) (by simp); simp at this; omega, ?_⟩
      intro i ha hb
      have := hall (i + 1) (by simpa using ha) (by simpa using hb)
      simp only [List.getElem_cons_succ] at this
      exact this
  | [], _ :: _, h => by simp at h
  | _ :: _, [], h => by simp at h

/-- **view_oob_rejected_no_transfer** — a request that extends past the window in some dimension is refused with
    OutOfBounds; the array is not touched (the write returns no new array) -/
theorem view_oob_rejected (v : View) (a : NDArray V) (cnt off : Idx) (vals : List V) (hc : cnt ≠ []) (ho : off ≠ [])
    (hr1 : cnt.length = off.length) (hr2 : cnt.length = v.count.length)
    (hex : ∃ i, ∃ (h1 : i < (addIdx cnt off).length) (h2 : i < v.count.length), (addIdx cnt off)[i] > v.count[i]) :
    v.write a cnt off vals = .error .outOfBounds ∧ v.read a cnt off = .error .outOfBounds := by
  have hce : cnt.isEmpty = false := by cases cnt <;> simp_all
  have hoe : off.isEmpty = false := by cases off <;> simp_all
  have hlen : (addIdx cnt off).length = v.count.length := by
    have : (addIdx cnt off).length = min cnt.length off.length := by simp [addIdx]
    omega
  have hgt : ndGt (addIdx cnt off) v.count = .ok true := by
    unfold ndGt
    simp only [hlen, bne_self_eq_false, Bool.false_eq_true, if_false]
    cases hany : ((List.zip (addIdx cnt off) v.count).any fun p => decide (p.1 > p.2)) with
    | true => rfl
    | false =>
      exfalso
      obtain ⟨i, h1, h2, hi⟩ := hex
      have := (ndGt_false_iff _ _ hlen).1 hany i h1 h2
      omega
  have htr : v.transform cnt off = .error .outOfBounds := by
    unfold View.transform
    simp [hoe, hr1, hgt]
  unfold View.write View.read
  simp [hce, htr]

/-- **view_read_eq_array_read_shifted** — a read through the view is the array read at window origin + offset -/
theorem view_read_eq_array_read_shifted (v : View) (a : NDArray V) (cnt off : Idx) (base : Idx)
    (h : v.transform (if cnt.isEmpty then v.count else cnt) off = .ok base) :
    v.read a cnt off = a.read (if cnt.isEmpty then v.count else cnt) base := by
  unfold View.read; simp only [h]

theorem transform_base (v : View) (cnt off base : Idx) (ho : off ≠ []) (h : v.transform cnt off = .ok base) :
    base = addIdx v.offset off ∧ cnt.length = off.length ∧ (addIdx cnt off).length = v.count.length ∧
    ((List.zip (addIdx cnt off) v.count).any fun p => decide (p.1 > p.2)) = false := by
  have hoe : off.isEmpty = false := by cases off <;> simp_all
  unfold View.transform at h
  simp only [hoe, Bool.false_eq_true, if_false] at h
  by_cases hlen : cnt.length = off.length
  · have hl' : (cnt.length != off.length) = false := by simp [hlen]
    simp only [hl', Bool.false_eq_true, if_false] at h
    unfold ndGt at h
    by_cases hl2 : (addIdx cnt off).length = v.count.length
    · have hl2' : ((addIdx cnt off).length != v.count.length) = false := by simp [hl2]
      simp only [hl2', Bool.false_eq_true, if_false] at h
      cases hany : ((List.zip (addIdx cnt off) v.count).any fun p => decide (p.1 > p.2)) with
      | true => simp [hany] at h
      | false =>
        simp only [hany] at h
        cases h
        exact ⟨rfl, hlen, hl2, rfl⟩
    · have hl2' : ((addIdx cnt off).length != v.count.length) = true := by simp [hl2]
      simp [hl2'] at h
  · have hl' : (cnt.length != off.length) = true := by simp [hlen]
    simp [hl'] at h

/-- a box placed at window origin + offset whose count + offset stays within the window count lies inside the window -/
theorem inBox_window : ∀ (voff vcnt off cnt idx : Idx), voff.length = vcnt.length → off.length = vcnt.length → cnt.length = vcnt.length →
    (∀ i (h1 : i < (addIdx cnt off).length) (h2 : i < vcnt.length), (addIdx cnt off)[i] ≤ vcnt[i]) →
    inBox (addIdx voff off) cnt idx = true → inBox voff vcnt idx = true
  | [], [], [], [], idx, _, _, _, _, h => by simpa [addIdx] using h
  | vo :: vos, vc :: vcs, o :: os, c :: cs, [], _, _, _, _, h => by simp [addIdx, inBox] at h
  | vo :: vos, vc :: vcs, o :: os, c :: cs, i :: is, h1, h2, h3, hall, h => by
    simp only [addIdx, List.zipWith_cons_cons, inBox, Bool.and_eq_true, decide_eq_true_eq] at h ⊢
    have h0 := hall 0 (by simp [addIdx]) (by simp)
    simp [addIdx] at h0
    refine ⟨⟨by omega, by omega⟩, ?_⟩
    apply inBox_window vos vcs os cs is (by simpa using h1) (by simpa using h2) (by simpa using h3)
    · intro j hj1 hj2
      have := hall (j + 1) (by simpa [addIdx] using hj1) (by simpa using hj2)
      simpa [addIdx] using this
    · exact h.2
  | [], _ :: _, _, _, _, h1, _, _, _, _ => by simp at h1
  | _ :: _, [], _, _, _, h1, _, _, _, _ => by simp at h1
  | [], [], _ :: _, _, _, _, h2, _, _, _ => by simp at h2
  | [], [], [], _ :: _, _, _, _, h3, _, _ => by simp at h3
  | _ :: _, _ :: _, [], _, _, _, h2, _, _, _ => by simp at h2
  | _ :: _, _ :: _, _ :: _, [], _, _, _, h3, _, _ => by simp at h3

/-- **view_write_frame** — a write through a view changes nothing outside the window -/
theorem view_write_frame (v : View) (a a' : NDArray V) (cnt off : Idx) (vals : List V) (hc : cnt ≠ []) (ho : off ≠ [])
    (hv : v.offset.length = v.count.length) (hr : v.count.length = a.shape.length)
    (h : v.write a cnt off vals = .ok a') (idx : Idx) (hout : inBox v.offset v.count idx = false) :
    a'.get idx = a.get idx := by
  have hce : cnt.isEmpty = false := by cases cnt <;> simp_all
  unfold View.write at h
  simp only [hce, Bool.false_eq_true, if_false] at h
  cases htr : v.transform cnt off with
  | error e => rw [htr] at h; cases h
  | ok base =>
    rw [htr] at h
    simp only at h
    obtain ⟨hb, hl1, hl2, hany⟩ := transform_base v cnt off base ho htr
    subst hb
    have hlen : (addIdx cnt off).length = v.count.length := hl2
    have hall := (ndGt_false_iff _ _ hlen).1 hany
    have hcl : cnt.length = v.count.length := by
      have : (addIdx cnt off).length = min cnt.length off.length := by simp [addIdx]
      omega
    have hol : off.length = v.count.length := by omega
    -- the write either fails (nothing returned) or addresses the box (origin + offset, count)
    have hbne : addIdx v.offset off ≠ [] := by
      intro hnil
      have h1 : (addIdx v.offset off).length = min v.offset.length off.length := by simp [addIdx]
      have h2 : off.length > 0 := List.length_pos_iff.mpr ho
      rw [hnil] at h1
      simp only [List.length_nil] at h1
      omega
    have hnb : inBox (addIdx v.offset off) cnt idx = false := by
      cases hx : inBox (addIdx v.offset off) cnt idx with
      | false => rfl
      | true =>
        have := inBox_window v.offset v.count off cnt idx hv hol hcl hall hx
        rw [this] at hout; cases hout
    by_cases hbk : a.boxOk (addIdx v.offset off) cnt = true
    · rw [C01.get_write a a' cnt _ vals hc hbne hbk h idx, hnb]
      simp
    · have hbk' : a.boxOk (addIdx v.offset off) cnt = false := by simpa using hbk
      have hbl : (addIdx v.offset off).length = a.shape.length := by
        have : (addIdx v.offset off).length = min v.offset.length off.length := by simp [addIdx]
        omega
      by_cases hz : 0 ∈ cnt
      · exact C01.get_write_zero a a' cnt _ vals hbne (by omega) hbl hz h idx
      · rw [C01.write_outside_rejected a cnt _ vals hc hbne (by omega) hbl hz hbk'] at h
        cases h

end views

end Nix.C17
