import NixModel.Bulk
import NixModel.Props.C12Ids
import NixModel.Proofs.SysHistory
/-
  C08 / C12 for the bulk setters of the multi-valued links (`NixModel/Bulk.lean`): references / sources / group members replaced
  by a vector in one call.
-/
namespace Nix.St
open Nix Store

/-- **a refused vector leaves no trace** — when the look at the vector finds an uninitialised entity or one that is not in the
    block, the call answers with that exception and returns the store it was given: no old link has been dropped, no new one
    added (what D46, D47, D48 violated: the C++ unlinked first and looked later) -/
theorem setLinks_refused_vector_no_trace (s : Store) (rel : String) (h : Handle) (targets : List (Option Handle)) (e : Err)
    (hv : bulkValidate s rel h [] targets = .error e) : setLinks s rel h targets = (s, .error e) := by
  unfold setLinks; rw [hv]

/-- an uninitialised entity anywhere in the vector is such a refusal, for every relation -/
theorem bulkValidate_uninitialised (s : Store) (rel : String) (h : Handle) :
    ∀ (ts : List (Option Handle)) (l : List ObjId), none ∈ ts → ∃ e, bulkValidate s rel h l ts = .error e
  | [], _, hm => by simp at hm
  | t :: ts, l, hm => by
    unfold bulkValidate
    cases hl : bulkLook s rel h l t with
    | error e => exact ⟨e, rfl⟩
    | ok l' =>
      simp only
      rcases List.mem_cons.1 hm with h0 | h1
      · subst h0; simp [bulkLook] at hl
      · exact bulkValidate_uninitialised s rel h ts l' h1

/-- … conversely: a vector that is accepted holds initialised entities only -/
theorem bulkValidate_ok_all_initialised (s : Store) (rel : String) (h : Handle) (ts : List (Option Handle)) (objs : List ObjId)
    (hv : bulkValidate s rel h [] ts = .ok objs) : none ∉ ts := by
  intro hm
  obtain ⟨e, he⟩ := bulkValidate_uninitialised s rel h ts [] hm
  rw [he] at hv; cases hv

theorem setLinks_uninitialised_no_trace (s : Store) (rel : String) (h : Handle) (targets : List (Option Handle))
    (hm : none ∈ targets) : ∃ e, setLinks s rel h targets = (s, .error e) := by
  obtain ⟨e, he⟩ := bulkValidate_uninitialised s rel h targets [] hm
  exact ⟨e, setLinks_refused_vector_no_trace s rel h targets e he⟩

/-! ids are kept (C12), whatever the outcome -/

theorem clearLinks_idsKept (c : ObjId) : ∀ (ns : List String) (s : Store), IdsKept s (clearLinks c s ns)
  | [], s => IdsKept.refl s
  | n :: ns, s => (IdsKept.removeGroup s c n).trans (clearLinks_idsKept c ns _)

theorem bulkClear_idsKept (s : Store) (rel : String) (h : Handle) : IdsKept s (bulkClear s rel h) := by
  unfold bulkClear
  split
  · exact clearLinks_idsKept _ _ _
  · exact IdsKept.refl s

theorem bulkAddOne_idsKept (s : Store) (rel : String) (h : Handle) (o : ObjId) : IdsKept s (bulkAddOne s rel h o).1 := by
  unfold bulkAddOne
  split
  · exact addReference_idsKept _ _ _ _
  · split
    · exact addSource_idsKept _ _ _ _
    · exact addMember_idsKept _ _ _ _ _ _

theorem bulkAdd_idsKept (rel : String) (h : Handle) : ∀ (os : List ObjId) (s : Store), IdsKept s (bulkAdd rel h s os).1
  | [], s => IdsKept.refl s
  | o :: os, s => by
    unfold bulkAdd
    have h1 := bulkAddOne_idsKept s rel h o
    cases hr : bulkAddOne s rel h o with
    | mk s' r =>
      rw [hr] at h1
      cases r with
      | ok u => cases u; exact h1.trans (bulkAdd_idsKept rel h os s')
      | error e => exact h1

/-- **a bulk setter never touches an id** — accepted, refused at the vector, or failing half way -/
theorem setLinks_idsKept (s : Store) (rel : String) (h : Handle) (targets : List (Option Handle)) :
    IdsKept s (setLinks s rel h targets).1 := by
  unfold setLinks
  split
  · exact IdsKept.refl s
  · exact (bulkClear_idsKept s rel h).trans (bulkAdd_idsKept rel h _ _)

/-! the system invariant (root group, `metadata` / `data`, nothing links to them) is preserved -/

theorem clearLinks_sys (c : ObjId) (hc : c ≠ 0) : ∀ (ns : List String) (s : Store), Sys s → Sys (clearLinks c s ns)
  | [], _, hs => hs
  | n :: ns, s, hs => clearLinks_sys c hc ns _ (hs.removeGroup c n hc)

theorem bulkClear_sys (s : Store) (rel : String) (h : Handle) (hs : Sys s) (hh : 3 ≤ h.obj) : Sys (bulkClear s rel h) := by
  unfold bulkClear
  split
  · rename_i c hc
    exact clearLinks_sys c (ne0_of_low (hs.optGroup_low (ne0_of_low hh) hc)) _ _ hs
  · exact hs

theorem bulkAddOne_sys (s : Store) (rel : String) (h : Handle) (o : ObjId) (hs : Sys s) (hh : 3 ≤ h.obj) (hb : 3 ≤ h.blk) :
    Sys (bulkAddOne s rel h o).1 := by
  unfold bulkAddOne
  split
  · exact addReference_sys hs _ _ _ hh hb
  · split
    · exact addSource_sys hs _ _ _ hh hb
    · exact addMember_sys hs _ _ _ _ _ hh hb

theorem bulkAdd_sys (rel : String) (h : Handle) (hh : 3 ≤ h.obj) (hb : 3 ≤ h.blk) :
    ∀ (os : List ObjId) (s : Store), Sys s → Sys (bulkAdd rel h s os).1
  | [], _, hs => hs
  | o :: os, s, hs => by
    unfold bulkAdd
    have h1 := bulkAddOne_sys s rel h o hs hh hb
    cases hr : bulkAddOne s rel h o with
    | mk s' r =>
      rw [hr] at h1
      cases r with
      | ok u => cases u; exact bulkAdd_sys rel h hh hb os s' h1
      | error e => exact h1

theorem setLinks_sys (s : Store) (rel : String) (h : Handle) (targets : List (Option Handle)) (hs : Sys s)
    (hh : 3 ≤ h.obj) (hb : 3 ≤ h.blk) : Sys (setLinks s rel h targets).1 := by
  unfold setLinks
  split
  · exact hs
  · exact bulkAdd_sys rel h hh hb _ _ (bulkClear_sys s rel h hs hh)

/-! non-vacuity: the hypothesis of `setLinks_refused_vector_no_trace` is met by every vector that holds an uninitialised entity
    (`bulkValidate_uninitialised`), in every store, for every relation; the accepting path is exercised against the library by the
    correspondence runs (op `setlinks`) -/
example (s : Store) (h a : Handle) : ∃ e, setLinks s "ref" h [some a, none] = (s, .error e) :=
  setLinks_uninitialised_no_trace s "ref" h [some a, none] (by simp)

end Nix.St
