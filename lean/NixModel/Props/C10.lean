import NixModel.Version
import NixModel.Spec.C10
/-
  C10 — format-version gate and order.  Property theorems only.
-/
namespace Nix.C10
open Nix FormatVersion

theorem lt_iff_specLt (a b : FormatVersion) : lt a b = true ↔ specLt a b := by
  unfold lt specLt FormatVersion.get
  simp only []
  constructor
  · intro h
    split at h
    · left; assumption
    · split at h
      · simp at h
      · have hx : a.x = b.x := by omega
        split at h
        · right; exact ⟨hx, Or.inl ‹_›⟩
        · split at h
          · simp at h
          · have hy : a.y = b.y := by omega
            split at h
            · right; exact ⟨hx, Or.inr ⟨hy, ‹_›⟩⟩
            · split at h <;> simp at h
  · intro h
    rcases h with h | ⟨hx, h | ⟨hy, hz⟩⟩
    · simp [h]
    · have : ¬ a.x < b.x := by omega
      have : ¬ b.x < a.x := by omega
      simp [*]
    · have : ¬ a.x < b.x := by omega
      have : ¬ b.x < a.x := by omega
      have : ¬ a.y < b.y := by omega
      have : ¬ b.y < a.y := by omega
      simp [*]

theorem eq_iff (a b : FormatVersion) : eq a b = true ↔ a = b := by
  cases a; cases b; simp [eq]; omega

/-- read gate: accepted iff same major and file minor not newer than the library's -/
theorem gate_read_iff (lib v : FormatVersion) :
    openExisting lib (headerWithVersion v) .readOnly false = .accepted ↔ (v.x = lib.x ∧ v.y ≤ lib.y) := by
  simp only [openExisting, checkHeader, headerWithVersion, FormatVersion.ofList?, canRead]
  by_cases hx : lib.x = v.x <;> by_cases hy : v.y ≤ lib.y <;> simp [hx, hy] <;> omega

/-- write gate: accepted iff all three components identical -/
theorem gate_write_iff (lib v : FormatVersion) :
    openExisting lib (headerWithVersion v) .readWrite false = .accepted ↔ v = lib := by
  simp only [openExisting, checkHeader, headerWithVersion, FormatVersion.ofList?, canWrite]
  by_cases h : eq lib v = true
  · have := (eq_iff lib v).1 h; subst this; simp [h]
  · have h' : ¬ lib = v := fun e => h ((eq_iff lib v).2 e)
    have : ¬ v = lib := fun e => h' e.symm
    simp [h, this]

/-- the gate instantiated with the version extracted from the source -/
theorem gate_read_iff_lib (v : FormatVersion) :
    openExisting libVersion (headerWithVersion v) .readOnly false = .accepted ↔ (v.x = libVersion.x ∧ v.y ≤ libVersion.y) :=
  gate_read_iff _ _
theorem gate_write_iff_lib (v : FormatVersion) :
    openExisting libVersion (headerWithVersion v) .readWrite false = .accepted ↔ v = libVersion :=
  gate_write_iff _ _

/-- Force bypasses the version check (a three-component version never makes the constructor throw) -/
theorem force_bypasses (lib v : FormatVersion) (m : FileMode) :
    openExisting lib (headerWithVersion v) m true = .accepted := by
  cases m <;> simp [openExisting, checkHeader, headerWithVersion, FormatVersion.ofList?]

/-- Overwrite never consults the header -/
theorem overwrite_accepts (lib : FormatVersion) (h : Header) (f : Bool) :
    openExisting lib h .overwrite f = .accepted := rfl

/-! ### ordering laws -/

theorem lt_irrefl (a : FormatVersion) : lt a a = false := by
  cases h : lt a a
  · rfl
  · have := (lt_iff_specLt a a).1 h; unfold specLt at this; omega

theorem lt_trans (a b c : FormatVersion) (h₁ : lt a b = true) (h₂ : lt b c = true) : lt a c = true := by
  rw [lt_iff_specLt] at *; unfold specLt at *; omega

theorem lt_asymm (a b : FormatVersion) (h : lt a b = true) : lt b a = false := by
  cases h' : lt b a
  · rfl
  · rw [lt_iff_specLt] at *; unfold specLt at *; omega

theorem lt_trichotomous (a b : FormatVersion) : lt a b = true ∨ a = b ∨ lt b a = true := by
  rw [lt_iff_specLt, lt_iff_specLt]; unfold specLt
  by_cases h : a = b
  · right; left; exact h
  · have : a.x ≠ b.x ∨ a.y ≠ b.y ∨ a.z ≠ b.z := by
      cases a; cases b; simp at h ⊢; omega
    omega

/-- exactly one of `<`, `=`, `>` holds: "consistent with equality" -/
theorem eq_iff_not_lt_not_gt (a b : FormatVersion) :
    eq a b = true ↔ (lt a b = false ∧ gt a b = false) := by
  rw [eq_iff]; unfold gt
  constructor
  · rintro rfl; exact ⟨lt_irrefl a, lt_irrefl a⟩
  · rintro ⟨h₁, h₂⟩
    rcases lt_trichotomous a b with h | h | h
    · rw [h] at h₁; cases h₁
    · exact h
    · rw [h] at h₂; cases h₂

theorem le_iff_lt_or_eq (a b : FormatVersion) : le a b = true ↔ (lt a b = true ∨ a = b) := by
  unfold le gt
  constructor
  · intro h
    rcases lt_trichotomous a b with h' | h' | h'
    · exact Or.inl h'
    · exact Or.inr h'
    · simp [h'] at h
  · rintro (h | rfl)
    · simp [lt_asymm a b h]
    · simp [lt_irrefl]

theorem ge_iff_gt_or_eq (a b : FormatVersion) : ge a b = true ↔ (gt a b = true ∨ a = b) := by
  unfold ge gt
  constructor
  · intro h
    rcases lt_trichotomous a b with h' | h' | h'
    · simp [h'] at h
    · exact Or.inr h'
    · exact Or.inl h'
  · rintro (h | rfl)
    · simp [lt_asymm b a h]
    · simp [lt_irrefl]

theorem ne_iff (a b : FormatVersion) : ne a b = true ↔ a ≠ b := by
  unfold ne
  have := eq_iff a b
  cases h : eq a b <;> simp [h] at this ⊢ <;> exact this

theorem le_total (a b : FormatVersion) : le a b = true ∨ le b a = true := by
  rcases lt_trichotomous a b with h | h | h
  · exact Or.inl ((le_iff_lt_or_eq a b).2 (Or.inl h))
  · exact Or.inl ((le_iff_lt_or_eq a b).2 (Or.inr h))
  · exact Or.inr ((le_iff_lt_or_eq b a).2 (Or.inl h))

/-! ### non-vacuity -/
example : openExisting ⟨1,2,0⟩ (headerWithVersion ⟨1,1,7⟩) .readOnly false = .accepted := by decide
example : openExisting ⟨1,2,0⟩ (headerWithVersion ⟨1,3,0⟩) .readOnly false = .invalidFile := by decide
example : openExisting ⟨1,2,0⟩ (headerWithVersion ⟨1,2,1⟩) .readWrite false = .invalidFile := by decide
example : lt ⟨1,2,3⟩ ⟨1,3,0⟩ = true ∧ lt ⟨1,3,0⟩ ⟨1,2,3⟩ = false := by decide

end Nix.C10
