import NixModel.Props.C05
import NixModel.Step
/-
  C16 — no undefined behaviour: what a model can carry.

  A Lean model cannot observe memory.  It can carry the INDEX ARITHMETIC: in `Region.lean` every raw C++ access
  (`position[i]`, `extent[i]`, `max_extents[i]`, `units[i]`, `my_start[i]`, `my_end[i]`, `positions_row[i]`,
  `extents_row[i]`, `dims[i]`) is an optional access whose `none` case stands for "reads outside the vector".
  The theorems below show, for every rank, every argument vector length and every dimension index the loops visit,
  that those cases are never reached:
    * `tag_accesses_in_bounds`   — the loop of getOffsetAndCount(Tag …),
    * `slice_accesses_in_bounds` — the loop of dataSlice after fillPositionsExtentsAndUnits (a missing start / end entry
      is only ever read from the filled-in copy: the theorem that was false of the pinned tree, D3),
    * `mtag_accesses_in_bounds`  — the assembly loop of getOffsetAndCount(MultiTag …), given that positions and extents rows
      have the same length (what `MultiTag::extents` enforces).
  and for the store model that an uninitialised or stale array handle given to createMultiTag / createFeature is answered
  with UninitializedEntity before anything is touched.
  Everything else the property says (the compiled library never crashes, whatever the misuse) is the tie's: the abuse
  programs of checks/C16.py on the ASan + UBSan build.
-/
namespace Nix.C16
open Nix Nix.C05

variable {α : Type} [Scalar α]

theorem getElem?_range_lt {n i : Nat} (h : i < n) : (List.range n)[i]? = some i := by
  simp [h]

/-- getOffsetAndCount(Tag): every vector access of the per-dimension loop is inside its vector -/
theorem tag_accesses_in_bounds (t : TagIn α) (maxExt : List (α × α)) (hm : t.maxExt = .ok maxExt) (i : Nat) (hi : i < t.dims.length) :
    (t.dims[i]?).isSome = true ∧ (i < t.specified → (t.position[i]?).isSome = true) ∧
    (¬ i < t.specified → (maxExt[i]?).isSome = true) := by
  refine ⟨by simp [hi], ?_, ?_⟩
  · intro hs
    have : i < t.position.length := by unfold TagIn.specified at hs; omega
    simp [this]
  · intro hs
    have hp : t.position.length < t.dims.length := by unfold TagIn.specified at hs; omega
    unfold TagIn.maxExt at hm
    simp only [hp, if_true] at hm
    obtain ⟨hl, _⟩ := mapExcept_ok _ _ _ hm
    have : i < maxExt.length := by rw [hl]; simpa using hi
    simp [this]

/-- dataSlice: a start / end entry the caller did not give is read only from the filled-in copy -/
theorem slice_accesses_in_bounds (t : SliceIn α) (i : Nat) (hi : i < t.dims.length) :
    (t.dims[i]?).isSome = true ∧ ((t.starts[i]?).isNone = true → t.needFill = true) ∧ ((t.ends[i]?).isNone = true → t.needFill = true) := by
  refine ⟨by simp [hi], ?_, ?_⟩
  · intro h
    have : t.starts.length ≤ i := by simpa using h
    unfold SliceIn.needFill
    have : t.starts.length < t.dims.length := by omega
    simp [this]
  · intro h
    have : t.ends.length ≤ i := by simpa using h
    unfold SliceIn.needFill
    have : t.ends.length < t.dims.length := by omega
    simp [this]

/-- consequently `SliceIn.arg` never takes its "raw access outside the vector" branches -/
theorem slice_arg_no_raw_overrun (t : SliceIn α) (i : Nat) (hi : i < t.dims.length) (h : t.arg i = .error .stdOutOfRange) : False := by
  obtain ⟨hd, hs, he⟩ := slice_accesses_in_bounds t i hi
  unfold SliceIn.arg at h
  cases hdi : t.dims[i]? with
  | none => simp [hdi] at hd
  | some d =>
    simp only [hdi] at h
    cases hsi : t.starts[i]? with
    | some s =>
      simp only [hsi] at h
      cases hei : t.ends[i]? with
      | some e => simp [hei] at h
      | none =>
        have hn := he (by simp [hei])
        simp only [hei, hn, if_true] at h
        cases hf : fillEnd d ((t.shape[i]?).getD 0) with
        | error x => simp [hf] at h; subst h; cases d <;> simp [fillEnd] at hf <;> (split at hf <;> simp at hf)
        | ok v =>
          simp only [hf] at h
          repeat' (split at h)
          all_goals (simp at h)
    | none =>
      have hn := hs (by simp [hsi])
      simp only [hsi, hn, if_true] at h
      cases hf : fillStart d with
      | error x => simp [hf] at h; subst h; cases d <;> simp [fillStart] at hf <;> (split at hf <;> simp at hf)
      | ok v =>
        simp only [hf] at h
        cases hei : t.ends[i]? with
        | some e =>
          simp only [hei] at h
          repeat' (split at h)
          all_goals (simp at h)
        | none =>
          simp only [hei, hn, if_true] at h
          cases hf2 : fillEnd d ((t.shape[i]?).getD 0) with
          | error x => simp [hf2] at h; subst h; cases d <;> simp [fillEnd] at hf2 <;> (split at hf2 <;> simp at hf2)
          | ok v =>
            simp only [hf2] at h
            repeat' (split at h)
            all_goals (simp at h)

theorem maximumExtents_length (dims : List (DimDesc α)) (shape : List Nat) (r : List (α × α)) (h : maximumExtents dims shape = .ok r) :
    r.length = dims.length := by
  unfold maximumExtents at h
  obtain ⟨hl, _⟩ := mapExcept_ok _ _ _ h
  simpa using hl

/-- getOffsetAndCount(MultiTag): every vector access of the assembly loop is inside its vector -/
theorem mtag_accesses_in_bounds (t : MTagIn α) (maxIndex : Nat) (maxExt : List (α × α)) (hp : t.prepare maxIndex = .ok maxExt)
    (idx i : Nat) (hi : i < t.dims.length) (hrows : (t.extRow idx).length = (t.posRow idx).length) :
    (t.dims[i]?).isSome = true ∧ (t.unitsPadded[i]?).isSome = true ∧
    (i < min (t.posRow idx).length t.dims.length → ((t.posRow idx)[i]?).isSome = true ∧ ((t.extRow idx)[i]?).isSome = true) ∧
    (¬ i < min (t.posRow idx).length t.dims.length → (maxExt[i]?).isSome = true) := by
  refine ⟨by simp [hi], ?_, ?_, ?_⟩
  · have : i < t.unitsPadded.length := by
      unfold MTagIn.unitsPadded; simp; omega
    simp [this]
  · intro h
    have h1 : i < (t.posRow idx).length := by omega
    have h2 : i < (t.extRow idx).length := by omega
    simp [h1, h2]
  · intro _
    unfold MTagIn.prepare at hp
    cases hm : t.maxExt0 with
    | error x => simp [hm] at hp
    | ok m =>
      simp only [hm] at hp
      have hmeq : m = maxExt := by
        repeat' (split at hp)
        all_goals (first | (simp at hp; done) | (simp at hp; exact hp))
      subst hmeq
      unfold MTagIn.maxExt0 at hm
      have hpos : t.dims.length > 0 := by omega
      simp only [hpos, if_true] at hm
      have := maximumExtents_length _ _ _ hm
      have : i < m.length := by omega
      simp [this]

end Nix.C16

namespace Nix.St

/-- an uninitialised or stale positions handle is refused before anything is looked up or created -/
theorem createMultiTag_uninitialised (s : Store) (b : ObjId) (n t i c : String) (ph : Option Handle)
    (hc : checkNameAndType n t = .ok ()) (hv : validHandle s ph = false) :
    createMultiTag s b n t i c ph = (s, .error .uninitializedEntity) := by
  unfold createMultiTag; simp [hc, hv]

theorem createFeature_uninitialised (s : Store) (tag b : ObjId) (i c lt : String) (dh : Option Handle)
    (hv : validHandle s dh = false) : createFeature s tag b i c lt dh = (s, .error .uninitializedEntity) := by
  unfold createFeature; simp [hv]

theorem validHandle_none (s : Store) : validHandle s none = false := rfl

end Nix.St
