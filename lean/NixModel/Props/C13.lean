import NixModel.Proofs.DimDescInv
/-
  C13 — dimension descriptors are gap-free, faithful, and aliases mirror their array.
  Property theorems about the model lean/NixModel/DimDesc.lean, for every array (rank, element type), every environment
  (unit predicate, element-type conversion, data frames) and every history of API calls.  `double` is an abstract type with the
  operations of `Scalar` and NO laws, except in `ticks_sorted_pairwise` (transitivity of `≤`).

  Reading guide: `Refines` / `step_refines` (Proofs/DimDescRefine.lean) say that one call of the C++-ordered, name-keyed model is
  accepted iff the specification (Spec/C13.lean `illegal`) does not forbid it and then has exactly the specified effect on the
  descriptors seen by position; `rel_observe` that the relation `C13.Rel` holds of what the getters return.
-/
set_option linter.unusedSectionVars false
set_option linter.unusedSimpArgs false
set_option linter.unusedVariables false
namespace Nix.C13
open Nix Nix.DimDesc

variable {α : Type} [Scalar α]

theorem gapfree_init {a : Arr α} (h0 : a.dims = []) : GapFree a := by simp [GapFree, Arr.names, Arr.count, h0]
theorem valid_init {a : Arr α} (h0 : a.dims = []) : Valid a := by intro g hg; simp [h0] at hg

/-! ### numbering -/

/-- **dims_gapfree_invariant** — after every history that starts without dimensions, the link names of the `dimensions` group
    are exactly 1, 2, …, n in creation (= append) order -/
theorem dims_gapfree_invariant (env : Env α) (a0 : Arr α) (h0 : a0.dims = []) (ops : List (Op α)) :
    (run env a0 ops).names = List.range' 1 (run env a0 ops).count :=
  (run_invariant env ops a0 (gapfree_init h0) (valid_init h0)).1

/-- `getDimension(i)` yields a descriptor exactly for 1 ≤ i ≤ dimensionCount; 0 and n+1 give the empty handle;
    the descriptor found is the i-th appended one -/
theorem getDimension_defined_iff (env : Env α) (a0 : Arr α) (h0 : a0.dims = []) (ops : List (Op α)) (i : Nat) :
    (((run env a0 ops).lookup i).isSome ↔ 1 ≤ i ∧ i ≤ (run env a0 ops).count) ∧
    (run env a0 ops).lookup i = (if 1 ≤ i then (run env a0 ops).dims[i - 1]? else none) := by
  have h := (run_invariant env ops a0 (gapfree_init h0) (valid_init h0)).1
  have hl := lookup_gapfree h i
  refine ⟨?_, hl⟩
  rw [hl]
  by_cases hi : 1 ≤ i
  · simp [hi, Arr.count]; omega
  · simp [hi]

/-- `dimensions()` reports the indices 1..n in order -/
theorem dimensions_indices (env : Env α) (a0 : Arr α) (h0 : a0.dims = []) (ops : List (Op α)) :
    dimensionIndices (run env a0 ops) = List.range' 1 (run env a0 ops).count :=
  dimensionIndices_gapfree (run_invariant env ops a0 (gapfree_init h0) (valid_init h0)).1

/-- **createGroup_keeps_gapfree** — `createDimensionGroup(index)` with ANY index either refuses (index outside 1..count+1) or
    leaves the names a permutation of 1..n': it appends name count+1, or replaces the group of an existing name -/
theorem createGroup_keeps_gapfree (a a' : Arr α) (idx : Nat) (d : Desc α) (h : GapFreeSet a)
    (hc : a.createGroup idx d = .ok a') : GapFreeSet a' ∧ (a'.count = a.count ∨ a'.count = a.count + 1) := by
  unfold Arr.createGroup at hc
  split at hc
  · cases hc
  · next hidx =>
    simp only [Except.ok.injEq] at hc
    subst hc
    unfold GapFreeSet Arr.names Arr.count at *
    simp only []
    have hnames := names_createGroup a.dims idx d
    have hnd : (a.dims.map (·.name)).Nodup := h.nodup_iff.2 List.nodup_range'
    have hlenN := congrArg List.length hnames
    simp only [List.length_map] at hlenN
    by_cases hlast : idx = a.dims.length + 1
    · have hnot : ∀ n ∈ a.dims.map (·.name), (n != idx) = true := by
        intro n hn
        have := (h.mem_iff).1 hn
        rw [List.mem_range'_1] at this
        simp; omega
      have hf : (a.dims.map (·.name)).filter (fun n => n != idx) = a.dims.map (·.name) := List.filter_eq_self.2 hnot
      rw [hf] at hnames hlenN
      simp only [List.length_append, List.length_map, List.length_cons, List.length_nil] at hlenN
      refine ⟨?_, Or.inr (by simpa using hlenN)⟩
      rw [hnames]
      have : (List.filter (fun g : Grp α => decide (g.name ≠ idx)) a.dims ++ [(⟨idx, d⟩ : Grp α)]).length = a.dims.length + 1 := by
        simpa using hlenN
      rw [this, List.range'_1_concat, hlast]
      rw [Nat.add_comm 1 a.dims.length]
      exact List.Perm.append_right _ h
    · have hmem : idx ∈ a.dims.map (·.name) := by
        rw [h.mem_iff, List.mem_range'_1]; omega
      have he : (a.dims.map (·.name)).filter (fun n => n != idx) = (a.dims.map (·.name)).erase idx :=
        (List.Nodup.erase_eq_filter hnd idx).symm
      rw [he] at hnames hlenN
      have hpos : 0 < a.dims.length := by
        cases hd : a.dims with
        | nil => simp [hd] at hmem
        | cons _ _ => simp
      simp only [List.length_append, List.length_erase_of_mem hmem, List.length_map, List.length_cons, List.length_nil] at hlenN
      have hlen' : (List.filter (fun g : Grp α => decide (g.name ≠ idx)) a.dims ++ [(⟨idx, d⟩ : Grp α)]).length = a.dims.length := by
        simp only [List.length_append, List.length_cons, List.length_nil] at hlenN ⊢; omega
      refine ⟨?_, Or.inl hlen'⟩
      rw [hnames, hlen']
      exact (List.perm_append_comm.trans (List.perm_cons_erase hmem).symm).trans h

theorem apply_append (env : Env α) (s : Shadow α) (op : Op α) (d : Desc α) (h : appendedDesc env op = some d) :
    (s.apply env op).dims = s.dims ++ [d] := by
  cases op <;> simp [appendedDesc] at h <;> simp [Shadow.apply, h]

/-- an accepted append adds exactly the specified descriptor at the end, reports index count+1, and leaves the descriptors
    appended before where they were -/
theorem append_gets_next_index (env : Env α) (a0 : Arr α) (h0 : a0.dims = []) (ops : List (Op α)) (op : Op α) (d : Desc α)
    (a' : Arr α) (n : Nat) (hop : appendedDesc env op = some d) (hs : step env (run env a0 ops) op = .ok (a', n)) :
    n = (run env a0 ops).count + 1 ∧ a'.count = n ∧ (toShadow a').dims = (toShadow (run env a0 ops)).dims ++ [d] ∧
    getDimension env a' n = some (n, viewD env a'.label a'.unit a'.data d) := by
  have h := (run_invariant env ops a0 (gapfree_init h0) (valid_init h0)).1
  have hr := step_refines env h op
  unfold Refines at hr
  rw [hs] at hr
  have hd := apply_append env (toShadow (run env a0 ops)) op d hop
  rw [← hr.2.1] at hd
  have hcnt : ∀ b : Arr α, b.count = (toShadow b).dims.length := by intro b; simp [toShadow, Arr.count]
  have hro : (run env a0 ops).ro = false := by
    have := hr.1; cases op <;> simp [appendedDesc] at hop <;> simp [accepts, toShadow] at this <;> exact this.1
  have hn : n = (run env a0 ops).count + 1 := by
    cases op <;> simp [appendedDesc] at hop <;> simp [step, hro, Except.map] at hs
    case appendAlias =>
      have := hr.1; simp [accepts, illegal, toShadow] at this
      have h0 : (run env a0 ops).count = 0 := by simp [Arr.count, this.2.1.2]
      split at hs <;> simp at hs; omega
    all_goals (split at hs <;> simp at hs; omega)
  have hc : a'.count = n := by rw [hcnt a', hd, hn, hcnt]; simp
  refine ⟨hn, hc, hd, ?_⟩
  rw [getDimension_eq_expect env hr.2.2]
  unfold Shadow.expect Shadow.get
  have hn0 : n ≠ 0 := by omega
  have : (toShadow a').dims[n - 1]? = some d := by
    rw [hd]; rw [hn, hcnt]; simp
  simp only [hn0, if_false, this, Option.map_some]
  simp [toShadow]


/-! ### each descriptor reads back what it was given -/

/-- **dim_roundtrip (sampled)**: interval, offset (0.0 = none), unit and label ("" = none) as given -/
theorem dim_roundtrip_sampled (env : Env α) (a0 : Arr α) (h0 : a0.dims = []) (ops : List (Op α)) (si : α) (l u : String) (o : α)
    (a' : Arr α) (n : Nat) (hs : step env (run env a0 ops) (.appendSampled si l u o) = .ok (a', n)) :
    getDimension env a' n =
      some (n, .sampled si (if Scalar.beq o Scalar.zero then none else some o) (optArg u) (optArg l)) := by
  have := (append_gets_next_index env a0 h0 ops _ _ a' n rfl hs).2.2.2
  simpa [viewD] using this

/-- **dim_roundtrip (range)** -/
theorem dim_roundtrip_range (env : Env α) (a0 : Arr α) (h0 : a0.dims = []) (ops : List (Op α)) (t : List α) (l u : String)
    (a' : Arr α) (n : Nat) (hs : step env (run env a0 ops) (.appendRange t l u) = .ok (a', n)) :
    getDimension env a' n = some (n, .range false t (optArg u) (optArg l)) := by
  have := (append_gets_next_index env a0 h0 ops _ _ a' n rfl hs).2.2.2
  simpa [viewD] using this

/-- **dim_roundtrip (set)** -/
theorem dim_roundtrip_set (env : Env α) (a0 : Arr α) (h0 : a0.dims = []) (ops : List (Op α)) (labels : List String)
    (a' : Arr α) (n : Nat) (hs : step env (run env a0 ops) (.appendSet labels) = .ok (a', n)) :
    getDimension env a' n = some (n, .set labels none) := by
  have := (append_gets_next_index env a0 h0 ops _ _ a' n rfl hs).2.2.2
  rw [this]
  cases labels <;> simp [viewD]

/-- **dim_roundtrip (data frame)**: the frame of the block and the column designated by index or by name -/
theorem dim_roundtrip_frame (env : Env α) (a0 : Arr α) (h0 : a0.dims = []) (ops : List (Op α)) (f : FrameArg) (c : ColArg)
    (a' : Arr α) (n : Nat) (hs : step env (run env a0 ops) (.appendFrame f c) = .ok (a', n)) :
    getDimension env a' n =
      some (n, .frame env.frameName (resolveCol env c) (frameLabel env (resolveCol env c)) (frameUnit env (resolveCol env c))) := by
  have := (append_gets_next_index env a0 h0 ops _ _ a' n rfl hs).2.2.2
  simpa [viewD] using this

/-- **dim_roundtrip (alias)**: an alias shows the array -/
theorem dim_roundtrip_alias (env : Env α) (a0 : Arr α) (h0 : a0.dims = []) (ops : List (Op α))
    (a' : Arr α) (n : Nat) (hs : step env (run env a0 ops) .appendAlias = .ok (a', n)) :
    n = 1 ∧ getDimension env a' 1 = some (1, .range true a'.data a'.unit a'.label) := by
  have h := append_gets_next_index env a0 h0 ops _ _ a' n rfl hs
  have hn : n = 1 := by
    have hg := (run_invariant env ops a0 (gapfree_init h0) (valid_init h0)).1
    have hr := step_refines env hg .appendAlias
    unfold Refines at hr; rw [hs] at hr
    have := hr.1; simp [accepts, illegal, toShadow] at this
    rw [h.1]; simp [Arr.count, this.2.1.2]
  subst hn
  exact ⟨rfl, by simpa [viewD] using h.2.2.2⟩

/-- what is stored is what is read after reopening: the getters are functions of the store, which `reopen` does not touch -/
theorem reopen_preserves (env : Env α) (a : Arr α) (r : Bool) :
    observe env (next env a (.reopen r)) = observe env a := rfl

/-! ### value invariants -/

/-- **ticks_sorted_invariant** — in every reachable state the ticks of every range descriptor that is not an alias pass the
    sortedness check (no neighbours with `!(a ≤ b)`), whichever entry point stored them -/
theorem ticks_sorted_invariant (env : Env α) (a0 : Arr α) (h0 : a0.dims = []) (ops : List (Op α)) (g : Grp α)
    (hg : g ∈ (run env a0 ops).dims) (t : List α) (hb : g.d.body = .range t) : ascending t = true := by
  have hv := (run_invariant env ops a0 (gapfree_init h0) (valid_init h0)).2.1 g hg
  simpa [ValidDesc, hb] using hv

/-- with a transitive `≤` the check means: every earlier tick is ≤ every later tick -/
theorem ascending_pairwise [Std.IsPreorder α] : ∀ (t : List α), ascending t = true → t.Pairwise (· ≤ ·)
  | [], _ => List.Pairwise.nil
  | [x], _ => by simp
  | x :: y :: rest, h => by
    simp only [ascending, Bool.and_eq_true, decide_eq_true_eq] at h
    have ih := ascending_pairwise (y :: rest) h.2
    rw [List.pairwise_cons]
    refine ⟨?_, ih⟩
    intro z hz
    rcases List.mem_cons.1 hz with hz | hz
    · rw [hz]; exact h.1
    · exact Std.le_trans h.1 ((List.pairwise_cons.1 ih).1 z hz)

theorem ticks_sorted_pairwise [Std.IsPreorder α] (env : Env α) (a0 : Arr α) (h0 : a0.dims = []) (ops : List (Op α)) (g : Grp α)
    (hg : g ∈ (run env a0 ops).dims) (t : List α) (hb : g.d.body = .range t) : t.Pairwise (· ≤ ·) :=
  ascending_pairwise t (ticks_sorted_invariant env a0 h0 ops g hg t hb)

/-- **interval_positive_invariant** — in every reachable state every sampled descriptor has `0 < interval` -/
theorem interval_positive_invariant (env : Env α) (a0 : Arr α) (h0 : a0.dims = []) (ops : List (Op α)) (g : Grp α)
    (hg : g ∈ (run env a0 ops).dims) (si : α) (off : Option α) (hb : g.d.body = .sampled si off) : Scalar.zero < si := by
  have hv := (run_invariant env ops a0 (gapfree_init h0) (valid_init h0)).2.1 g hg
  simpa [ValidDesc, hb, positive] using hv

/-! ### alias -/

/-- **alias_mirrors_array** — in every state an alias descriptor answers with the array's data, unit and label -/
theorem alias_mirrors_array (env : Env α) (a : Arr α) (i : Nat) (g : Grp α) (hl : a.lookup i = some g) (hb : g.d.body = .alias) :
    getDimension env a i = some (i, .range true a.data a.unit a.label) := by
  simp [getDimension, hl, view, hb]

/-- writes through the alias land in the array: label, unit, ticks (= data, through the element type) -/
theorem alias_write_through (env : Env α) (a : Arr α) (i : Nat) (g : Grp α) (hl : a.lookup i = some g) (hb : g.d.body = .alias)
    (hro : a.ro = false) :
    (∀ v a' n, step env a (.setLabel i v) = .ok (a', n) → a'.label = v ∧ a'.unit = a.unit ∧ a'.data = a.data ∧ a'.dims = a.dims) ∧
    (∀ v a' n, step env a (.setUnit i v) = .ok (a', n) → a'.unit = v ∧ a'.label = a.label ∧ a'.data = a.data ∧ a'.dims = a.dims) ∧
    (∀ v a' n, step env a (.setTicks i v) = .ok (a', n) →
       a'.data = v.map env.conv ∧ a'.label = a.label ∧ a'.unit = a.unit ∧ a'.dims = a.dims) := by
  refine ⟨?_, ?_, ?_⟩
  · intro v a' n hs
    simp only [step, hro, setLabel, withDim, hl, hb] at hs
    rcases v with _ | s
    · simp [Except.map] at hs; rw [← hs.1]; simp
    · by_cases he : s.isEmpty = true <;> simp [Except.map, he] at hs
      rw [← hs.1]; simp
  · intro v a' n hs
    simp only [step, hro, setUnit, withDim, hl, hb] at hs
    rcases v with _ | s
    · simp [Except.map] at hs; rw [← hs.1]; simp
    · by_cases he : s.isEmpty = true <;> simp [Except.map, he] at hs
      by_cases hu : env.isSI s = true <;> simp [hu] at hs
      rw [← hs.1]; simp
  · intro v a' n hs
    simp only [step, hro, setTicks, withDim, hl, hb] at hs
    by_cases hu : ascending v = true <;> simp [Except.map, hu] at hs
    rw [← hs.1]; simp

/-- writes to the array show through the alias (its getters read the array) -/
theorem array_write_shows_in_alias (env : Env α) (a a' : Arr α) (n : Nat) (op : Op α) (hs : step env a op = .ok (a', n))
    (i : Nat) (g : Grp α) (hl : a'.lookup i = some g) (hb : g.d.body = .alias) :
    getDimension env a' i = some (i, .range true a'.data a'.unit a'.label) :=
  alias_mirrors_array env a' i g hl hb

/-- **alias_preconditions** — an alias is only ever created on a 1-d numeric array without dimensions whose unit, if any, is
    an SI unit or a compound of SI units; it gets index 1 -/
theorem alias_preconditions (env : Env α) (a a' : Arr α) (n : Nat) (hs : step env a .appendAlias = .ok (a', n)) :
    a.rank ≤ 1 ∧ a.numeric = true ∧ a.count = 0 ∧ (∀ u, a.unit = some u → env.isSI u = true ∨ env.isCompound u = true) ∧
    n = 1 ∧ a.ro = false := by
  by_cases hro : a.ro = true
  · simp [step, hro] at hs
  have hro : a.ro = false := by simpa using hro
  simp only [step, hro, appendAlias] at hs
  by_cases h1 : a.rank > 1
  · simp [h1, Except.map] at hs
  by_cases h2 : a.numeric = true
  · by_cases h3 : a.count > 0
    · simp [h1, h2, h3, Except.map] at hs
    · refine ⟨by omega, h2, by omega, ?_, ?_, hro⟩
      · intro u hu
        by_cases h4 : (env.isSI u || env.isCompound u) = true
        · simpa using h4
        · simp [h1, h2, h3, hu, h4, Except.map] at hs
      · cases hu : a.unit with
        | none => simp [h1, h2, h3, hu, Except.map] at hs; split at hs <;> simp at hs; exact hs.2.symm
        | some u =>
          by_cases h4 : (env.isSI u || env.isCompound u) = true
          · simp [h1, h2, h3, hu, h4, Except.map] at hs; split at hs <;> simp at hs; exact hs.2.symm
          · simp [h1, h2, h3, hu, h4, Except.map] at hs
  · simp [h1, h2, Except.map] at hs

/-- **alias_only_first** — in every reachable state an alias descriptor, if there is one, has index 1 (it can only be created on an
    array without descriptors, and no setter turns a descriptor into an alias) -/
theorem alias_only_first (env : Env α) (a0 : Arr α) (h0 : a0.dims = []) (ops : List (Op α)) (i : Nat) (g : Grp α)
    (hl : (run env a0 ops).lookup i = some g) (hb : g.d.body = .alias) : i = 1 := by
  have hg := (run_invariant env ops a0 (gapfree_init h0) (valid_init h0)).1
  have hP := run_shadow_invariant env AliasFirstS (fun s op h hl => aliasFirst_apply env s op h hl) ops a0 (gapfree_init h0)
    (by intro k d hk; simp [toShadow, h0] at hk)
  have hget := get_toShadow hg i
  rw [hl] at hget
  unfold Shadow.get at hget
  by_cases hi : i = 0
  · simp [hi] at hget
  · simp only [hi, if_false, Option.map_some] at hget
    have := hP (i - 1) g.d hget (by simp [isAlias, hb])
    omega

/-! ### delete -/

/-- **deleteDimensions_none** — after `deleteDimensions` on a reachable state (file writable) there is no descriptor:
    count 0 and every `getDimension(i)` is the empty handle.  (The C++ loop removes the names count..1; that this removes
    everything is the gap-free invariant.) -/
theorem deleteDimensions_none (env : Env α) (a0 : Arr α) (h0 : a0.dims = []) (ops : List (Op α))
    (hro : (run env a0 ops).ro = false) :
    ∃ a', step env (run env a0 ops) .deleteDims = .ok (a', 0) ∧ a'.count = 0 ∧ ∀ i, getDimension env a' i = none := by
  have h := (run_invariant env ops a0 (gapfree_init h0) (valid_init h0)).1
  have hd : deleteLoop (run env a0 ops).count (run env a0 ops).dims = [] := deleteLoop_gapfree h
  refine ⟨{ run env a0 ops with dims := [] }, by simp [step, hro, hd], by simp [Arr.count], ?_⟩
  intro i
  simp [getDimension, Arr.lookup, findName]

/-! ### acceptance and the whole history -/

/-- **refused_iff_illegal** — in a reachable state a call is accepted exactly when the file is writable and the
    specification does not classify its arguments as illegal (unsorted / empty ticks, interval not > 0, non-SI unit,
    column out of range, foreign or empty frame handle, index 0 or past the end, field of another kind, alias on a
    non-1-d / non-numeric / already described array …); a refused call changes nothing -/
theorem refused_iff_illegal (env : Env α) (a0 : Arr α) (h0 : a0.dims = []) (ops : List (Op α)) (op : Op α) :
    (match step env (run env a0 ops) op with | .ok _ => true | .error _ => false) = accepts env (toShadow (run env a0 ops)) op ∧
    (accepts env (toShadow (run env a0 ops)) op = false → next env (run env a0 ops) op = run env a0 ops) := by
  have h := (run_invariant env ops a0 (gapfree_init h0) (valid_init h0)).1
  have hr := step_refines env h op
  unfold Refines at hr
  unfold next
  cases hs : step env (run env a0 ops) op with
  | error e => rw [hs] at hr; simp [hr]
  | ok r => obtain ⟨a', n⟩ := r; rw [hs] at hr; simp [hr.1]

/-- **history_roundtrip** — C13.Rel holds of what the getters answer after EVERY history: with the client's positional
    bookkeeping `shadowRun` (which never looks at the model state), dimensionCount = n, indices 1..n, getDimension(0) and
    (n+1) empty, every descriptor's getters return what was last given (also through an alias and through the array),
    ticks ascending, intervals positive, alias = array -/
theorem history_roundtrip [DecidableEq α] (env : Env α) (a0 : Arr α) (h0 : a0.dims = []) (ops : List (Op α)) :
    Rel env (shadowRun env (toShadow a0) ops) (observe env (run env a0 ops)) = true := by
  have h := run_invariant env ops a0 (gapfree_init h0) (valid_init h0)
  rw [← h.2.2]
  exact rel_observe env h.1 h.2.1


/-! ### non-vacuity: concrete histories over `Int` (a lawful scalar), evaluated by the kernel -/
section examples

def envI : Env Int :=
  { conv := id, isSI := fun u => u == "mV" || u == "s", isCompound := fun u => u == "mV/s", frameName := "f",
    cols := [("c0", "mV"), ("c1", "s")], foreignCols := [("x", "ms")] }
def a0I : Arr Int := { rank := 1, numeric := true, label := none, unit := none, data := [0, 0, 0], dims := [] }

/-- legal and illegal calls of every kind -/
def histI : List (Op Int) :=
  [.appendSet ["a", "b"], .appendRange [1, 2, 2] "time" "s", .appendRange [3, 1] "" "", .appendRange [] "" "",
   .appendSampled 2 "" "mV" (-1), .appendSampled 0 "" "" 0, .appendSampled 1 "" "parsec" 0, .appendFrame .own (.idx 1),
   .appendFrame .own (.idx 2), .appendFrame .foreign (.idx 0), .appendFrame .own (.name "c0"), .appendAlias,
   .setTicks 2 [5, 7], .setTicks 2 [7, 5], .setInterval 3 4, .setInterval 3 (-4), .setLabel 1 (some "L"), .setLabel 9 (some "L"),
   .setUnit 2 none, .setOffset 3 none, .setLabels 1 (some ["x"]), .reopen true, .deleteDims, .reopen false]

def histAlias : List (Op Int) :=
  [.arrUnit (some "mV"), .appendAlias, .arrData [5, 1, 3], .setLabel 1 (some "volt"), .setTicks 1 [1, 2], .setTicks 1 [2, 1],
   .arrLabel (some "x"), .arrUnit (some "furlong"), .setUnit 1 (some "s"), .appendAlias, .arrExtent [3]]

-- 5 of the 10 appends are accepted; the names are 1..5 and the getters return what was last set
example : (run envI a0I histI).names = [1, 2, 3, 4, 5] := by decide +kernel
example : (observe envI (run envI a0I histI)).gets =
    [none, some (1, .set ["x"] (some "L")), some (2, .range false [5, 7] none (some "time")),
     some (3, .sampled 4 none (some "mV") none), some (4, .frame "f" (some 1) (.ok "c1") (.ok "s")),
     some (5, .frame "f" (some 0) (.ok "c0") (.ok "mV")), none] := by decide +kernel
example : (shadowRun envI (toShadow a0I) histI).dims.length = 5 := by decide +kernel
example : Rel envI (shadowRun envI (toShadow a0I) histI) (observe envI (run envI a0I histI)) = true := by decide +kernel
-- the relation is not trivially true: it fails when the observation is off by one descriptor
example : Rel envI (shadowRun envI (toShadow a0I) histI) (observe envI (run envI a0I (histI ++ [.appendSet []]))) = false := by
  decide +kernel
-- deleteDimensions in a writable session leaves none
example : (observe envI (run envI a0I (histI ++ [.deleteDims]))).gets = [none, none] := by decide +kernel
-- alias: both directions
example : (observe envI (run envI a0I histAlias)).gets = [none, some (1, .range true [1, 2, 0] (some "s") (some "x")), none] := by
  decide +kernel
example : (run envI a0I histAlias).data = [1, 2, 0] ∧ (run envI a0I histAlias).unit = some "s" := by decide +kernel
example : Rel envI (shadowRun envI (toShadow a0I) histAlias) (observe envI (run envI a0I histAlias)) = true := by decide +kernel
-- alias refused on a 2-d array and on a String array
example : (match step envI { a0I with rank := 2 } .appendAlias with | .error e => some e | .ok _ => none) = some .invalidDimension := by
  decide +kernel
example : (match step envI { a0I with numeric := false } .appendAlias with | .error e => some e | .ok _ => none) = some .invalidDimension := by
  decide +kernel

end examples

end Nix.C13
