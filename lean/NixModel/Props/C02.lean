import NixModel.Step
import NixModel.Observe
import NixModel.Proofs.StoreBasics
import NixModel.Proofs.SysHistory
/-
  C02 — close and reopen preserves the complete entity tree.

  What the model says (and the correspondence run checks against the library on every history): nix keeps no write-back state —
  every getter of the dump reads the store (`observe` is a function of the store alone, by its type), closing a file writes
  nothing, and opening an existing valid file writes only what is missing from the root (the two root groups and the file's
  creation time), which an already opened file always has.  Hence the dump after close + reopen (either mode) is the dump
  before, and a history with reopen steps inside is the history without them.
  The part no theorem can carry — that HDF5 puts on disk what the live file showed — is the tie's: `dump; fdrop; fopen ro|rw;
  dump`, also from a freshly started reader process.
-/
namespace Nix.St
open Store

/-- FileHDF5 constructor on an existing file, after checkHeader: `root.openGroup("metadata")`, `root.openGroup("data")`
    (create = true), setCreatedAt (only when absent); `updated_at` is not observable through the dump -/
def reopenRW (s : Store) (now : String) : Store :=
  let s := (s.openGroupCreate 0 "metadata").1
  let s := (s.openGroupCreate 0 "data").1
  if s.hasAttr 0 "created_at" then s else s.setAttr 0 "created_at" now

/-- a read-only open cannot write: the attributes / groups above exist in every file nix has written -/
def reopenRO (s : Store) : Store := s

/-- what every file written by nix has at its root -/
structure RootOK (s : Store) : Prop where
  metadata : s.hasGroup 0 "metadata" = true
  data : s.hasGroup 0 "data" = true
  created : s.hasAttr 0 "created_at" = true

theorem newFile_rootOK (id created format version : String) : RootOK (newFile id created format version) := by
  constructor
  · simp [newFile, hasGroup, child?, linksOf, obj?, isGroupObj, metadataGrp, List.lookup]
  · simp [newFile, hasGroup, child?, linksOf, obj?, isGroupObj, metadataGrp, dataGrp, List.lookup]
  · simp [newFile, hasAttr, attr?, obj?, List.lookup]

/-- reopening read-write changes nothing in a file that has its root groups and creation time -/
theorem reopenRW_id (s : Store) (now : String) (h : RootOK s) : reopenRW s now = s := by
  unfold reopenRW
  simp only [openGroupCreate_existing s 0 "metadata" h.metadata, openGroupCreate_existing s 0 "data" h.data, h.created, if_true]

/-- C02 for the model: the observable tree after close + reopen, in either mode, is the tree before -/
theorem reopen_observe_eq (s : Store) (now : String) (h : RootOK s) :
    observe (reopenRW s now) = observe s ∧ observe (reopenRO s) = observe s := by
  rw [reopenRW_id s now h]; exact ⟨rfl, rfl⟩

/-- a history continued after a reopen is the history continued without it -/
theorem reopen_then_continue (s : Store) (now : String) (h : RootOK s) (ops : List Op) :
    run (reopenRW s now) ops = run s ops ∧ run (reopenRO s) ops = run s ops := by
  rw [reopenRW_id s now h]; exact ⟨rfl, rfl⟩

/-- the root survives every entry point that only writes attributes of / links under entities: setters -/
theorem setAttr_rootOK (s : Store) (o : ObjId) (k v : String) (h : RootOK s) (ho : o ≠ 0) : RootOK (s.setAttr o k v) := by
  have hobj : (s.setAttr o k v).obj? 0 = s.obj? 0 := by simp [setAttr, obj?_modifyObj, ho]
  have hl : ∀ o', o' ≠ o → (s.setAttr o k v).obj? o' = s.obj? o' := by
    intro o' h'; simp [setAttr, obj?_modifyObj, Ne.symm h']
  have hgrp : ∀ o', (s.setAttr o k v).isGroupObj o' = s.isGroupObj o' := by
    intro o'
    simp only [isGroupObj, setAttr, obj?_modifyObj]
    by_cases h' : o = o'
    · subst h'; cases s.obj? o <;> simp
    · simp [h']
  constructor
  · have := h.metadata
    simp only [hasGroup, child?, linksOf, hobj, hgrp] at this ⊢; exact this
  · have := h.data
    simp only [hasGroup, child?, linksOf, hobj, hgrp] at this ⊢; exact this
  · have := h.created
    simp only [hasAttr, attr?, hobj] at this ⊢; exact this

/-- the system invariant (Proofs/SysInv.lean) gives what the reopen theorems ask for -/
theorem Sys.rootOK {s : Store} (h : Sys s) : RootOK s := by
  obtain ⟨ob, h0, _, hl, hc⟩ := h.root
  constructor
  · simp [hasGroup, child?, linksOf, h0, hl, List.lookup, metadataGrp, h.g1]
  · simp [hasGroup, child?, linksOf, h0, hl, List.lookup, metadataGrp, dataGrp, h.g2]
  · simp [hasAttr, attr?, h0, hc]

/-- C02 for the model, with no hypothesis on the state: after EVERY history of entry points on a new file (object arguments
    being entity objects — everything the API hands out is one, see `Op.entityArgs`), closing and reopening in either mode changes
    neither the store nor anything a getter can show -/
theorem reopen_after_any_history (id created format version now : String) (ops : List Op) (ha : ∀ op ∈ ops, op.entityArgs) :
    reopenRW (run (newFile id created format version) ops) now = run (newFile id created format version) ops ∧
    observe (reopenRW (run (newFile id created format version) ops) now) = observe (run (newFile id created format version) ops) ∧
    observe (reopenRO (run (newFile id created format version) ops)) = observe (run (newFile id created format version) ops) := by
  have hs := (run_sys (newFile_sys id created format version) ops ha).rootOK
  exact ⟨reopenRW_id _ now hs, (reopen_observe_eq _ now hs).1, (reopen_observe_eq _ now hs).2⟩

theorem run_append (s : Store) (a b : List Op) : run s (a ++ b) = run (run s a) b := by simp [run, List.foldl_append]

/-- … and a session that closes and reopens in the middle of a history ends in the store of the uninterrupted history -/
theorem reopen_inside_any_history (id created format version now : String) (ops1 ops2 : List Op) (ha : ∀ op ∈ ops1, op.entityArgs) :
    run (reopenRW (run (newFile id created format version) ops1) now) ops2 = run (newFile id created format version) (ops1 ++ ops2) := by
  rw [(reopen_after_any_history id created format version now ops1 ha).1, run_append]

/-- non-vacuity of `Op.entityArgs`: a history that creates a block, an array in it, a section and links the section, with the
    handles the model itself hands out (3 = the block, 5 = the array, 6 = the section) -/
example :
    let ops := [Op.createBlock "b" "xt" "11111111-1111-1111-1111-111111111111" "1",
                Op.createDataArray 3 "a" "xt" "22222222-2222-2222-2222-222222222222" "1" "Double" "[2]",
                Op.createSection none "m" "xt" "33333333-3333-3333-3333-333333333333" "1",
                Op.setSectionLink 5 "metadata" "33333333-3333-3333-3333-333333333333",
                Op.deleteBlock "b"]
    (∀ op ∈ ops, op.entityArgs) ∧
    ((Op.createBlock "b" "xt" "11111111-1111-1111-1111-111111111111" "1").apply (newFile "f" "0" "xnix" "[1,2,0]")).2 = .ok () ∧
    (run (newFile "f" "0" "xnix" "[1,2,0]") (ops.take 4)).child? 5 "metadata" = some 6 ∧
    run (newFile "f" "0" "xnix" "[1,2,0]") ops ≠ newFile "f" "0" "xnix" "[1,2,0]" := by
  refine ⟨?_, ?_, ?_, ?_⟩
  · intro op hop
    simp only [List.mem_cons, List.mem_nil_iff, or_false] at hop
    rcases hop with rfl | rfl | rfl | rfl | rfl <;> simp [Op.entityArgs]
  · decide +kernel
  · decide +kernel
  · decide +kernel

/-- non-vacuity: a file with a block and a tagged array reopens to itself -/
example :
    let s1 := (createBlock (newFile "f" "0" "xnix" "[1,2,0]") "b" "xt" "11111111-1111-1111-1111-111111111111" "1").1
    let s2 := (createDataArray s1 3 "a" "xt" "22222222-2222-2222-2222-222222222222" "1" "Double" "[2]").1
    s2.hasGroup 0 "metadata" = true ∧ s2.hasGroup 0 "data" = true ∧ s2.hasAttr 0 "created_at" = true ∧ reopenRW s2 "9" = s2 := by
  decide +kernel

end Nix.St
