import NixModel.Gen.Enums
/-
  C13 / C02 / C05 — "each reads back the kind it was given": the kind of a dimension descriptor, the link type of a feature and the
  element type of a column are STORED AS STRINGS and turned back into enumerators when the entity is opened.  `gen/extract_enums.py`
  reads both directions of each conversion off the source on every run; here: the two directions are inverse to each other, for every
  enumerator.  (A string changed in one direction only — "sample" written, "sampled" expected — makes every stored descriptor of that
  kind unreadable, or readable as another kind.)
-/
namespace Nix.Enums
open Nix.Gen.Enums

/-- an if-chain `if (str == a) return A; else if …`: the first entry whose string matches -/
def fromChain (t : List (String × String)) (s : String) : Option String := (t.find? fun p => p.1 == s).map (·.2)
/-- a switch: the entry of the enumerator -/
def toSwitch (t : List (String × String)) (e : String) : Option String := (t.find? fun p => p.1 == e).map (·.2)

/-- **the kind of a dimension descriptor survives being stored**: every enumerator the writing direction knows comes back from the
    string it is written as -/
theorem dimension_type_roundtrip : ∀ p ∈ dimTo, fromChain dimFrom p.2 = some p.1 := by decide +kernel
/-- … and every string the reading direction accepts is one the writing direction produces for that enumerator -/
theorem dimension_type_strings_agree : ∀ p ∈ dimFrom, toSwitch dimTo p.2 = some p.1 := by decide +kernel
theorem dimension_type_complete : dimTo.length = 4 ∧ dimFrom.length = 4 := by decide

/-- the writing direction of a link type indexes a vector of names with the enumerator's value (its position in the declaration) -/
def linkTo (e : String) : Option String := (linkEnum.idxOf? e).bind fun i => linkToNames[i]?
/-- **the link type of a feature survives being stored** -/
theorem link_type_roundtrip : ∀ e ∈ linkEnum, (linkTo e).bind (fromChain linkFrom) = some e := by decide +kernel
theorem link_type_strings_agree : ∀ p ∈ linkFrom, linkTo p.2 = some p.1 := by decide +kernel
/-- the vector has an entry for every enumerator (indexing it with the last one stays inside) -/
theorem link_type_vector_covers_the_enum : linkToNames.length = linkEnum.length := by decide

/-- the reading direction of an element type lower-cases the string first -/
def dtypeFrom (s : String) : Option String := fromChain dtypeFromLower s.toLower
/-- **an element type survives being written as a string** (the column types of a data frame's `toString`, type names in messages) -/
theorem data_type_roundtrip : ∀ p ∈ dtypeTo, dtypeFrom p.2 = some p.1 := by decide +kernel
/-- the written names are pairwise distinct — no two element types print alike -/
theorem data_type_names_distinct : ∀ p ∈ dtypeTo, ∀ q ∈ dtypeTo, p.2 = q.2 → p.1 = q.1 := by decide +kernel

/-- the tokens the models use for the kinds are the backend's strings (`Drive/Region.lean` link types; the dimension model names
    kinds by constructor, the harness prints `sampled / range / set / frame / alias` from the C++ enumerator, not from the string) -/
theorem model_link_type_tokens : linkToNames = ["tagged", "untagged", "indexed"] := by decide

end Nix.Enums
