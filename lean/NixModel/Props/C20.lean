import NixModel.Proofs.SearchBfs
import NixModel.Proofs.SearchLinks
/-
  C20 — tree searches and back-reference queries equal a brute-force traversal.
  Property theorems about the model of lean/NixModel/Search.lean, for every forest, filter and depth limit.
  The brute-force side (`levels`, `level`, `firstHit`, `nodesL`) has no queue and no depth counter.
-/
set_option autoImplicit false
set_option linter.unusedSimpArgs false
set_option linter.unusedVariables false
namespace Nix.C20
open Nix.Search Nix.Search.Tree

variable {α : Type}

/-! ### a sample forest for the non-vacuity examples

        s1 "a"/t            s6 "b"/u
        ├─ s2 "b"/u         └─ s7 "a"/t
        │  ├─ s4 "a"/t
        │  └─ s5 "c"/u
        └─ s3 "c"/t
-/
def sec (id name type : String) (cs : List Sec) (props : List PropInfo := []) (link : Option String := none) : Sec :=
  .node { id := id, name := name, type := type, link := link, props := props } cs
def s4 : Sec := sec "s4" "a" "t" []
def s5 : Sec := sec "s5" "c" "u" []
def s2 : Sec := sec "s2" "b" "u" [s4, s5] [⟨"p3", "x"⟩, ⟨"p4", "z"⟩]
def s3 : Sec := sec "s3" "c" "t" []
def s1 : Sec := sec "s1" "a" "t" [s2, s3] [⟨"p1", "x"⟩, ⟨"p2", "y"⟩] (some "s2")
def s7 : Sec := sec "s7" "a" "t" []
def s6 : Sec := sec "s6" "b" "u" [s7]
def ids (l : List Sec) : List String := l.map (·.val.id)

/-! ## searches started at a single section or source: breadth-first order within the depth limit -/

/-- **findSections_eq_levelOrder** — `Section::findSections(filter, d)` lists, in level order, exactly the descendants at
    depth 1..d that the filter accepts; the start section is never a candidate. -/
theorem findSections_eq_levelOrder (f : Tree α → Bool) (maxd : Nat) (t : Tree α) :
    findSections f maxd t = (levels maxd t.children).filter f :=
  findSections_levels f maxd t

example : ids (findSections (fun _ => true) 1 s1) = ["s2", "s3"] := by rw [findSections_eq_levelOrder]; decide
example : ids (findSections (fun _ => true) 2 s1) = ["s2", "s3", "s4", "s5"] := by rw [findSections_eq_levelOrder]; decide
example : ids (findSections (Flt.sec (.name "a")) 7 s1) = ["s4"] := by rw [findSections_eq_levelOrder]; decide
example : ids (findSections (fun _ => true) 0 s1) = [] := by rw [findSections_eq_levelOrder]; decide

/-- **findSources_eq_levelOrder** — `Source::findSources(filter, d)` lists, in level order, exactly the nodes at depth
    0..d (the start source included) that the filter accepts. -/
theorem findSources_eq_levelOrder (f : Tree α → Bool) (maxd : Nat) (t : Tree α) :
    findSources f maxd t = (levels (maxd + 1) [t]).filter f := by
  unfold findSources
  exact bfsQ_eq_levels f maxd maxd 0 [t] (by omega)

example : ids (findSources (fun _ => true) 0 s1) = ["s1"] := by rw [findSources_eq_levelOrder]; decide
example : ids (findSources (fun _ => true) 1 s1) = ["s1", "s2", "s3"] := by rw [findSources_eq_levelOrder]; decide
example : ids (findSources (Flt.sec (.type "u")) 5 s1) = ["s2", "s5"] := by rw [findSources_eq_levelOrder]; decide

/-! ## searches started at the file or a block: root by root -/

/-- **fileFindSections_eq_perRoot** — `File::findSections(filter, d)`: for every root section in index order the level
    order of that root's tree within depth `d` (the root itself being depth 1); nothing for `d = 0`. -/
theorem fileFindSections_eq_perRoot (f : Tree α → Bool) (maxd : Nat) (roots : List (Tree α)) :
    fileFindSections f maxd roots = roots.flatMap fun r => (levels maxd [r]).filter f := by
  unfold fileFindSections
  cases maxd with
  | zero => simp [levels]
  | succ m =>
    simp only [Nat.succ_ne_zero, if_false, Nat.add_sub_cancel]
    congr 1
    funext r
    rw [findSections_levels]
    by_cases h : f r <;> simp [levels, List.filter_cons, h]

example : ids (fileFindSections (fun _ => true) 2 [s1, s6]) = ["s1", "s2", "s3", "s6", "s7"] := by
  rw [fileFindSections_eq_perRoot]; decide
example : ids (fileFindSections (fun _ => true) 0 [s1, s6]) = [] := by rw [fileFindSections_eq_perRoot]; decide

/-- **blockFindSources_eq_perRoot** — `Block::findSources(filter, d)`: the searches of the root sources, one after the
    other. -/
theorem blockFindSources_eq_perRoot (f : Tree α → Bool) (maxd : Nat) (roots : List (Tree α)) :
    blockFindSources f maxd roots = roots.flatMap fun r => (levels (maxd + 1) [r]).filter f := by
  unfold blockFindSources
  congr 1
  funext r
  exact findSources_eq_levelOrder f maxd r

/-- **file_find_perm_bruteforce** — a file-wide search returns exactly (as a multiset: each entity as often as it occurs,
    i.e. once) the accepted nodes within the first `d` generations of the whole forest. -/
theorem file_find_perm_bruteforce (f : Tree α → Bool) (maxd : Nat) (roots : List (Tree α)) :
    (fileFindSections f maxd roots).Perm ((levels maxd roots).filter f) := by
  rw [fileFindSections_eq_perRoot, ← List.filter_flatMap]
  exact (levels_perRoot_perm maxd roots).filter f

/-- the same for a block-wide source search (`d + 1` generations: the roots are depth 0) -/
theorem block_find_perm_bruteforce (f : Tree α → Bool) (maxd : Nat) (roots : List (Tree α)) :
    (blockFindSources f maxd roots).Perm ((levels (maxd + 1) roots).filter f) := by
  rw [blockFindSources_eq_perRoot, ← List.filter_flatMap]
  exact (levels_perRoot_perm (maxd + 1) roots).filter f

/-! ## unlimited depth returns every descendant -/

/-- **unlimited_depth_all_descendants** — with a depth limit not below the height of what hangs under the start section
    (in particular with the default `SIZE_MAX`), the search returns every accepted descendant, each exactly as often as
    it occurs in the tree. -/
theorem unlimited_depth_all_descendants (f : Tree α → Bool) (maxd : Nat) (t : Tree α) (h : heightL t.children ≤ maxd) :
    (findSections f maxd t).Perm ((nodesL t.children).filter f) := by
  rw [findSections_eq_levelOrder]
  exact (levels_perm_nodes h).filter f

theorem unlimited_depth_all_sources (f : Tree α → Bool) (maxd : Nat) (t : Tree α) (h : heightL t.children ≤ maxd) :
    (findSources f maxd t).Perm ((nodes t).filter f) := by
  rw [findSources_eq_levelOrder]
  have hh : heightL [t] ≤ maxd + 1 := by simp [heightL, height_eq]; omega
  have := (levels_perm_nodes hh).filter f
  simpa [nodesL] using this

theorem unlimited_depth_whole_file (f : Tree α → Bool) (maxd : Nat) (roots : List (Tree α)) (h : heightL roots ≤ maxd) :
    (fileFindSections f maxd roots).Perm ((nodesL roots).filter f) :=
  (file_find_perm_bruteforce f maxd roots).trans ((levels_perm_nodes h).filter f)

theorem unlimited_depth_whole_block (f : Tree α → Bool) (maxd : Nat) (roots : List (Tree α)) (h : heightL roots ≤ maxd + 1) :
    (blockFindSources f maxd roots).Perm ((nodesL roots).filter f) :=
  (block_find_perm_bruteforce f maxd roots).trans ((levels_perm_nodes h).filter f)


/-- a depth limit beyond the height changes nothing -/
theorem depth_beyond_height (f : Tree α → Bool) (d d' : Nat) (t : Tree α) (h : heightL t.children ≤ d) (h' : d ≤ d') :
    findSections f d' t = findSections f d t := by
  rw [findSections_eq_levelOrder, findSections_eq_levelOrder, levels_beyond_height h h']

example : ids (findSections (fun _ => true) unlimited s1) = ["s2", "s3", "s4", "s5"] ∧ ids (nodesL s1.children) = ["s2", "s4", "s5", "s3"] := by
  rw [depth_beyond_height _ 2 unlimited s1 (by decide) (by decide), findSections_eq_levelOrder]; decide

/-- the same for the file-wide and block-wide searches -/
theorem fileFind_beyond_height (f : Tree α → Bool) (d d' : Nat) (roots : List (Tree α)) (h : heightL roots ≤ d) (h' : d ≤ d') :
    fileFindSections f d' roots = fileFindSections f d roots := by
  rw [fileFindSections_eq_perRoot, fileFindSections_eq_perRoot]
  apply flatMap_congr'
  intro r hr
  have : heightL [r] ≤ d := by have := height_le_heightL hr; simp [heightL]; omega
  rw [levels_beyond_height this h']

theorem blockFind_beyond_height (f : Tree α → Bool) (d d' : Nat) (roots : List (Tree α)) (h : heightL roots ≤ d + 1) (h' : d ≤ d') :
    blockFindSources f d' roots = blockFindSources f d roots := by
  rw [blockFindSources_eq_perRoot, blockFindSources_eq_perRoot]
  apply flatMap_congr'
  intro r hr
  have : heightL [r] ≤ d + 1 := by have := height_le_heightL hr; simp [heightL]; omega
  rw [levels_beyond_height this (by omega : d + 1 ≤ d' + 1)]

/-! ## each entity once -/

/-- **find_nodup** — if the nodes under the start have pairwise distinct keys (ids), no key occurs twice in a result. -/
theorem find_nodup {δ : Type} (k : Tree α → δ) (f : Tree α → Bool) (maxd : Nat) (t : Tree α)
    (hnd : ((nodesL t.children).map k).Nodup) : ((findSections f maxd t).map k).Nodup := by
  rw [findSections_eq_levelOrder]
  have h1 := ((levels_level_perm maxd t.children).map k).nodup_iff.2 hnd
  rw [List.map_append, List.nodup_append] at h1
  exact List.Nodup.sublist ((List.filter_sublist).map k) h1.1

theorem findSources_nodup {δ : Type} (k : Tree α → δ) (f : Tree α → Bool) (maxd : Nat) (t : Tree α)
    (hnd : ((nodes t).map k).Nodup) : ((findSources f maxd t).map k).Nodup := by
  rw [findSources_eq_levelOrder]
  have hn : nodesL [t] = nodes t := by simp [nodesL]
  have h1 := ((levels_level_perm (maxd + 1) [t]).map k).nodup_iff.2 (by rw [hn]; exact hnd)
  rw [List.map_append, List.nodup_append] at h1
  exact List.Nodup.sublist ((List.filter_sublist).map k) h1.1

theorem fileFind_nodup {δ : Type} (k : Tree α → δ) (f : Tree α → Bool) (maxd : Nat) (roots : List (Tree α))
    (hnd : ((nodesL roots).map k).Nodup) : ((fileFindSections f maxd roots).map k).Nodup := by
  refine ((file_find_perm_bruteforce f maxd roots).map k).nodup_iff.2 ?_
  have h1 := ((levels_level_perm maxd roots).map k).nodup_iff.2 hnd
  rw [List.map_append, List.nodup_append] at h1
  exact List.Nodup.sublist ((List.filter_sublist).map k) h1.1

theorem blockFind_nodup {δ : Type} (k : Tree α → δ) (f : Tree α → Bool) (maxd : Nat) (roots : List (Tree α))
    (hnd : ((nodesL roots).map k).Nodup) : ((blockFindSources f maxd roots).map k).Nodup := by
  refine ((block_find_perm_bruteforce f maxd roots).map k).nodup_iff.2 ?_
  have h1 := ((levels_level_perm (maxd + 1) roots).map k).nodup_iff.2 hnd
  rw [List.map_append, List.nodup_append] at h1
  exact List.Nodup.sublist ((List.filter_sublist).map k) h1.1

example : ((findSections (fun _ => true) 2 s1).map fun s : Sec => s.val.id).Nodup :=
  find_nodup (fun s : Sec => s.val.id) _ 2 s1 (by decide)
example : ((fileFindSections (Flt.sec (.type "t")) unlimited [s1, s6]).map fun s : Sec => s.val.id).Nodup :=
  fileFind_nodup (fun s : Sec => s.val.id) _ _ _ (by decide)
example : (findSections (Flt.sec (.type "u")) unlimited s1).Perm [s2, s5] :=
  unlimited_depth_all_descendants _ unlimited s1 (by decide)

/-- everything a search returns is a node of the searched forest and is accepted by the filter -/
theorem fileFind_sound (f : Tree α → Bool) (maxd : Nat) (roots : List (Tree α)) {x : Tree α}
    (h : x ∈ fileFindSections f maxd roots) : x ∈ nodesL roots ∧ f x = true := by
  have := (file_find_perm_bruteforce f maxd roots).mem_iff.1 h
  rw [List.mem_filter] at this
  exact ⟨mem_levels this.1, this.2⟩

theorem blockFind_sound (f : Tree α → Bool) (maxd : Nat) (roots : List (Tree α)) {x : Tree α}
    (h : x ∈ blockFindSources f maxd roots) : x ∈ nodesL roots ∧ f x = true := by
  have := (block_find_perm_bruteforce f maxd roots).mem_iff.1 h
  rw [List.mem_filter] at this
  exact ⟨mem_levels this.1, this.2⟩

/-! ## links are resolved by a file-wide id search -/

/-- what `metadata()` / `link()` return is a section of the file with the linked id … -/
theorem resolveSection_sound (w : World) (i : String) (s : Sec) (h : resolveSection w i = some s) :
    s ∈ nodesL w.sections ∧ s.val.id = i := by
  unfold resolveSection at h
  have hm : s ∈ fileFindSections (fun s => s.val.id == i) unlimited w.sections := List.mem_of_mem_head? h
  have := fileFind_sound _ _ _ hm
  exact ⟨this.1, by simpa using this.2⟩

/-- … and it is found whenever a section with that id exists (forest not higher than `SIZE_MAX`) -/
theorem resolveSection_complete (w : World) (i : String) (hh : heightL w.sections ≤ unlimited)
    (hex : ∃ s ∈ nodesL w.sections, s.val.id = i) : (resolveSection w i).isSome = true := by
  obtain ⟨s, hs, hi⟩ := hex
  have hm : s ∈ fileFindSections (fun s => s.val.id == i) unlimited w.sections :=
    (unlimited_depth_whole_file _ unlimited w.sections hh).mem_iff.2 (List.mem_filter.2 ⟨hs, by simpa using hi⟩)
  unfold resolveSection
  cases hl : fileFindSections (fun s => s.val.id == i) unlimited w.sections with
  | nil => rw [hl] at hm; cases hm
  | cons a l => rfl

/-- a link whose target exists in the file (which deletion guarantees: deleting a section removes every link to it) -/
def Resolves (w : World) (md : Option String) : Prop :=
  ∀ tgt, md = some tgt → ∃ s ∈ nodesL w.sections, s.val.id = tgt

/-- `MetadataFilter(sec_id)` accepts exactly the entities whose metadata link points to `sec_id` -/
theorem metaFilter_iff (w : World) (sid : String) (md : Option String) (hh : heightL w.sections ≤ unlimited)
    (hr : Resolves w md) : metaFilter w sid md = (md == some sid) := by
  unfold metaFilter
  cases md with
  | none => simp
  | some tgt =>
    have hsome := resolveSection_complete w tgt hh (hr tgt rfl)
    cases hres : resolveSection w tgt with
    | none => rw [hres] at hsome; cases hsome
    | some s =>
      have := (resolveSection_sound w tgt s hres).2
      simp [Option.bind, hres, this]

/-! ## back references of a section -/

/-- every holder of every block has a resolvable metadata link -/
structure SoundWorld (w : World) : Prop where
  height : heightL w.sections ≤ unlimited
  blocks : ∀ b ∈ w.blocks, Resolves w b.md
  das : ∀ b ∈ w.blocks, ∀ h ∈ b.das, Resolves w h.md
  tags : ∀ b ∈ w.blocks, ∀ h ∈ b.tags, Resolves w h.md
  mtags : ∀ b ∈ w.blocks, ∀ h ∈ b.mtags, Resolves w h.md
  srcHeight : ∀ b ∈ w.blocks, heightL b.sources ≤ unlimited + 1
  srcs : ∀ b ∈ w.blocks, ∀ s ∈ nodesL b.sources, Resolves w s.val.md

/-- **referring_eq_bruteforce (blocks)** -/
theorem referringBlocks_eq_bruteforce (w : World) (hw : SoundWorld w) (sid : String) :
    secReferringBlocks w sid = w.blocks.filter fun b => b.md == some sid := by
  unfold secReferringBlocks
  apply List.filter_congr
  intro b hb
  exact metaFilter_iff w sid b.md hw.height (hw.blocks b hb)

/-- **referring_eq_bruteforce (data arrays)** — exactly the data arrays, over all blocks in order, whose metadata link
    points to the section -/
theorem referringDataArrays_eq_bruteforce (w : World) (hw : SoundWorld w) (sid : String) :
    secReferringDataArrays w sid = (w.blocks.flatMap (·.das)).filter fun h => h.md == some sid := by
  unfold secReferringDataArrays secReferringDataArraysIn
  rw [List.filter_flatMap]
  apply flatMap_congr'
  intro b hb
  apply List.filter_congr
  intro h hh
  exact metaFilter_iff w sid h.md hw.height (hw.das b hb h hh)

theorem referringTags_eq_bruteforce (w : World) (hw : SoundWorld w) (sid : String) :
    secReferringTags w sid = (w.blocks.flatMap (·.tags)).filter fun h => h.md == some sid := by
  unfold secReferringTags secReferringTagsIn
  rw [List.filter_flatMap]
  apply flatMap_congr'
  intro b hb
  apply List.filter_congr
  intro h hh
  exact metaFilter_iff w sid h.md hw.height (hw.tags b hb h hh)

theorem referringMultiTags_eq_bruteforce (w : World) (hw : SoundWorld w) (sid : String) :
    secReferringMultiTags w sid = (w.blocks.flatMap (·.mtags)).filter fun h => h.md == some sid := by
  unfold secReferringMultiTags secReferringMultiTagsIn
  rw [List.filter_flatMap]
  apply flatMap_congr'
  intro b hb
  apply List.filter_congr
  intro h hh
  exact metaFilter_iff w sid h.md hw.height (hw.mtags b hb h hh)

/-- **referring_eq_bruteforce (sources)** — exactly (as a multiset) the sources, at any depth of any block, whose metadata
    link points to the section -/
theorem referringSources_perm_bruteforce (w : World) (hw : SoundWorld w) (sid : String) :
    (secReferringSources w sid).Perm ((w.blocks.flatMap fun b => nodesL b.sources).filter fun s => s.val.md == some sid) := by
  unfold secReferringSources secReferringSourcesIn
  rw [List.filter_flatMap]
  have key : ∀ b ∈ w.blocks,
      (blockFindSources (fun s => metaFilter w sid s.val.md) unlimited b.sources).Perm
        ((nodesL b.sources).filter fun s => s.val.md == some sid) := by
    intro b hb
    refine (unlimited_depth_whole_block _ unlimited b.sources (hw.srcHeight b hb)).trans ?_
    rw [List.filter_congr (fun s hs => metaFilter_iff w sid s.val.md hw.height (hw.srcs b hb s hs))]
  generalize w.blocks = bs at key
  induction bs with
  | nil => simp
  | cons b bs ih =>
    rw [List.flatMap_cons, List.flatMap_cons]
    exact (key b (List.mem_cons_self)).append (ih fun b' hb' => key b' (List.mem_cons_of_mem _ hb'))

/-- the per-block overloads are the restriction of the brute-force list to that block -/
theorem referringDataArraysIn_eq_bruteforce (w : World) (hw : SoundWorld w) (sid : String) (b : Blk) (hb : b ∈ w.blocks) :
    secReferringDataArraysIn w sid b = b.das.filter fun h => h.md == some sid := by
  unfold secReferringDataArraysIn
  apply List.filter_congr
  intro h hh
  exact metaFilter_iff w sid h.md hw.height (hw.das b hb h hh)

theorem referringTagsIn_eq_bruteforce (w : World) (hw : SoundWorld w) (sid : String) (b : Blk) (hb : b ∈ w.blocks) :
    secReferringTagsIn w sid b = b.tags.filter fun h => h.md == some sid := by
  unfold secReferringTagsIn
  apply List.filter_congr
  intro h hh
  exact metaFilter_iff w sid h.md hw.height (hw.tags b hb h hh)

theorem referringMultiTagsIn_eq_bruteforce (w : World) (hw : SoundWorld w) (sid : String) (b : Blk) (hb : b ∈ w.blocks) :
    secReferringMultiTagsIn w sid b = b.mtags.filter fun h => h.md == some sid := by
  unfold secReferringMultiTagsIn
  apply List.filter_congr
  intro h hh
  exact metaFilter_iff w sid h.md hw.height (hw.mtags b hb h hh)

theorem referringSourcesIn_perm_bruteforce (w : World) (hw : SoundWorld w) (sid : String) (b : Blk) (hb : b ∈ w.blocks) :
    (secReferringSourcesIn w sid b).Perm ((nodesL b.sources).filter fun s => s.val.md == some sid) := by
  unfold secReferringSourcesIn
  refine (unlimited_depth_whole_block _ unlimited b.sources (hw.srcHeight b hb)).trans ?_
  rw [List.filter_congr (fun s hs => metaFilter_iff w sid s.val.md hw.height (hw.srcs b hb s hs))]

/-- the back references carry no id twice when the ids of the sources of the block are pairwise distinct -/
theorem referringSourcesIn_nodup (w : World) (sid : String) (b : Blk) (hnd : ((nodesL b.sources).map (·.val.id)).Nodup) :
    ((secReferringSourcesIn w sid b).map (·.val.id)).Nodup :=
  blockFind_nodup (·.val.id) _ unlimited b.sources hnd

/-- a sample world: two blocks, holders pointing at the sections s2 and s7, a source tree with metadata -/
def bRef : Blk :=
  { id := "b1", md := some "s2", das := [⟨"a1", some "s2", ["o2"]⟩, ⟨"a2", some "s7", []⟩], tags := [⟨"t1", some "s2", ["o1", "o2"]⟩],
    sources := [.node ⟨"o1", "r", "t", some "s7"⟩ [.node ⟨"o2", "x", "t", some "s2"⟩ []]] }
def wRef : World :=
  { sections := [s1, s6],
    blocks := [ bRef,
                { id := "b2", das := [⟨"a3", some "s2", []⟩, ⟨"a4", none, []⟩] } ] }

theorem wRef_sound : SoundWorld wRef := by
  have hs2 : ∃ s ∈ nodesL wRef.sections, s.val.id = "s2" := ⟨s2, by decide, rfl⟩
  have hs7 : ∃ s ∈ nodesL wRef.sections, s.val.id = "s7" := ⟨s7, by decide, rfl⟩
  have res : ∀ md : Option String, (md = some "s2" ∨ md = some "s7" ∨ md = none) → Resolves wRef md := by
    intro md h tgt e
    rcases h with h | h | h <;> rw [h] at e <;> cases e
    · exact hs2
    · exact hs7
  refine ⟨by decide, ?_, ?_, ?_, ?_, ?_, ?_⟩
  · intro b hb; apply res; revert b; decide
  · intro b hb h hh; apply res; revert h; revert b; decide
  · intro b hb h hh; apply res; revert h; revert b; decide
  · intro b hb h hh; apply res; revert h; revert b; decide
  · decide
  · intro b hb s hs; apply res; revert s; revert b; decide

example : (secReferringDataArrays wRef "s2").map (·.id) = ["a1", "a3"] := by
  rw [referringDataArrays_eq_bruteforce wRef wRef_sound]; decide
example : (secReferringBlocks wRef "s2").map (·.id) = ["b1"] := by
  rw [referringBlocks_eq_bruteforce wRef wRef_sound]; decide
example : ((secReferringSources wRef "s2").map (·.val.id)).Perm ["o2"] := by
  have := (referringSources_perm_bruteforce wRef wRef_sound "s2").map (·.val.id)
  exact this.trans (by decide)

/-! ## back references of a source -/

/-- **referring_eq_bruteforce (of a source)** — membership: exactly the data arrays / tags / multi tags of the block whose
    source list names the source; the block's order is kept and nothing is repeated -/
theorem srcReferring_mem (b : Blk) (sid : String) (h : Holder) :
    (h ∈ srcReferringDataArrays b sid ↔ h ∈ b.das ∧ sid ∈ h.srcs) ∧
    (h ∈ srcReferringTags b sid ↔ h ∈ b.tags ∧ sid ∈ h.srcs) ∧
    (h ∈ srcReferringMultiTags b sid ↔ h ∈ b.mtags ∧ sid ∈ h.srcs) := by
  simp [srcReferringDataArrays, srcReferringTags, srcReferringMultiTags, srcFilter, List.mem_filter]

example : (srcReferringDataArrays bRef "o2").map (·.id) = ["a1"] ∧ (srcReferringTags bRef "o1").map (·.id) = ["t1"] := by
  decide

theorem srcReferring_sublist (b : Blk) (sid : String) :
    (srcReferringDataArrays b sid).Sublist b.das ∧ (srcReferringTags b sid).Sublist b.tags ∧
    (srcReferringMultiTags b sid).Sublist b.mtags :=
  ⟨List.filter_sublist, List.filter_sublist, List.filter_sublist⟩

/-! ## parent source -/

/-- what `parentSource()` returns is a source of the block that has a direct child with the id -/
theorem parentSource_sound (b : Blk) (i : String) (p : Src) (h : parentSource b i = some p) :
    p ∈ nodesL b.sources ∧ ∃ c ∈ p.children, c.val.id = i := by
  unfold parentSource at h
  have := blockFind_sound _ _ _ (List.mem_of_mem_head? h)
  refine ⟨this.1, ?_⟩
  have hk := this.2
  unfold hasChildWithId at hk
  simpa using hk

/-- **parentSource_spec** — ids pairwise distinct within the block: the parent source of a child of `p` is `p` itself … -/
theorem parentSource_spec (b : Blk) (p c : Src) (hh : heightL b.sources ≤ unlimited + 1)
    (hnd : ((nodesL b.sources).map (·.val.id)).Nodup)
    (hp : p ∈ nodesL b.sources) (hc : c ∈ p.children) : parentSource b c.val.id = some p := by
  have hkey : hasChildWithId c.val.id p = true := by
    unfold hasChildWithId
    simp only [List.any_eq_true]
    exact ⟨c, hc, by simp⟩
  have hm : p ∈ blockFindSources (hasChildWithId c.val.id) unlimited b.sources :=
    (unlimited_depth_whole_block _ unlimited b.sources hh).mem_iff.2 (List.mem_filter.2 ⟨hp, hkey⟩)
  cases hres : parentSource b c.val.id with
  | none =>
    unfold parentSource at hres
    rw [List.head?_eq_none_iff] at hres
    rw [hres] at hm; cases hm
  | some q =>
    obtain ⟨hq, c', hc', hi⟩ := parentSource_sound b c.val.id q hres
    have : q = p := parent_unique (·.val.id) b.sources hnd hq hp hc' hc hi
    rw [this]

/-- … and an id that is nobody's child has none -/
theorem parentSource_none (b : Blk) (i : String)
    (hno : ∀ p ∈ nodesL b.sources, ∀ c ∈ p.children, c.val.id ≠ i) : parentSource b i = none := by
  cases hres : parentSource b i with
  | none => rfl
  | some q =>
    exfalso
    obtain ⟨hq, c', hc', hi⟩ := parentSource_sound b i q hres
    exact hno q hq c' hc' hi

/-- a root source is nobody's child when ids are pairwise distinct -/
theorem parentSource_root (b : Blk) (r : Src) (hnd : ((nodesL b.sources).map (·.val.id)).Nodup)
    (hr : r ∈ b.sources) : parentSource b r.val.id = none :=
  parentSource_none b r.val.id fun p hp c hc => root_not_child (·.val.id) b.sources hnd hr hp hc

def o (id name : String) (cs : List Src) : Src := .node { id := id, name := name, type := "t" } cs
def uu (c : Char) : String := String.ofList (List.replicate 8 c ++ ['-'] ++ List.replicate 4 c ++ ['-'] ++ List.replicate 4 c ++ ['-'] ++ List.replicate 4 c ++ ['-'] ++ List.replicate 12 c)
def blkEx : Blk := { id := "b", sources := [o (uu '1') "r" [o (uu '2') "x" [o (uu '3') "y" []], o (uu '4') "y" []], o (uu '5') "r2" []] }
def o3 : Src := o (uu '3') "y" []
def o2 : Src := o (uu '2') "x" [o3]
example : parentSource blkEx (uu '3') = some o2 :=
  parentSource_spec blkEx o2 o3 (by decide) (by decide) (by decide) (by decide)
example : parentSource blkEx (uu '5') = none :=
  parentSource_root blkEx (o (uu '5') "r2" []) (by decide) (by decide)

/-- counter-witness for the code before fix S1 (`SourceFilter`, i.e. `hasSource(name_or_id)`): a source NAMED like the id of
    another source is taken for it — the source 5555… has a child named like the id 2222…, is met first, and is returned
    although the parent of 2222… is 7777… -/
def blkS1 : Blk := { id := "b", sources := [o (uu '5') "r2" [o (uu '6') (uu '2') []], o (uu '1') "r" [o (uu '7') "z" [o (uu '2') "x" []]]] }
example : (parentSourceByKey blkS1 (uu '2')).map (·.val.id) = some (uu '5') := by
  unfold parentSourceByKey; rw [blockFind_beyond_height _ 3 unlimited _ (by decide) (by decide), blockFindSources_eq_perRoot]; decide
example : (parentSource blkS1 (uu '2')).map (·.val.id) = some (uu '7') := by
  unfold parentSource; rw [blockFind_beyond_height _ 3 unlimited _ (by decide) (by decide), blockFindSources_eq_perRoot]; decide

/-! ## inherited properties -/

/-- **inherited_eq_own_plus_unshadowed** — the section's own properties, followed by those properties of the linked
    section whose name no own property has (property names are unique within the linked section) -/
theorem inherited_eq_own_plus_unshadowed (w : World) (s : SecInfo) (l : Sec) (hl : s.link.bind (resolveSection w) = some l)
    (hnd : (l.val.props.map (·.name)).Nodup) :
    inheritedProperties w s = s.props ++ l.val.props.filter fun p => !s.props.any fun o => p.name == o.name := by
  unfold inheritedProperties
  rw [hl]
  exact copyUnshadowed_eq l.val.props s.props hnd

/-- without a (resolvable) link: the own properties -/
theorem inherited_without_link (w : World) (s : SecInfo) (hl : s.link.bind (resolveSection w) = none) :
    inheritedProperties w s = s.props := by
  unfold inheritedProperties
  rw [hl]

/-- the linked section is the section of the file with the linked id -/
theorem inherited_link_target (w : World) (s : SecInfo) (l : Sec) (hl : s.link.bind (resolveSection w) = some l) :
    l ∈ nodesL w.sections ∧ s.link = some l.val.id := by
  cases hk : s.link with
  | none => rw [hk] at hl; cases hl
  | some i =>
    rw [hk] at hl
    have := resolveSection_sound w i l hl
    exact ⟨this.1, by rw [this.2]⟩

def wEx : World := { sections := [s1, s6] }
theorem wEx_s2 : resolveSection wEx "s2" = some s2 := by
  unfold resolveSection; rw [fileFind_beyond_height _ 3 unlimited _ (by decide) (by decide), fileFindSections_eq_perRoot]; decide
example : (inheritedProperties wEx s1.val).map (·.id) = ["p1", "p2", "p4"] := by
  rw [inherited_eq_own_plus_unshadowed wEx s1.val s2 wEx_s2 (by decide)]; decide
example : (inheritedProperties wEx s2.val).map (·.id) = ["p3", "p4"] := by
  rw [inherited_without_link wEx s2.val (by decide)]; decide

/-! ## related sections -/

/-- **findDownstream_spec** — the accepted sections of the nearest generation below the start that has any -/
theorem findDownstream_spec (f : Tree α → Bool) (t : Tree α) :
    findDownstream f t = firstHit f (treeDepth t) t.children := by
  unfold findDownstream
  have := downLoop_eq f t (treeDepth t) 0 (by simp [levels])
  simpa [level] using this

/-- **findDownstream_complete** — if any descendant is accepted, the downstream search finds something: `tree_depth()`
    iterations reach every generation -/
theorem findDownstream_complete (f : Tree α → Bool) (t : Tree α) (x : Tree α) (hx : x ∈ nodesL t.children) (hf : f x = true) :
    findDownstream f t ≠ [] := by
  intro h
  rw [findDownstream_spec, treeDepth_eq] at h
  have h1 := firstHit_nil f _ _ h
  have h2 : x ∈ (levels (heightL t.children) t.children).filter f :=
    List.mem_filter.2 ⟨(levels_perm_nodes (Nat.le_refl _)).mem_iff.2 hx, hf⟩
  rw [h1] at h2
  cases h2

/-- whatever the downstream search returns are accepted descendants, all of the same generation -/
theorem findDownstream_sound (f : Tree α → Bool) (t : Tree α) :
    ∃ j, findDownstream f t = (level j t.children).filter f ∧ (levels j t.children).filter f = [] ∨ findDownstream f t = [] := by
  rw [findDownstream_spec]
  generalize treeDepth t = k
  suffices H : ∀ (k e : Nat), (levels e t.children).filter f = [] →
      ∃ j, firstHit f k (level e t.children) = (level j t.children).filter f ∧ (levels j t.children).filter f = [] ∨
        firstHit f k (level e t.children) = [] by
    simpa [level] using H k 0 (by simp [levels])
  intro k
  induction k with
  | zero => intro e _; exact ⟨0, Or.inr rfl⟩
  | succ k ih =>
    intro e he
    simp only [firstHit]
    by_cases hem : ((level e t.children).filter f).isEmpty
    · simp only [hem, if_true]
      rw [← level_succ_right]
      apply ih (e + 1)
      rw [levels_succ_right, List.filter_append, he, List.isEmpty_iff.1 hem]
      rfl
    · simp only [hem, Bool.false_eq_true, if_false]
      exact ⟨e, Or.inl ⟨rfl, he⟩⟩

/-- **findAmongParents_spec** — the nearest accepted ancestor -/
theorem findAmongParents_spec (f : Tree α → Bool) (anc : List (Tree α)) :
    findAmongParents f anc = (anc.find? f).toList := by
  induction anc with
  | nil => rfl
  | cons p rest ih =>
    by_cases h : f p <;> simp [findAmongParents, List.find?_cons, h, ih]

/-- **findSideways_spec** — the accepted children, except the caller, of the nearest ancestor that has an accepted child -/
theorem findSideways_spec (f isCaller : Tree α → Bool) (anc : List (Tree α)) :
    findSideways f isCaller anc =
      match anc.find? (fun p => !(p.children.filter f).isEmpty) with
      | none => []
      | some p => (p.children.filter f).filter (fun s => !isCaller s) := by
  induction anc with
  | nil => rfl
  | cons p rest ih =>
    have h1 : findSections f 1 p = p.children.filter f := by rw [findSections_eq_levelOrder, levels_one]
    by_cases h : (p.children.filter f).isEmpty <;> simp [findSideways, List.find?_cons, h1, h, ih]

/-- **findRelated_chain** — downstream first, then the parents, then sideways; the start section is no candidate of the
    first two (its id differs from those of its descendants and ancestors) -/
theorem findRelated_chain (f isMe : Tree α → Bool) (anc : List (Tree α)) (t : Tree α)
    (hdown : ∀ x ∈ nodesL t.children, isMe x = false) (hanc : ∀ x ∈ anc, isMe x = false) :
    findRelated f isMe anc t =
      if !(findDownstream f t).isEmpty then findDownstream f t
      else if !(findAmongParents f anc).isEmpty then findAmongParents f anc
      else findSideways f isMe anc := by
  have hd : (findDownstream f t).filter (fun s => !isMe s) = findDownstream f t := by
    apply List.filter_eq_self.2
    intro x hx
    have hx' : x ∈ nodesL t.children := by
      rw [findDownstream] at hx
      generalize treeDepth t = k at hx
      generalize (1 : Nat) = d at hx
      induction k generalizing d with
      | zero => cases hx
      | succ k ih =>
        simp only [downLoop] at hx
        split at hx
        · exact ih _ hx
        · rw [findSections_eq_levelOrder] at hx
          exact mem_levels (List.mem_filter.1 hx).1
    simp [hdown x hx']
  have hu : (findAmongParents f anc).filter (fun s => !isMe s) = findAmongParents f anc := by
    apply List.filter_eq_self.2
    intro x hx
    rw [findAmongParents_spec] at hx
    have : x ∈ anc := by
      cases hfind : anc.find? f with
      | none => rw [hfind] at hx; cases hx
      | some y =>
        rw [hfind] at hx
        simp at hx; subst hx
        exact List.mem_of_find?_eq_some hfind
    simp [hanc x this]
  unfold findRelated
  simp only [hd]
  by_cases h1 : (findDownstream f t).isEmpty
  · simp only [h1, if_true, hu, Bool.not_true, Bool.false_eq_true, if_false]
    by_cases h2 : (findAmongParents f anc).isEmpty <;> simp [h2]
  · simp [h1, hd]

example : ids (findRelated (Flt.sec (.name "c")) (fun s => s.val.id == "s2") [s1] s2) = ["s5"] := by      -- downstream
  rw [findRelated_chain _ _ _ _ (by decide) (by decide), findSideways_spec, findAmongParents_spec, findDownstream_spec]; decide
example : ids (findRelated (Flt.sec (.name "a")) (fun s => s.val.id == "s1") [] s1) = ["s4"] := by           -- two levels down
  rw [findRelated_chain _ _ _ _ (by decide) (by decide), findSideways_spec, findAmongParents_spec, findDownstream_spec]; decide
example : ids (findRelated (Flt.sec (.name "a")) (fun s => s.val.id == "s5") [s2, s1] s5) = ["s1"] := by     -- the nearest accepted parent
  rw [findRelated_chain _ _ _ _ (by decide) (by decide), findSideways_spec, findAmongParents_spec, findDownstream_spec]; decide
example : ids (findRelated (Flt.sec (.name "c")) (fun s => s.val.id == "s4") [s2, s1] s4) = ["s5"] := by     -- sideways
  rw [findRelated_chain _ _ _ _ (by decide) (by decide), findSideways_spec, findAmongParents_spec, findDownstream_spec]; decide
example : ids (findRelated (Flt.sec (.name "c")) (fun s => s.val.id == "s5") [s2, s1] s5) = [] := by         -- only the caller itself matches among its siblings
  rw [findRelated_chain _ _ _ _ (by decide) (by decide), findSideways_spec, findAmongParents_spec, findDownstream_spec]; decide
example : ids (findRelated (Flt.sec (.name "zz")) (fun s => s.val.id == "s4") [s2, s1] s4) = [] := by
  rw [findRelated_chain _ _ _ _ (by decide) (by decide), findSideways_spec, findAmongParents_spec, findDownstream_spec]; decide

end Nix.C20
