import NixModel.Props.C03Schema
/-
  C08 — "a rejected operation leaves no trace" for every entry point, with the structural side conditions of
  `rejected_no_trace` (Props/C08Full.lean) discharged by the schema invariant: in a state that satisfies `WT` and for a call
  whose object arguments have the role their C++ type guarantees, only facts about generated ids remain as hypotheses
  (the array handed to createMultiTag / createFeature carries a generated id — C12 — and a name; the id of a new feature is fresh).
-/
namespace Nix.St
open Store

/-- what remains to be said about ids (C12's business) for the two entry points whose refusal depends on a second lookup -/
def Op.idFacts (s : Store) : Op → Prop
  | .createMultiTag _ _ _ _ _ ph => ∀ h, ph = some h → looksLikeUUID (idOf s h.obj) = true ∧ (nameOf s h.obj).isEmpty = false ∧ h.obj < s.objs.length
  | .createFeature tag _ i _ _ dh => (∀ h, dh = some h → looksLikeUUID (idOf s h.obj) = true) ∧
      (∀ x, s.optGroup tag "features" = some x → s.hasGroup x i = false)
  | _ => True

theorem wf_of_schema {s : Store} {ρ : ObjId → Role} (h : WT s ρ) (op : Op) (hk : op.kinded s ρ) (hi : op.idFacts s) : op.wf s := by
  cases op with
  | createMultiTag b n t i c ph =>
    exact ⟨hk.1, h.block_containers_hold_groups b hk.2 "A", hi⟩
  | createFeature tag b i c lt dh =>
    exact ⟨hk.2.2.1, hk.1, h.block_containers_hold_groups b hk.2.2.2 "A", hi.1, hi.2⟩
  | _ => trivial

/-- C08 for EVERY entry point in EVERY state that satisfies the schema (hence in every reachable state, `reachable_wt`) -/
theorem rejected_no_trace_schema {s : Store} {ρ : ObjId → Role} (h : WT s ρ) (op : Op) (e : Err) (hk : op.kinded s ρ)
    (hi : op.idFacts s) (hr : (op.apply s).2 = .error e) : NoTrace s (op.apply s).1 :=
  rejected_no_trace s op e (wf_of_schema h op hk hi) hr

theorem rejected_no_trace_reachable {s : Store} {ρ : ObjId → Role} (h : Reachable s ρ) (op : Op) (e : Err) (hk : op.kinded s ρ)
    (hi : op.idFacts s) (hr : (op.apply s).2 = .error e) : NoTrace s (op.apply s).1 :=
  rejected_no_trace_schema (reachable_wt h) op e hk hi hr

end Nix.St
