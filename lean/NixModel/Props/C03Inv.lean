import NixModel.Props.C03
import NixModel.Props.C12Ids
/-
  C03, inductive part — "within one parent no two entities EVER share a name": the well-formedness of a container
  (`ContainerV`: names pairwise distinct and non-empty, children are groups of the store with pairwise distinct ids) is what
  creation establishes and what every delete preserves.  Proved here for the blocks container of the file:
  `createBlock_preserves_container` (given that the new id is not the id of an existing block — fresh ids, C12),
  `unlinkAll_preserves_container` (every delete entry point is an `unlinkAll`, C04), and by induction over arbitrary
  interleavings of block creations and deletions `blocks_container_invariant`.
-/
namespace Nix.St
open Store


/-- deleting preserves what creation established for a container (its remaining links are a sub-list with the same targets) -/
theorem unlinkAll_preserves_container (s : Store) (D : List ObjId) (c : ObjId) (h : Container s c) : Container (s.unlinkAll D) c := by
  have hl := (unlinkAll_frame s D c).1
  have hattr : ∀ o k, (s.unlinkAll D).attr? o k = s.attr? o k := fun o k => (unlinkAll_frame s D o).2.1 k
  have hgrp : ∀ o, (s.unlinkAll D).isGroupObj o = s.isGroupObj o := fun o => (unlinkAll_frame s D o).2.2.1
  constructor
  · rw [hl]; exact List.Pairwise.sublist List.filter_sublist h.namesDistinct
  · intro l hm; rw [hl] at hm; exact h.namesNonEmpty l (List.mem_filter.mp hm).1
  · intro l hm; rw [hl] at hm; rw [hgrp]; exact h.groups l (List.mem_filter.mp hm).1
  · rw [hl]
    have := List.Pairwise.sublist (List.filter_sublist (p := fun l => !D.contains l.2)) h.idsDistinct
    simpa [hattr] using this

theorem lookup_none_not_mem {l : List (String × ObjId)} {n : String} (h : l.lookup n = none) : ∀ x ∈ l, x.1 ≠ n := by
  induction l with
  | nil => intro x hx; cases hx
  | cons y ys ih =>
    obtain ⟨a, b⟩ := y
    simp only [List.lookup_cons] at h
    cases hab : n == a with
    | true => simp [hab] at h
    | false =>
      simp only [hab] at h
      intro x hx
      rcases List.mem_cons.mp hx with rfl | hx
      · simp only; intro e; rw [e] at hab; simp at hab
      · exact ih h x hx

theorem obj?_setAttr_other (s : Store) (o' : ObjId) (k v : String) (o : ObjId) (h : o ≠ o') : (s.setAttr o' k v).obj? o = s.obj? o := by
  simp [Store.setAttr, obj?_modifyObj, Ne.symm h]


theorem lookup_map_replace_same (l : List (String × String)) (k v : String) (h : l.any (·.1 == k) = true) :
    (l.map fun p => if p.1 == k then (k, v) else p).lookup k = some v := by
  induction l with
  | nil => simp at h
  | cons x xs ih =>
    obtain ⟨a, b⟩ := x
    simp only [List.map_cons]
    cases ha : (a == k) with
    | true => simp [List.lookup_cons]
    | false =>
      have hka : (k == a) = false := by
        cases hh : k == a with
        | false => rfl
        | true => have : k = a := by simpa using hh
                  subst this; simp at ha
      simp only [Bool.false_eq_true, if_false, List.lookup_cons, hka]
      apply ih
      simpa [List.any_cons, ha] using h

theorem lookup_none_of_not_any (l : List (String × String)) (k : String) (h : l.any (·.1 == k) = false) : l.lookup k = none := by
  induction l with
  | nil => rfl
  | cons x xs ih =>
    obtain ⟨a, b⟩ := x
    simp only [List.any_cons, Bool.or_eq_false_iff] at h
    have hka : (k == a) = false := by
      cases hh : k == a with
      | false => rfl
      | true => have : k = a := by simpa using hh
                subst this; simp at h
    simp only [List.lookup_cons, hka]
    exact ih h.2

theorem lookup_setKV_same (l : List (String × String)) (k v : String) : (setKV l k v).lookup k = some v := by
  unfold setKV
  cases h : l.any (·.1 == k) with
  | true => simp only [if_true]; exact lookup_map_replace_same l k v h
  | false =>
    simp only [Bool.false_eq_true, if_false]
    rw [List.lookup_append, lookup_none_of_not_any l k h]
    simp [List.lookup_cons]

theorem isGroupObj_modifyObj (s : Store) (g o : ObjId) (f : Obj → Obj) (hf : ∀ ob, (f ob).isGroup = ob.isGroup) :
    (s.modifyObj g f).isGroupObj o = s.isGroupObj o := by
  simp only [isGroupObj, obj?_modifyObj]
  by_cases h : g = o
  · subst h; cases s.obj? g <;> simp [hf]
  · simp [h]

theorem isGroupObj_setAttr (s : Store) (g : ObjId) (k v : String) (o : ObjId) : (s.setAttr g k v).isGroupObj o = s.isGroupObj o :=
  isGroupObj_modifyObj s g o _ (fun _ => rfl)

theorem isGroupObj_addLink (s : Store) (g : ObjId) (n : String) (t o : ObjId) : (s.addLink g n t).isGroupObj o = s.isGroupObj o :=
  isGroupObj_modifyObj s g o _ (fun _ => rfl)

theorem attr?_setAttr_same (s : Store) (o : ObjId) (k v : String) (h : (s.obj? o).isSome = true) :
    (s.setAttr o k v).attr? o k = some v := by
  cases hob : s.obj? o with
  | none => simp [hob] at h
  | some ob => simp [Store.setAttr, attr?, obj?_modifyObj, hob, lookup_setKV_same]

theorem attr?_setAttr_otherKey (s : Store) (o : ObjId) (k v k' : String) (o' : ObjId) (h : k' ≠ k) :
    (s.setAttr o k v).attr? o' k' = s.attr? o' k' := by
  simp only [Store.setAttr, attr?, obj?_modifyObj]
  by_cases ho : o = o'
  · subst ho; cases s.obj? o <;> simp [lookup_setKV_ne _ _ _ _ h]
  · simp [ho]

theorem obj?_isSome_setAttr (s : Store) (o : ObjId) (k v : String) (o' : ObjId) : ((s.setAttr o k v).obj? o').isSome = (s.obj? o').isSome := by
  simp only [Store.setAttr, obj?_modifyObj]
  by_cases ho : o = o'
  · subst ho; cases s.obj? o <;> simp
  · simp [ho]

/-- Container plus: the children are objects of the store -/
structure ContainerV (s : Store) (c : ObjId) : Prop extends Container s c where
  valid : ∀ l ∈ s.linksOf c, l.2 < s.objs.length

/-- creating a block keeps the blocks container well formed, given that the new id is not the id of an existing block -/
theorem createBlock_preserves_container (s : Store) (n t i c : String) (g : ObjId) (s' : Store)
    (h : createBlock s n t i c = (s', .ok g)) (hc : ContainerV s dataGrp) (hlt : dataGrp < s.objs.length)
    (hfresh : ∀ l ∈ s.linksOf dataGrp, s.attr? l.2 "entity_id" ≠ some i) : ContainerV s' dataGrp := by
  obtain ⟨hnone, happ⟩ := createBlock_appends s n t i c g s' h
  have hlinks := happ hlt
  -- unfold once more to know s' explicitly
  unfold createBlock at h
  cases hck : checkNameAndType n t with
  | error e' => simp [hck] at h
  | ok u =>
    have ⟨hn, _, ht⟩ := checkNameAndType_ok hck
    simp only [hck, initNamed_ok _ _ _ _ _ _ hn ht] at h
    split at h
    · simp at h
    · simp only [Prod.mk.injEq, Except.ok.injEq] at h
      obtain ⟨hs', hgeq⟩ := h
      have hg : s.hasGroup dataGrp n = false := by simp [hasGroup, hnone]
      obtain ⟨hc1, _, hgrpNew, hframe, hgob⟩ := openGroupCreate_fresh s dataGrp n hg hlt
      have hgval : g = s.objs.length := by rw [← hgeq, hc1]
      -- old objects other than dataGrp and g are untouched; dataGrp keeps attributes and kind
      have hold : ∀ o, o < s.objs.length → o ≠ dataGrp → s'.obj? o = s.obj? o := by
        intro o ho hne
        have hog : o ≠ g := by rw [hgval]; exact Nat.ne_of_lt ho
        rw [← hs', hgeq]
        rw [obj?_setAttr_other _ _ _ _ _ hog, obj?_setAttr_other _ _ _ _ _ hog, obj?_setAttr_other _ _ _ _ _ hog, obj?_setAttr_other _ _ _ _ _ hog]
        exact hframe o hne ho
      have hlen1 := (openGroupCreate_old s dataGrp n).2.2 hg
      -- every old object keeps its attributes and its kind
      have hattr : ∀ o k, o < s.objs.length → s'.attr? o k = s.attr? o k := by
        intro o k ho
        have hog : o ≠ g := by rw [hgval]; exact Nat.ne_of_lt ho
        rw [← hs', hgeq]
        rw [attr?_setAttr_other _ _ _ _ _ _ hog, attr?_setAttr_other _ _ _ _ _ _ hog, attr?_setAttr_other _ _ _ _ _ _ hog,
          attr?_setAttr_other _ _ _ _ _ _ hog]
        exact (openGroupCreate_old s dataGrp n).2.1 o k ho
      have hkind : ∀ o, o < s.objs.length → s'.isGroupObj o = s.isGroupObj o := by
        intro o ho
        rw [← hs']
        simp only [isGroupObj_setAttr]
        by_cases hod : o = dataGrp
        · subst hod
          obtain ⟨ob, hob⟩ : ∃ ob, s.obj? dataGrp = some ob := ⟨s.objs[dataGrp], by unfold obj?; exact List.getElem?_eq_getElem hlt⟩
          simp [isGroupObj, hgob ob hob, hob]
        · simp [isGroupObj, hframe o hod ho]
      -- the new group
      have hgKind : s'.isGroupObj g = true := by
        rw [← hs']; simp only [isGroupObj_setAttr]; rw [← hgeq]; exact hgrpNew
      have hgSome : ((s.openGroupCreate dataGrp n).1.obj? g).isSome = true := by
        have := hgrpNew; rw [hgeq] at this
        simp only [isGroupObj] at this
        cases hob : (s.openGroupCreate dataGrp n).1.obj? g with
        | none => simp [hob] at this
        | some ob => rfl
      have hgId : s'.attr? g "entity_id" = some i := by
        rw [← hs', hgeq]
        rw [attr?_setAttr_otherKey _ _ _ _ _ _ (by decide), attr?_setAttr_otherKey _ _ _ _ _ _ (by decide),
          attr?_setAttr_otherKey _ _ _ _ _ _ (by decide)]
        exact attr?_setAttr_same _ _ _ _ hgSome
      have hslen : s'.objs.length = s.objs.length + 1 := by
        rw [← hs']; simp only [length_setAttr]; exact hlen1.2
      have hnames := lookup_none_not_mem (l := s.linksOf dataGrp) (n := n) hnone
      refine { namesDistinct := ?_, namesNonEmpty := ?_, groups := ?_, idsDistinct := ?_, valid := ?_ }
      · rw [hlinks, List.pairwise_append]
        refine ⟨hc.namesDistinct, List.pairwise_singleton _ _, ?_⟩
        intro a ha b hb
        rw [List.mem_singleton] at hb; subst hb
        exact hnames a ha
      · intro l hl
        rw [hlinks, List.mem_append] at hl
        rcases hl with hl | hl
        · exact hc.namesNonEmpty l hl
        · rw [List.mem_singleton] at hl; subst hl; exact hn
      · intro l hl
        rw [hlinks, List.mem_append] at hl
        rcases hl with hl | hl
        · rw [hkind l.2 (hc.valid l hl)]; exact hc.groups l hl
        · rw [List.mem_singleton] at hl; subst hl; exact hgKind
      · rw [hlinks, List.pairwise_append]
        refine ⟨?_, List.pairwise_singleton _ _, ?_⟩
        · refine List.Pairwise.imp_of_mem ?_ hc.idsDistinct
          intro a b ha hb hab
          rw [hattr a.2 _ (hc.valid a ha), hattr b.2 _ (hc.valid b hb)]; exact hab
        · intro a ha b hb
          rw [List.mem_singleton] at hb; subst hb
          rw [hattr a.2 _ (hc.valid a ha), hgId]
          exact hfresh a ha
      · intro l hl
        rw [hlinks, List.mem_append] at hl
        rw [hslen]
        rcases hl with hl | hl
        · exact Nat.lt_succ_of_lt (hc.valid l hl)
        · rw [List.mem_singleton] at hl; subst hl; rw [hgval]; exact Nat.lt_succ_self _


theorem unlinkAll_preserves_containerV (s : Store) (D : List ObjId) (c : ObjId) (h : ContainerV s c) : ContainerV (s.unlinkAll D) c := by
  refine { toContainer := unlinkAll_preserves_container s D c h.toContainer, valid := ?_ }
  intro l hl
  rw [(unlinkAll_frame s D c).1] at hl
  rw [(unlinkAll_frame s D c).2.2.2]
  exact h.valid l (List.mem_filter.mp hl).1

/-- the two entry points that change the set of blocks -/
inductive BlockOp
  | create (name type id created : String)
  | delete (key : String)

def BlockOp.apply (s : Store) : BlockOp → Store
  | .create n t i c => (createBlock s n t i c).1
  | .delete k => (deleteBlock s k).1

def runBlocks (s : Store) (ops : List BlockOp) : Store := ops.foldl BlockOp.apply s

/-- the id handed to a creation is not the id of an existing block (ids are drawn fresh: C12) -/
def BlockOp.fresh (s : Store) : BlockOp → Prop
  | .create _ _ i _ => ∀ l ∈ s.linksOf dataGrp, s.attr? l.2 "entity_id" ≠ some i
  | .delete _ => True

theorem BlockOp.apply_preserves (s : Store) (op : BlockOp) (hc : ContainerV s dataGrp) (hlt : dataGrp < s.objs.length)
    (hf : op.fresh s) : ContainerV (op.apply s) dataGrp ∧ dataGrp < (op.apply s).objs.length := by
  cases op with
  | create n t i c =>
    simp only [BlockOp.apply]
    cases hres : createBlock s n t i c with
    | mk s' r =>
      cases r with
      | error e =>
        have := createBlock_rejected s n t i c e (by rw [hres])
        rw [hres] at this; simp only at this; subst this
        exact ⟨hc, hlt⟩
      | ok g =>
        refine ⟨createBlock_preserves_container s n t i c g s' hres hc hlt hf, ?_⟩
        have := (createBlock_idsKept s n t i c).1
        rw [hres] at this
        exact Nat.lt_of_lt_of_le hlt this
  | delete k =>
    simp only [BlockOp.apply]
    obtain ⟨D, hD⟩ := (delete_only_unlinks s).1 k
    rw [hD]
    exact ⟨unlinkAll_preserves_containerV s D dataGrp hc, by rw [(unlinkAll_frame s D 0).2.2.2]; exact hlt⟩

/-- C03, first clause, as an invariant: after ANY interleaving of block creations (successful or refused) and deletions
    (by name or id), the blocks of the file have pairwise distinct non-empty names and pairwise distinct ids — provided each
    new id was fresh when it was drawn -/
theorem blocks_container_invariant (ops : List BlockOp) (s : Store) (hc : ContainerV s dataGrp) (hlt : dataGrp < s.objs.length)
    (hfresh : ∀ (pre : List BlockOp) (op : BlockOp) (post : List BlockOp), ops = pre ++ op :: post → op.fresh (runBlocks s pre)) :
    ContainerV (runBlocks s ops) dataGrp := by
  induction ops generalizing s with
  | nil => exact hc
  | cons op rest ih =>
    have h0 : op.fresh s := hfresh [] op rest rfl
    obtain ⟨hc1, hlt1⟩ := BlockOp.apply_preserves s op hc hlt h0
    exact ih (op.apply s) hc1 hlt1 (fun pre o post he => by
      have := hfresh (op :: pre) o post (by rw [he]; rfl)
      simpa [runBlocks] using this)

/-- the empty file is where the induction starts -/
theorem newFile_blocks_container (id created format version : String) : ContainerV (newFile id created format version) dataGrp := by
  have hl : (newFile id created format version).linksOf dataGrp = [] := by
    simp [newFile, linksOf, obj?, dataGrp]
  refine { namesDistinct := ?_, namesNonEmpty := ?_, groups := ?_, idsDistinct := ?_, valid := ?_ } <;> simp [hl]

end Nix.St
