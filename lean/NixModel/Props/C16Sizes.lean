import NixModel.SizeVec
/-
  C16 — the bounds-checked layer under the data access: size vectors and the NDArray buffer (NixModel/SizeVec.lean).
  What the model accepts lies inside the storage; what it divides by is not zero; a block the position test accepts lies
  inside the data.  (The tie replays every `ab_*` call of checks/abuse_api.py on this model, on the sanitizer build.)
-/
namespace Nix.SizeVec

/-- an accepted flat element access lies in the storage: with elements of `size` bytes, the bytes [i*size, (i+1)*size) are
    within the `nelms * size` bytes the array allocated (false of the pinned tree, which accepted every index: D35) -/
theorem flat_access_in_bounds (shape : List Nat) (i j : Nat) (h : flatAccess shape i = .num j) :
    j = i ∧ ∀ size, (i + 1) * size ≤ nelms shape * size := by
  unfold flatAccess at h
  split at h
  · rename_i hlt
    refine ⟨by injection h with h; exact h.symm, fun size => Nat.mul_le_mul_right size hlt⟩
  · cases h

/-- the same for an access with ANY element type T (`tsize` bytes) on storage made for elements of `esize` bytes: an accepted
    access touches bytes inside the allocated `nelms * esize` — also when T is wider than the stored type and the storage size is no
    multiple of it (the division rounds DOWN; a check written as `index * sizeof(T) >= size` would let the last partial slot through) -/
theorem typed_access_in_bounds (shape : List Nat) (esize tsize i j : Nat) (ht : 0 < tsize)
    (h : flatAccessAs shape esize tsize i = .num j) : j = i ∧ (i + 1) * tsize ≤ nelms shape * esize := by
  unfold flatAccessAs at h
  split at h
  · rename_i hlt
    refine ⟨by injection h with h; exact h.symm, ?_⟩
    have h1 : (i + 1) * tsize ≤ (nelms shape * esize / tsize) * tsize := Nat.mul_le_mul_right tsize hlt
    exact Nat.le_trans h1 (Nat.div_mul_le_self _ _)
  · cases h

theorem typed_access_refused (shape : List Nat) (esize tsize i : Nat) (h : nelms shape * esize < (i + 1) * tsize) :
    flatAccessAs shape esize tsize i = .err "OutOfBounds" := by
  unfold flatAccessAs
  have : ¬ i < nelms shape * esize / tsize := by
    intro hlt
    have h1 : (i + 1) * tsize ≤ (nelms shape * esize / tsize) * tsize := Nat.mul_le_mul_right tsize hlt
    have := Nat.le_trans h1 (Nat.div_mul_le_self _ _)
    omega
  simp [this]

theorem flat_access_refused (shape : List Nat) (i : Nat) (h : nelms shape ≤ i) : flatAccess shape i = .err "OutOfBounds" := by
  unfold flatAccess; simp [Nat.not_lt.mpr h]

theorem sub_access_in_bounds (shape sub : List Nat) (j : Nat) (h : subAccess shape sub = .num j) :
    shape.length = sub.length ∧ j < nelms shape := by
  unfold subAccess at h
  split at h
  · cases h
  · rename_i hl
    refine ⟨by simpa using hl, ?_⟩
    unfold flatAccess at h
    split at h
    · rename_i hlt; injection h with h; rw [← h]; exact hlt
    · cases h

/-- `operator[]` answers only for an index below the rank — for EVERY index, also SIZE_MAX (false of the pinned tree: D37) -/
theorem idx_in_bounds (a : List Nat) (i v : Nat) (h : idx a i = .num v) : i < a.length ∧ a[i]? = some v := by
  unfold idx at h
  cases hg : a[i]? with
  | none => simp [hg] at h
  | some w =>
    simp [hg] at h
    subst h
    exact ⟨(List.getElem?_eq_some_iff.mp hg).1, rfl⟩

theorem idx_refused (a : List Nat) (i : Nat) (h : a.length ≤ i) : idx a i = .err "StdOutOfRange" := by
  unfold idx; simp [List.getElem?_eq_none h]

/-- a division that is carried out has no zero divisor (false of the pinned tree: D36) -/
theorem div_divisors_nonzero (a b r : List Nat) (h : divv a b = .vec r) : a.length = b.length ∧ ∀ y ∈ b, y ≠ 0 := by
  unfold divv at h
  split at h
  · cases h
  · rename_i hl
    split at h
    · cases h
    · rename_i hz
      refine ⟨by simpa using hl, ?_⟩
      intro y hy h0
      apply hz
      simp only [List.any_eq_true]
      exact ⟨y, hy, by simp [h0]⟩

theorem allRel_cons (r : Nat → Nat → Bool) (x y : Nat) (xs ys : List Nat) :
    allRel r (x :: xs) (y :: ys) = (r x y && allRel r xs ys) := by
  simp [allRel]

/-- the position test: when it accepts, every coordinate is below the extent of its dimension -/
theorem positionInData_sound (shape pos : List Nat) (h : positionInData shape pos = true) :
    shape.length = pos.length ∧ ∀ (i p s : Nat), pos[i]? = some p → shape[i]? = some s → p < s := by
  unfold positionInData at h
  simp only [Bool.and_eq_true, beq_iff_eq] at h
  refine ⟨h.1, ?_⟩
  have hall := h.2
  clear h
  induction pos generalizing shape with
  | nil => intro i p s hp; simp at hp
  | cons p0 ps ih =>
    cases shape with
    | nil => intro i p s _ hs; simp at hs
    | cons s0 ss =>
      rw [allRel_cons] at hall
      simp only [Bool.and_eq_true, decide_eq_true_eq] at hall
      intro i p s hp hs
      cases i with
      | zero => simp at hp hs; subst hp; subst hs; exact hall.1
      | succ k => simp at hp hs; exact ih ss hall.2 k p s hp hs

/-- non-vacuity -/
example : flatAccess [2, 3] 5 = .num 5 ∧ flatAccess [2, 3] 6 = .err "OutOfBounds" ∧ flatAccess [0] 0 = .err "OutOfBounds" ∧
    subAccess [2, 3] [1, 2] = .num 5 ∧ subAccess [2, 3] [1] = .err "StdOutOfRange" ∧
    idx [5, 0] 18446744073709551615 = .err "StdOutOfRange" ∧ divv [2, 5] [0, 3] = .err "StdInvalidArgument" ∧
    divv [6, 9] [2, 3] = .vec [3, 3] ∧ positionAndExtentInData [5, 3] [0, 1] [5, 2] = .bool true ∧
    positionAndExtentInData [5, 3] [0, 1] [5, 3] = .bool false ∧ positionAndExtentInData [5, 3] [0, 0] [0, 0] = .bool false := by
  decide +kernel

end Nix.SizeVec
