import NixModel.Session
import NixModel.Spec.C11
/-
  C11 — after close or flush the file is complete and released.  Theorems about the bookkeeping model (lean/NixModel/Session.lean),
  for every store type, every history and every population of live handles.
-/
set_option linter.unusedSectionVars false
set_option linter.unusedSimpArgs false
set_option linter.unusedVariables false
namespace Nix.C11
open Nix Nix.Sess

variable {σ : Type}

/-! ### the id table -/

theorem decRef_keys_subset (id : Nat) (t : Table) : ∀ k ∈ (decRef id t).map (·.1), k ∈ t.map (·.1) := by
  induction t with
  | nil => intro k h; simp [decRef] at h
  | cons p t ih =>
    obtain ⟨i, n⟩ := p
    intro k h
    simp only [decRef] at h
    split at h
    · split at h
      · simp only [List.map_cons, List.mem_cons]; right; exact h
      · simpa using h
    · simp only [List.map_cons, List.mem_cons] at h ⊢
      rcases h with h | h
      · left; exact h
      · right; exact ih k h

theorem decRef_ok (id : Nat) (t : Table) (h : TableOk t) : TableOk (decRef id t) := by
  induction t with
  | nil => simpa [decRef] using h
  | cons p t ih =>
    obtain ⟨i, n⟩ := p
    obtain ⟨hnd, hpos⟩ := h
    simp only [List.map_cons, List.nodup_cons] at hnd
    have htail : TableOk t := ⟨hnd.2, fun p hp => hpos p (List.mem_cons_of_mem _ hp)⟩
    simp only [decRef]
    split
    · split
      · exact htail
      · refine ⟨?_, ?_⟩
        · simp only [List.map_cons, List.nodup_cons]; exact hnd
        · intro p hp
          simp only [List.mem_cons] at hp
          rcases hp with rfl | hp
          · simp only; omega
          · exact hpos p (List.mem_cons_of_mem _ hp)
    · refine ⟨?_, ?_⟩
      · simp only [List.map_cons, List.nodup_cons]
        exact ⟨fun hm => hnd.1 (decRef_keys_subset id t i hm), (ih htail).1⟩
      · intro p hp
        simp only [List.mem_cons] at hp
        rcases hp with rfl | hp
        · exact hpos _ (List.mem_cons_self)
        · exact (ih htail).2 p hp

theorem foldl_decRef_ok (own : List Nat) (t : Table) (h : TableOk t) : TableOk (own.foldl (fun t id => decRef id t) t) := by
  induction own generalizing t with
  | nil => exact h
  | cons i own ih => exact ih _ (decRef_ok i t h)

/-- closing an object as often as its reference count says removes exactly that entry -/
theorem decN_head (i : Nat) (rest : Table) : ∀ k, 1 ≤ k → decN i k ((i, k) :: rest) = rest := by
  intro k
  induction k with
  | zero => intro h; omega
  | succ k ih =>
    intro _
    simp only [decN, decRef, ↓reduceIte]
    by_cases hk : k + 1 ≤ 1
    · have : k = 0 := by omega
      subst this; simp [decN]
    · simp only [hk, ↓reduceIte, Nat.add_sub_cancel]
      exact ih (by omega)

theorem closeObj_head (i n : Nat) (rest : Table) (hn : 1 ≤ n) : closeObj i ((i, n) :: rest) = rest := by
  simp only [closeObj, refCount, ↓reduceIte]
  exact decN_head i rest n hn

/-- the force-close loop empties a well-formed table, whatever is in it -/
theorem closeLoop_empties (t : Table) (h : TableOk t) : closeLoop (t.map (·.1)) t = [] := by
  induction t with
  | nil => rfl
  | cons p t ih =>
    obtain ⟨i, n⟩ := p
    obtain ⟨hnd, hpos⟩ := h
    simp only [List.map_cons, List.nodup_cons] at hnd
    have htail : TableOk t := ⟨hnd.2, fun p hp => hpos p (List.mem_cons_of_mem _ hp)⟩
    have hn : 1 ≤ n := hpos (i, n) (List.mem_cons_self)
    simp only [closeLoop, List.map_cons, List.foldl_cons]
    rw [closeObj_head i n t hn]
    exact ih htail

/-! ### close -/

/-- **close_releases_all** — whatever handles are alive when `close()` is called (any set of object ids with any positive reference
    counts, including the File object's own three), afterwards no object id of the file is open, the file id is released, and the
    image on disk is everything the session had written -/
theorem close_releases_all (s : State σ) (hopen : s.fileOpen = true) (hok : TableOk s.ids) :
    (close s).ids = [] ∧ (close s).fileOpen = false ∧ (close s).disk = s.live ∧ (close s).dirty = false := by
  have h := closeLoop_empties _ (foldl_decRef_ok s.own s.ids hok)
  simp only [close, hopen, Bool.not_true, Bool.false_eq_true, ↓reduceIte, h]
  simp

theorem close_of_closed (s : State σ) (h : s.fileOpen = false) : close s = s := by simp [close, h]

/-- closing twice is closing once -/
theorem close_idempotent (s : State σ) (hopen : s.fileOpen = true) (hok : TableOk s.ids) : close (close s) = close s :=
  close_of_closed _ (close_releases_all s hopen hok).2.1

/-- **handle_after_close_errors** — after `close()` every call through a handle obtained earlier fails -/
theorem handle_after_close_errors (s : State σ) (hopen : s.fileOpen = true) (hok : TableOk s.ids) (id : Nat) :
    useHandle (close s) id = .error .h5Error := by
  have h := close_releases_all s hopen hok
  simp [useHandle, h.1, h.2.1]

/-- …and stays failing whatever is attempted afterwards (handles destroyed, calls retried, flush, close) -/
theorem handle_stays_dead (s : State σ) (hclosed : s.fileOpen = false) (ops : List (Op σ)) (id : Nat) :
    useHandle (run s ops) id = .error .h5Error := by
  have key : ∀ (s : State σ), s.fileOpen = false → ∀ ops, (run s ops).fileOpen = false := by
    intro s hs ops
    induction ops generalizing s with
    | nil => exact hs
    | cons o ops ih =>
      simp only [run, List.foldl_cons]
      apply ih
      cases o <;> simp [step, flush, close, hs]
  simp [useHandle, key s hclosed ops]

/-! ### durability: flush / close, then a crash -/

/-- the invariant: while nothing has been modified since the last flush / close, the disk image is the live state -/
def Clean (s : State σ) : Prop := s.dirty = false → s.disk = s.live

theorem step_clean (s : State σ) (o : Op σ) (h : Clean s) : Clean (step s o) := by
  cases o with
  | mutate f =>
    simp only [step]
    split
    · intro hd; simp at hd
    · exact h
  | read => exact h
  | acquire id => simp only [step]; split <;> exact h
  | release id => exact h
  | flush =>
    simp only [step, flush]
    split
    · intro _; rfl
    · exact h
  | close =>
    simp only [step, close]
    split
    · exact h
    · intro _; rfl

/-- for all histories: at every op boundary at which nothing has been modified since the last flush / close, a crash leaves exactly
    what the session had written -/
theorem history_crash_reopen (s₀ : State σ) (h₀ : Clean s₀) (ops : List (Op σ)) (hclean : (run s₀ ops).dirty = false) :
    crash (run s₀ ops) = (run s₀ ops).live := by
  have : ∀ (s : State σ), Clean s → ∀ ops, Clean (run s ops) := by
    intro s hs ops
    induction ops generalizing s with
    | nil => exact hs
    | cons o ops ih => simp only [run, List.foldl_cons]; exact ih _ (step_clean s o hs)
  exact this s₀ h₀ ops hclean

theorem init_clean (c : σ) (own : List Nat) : Clean (init c own) := fun _ => rfl

/-- calls that do not modify leave both images alone once they agree -/
theorem run_nonmutating (s : State σ) (v : σ) (hd : s.disk = v) (hl : s.live = v) (ops : List (Op σ))
    (hro : ∀ o ∈ ops, o.isMutate = false) : (run s ops).disk = v ∧ (run s ops).live = v := by
  induction ops generalizing s with
  | nil => exact ⟨hd, hl⟩
  | cons o ops ih =>
    simp only [run, List.foldl_cons]
    have ho := hro o (List.mem_cons_self)
    have hrest : ∀ o' ∈ ops, o'.isMutate = false := fun o' h => hro o' (List.mem_cons_of_mem _ h)
    cases o with
    | mutate f => simp [Op.isMutate] at ho
    | read => exact ih s hd hl hrest
    | acquire id =>
      apply ih _ _ _ hrest <;> (simp only [step]; split <;> assumption)
    | release id => exact ih _ hd hl hrest
    | flush =>
      apply ih _ _ _ hrest <;> (simp only [step, flush]; split <;> simp_all)
    | close =>
      apply ih _ _ _ hrest <;> (simp only [step, close]; split <;> simp_all)

/-- **flush_crash_reopen** — once `flush()` has returned on an open file, then whatever read-only calls, handle creations and
    destructions, further flushes or a close follow, a crash leaves everything written before the flush -/
theorem flush_crash_reopen (s : State σ) (hopen : s.fileOpen = true) (after : List (Op σ))
    (hro : ∀ o ∈ after, o.isMutate = false) : crash (run (step s .flush) after) = s.live := by
  have hf : (step s .flush).disk = s.live ∧ (step s .flush).live = s.live := by simp [step, flush, hopen]
  exact (run_nonmutating _ s.live hf.1 hf.2 after hro).1

/-- **close_crash_reopen** — once `close()` has returned, then whatever is attempted afterwards — including modifying calls through
    handles obtained earlier, which can no longer reach the file — a crash leaves everything written before the close -/
theorem close_crash_reopen (s : State σ) (hopen : s.fileOpen = true) (hok : TableOk s.ids) (after : List (Op σ)) :
    crash (run (step s .close) after) = s.live := by
  have hc := close_releases_all s hopen hok
  have key : ∀ (s' : State σ), s'.fileOpen = false → ∀ ops, (run s' ops).disk = s'.disk := by
    intro s' hs ops
    induction ops generalizing s' with
    | nil => rfl
    | cons o ops ih =>
      simp only [run, List.foldl_cons]
      have hstep : (step s' o).fileOpen = false ∧ (step s' o).disk = s'.disk := by
        cases o <;> simp [step, flush, close, hs]
      have := ih (step s' o) hstep.1
      simp only [run] at this
      rw [this, hstep.2]
  simp only [crash, step]
  rw [key (close s) hc.2.1 after, hc.2.2.1]

/-- "it contains everything written before": the image a crash after a flush leaves is the fold of every modifying call before it -/
theorem flushed_image_is_all_writes (c : σ) (own : List Nat) (fs : List (σ → σ)) :
    crash (step (run (init c own) (fs.map .mutate)) .flush) = fs.foldl (fun x f => f x) c := by
  have key : ∀ (s : State σ), s.fileOpen = true →
      (run s (fs.map Op.mutate)).fileOpen = true ∧ (run s (fs.map Op.mutate)).live = fs.foldl (fun x f => f x) s.live := by
    induction fs with
    | nil => intro s hs; exact ⟨hs, rfl⟩
    | cons f fs ih =>
      intro s hs
      simp only [List.map_cons, run, List.foldl_cons]
      have h1 : (step s (.mutate f)).fileOpen = true ∧ (step s (.mutate f)).live = f s.live := by simp [step, hs]
      have := ih (step s (.mutate f)) h1.1
      simp only [run] at this
      rw [h1.2] at this
      exact this
  have h := key (init c own) rfl
  simp only [crash, step, flush, h.1, ↓reduceIte, h.2]
  rfl

/-! ### non-vacuity -/

-- four handles on one block (count 4), two on an array, the File's own three ids
def exTable : Table := [(1, 1), (2, 1), (3, 1), (10, 4), (11, 2), (12, 1)]
def exState : State (List String) :=
  { live := ["b", "a"], disk := ["b"], dirty := true, fileOpen := true, ids := exTable, own := [1, 2, 3] }

example : TableOk exTable := ⟨by decide, by decide⟩
example : (close exState).ids = [] ∧ (close exState).fileOpen = false ∧ (close exState).disk = ["b", "a"] := by decide
example : useHandle exState 10 = .ok () := by decide
example : useHandle (close exState) 10 = .error .h5Error := by decide
-- without the inner loop over the reference count an id would survive and keep the file open
example : (closeLoop [10, 11, 12] exTable).length = 3 := by decide
example : ([10, 11, 12].foldl (fun t id => decRef id t) [(10, 4), (11, 2), (12, 1)]) = [(10, 3), (11, 1)] := by decide
-- a crash while dirty loses the unflushed write; after a flush it does not
example : crash exState = ["b"] := rfl
example : crash (run exState [.flush, .read, .release 10]) = ["b", "a"] := by decide
example : crash (run exState [.flush, .mutate (fun l => l ++ ["x"])]) = ["b", "a"] := by decide
example : (run exState [.flush, .mutate (fun l => l ++ ["x"])]).dirty = true := by decide

end Nix.C11
