import NixModel.Proofs.IndexPair
/-
  C07 — position→index conversion obeys the documented matching rules.
  Property theorems only (helper lemmas live in Proofs/Index*.lean).

  Every theorem is generic in the scalar type `α` and uses only: `<`/`≤` form a linear order,
  `==` decides equality (and for set/data-frame axes `LawfulRounding`).  Nothing is assumed about
  `+ - * /`, so the statements hold whatever floating-point rounding does to the computed
  quotient or to `i*interval + offset`; what *is* needed of the coordinates is stated as the
  hypothesis that they are strictly increasing.
-/
open Std
set_option linter.unusedSectionVars false
namespace Nix.C07
open Nix Scalar

variable {α : Type} [Scalar α] [IsLinearOrder α] [LawfulOrderLT α] [LawfulScalarEq α]

/-- range dimension: all five rules, every strictly ascending tick list, every position -/
theorem range_index_spec (ticks : List α) (hs : Sorted ticks) (p : α) (m : PositionMatch) :
    IsIndex (rangeAxis ticks) m p (getIndex p ticks m) :=
  relIndex_sound _ (rangeAxis_strictMono ticks hs) m p _ _ (range_rel p ticks hs m)

/-- the raw `*lower` access of `getIndex` is in range whenever it is reached -/
theorem range_deref_safe (ticks : List α) (hs : Sorted ticks) (hne : ticks ≠ []) (p : α)
    (h1 : ¬ p < ticks[0]'(List.length_pos_iff.mpr hne))
    (h2 : ¬ ticks[ticks.length - 1]'(by have := List.length_pos_iff.mpr hne; omega) < p) :
    lowerBound p ticks < ticks.length := by
  have hn := List.length_pos_iff.mpr hne
  have := lt_lowerBound_iff p ticks hs (ticks.length - 1) (by omega)
  have := lowerBound_le_length p ticks
  grind

/-- sampled dimension: for every interval/offset whose coordinates `i*interval+offset` are strictly
    increasing, every position below coordinate number `fuel` whose rounded quotient is below 2^53 (the library answers `none`
    beyond: fix df344c6), and *any* value of that quotient -/
theorem sampled_index_spec (fuel : Nat) (p off si : α) (m : PositionMatch)
    (hx : StrictMonoN (posAt si off)) (hx0 : posAt si off 0 = off)
    (hsi : zero < si) (hfp : isFinite p = true) (hfo : isFinite off = true)
    (hfuel : p < posAt si off fuel) (hq : floor (div (sub p off) si) < ofNat 9007199254740992) :
    IsIndex (sampledAxis si off) m p (getSampledIndex fuel p off si m) :=
  relIndex_sound _ (sampledAxis_strictMono si off hx) m p _ _
    (sampled_rel fuel p off si m hx hx0 hsi hfp hfo hfuel hq)

/-- set and data-frame dimensions: integer coordinates clipped by the label / row count -/
theorem count_index_spec [LawfulRounding α] (p : α) (count : Nat) (m : PositionMatch) (hp : p < ofNat indexLimit) :
    IsIndex (countAxis count) m p (getCountIndex p count m) :=
  count_index_spec' p count m hp

/-- the rule designates at most one answer, so the kernels return *the* index of the rule -/
theorem index_unique (a : Axis α) (hm : a.StrictMono) (m : PositionMatch) (p : α) (r r' : Option Nat)
    (h : IsIndex a m p r) (h' : IsIndex a m p r') : r = r' :=
  IsIndex_unique a hm m p r r' h h'

/-- the coordinate of sample i converts back to i (i-1 for Less, i+1 for Greater) -/
theorem index_roundtrip (a : Axis α) (hm : a.StrictMono) (i : Nat) (hi : a.valid i) :
    IsIndex a .greaterOrEqual (a.coord i) (some i) ∧ IsIndex a .lessOrEqual (a.coord i) (some i) ∧
    IsIndex a .equal (a.coord i) (some i) ∧
    IsIndex a .less (a.coord i) (if i = 0 then none else some (i - 1)) ∧
    IsIndex a .greater (a.coord i) (if a.valid (i + 1) then some (i + 1) else none) :=
  coord_roundtrip a hm i hi

/-- … and therefore the sampled kernel maps `positionAt(i)` to `i`, `i`, `i`, `i-1`, `i+1` -/
theorem sampled_roundtrip (fuel : Nat) (off si : α) (i : Nat)
    (hx : StrictMonoN (posAt si off)) (hx0 : posAt si off 0 = off)
    (hsi : zero < si) (hfp : isFinite (posAt si off i) = true) (hfo : isFinite off = true) (hfuel : i < fuel)
    (hq : floor (div (sub (posAt si off i) off) si) < ofNat 9007199254740992) :
    getSampledIndex fuel (posAt si off i) off si .greaterOrEqual = some i ∧
    getSampledIndex fuel (posAt si off i) off si .lessOrEqual = some i ∧
    getSampledIndex fuel (posAt si off i) off si .equal = some i ∧
    getSampledIndex fuel (posAt si off i) off si .less = (if i = 0 then none else some (i - 1)) ∧
    getSampledIndex fuel (posAt si off i) off si .greater = some (i + 1) := by
  have hm := sampledAxis_strictMono si off hx
  have hv := sampledAxis_valid si off
  have hrt := coord_roundtrip (sampledAxis si off) hm i (hv i)
  have hk := fun m => sampled_index_spec fuel (posAt si off i) off si m hx hx0 hsi hfp hfo (hx i fuel hfuel) hq
  have hu := fun m r r' => IsIndex_unique (sampledAxis si off) hm m (posAt si off i) r r'
  refine ⟨hu _ _ _ (hk _) hrt.1, hu _ _ _ (hk _) hrt.2.1, hu _ _ _ (hk _) hrt.2.2.1, hu _ _ _ (hk _) hrt.2.2.2.1, ?_⟩
  have := hrt.2.2.2.2
  rw [if_pos (hv (i + 1))] at this
  exact hu _ _ _ (hk _) this

/-- start/end pairs: (GreaterOrEqual(start), LessOrEqual|Less(end)), valid exactly when
    start ≤ end and the resulting pair is ordered — for each of the descriptor kinds -/
theorem range_pair_spec (ticks : List α) (hs : Sorted ticks) (s e : α) (rm : RangeMatch) :
    IsPair (rangeAxis ticks) rm s e (rangePair ticks s e rm) := by
  rw [rangePair_eq_pairOf]
  exact pairOf_spec _ _ (fun p m => range_index_spec ticks hs p m) s e rm

theorem count_pair_spec [LawfulRounding α] (count : Nat) (s e : α) (rm : RangeMatch)
    (hs : s < ofNat indexLimit) (he : e < ofNat indexLimit) :
    IsPair (countAxis count) rm s e (countPair count s e rm) :=
  pairOf_spec_at _ _ s e rm (count_index_spec s count .greaterOrEqual hs) (count_index_spec e count rm.endMatch he)

theorem sampled_pair_spec (fuel : Nat) (off si : α) (s e : α) (rm : RangeMatch)
    (hx : StrictMonoN (posAt si off)) (hx0 : posAt si off 0 = off)
    (hsi : zero < si) (hfs : isFinite s = true) (hfe : isFinite e = true) (hfo : isFinite off = true)
    (hs : s < posAt si off fuel) (he : e < posAt si off fuel)
    (hqs : floor (div (sub s off) si) < ofNat 9007199254740992) (hqe : floor (div (sub e off) si) < ofNat 9007199254740992) :
    IsPair (sampledAxis si off) rm s e (sampledPair fuel off si s e rm) := by
  unfold sampledPair pairOf
  have h1 := sampled_index_spec fuel s off si .greaterOrEqual hx hx0 hsi hfs hfo hs hqs
  have h2 := sampled_index_spec fuel e off si rm.endMatch hx hx0 hsi hfe hfo he hqe
  by_cases hes : e < s
  · simp [hes, IsPair]
  · simp only [hes, if_false]
    cases hgs : getSampledIndex fuel s off si .greaterOrEqual with
    | none => rw [hgs] at h1; simp only [IsPair]; exact Or.inr (Or.inl h1)
    | some i =>
      cases hge : getSampledIndex fuel e off si rm.endMatch with
      | none => rw [hge] at h2; simp only [IsPair]; exact Or.inr (Or.inr (Or.inl h2))
      | some j =>
        rw [hgs] at h1; rw [hge] at h2
        by_cases hle : i ≤ j
        · show IsPair _ rm s e (if i ≤ j then some (i, j) else none)
          rw [if_pos hle]; simp only [IsPair]; exact ⟨hes, h1, h2, hle⟩
        · show IsPair _ rm s e (if i ≤ j then some (i, j) else none)
          rw [if_neg hle]; simp only [IsPair]
          exact Or.inr (Or.inr (Or.inr ⟨i, j, h1, h2, by omega⟩))

/-- the run-time evaluator used on the implementation's answers is sound for the rule -/
theorem rel_evaluator_sound (a : Axis α) (hm : a.StrictMono) (m : PositionMatch) (p : α) (r hint : Option Nat)
    (h : relIndex a m p r hint = true) : IsIndex a m p r :=
  relIndex_sound a hm m p r hint h

/-! ### lawful instances and non-vacuity -/

instance : LawfulRounding Int where
  ofNat_zero := rfl
  ofNat_strictMono := by intro i j h; show (Int.ofNat i) < Int.ofNat j; simp only [Int.ofNat_eq_natCast]; omega
  toNat_ofNat := by intro k; simp [Scalar.toNat, Scalar.ofNat]
  floor_spec := by
    intro p hp
    simp only [Scalar.floor, Scalar.toNat, Scalar.ofNat, Scalar.zero, id, Int.ofNat_eq_natCast] at *
    refine ⟨?_, Int.le_refl _, ?_⟩ <;> omega
  ceil_neg := by intro p h; exact h
  ceil_spec := by
    intro p hp
    simp only [Scalar.ceil, Scalar.toNat, Scalar.ofNat, Scalar.zero, id, Int.ofNat_eq_natCast] at *
    refine ⟨?_, Int.le_refl _, ?_⟩
    · omega
    · intro h; omega
  round_spec := by
    intro p hp
    simp only [Scalar.round, Scalar.toNat, Scalar.ofNat, Scalar.zero, Scalar.beq, id, beq_self_eq_true, true_iff,
      forall_const, Int.ofNat_eq_natCast] at *
    refine ⟨⟨p.toNat, ?_⟩, ?_⟩ <;> omega

/-- an integer axis with interval 3 and offset 1: coordinates 1, 4, 7, … are strictly increasing -/
example : StrictMonoN (posAt (3 : Int) 1) := by
  intro i j h; simp only [posAt, Scalar.add, Scalar.mul, Scalar.ofNat, Int.ofNat_eq_natCast]; omega
example : posAt (3 : Int) 1 0 = 1 := by decide
-- deliberately wrong quotient estimates do not matter (fuel 100):
example : getSampledIndex 100 (10 : Int) 1 3 .lessOrEqual = some 3 := by decide
example : getSampledIndex 100 (10 : Int) 1 3 .less = some 2 := by decide
example : getSampledIndex 100 (11 : Int) 1 3 .greaterOrEqual = some 4 := by decide
example : getSampledIndex 100 (11 : Int) 1 3 .equal = none := by decide
-- a rational axis with interval 1/10: the case the pinned library got wrong
example : getSampledIndex 100 (3/10 : Rat) 0 (1/10) .greaterOrEqual = some 3 := by decide +kernel
example : Sorted ([1, 4, 6] : List Int) := by simp [Sorted]
example : getIndex (5 : Int) [1, 4, 6] .less = some 1 ∧ getIndex (4 : Int) [1, 4, 6] .greater = some 2 ∧
    getIndex (7 : Int) [1, 4, 6] .greaterOrEqual = none := by decide
example : getCountIndex (7 : Int) 3 .lessOrEqual = some 2 ∧ getCountIndex (2 : Int) 3 .greater = none ∧
    getCountIndex (2 : Int) 0 .greater = some 3 := by decide
example : rangePair ([1, 4, 6] : List Int) 2 6 .exclusive = some (1, 1) ∧
    rangePair ([1, 4, 6] : List Int) 2 6 .inclusive = some (1, 2) ∧ rangePair ([1, 4, 6] : List Int) 5 5 .exclusive = none := by decide

end Nix.C07
