import NixModel.Step
import NixModel.Proofs.StoreBasics
/-
  C04 — deleting an entity leaves no dangling reference and harms nothing else.

  In the store model every delete entry point (blocks, sections and sources with their whole subtree, data arrays, data
  frames, tags, multi tags, groups) does ONE kind of thing to the store: it removes, in every object, the links whose target
  lies in some set D of deleted objects (`delete_only_unlinks`).  Consequently
  * no object keeps a link to a deleted object, so no path from anywhere reaches it (`unlinkAll_unreachable`) — whatever holder
    pointed to it (tag / multi-tag references, positions / extents, feature data, group members, attached sources, metadata,
    section links, alias dimensions: all of them are hard links);
  * every object keeps its attributes and its kind, and its links except those into D, in their old order
    (`unlinkAll_frame`): "every entity that was not deleted is left exactly as it was";
  * when the entry point answers `true` the entity it looked up is in D (`*_victim`).
-/
namespace Nix.St
open Store

/-- remove, everywhere, the links whose target is in D -/
def Store.unlinkAll (s : Store) (D : List ObjId) : Store :=
  { objs := s.objs.map fun ob => { ob with links := ob.links.filter fun l => !D.contains l.2 } }

inductive Reach (s : Store) : ObjId → ObjId → Prop
  | refl (a : ObjId) : Reach s a a
  | step {a b c : ObjId} (n : String) : Reach s a b → (n, c) ∈ s.linksOf b → Reach s a c

theorem unlinkAll_obj? (s : Store) (D : List ObjId) (o : ObjId) :
    (s.unlinkAll D).obj? o = (s.obj? o).map fun ob => { ob with links := ob.links.filter fun l => !D.contains l.2 } := by
  simp [Store.unlinkAll, obj?]

/-- "harms nothing else": attributes, kind and every link not into D survive, in order -/
theorem unlinkAll_frame (s : Store) (D : List ObjId) (o : ObjId) :
    (s.unlinkAll D).linksOf o = (s.linksOf o).filter (fun l => !D.contains l.2) ∧
    (∀ k, (s.unlinkAll D).attr? o k = s.attr? o k) ∧
    (s.unlinkAll D).isGroupObj o = s.isGroupObj o ∧
    (s.unlinkAll D).objs.length = s.objs.length := by
  refine ⟨?_, ?_, ?_, ?_⟩
  · simp only [linksOf, unlinkAll_obj?]; cases s.obj? o <;> simp
  · intro k; simp only [attr?, unlinkAll_obj?]; cases s.obj? o <;> simp
  · simp only [isGroupObj, unlinkAll_obj?]; cases s.obj? o <;> simp
  · simp [Store.unlinkAll]

/-- no link into D is left anywhere -/
theorem unlinkAll_no_incoming (s : Store) (D : List ObjId) (o d : ObjId) (n : String) (hd : d ∈ D) :
    (n, d) ∉ (s.unlinkAll D).linksOf o := by
  rw [(unlinkAll_frame s D o).1]
  simp [hd]

/-- a deleted object has no hard link left: its reference count is 0 -/
theorem sum_zero_of_all_zero : ∀ (l : List Nat), (∀ x ∈ l, x = 0) → l.sum = 0
  | [], _ => rfl
  | x :: xs, h => by
    simp only [List.sum_cons]
    rw [h x (by simp), sum_zero_of_all_zero xs (fun y hy => h y (List.mem_cons_of_mem _ hy))]

theorem unlinkAll_refCount (s : Store) (D : List ObjId) (d : ObjId) (hd : d ∈ D) : (s.unlinkAll D).refCount d = 0 := by
  unfold Store.refCount Store.unlinkAll
  apply sum_zero_of_all_zero
  intro x hx
  simp only [List.map_map, List.mem_map, Function.comp] at hx
  obtain ⟨ob, _, rfl⟩ := hx
  simp only [List.length_eq_zero_iff]
  apply List.filter_eq_nil_iff.mpr
  intro l hl
  have hl2 := (List.mem_filter.mp hl).2
  by_cases h : l.2 = d
  · rw [h] at hl2; simp [hd] at hl2
  · simp [h]

/-- **deleted_handle_reports_invalid** — C04: "handles to it report themselves invalid": whatever handle still wraps a deleted
    object (the victim, anything of its subtree), `isValidEntity` answers false after the delete — for EVERY store and every set of
    deleted objects, hence for every delete entry point (`delete_only_unlinks`) -/
theorem deleted_handle_reports_invalid (s : Store) (D : List ObjId) (d : ObjId) (hd : d ∈ D) :
    isValidEntity (s.unlinkAll D) d = false := by
  simp [isValidEntity, unlinkAll_refCount s D d hd]

theorem deleted_handle_refused (s : Store) (D : List ObjId) (h : Handle) (hd : h.obj ∈ D) : validHandle (s.unlinkAll D) (some h) = false := by
  simp [validHandle, deleted_handle_reports_invalid s D h.obj hd]

/-- "no dangling reference": after the delete, a deleted object is reachable from nothing but itself -/
theorem unlinkAll_unreachable (s : Store) (D : List ObjId) (a d : ObjId) (hd : d ∈ D) (h : Reach (s.unlinkAll D) a d) : a = d := by
  cases h with
  | refl => rfl
  | step n _ hl => exact absurd hl (unlinkAll_no_incoming s D _ d n hd)

/-- deleting never makes anything reachable that was not -/
theorem unlinkAll_reach_mono (s : Store) (D : List ObjId) (a b : ObjId) (h : Reach (s.unlinkAll D) a b) : Reach s a b := by
  induction h with
  | refl => exact .refl _
  | step n _ hl ih =>
    rw [(unlinkAll_frame s D _).1] at hl
    exact .step n ih (List.mem_filter.mp hl).1

theorem unlinkAll_nil (s : Store) : s.unlinkAll [] = s := by
  cases s with
  | mk objs =>
    simp only [Store.unlinkAll, List.contains_nil, Bool.not_false, Store.mk.injEq]
    have : ∀ ob : Obj, ({ ob with links := ob.links.filter fun _ => true } : Obj) = ob := by
      intro ob; cases ob; simp
    simp [this]

theorem unlinkAll_unlinkAll (s : Store) (D1 D2 : List ObjId) : (s.unlinkAll D1).unlinkAll D2 = s.unlinkAll (D1 ++ D2) := by
  simp only [Store.unlinkAll, List.map_map, Store.mk.injEq]
  apply List.map_congr_left
  intro ob _
  simp only [Function.comp, List.filter_filter, Obj.mk.injEq, true_and]
  apply List.filter_congr
  intro l _
  simp [List.contains_append, Bool.and_comm]

theorem removeAllLinksTo_eq (s : Store) (t : ObjId) : s.removeAllLinksTo t = s.unlinkAll [t] := by
  simp only [removeAllLinksTo, Store.unlinkAll, Store.mk.injEq]
  apply List.map_congr_left
  intro ob _
  simp only [Obj.mk.injEq, true_and]
  apply List.filter_congr
  intro l _
  simp [bne, beq_iff_eq]
  by_cases h : l.2 = t <;> simp [h]

/-- H5Group::removeAllLinks(name): either nothing happens, or every link to the group of that name goes -/
theorem removeAllLinks_spec (s : Store) (g : ObjId) (n : String) :
    ((s.removeAllLinks g n).2 = false ∧ (s.removeAllLinks g n).1 = s) ∨
    (∃ t, s.child? g n = some t ∧ (s.removeAllLinks g n).2 = true ∧ (s.removeAllLinks g n).1 = s.unlinkAll [t]) := by
  unfold removeAllLinks
  split
  · split
    · rename_i t ht
      exact .inr ⟨t, ht, rfl, removeAllLinksTo_eq s t⟩
    · exact .inl ⟨rfl, rfl⟩
  · exact .inl ⟨rfl, rfl⟩

theorem removeAllLinks_unlinks (s : Store) (g : ObjId) (n : String) : ∃ D, (s.removeAllLinks g n).1 = s.unlinkAll D := by
  rcases removeAllLinks_spec s g n with ⟨_, h⟩ | ⟨t, _, _, h⟩
  · exact ⟨[], by rw [h, unlinkAll_nil]⟩
  · exact ⟨[t], h⟩

/-- a fold of steps each of which only unlinks, only unlinks -/
theorem foldl_unlinks {α : Type} (f : Store → α → Store) (hf : ∀ s a, ∃ D, f s a = s.unlinkAll D) (l : List α) (s : Store) :
    ∃ D, l.foldl f s = s.unlinkAll D := by
  induction l generalizing s with
  | nil => exact ⟨[], by simp [unlinkAll_nil]⟩
  | cons a as ih =>
    obtain ⟨D1, h1⟩ := hf s a
    obtain ⟨D2, h2⟩ := ih (f s a)
    refine ⟨D1 ++ D2, ?_⟩
    rw [List.foldl_cons, h2, h1, unlinkAll_unlinkAll]

theorem afterKids_unlinks (rec : Store → ObjId → String → Store × Bool) (hrec : ∀ s c k, ∃ D, (rec s c k).1 = s.unlinkAll D)
    (s : Store) (v : ObjId) (cname : String) : ∃ D, afterKids rec s v cname = s.unlinkAll D := by
  unfold afterKids
  split
  · exact foldl_unlinks _ (fun s a => hrec s _ a) _ _
  · exact ⟨[], by simp [unlinkAll_nil]⟩

/-- the recursive delete of sections / sources (children first, then the victim) only unlinks, at every depth -/
theorem deleteNested_unlinks (cname : String) (fuel : Nat) (s : Store) (c : ObjId) (key : String) :
    ∃ D, (deleteNested cname fuel s c key).1 = s.unlinkAll D := by
  induction fuel generalizing s c key with
  | zero => exact ⟨[], by simp [deleteNested, unlinkAll_nil]⟩
  | succ f ih =>
    unfold deleteNested
    split
    · exact ⟨[], by simp [unlinkAll_nil]⟩
    · rename_i v _
      obtain ⟨D1, hD1⟩ := afterKids_unlinks (deleteNested cname f) ih s v cname
      obtain ⟨D2, hD2⟩ := removeAllLinks_unlinks (afterKids (deleteNested cname f) s v cname) c (nameOf s v)
      refine ⟨D1 ++ D2, ?_⟩
      rw [hD2, hD1, unlinkAll_unlinkAll]


theorem lookup_mem {l : List (String × ObjId)} {n : String} {t : ObjId} (h : l.lookup n = some t) : (n, t) ∈ l := by
  induction l with
  | nil => simp at h
  | cons x xs ih =>
    obtain ⟨a, b⟩ := x
    simp only [List.lookup_cons] at h
    cases hab : n == a with
    | true =>
      simp only [hab] at h
      have : n = a := by simpa using hab
      simp_all
    | false => simp only [hab] at h; exact List.mem_cons_of_mem _ (ih h)

theorem child?_mem {s : Store} {g t : ObjId} {n : String} (h : s.child? g n = some t) : (n, t) ∈ s.linksOf g := lookup_mem h

/-- the recursive delete, when it answers `true`: the entity found under the key is `v`, and the object `t` that the parent's
    container links under v's name — `v` itself whenever links carry the entity's name — is among the unlinked ones -/
theorem deleteNested_victim (cname : String) (fuel : Nat) (s : Store) (c : ObjId) (key : String)
    (h : (deleteNested cname fuel s c key).2 = true) :
    ∃ v t D, s.findGroupByNameOrAttribute c "entity_id" key = some v ∧ (nameOf s v, t) ∈ s.linksOf c ∧ t ∈ D ∧
      (deleteNested cname fuel s c key).1 = s.unlinkAll D := by
  cases fuel with
  | zero => simp [deleteNested] at h
  | succ f =>
    unfold deleteNested at h ⊢
    split at h
    · simp at h
    · rename_i v hv
      simp only [hv]
      obtain ⟨D1, hD1⟩ := afterKids_unlinks (deleteNested cname f) (deleteNested_unlinks cname f) s v cname
      rcases removeAllLinks_spec (afterKids (deleteNested cname f) s v cname) c (nameOf s v) with ⟨hf, _⟩ | ⟨t, ht, _, hs⟩
      · rw [hf] at h; simp at h
      · refine ⟨v, t, D1 ++ [t], rfl, ?_, by simp, ?_⟩
        · have := child?_mem ht
          rw [hD1, (unlinkAll_frame s D1 c).1] at this
          exact (List.mem_filter.mp this).1
        · rw [hs, hD1, unlinkAll_unlinkAll]

/-- BlockHDF5::removeEntity (data arrays, data frames, tags, multi tags, groups) -/
theorem removeEntity_spec (s : Store) (blk : ObjId) (kind iname iid : String) :
    ((removeEntity s blk kind iname iid).2 = false ∧ (removeEntity s blk kind iname iid).1 = s) ∨
    (∃ p e t, s.optGroup blk (blockContainer kind) = some p ∧ blkFind s blk kind iname iid = some e ∧
        s.child? p (nameOf s e) = some t ∧ (removeEntity s blk kind iname iid).2 = true ∧
        (removeEntity s blk kind iname iid).1 = s.unlinkAll [t]) := by
  unfold removeEntity
  split
  · rename_i p e hp he
    rcases removeAllLinks_spec s p (nameOf s e) with h | ⟨t, ht, h2, h1⟩
    · exact .inl h
    · exact .inr ⟨p, e, t, hp, he, ht, h2, h1⟩
  · exact .inl ⟨rfl, rfl⟩

theorem deleteBlock_spec (s : Store) (key : String) :
    ((deleteBlock s key).2 = false ∧ (deleteBlock s key).1 = s) ∨
    (∃ b t, s.findGroupByNameOrAttribute dataGrp "entity_id" key = some b ∧ s.child? dataGrp (nameOf s b) = some t ∧
        (deleteBlock s key).2 = true ∧ (deleteBlock s key).1 = s.unlinkAll [t]) := by
  unfold deleteBlock
  split
  · exact .inl ⟨rfl, rfl⟩
  · rename_i b hb
    rcases removeAllLinks_spec s dataGrp (nameOf s b) with h | ⟨t, ht, h2, h1⟩
    · exact .inl h
    · exact .inr ⟨b, t, hb, ht, h2, h1⟩

/-- every delete entry point only removes links into a set of deleted objects -/
theorem delete_only_unlinks (s : Store) :
    (∀ k, ∃ D, (deleteBlock s k).1 = s.unlinkAll D) ∧
    (∀ p k, ∃ D, (deleteSection s p k).1 = s.unlinkAll D) ∧
    (∀ p k, ∃ D, (deleteSubSource s p k).1 = s.unlinkAll D) ∧
    (∀ b k, ∃ D, (deleteBlockSource s b k).1 = s.unlinkAll D) ∧
    (∀ b kd n i, ∃ D, (removeEntity s b kd n i).1 = s.unlinkAll D) := by
  refine ⟨?_, ?_, ?_, ?_, ?_⟩
  · intro k
    rcases deleteBlock_spec s k with ⟨_, h⟩ | ⟨_, t, _, _, _, h⟩
    · exact ⟨[], by rw [h, unlinkAll_nil]⟩
    · exact ⟨[t], h⟩
  · intro p k
    unfold deleteSection
    split
    · exact deleteNested_unlinks _ _ _ _ _
    · split
      · exact deleteNested_unlinks _ _ _ _ _
      · exact ⟨[], by simp [unlinkAll_nil]⟩
  · intro p k
    unfold deleteSubSource
    split
    · exact deleteNested_unlinks _ _ _ _ _
    · exact ⟨[], by simp [unlinkAll_nil]⟩
  · intro b k
    unfold deleteBlockSource
    split
    · exact ⟨[], by simp [unlinkAll_nil]⟩
    · split
      · exact ⟨[], by simp [unlinkAll_nil]⟩
      · rename_i c _ _ v _
        obtain ⟨D1, hD1⟩ := afterKids_unlinks (deleteNested "sources" (fuelOf s)) (deleteNested_unlinks "sources" (fuelOf s)) s v "sources"
        obtain ⟨D2, hD2⟩ := removeAllLinks_unlinks (afterKids (deleteNested "sources" (fuelOf s)) s v "sources") c (nameOf s v)
        exact ⟨D1 ++ D2, by rw [hD2, hD1, unlinkAll_unlinkAll]⟩
  · intro b kd n i
    rcases removeEntity_spec s b kd n i with ⟨_, h⟩ | ⟨_, _, t, _, _, _, _, h⟩
    · exact ⟨[], by rw [h, unlinkAll_nil]⟩
    · exact ⟨[t], h⟩

/-- the deleted array is exposed by nobody: whatever linked it — references, positions, extents, feature data, group
    membership, an alias dimension — the link is gone, and nothing else changed -/
theorem removeEntity_no_dangling (s : Store) (blk : ObjId) (kind iname iid : String) (p e : ObjId)
    (hp : s.optGroup blk (blockContainer kind) = some p) (he : blkFind s blk kind iname iid = some e)
    (hname : s.child? p (nameOf s e) = some e) (hgrp : s.hasGroup p (nameOf s e) = true) :
    let s' := (removeEntity s blk kind iname iid).1
    (removeEntity s blk kind iname iid).2 = true ∧
    (∀ o n, (n, e) ∉ s'.linksOf o) ∧ (∀ a, Reach s' a e → a = e) ∧
    (∀ o, s'.linksOf o = (s.linksOf o).filter (fun l => l.2 != e) ∧ (∀ k, s'.attr? o k = s.attr? o k)) := by
  intro s'
  rcases removeEntity_spec s blk kind iname iid with ⟨hf, _⟩ | ⟨p', e', t, hp', he', ht, h2, h1⟩
  · simp [removeEntity, hp, he, removeAllLinks, hname, hgrp] at hf
  · rw [hp] at hp'; rw [he] at he'
    cases hp'; cases he'
    rw [hname] at ht; cases ht
    refine ⟨h2, ?_, ?_, ?_⟩
    · intro o n; simp only [s', h1]; exact unlinkAll_no_incoming s [e] o e n (by simp)
    · intro a ha; simp only [s', h1] at ha; exact unlinkAll_unreachable s [e] a e (by simp) ha
    · intro o
      simp only [s', h1]
      refine ⟨?_, (unlinkAll_frame s [e] o).2.1⟩
      rw [(unlinkAll_frame s [e] o).1]
      apply List.filter_congr
      intro l _
      by_cases h : l.2 = e <;> simp [h]

/-- the other way of "removing": unlinking ONE name in ONE group (removeReference, removeSource, group members, metadata(none),
    link(none), extents(none), deleteFeature, deleteProperty) touches that group's links of that name and nothing else -/
theorem unlink_frame (s : Store) (g : ObjId) (n : String) (o : ObjId) :
    (s.unlink g n).linksOf o = (if o = g then (s.linksOf o).filter (·.1 != n) else s.linksOf o) ∧
    (∀ k, (s.unlink g n).attr? o k = s.attr? o k) := by
  constructor
  · simp only [unlink, linksOf, obj?_modifyObj]
    by_cases h : g = o
    · subst h; cases s.obj? g <;> simp
    · have h' : ¬ o = g := fun e => h e.symm
      simp [h, h']
  · intro k
    simp only [unlink, attr?, obj?_modifyObj]
    by_cases h : g = o
    · subst h; cases s.obj? g <;> simp
    · simp [h]

/-- non-vacuity: a block with an array that a tag references; deleting the array by name meets the hypotheses of
    `removeEntity_no_dangling`, answers true, and the tag's reference list is empty afterwards -/
example :
    let s0 := newFile "f" "0" "xnix" "[1,2,0]"
    let s1 := (createBlock s0 "b" "xt" "11111111-1111-1111-1111-111111111111" "1").1      -- block group = 3
    let s2 := (createDataArray s1 3 "a" "xt" "22222222-2222-2222-2222-222222222222" "1" "Double" "[2]").1   -- container 4, array 5
    let s3 := (createTag s2 3 "t" "xt" "33333333-3333-3333-3333-333333333333" "1" "[]").1                   -- container 6, tag 7
    let s4 := (addReference s3 7 3 "a").1
    s4.optGroup 3 (blockContainer "A") = some 4 ∧ blkFind s4 3 "A" "a" "" = some 5 ∧ s4.child? 4 (nameOf s4 5) = some 5 ∧
    s4.hasGroup 4 (nameOf s4 5) = true ∧ childIds s4 7 "references" = ["22222222-2222-2222-2222-222222222222"] ∧
    (removeEntity s4 3 "A" "a" "").2 = true ∧ childIds (removeEntity s4 3 "A" "a" "").1 7 "references" = [] := by
  decide +kernel

end Nix.St
