import NixModel.Step
import NixModel.Proofs.StoreBasics
/-
  C08 — a rejected operation leaves no trace.

  For the store model (NixModel/Store.lean, Entities.lean, Step.lean): whenever an entry point answers with an exception the
  store is EXACTLY the store before the call — with one explicit exception that the C++ really has: the three `add…` entry points
  (tag references, entity sources, group members) open their container group with create = true BEFORE they look the target up,
  so a refused `add` can leave a new, empty container group behind; no getter can tell such a store from the old one
  (`emptyContainer_*` below: count 0, enumeration empty, every index absent, before and after).
-/
namespace Nix.St
open Store

-- ----- creation ----------------------------------------------------------------------------------------------------------

theorem createBlock_rejected (s : Store) (n t i c : String) (e : Err) (h : (createBlock s n t i c).2 = .error e) :
    (createBlock s n t i c).1 = s := by
  unfold createBlock at *
  cases hc : checkNameAndType n t with
  | error e' => simp
  | ok u =>
    have ⟨hn, _, ht⟩ := checkNameAndType_ok hc
    simp only [hc, initNamed_ok _ _ _ _ _ _ hn ht] at h ⊢
    repeat' (split at h)
    all_goals simp_all

theorem createSectionIn_rejected (s : Store) (p : Option ObjId) (n t i c : String) (e : Err)
    (h : (createSectionIn s p n t i c).2 = .error e) : (createSectionIn s p n t i c).1 = s := by
  unfold createSectionIn at *
  cases hc : checkNameAndType n t with
  | error e' => simp
  | ok u =>
    have ⟨hn, _, ht⟩ := checkNameAndType_ok hc
    simp only [hc, initNamed_ok _ _ _ _ _ _ hn ht] at h ⊢
    repeat' (split at h)
    all_goals simp_all

theorem createSourceIn_rejected (s : Store) (p : ObjId) (n t i c : String) (e : Err)
    (h : (createSourceIn s p n t i c).2 = .error e) : (createSourceIn s p n t i c).1 = s := by
  unfold createSourceIn at *
  cases hc : checkNameAndType n t with
  | error e' => simp
  | ok u =>
    have ⟨hn, _, ht⟩ := checkNameAndType_ok hc
    simp only [hc, initNamed_ok _ _ _ _ _ _ hn ht] at h ⊢
    repeat' (split at h)
    all_goals simp_all

theorem createInBlock_rejected (s : Store) (b : ObjId) (k n t i c : String) (e : Err)
    (h : (createInBlock s b k n t i c).2 = .error e) : (createInBlock s b k n t i c).1 = s := by
  unfold createInBlock at *
  cases hc : checkNameAndType n t with
  | error e' => simp
  | ok u =>
    have ⟨hn, _, ht⟩ := checkNameAndType_ok hc
    simp only [hc, initNamed_ok _ _ _ _ _ _ hn ht] at h ⊢
    repeat' (split at h)
    all_goals simp_all

/-- once the front-end checks have passed, the common part of Block::create* cannot fail -/
theorem createInBlock_ok_of_checks (s : Store) (b : ObjId) (k n t i c : String)
    (hc : checkNameAndType n t = .ok ()) (hd : (blkFindKey s b k n).isSome = false) :
    ∃ s' g, createInBlock s b k n t i c = (s', .ok g) := by
  have ⟨hn, _, ht⟩ := checkNameAndType_ok hc
  unfold createInBlock
  simp [hc, hd, initNamed_ok _ _ _ _ _ _ hn ht]

theorem createDataArray_rejected (s : Store) (b : ObjId) (n t i c dt sh : String) (e : Err)
    (h : (createDataArray s b n t i c dt sh).2 = .error e) : (createDataArray s b n t i c dt sh).1 = s := by
  unfold createDataArray at *
  cases hc : checkNameAndType n t with
  | error e' => simp
  | ok u =>
    simp only [hc] at h ⊢
    by_cases hd : (blkFindKey s b "A" n).isSome = true
    · simp [hd]
    · by_cases hs : dtypeStorable dt = true
      · by_cases hr : sh = "[]"
        · simp [hd, hs, hr]
        · obtain ⟨s', g, hk⟩ := createInBlock_ok_of_checks s b "A" n t i c hc (by simpa using hd)
          simp [hd, hs, hr, hk] at h
      · simp [hd, hs]

theorem createTag_rejected (s : Store) (b : ObjId) (n t i c pos : String) (e : Err)
    (h : (createTag s b n t i c pos).2 = .error e) : (createTag s b n t i c pos).1 = s := by
  unfold createTag at *
  have := createInBlock_rejected s b "T" n t i c
  split at h
  · rename_i s' e' heq
    simp only [heq] at this ⊢
    exact this e' rfl
  · simp at h

theorem createGroup_rejected (s : Store) (b : ObjId) (n t i c : String) (e : Err)
    (h : (createGroup s b n t i c).2 = .error e) : (createGroup s b n t i c).1 = s :=
  createInBlock_rejected s b "G" n t i c e h

theorem createSource_rejected (s : Store) (b : ObjId) (n t i c : String) (e : Err)
    (h : (createSource s b n t i c).2 = .error e) : (createSource s b n t i c).1 = s :=
  createInBlock_rejected s b "O" n t i c e h

theorem createDataFrame_rejected (s : Store) (b : ObjId) (n t i c : String) (ns ts : List String) (cols : String) (e : Err)
    (h : (createDataFrame s b n t i c ns ts cols).2 = .error e) : (createDataFrame s b n t i c ns ts cols).1 = s := by
  unfold createDataFrame at *
  cases hc : checkNameAndType n t with
  | error e' => simp
  | ok u =>
    simp only [hc] at h ⊢
    by_cases hd : (blkFindKey s b "D" n).isSome = true
    · simp [hd]
    · simp only [hd] at h ⊢
      obtain ⟨s', g, hk⟩ := createInBlock_ok_of_checks s b "D" n t i c hc (by simpa using hd)
      by_cases hemp : ns.isEmpty = true
      · simp [hemp]
      · cases hscan : createDataFrame.scan [] ns ts with
        | some e' => simp [hemp]
        | none => simp [hemp, hscan, hk] at h

theorem createProperty_rejected (s : Store) (sec : ObjId) (n i c dt : String) (e : Err)
    (h : (createProperty s sec n i c dt).2 = .error e) : (createProperty s sec n i c dt).1 = s := by
  unfold createProperty at *
  cases hc : checkName n with
  | error e' => simp
  | ok u =>
    simp only [hc] at h ⊢
    repeat' (split at h)
    all_goals (try simp at h)
    all_goals simp_all

-- ----- single-valued links and plain fields --------------------------------------------------------------------------------

theorem setSectionLink_rejected (s : Store) (o : ObjId) (f id : String) (e : Err)
    (h : (setSectionLink s o f id).2 = .error e) : (setSectionLink s o f id).1 = s := by
  unfold setSectionLink at *
  repeat' (split at h)
  all_goals simp_all

theorem setArrayLink_rejected (s : Store) (o b : ObjId) (f k : String) (e : Err)
    (h : (setArrayLink s o b f k).2 = .error e) : (setArrayLink s o b f k).1 = s := by
  unfold setArrayLink at *
  repeat' (split at h)
  all_goals simp_all

theorem setExtents_rejected (s : Store) (m b : ObjId) (k : String) (e : Err)
    (h : (setExtents s m b k).2 = .error e) : (setExtents s m b k).1 = s := by
  unfold setExtents at *
  repeat' (split at h)
  all_goals simp_all

theorem setNonEmpty_rejected (s : Store) (o : ObjId) (k v : String) (e : Err)
    (h : (setNonEmpty s o k v).2 = .error e) : (setNonEmpty s o k v).1 = s := by
  unfold setNonEmpty at *
  repeat' (split at h)
  all_goals simp_all

-- ----- multi-valued links: the container is opened (created) before the target is looked up ------------------------------------

theorem addReference_rejected (s : Store) (t b : ObjId) (k : String) (e : Err)
    (h : (addReference s t b k).2 = .error e) : (addReference s t b k).1 = (s.openGroupCreate t "references").1 := by
  unfold addReference at *
  repeat' (split at h)
  all_goals (try simp at h)
  all_goals (try simp_all)
  all_goals (split at h <;> simp_all)

theorem addSource_rejected (s : Store) (o b : ObjId) (id : String) (e : Err)
    (h : (addSource s o b id).2 = .error e) : (addSource s o b id).1 = s ∨ (addSource s o b id).1 = (s.openGroupCreate o "sources").1 := by
  unfold addSource at *
  repeat' (split at h)
  all_goals (try simp at h)
  all_goals (try simp_all)
  all_goals (split at h <;> simp_all)

theorem addMember_rejected (s : Store) (g b : ObjId) (k n i : String) (e : Err)
    (h : (addMember s g b k n i).2 = .error e) : (addMember s g b k n i).1 = (s.openGroupCreate g (groupContainer k)).1 := by
  unfold addMember at *
  repeat' (split at h)
  all_goals (try simp at h)
  all_goals (try simp_all)
  all_goals (split at h <;> simp_all)

/-- no getter tells a store with a new, empty container from the store without it -/
theorem emptyContainer_unobservable (s : Store) (g : ObjId) (n : String) (h : s.hasGroup g n = false)
    (hc : s.child? g n = none) (hn : n.isEmpty = false) (hg : g < s.objs.length) :
    let s' := (s.openGroupCreate g n).1
    countIn s' (s'.optGroup g n) = countIn s (s.optGroup g n) ∧
    linkedIds s' (s'.optGroup g n) = linkedIds s (s.optGroup g n) ∧
    ∀ i, nthChild s' (s'.optGroup g n) i = nthChild s (s.optGroup g n) i := by
  intro s'
  obtain ⟨hc1, hl, hgrp, hframe, hgob⟩ := openGroupCreate_fresh s g n h hg
  have hold : s.optGroup g n = none := by simp [optGroup, h]
  obtain ⟨ob, hob⟩ : ∃ ob, s.obj? g = some ob := by
    unfold obj?; exact ⟨s.objs[g], List.getElem?_eq_getElem hg⟩
  have hnew := hgob ob hob
  have hlk : ob.links.lookup n = none := by simpa [child?, linksOf_eq, hob] using hc
  have hchild : s'.child? g n = some (s.openGroupCreate g n).2 := by
    simp only [s', child?, linksOf_eq, hnew]
    exact lookup_append_none hlk
  have hopt : s'.optGroup g n = some (s.openGroupCreate g n).2 := by
    have hgrp' : s'.isGroupObj (s.openGroupCreate g n).2 = true := hgrp
    simp [optGroup, hasGroup, hchild, hgrp', hn]
  simp only [hopt, hold, countIn, linkedIds, nthChild, objectCount]
  simp [s', hl]

-- ----- every entry point -------------------------------------------------------------------------------------------------------

/-- what a refused call may leave behind: nothing, or one container group opened with create = true -/
inductive NoTrace (s : Store) : Store → Prop
  | same : NoTrace s s
  | container (g : ObjId) (n : String) : NoTrace s (s.openGroupCreate g n).1

theorem unitRes_error {α : Type} (r : Res α) (e : Err) (h : (unitRes r).2 = .error e) : r.2 = .error e ∧ (unitRes r).1 = r.1 := by
  obtain ⟨s, x⟩ := r
  cases x <;> simp_all [unitRes]

/-- C08 for every entry point of the store model except createMultiTag / createFeature (see `createMultiTag_rejected`,
    `createFeature_rejected` for those two, which need the id of the array handle to be a well-formed id) -/
theorem rejected_no_trace_partial (s : Store) (op : Op) (e : Err)
    (h1 : ∀ b n t i c ph, op ≠ .createMultiTag b n t i c ph) (h2 : ∀ tg b i c lt dh, op ≠ .createFeature tg b i c lt dh)
    (h : (op.apply s).2 = .error e) : NoTrace s (op.apply s).1 := by
  cases op with
  | createBlock n t i c =>
    obtain ⟨h', hs⟩ := unitRes_error _ e h
    simp only [Op.apply, hs, createBlock_rejected s n t i c e h']; exact .same
  | createSection p n t i c =>
    obtain ⟨h', hs⟩ := unitRes_error _ e h
    simp only [Op.apply, hs, createSectionIn_rejected s p n t i c e h']; exact .same
  | createSubSource p n t i c =>
    obtain ⟨h', hs⟩ := unitRes_error _ e h
    simp only [Op.apply, hs, createSourceIn_rejected s p n t i c e h']; exact .same
  | createGroup b n t i c =>
    obtain ⟨h', hs⟩ := unitRes_error _ e h
    simp only [Op.apply, hs, createGroup_rejected s b n t i c e h']; exact .same
  | createSource b n t i c =>
    obtain ⟨h', hs⟩ := unitRes_error _ e h
    simp only [Op.apply, hs, createSource_rejected s b n t i c e h']; exact .same
  | createDataArray b n t i c dt sh =>
    obtain ⟨h', hs⟩ := unitRes_error _ e h
    simp only [Op.apply, hs, createDataArray_rejected s b n t i c dt sh e h']; exact .same
  | createDataFrame b n t i c ns ts cols =>
    obtain ⟨h', hs⟩ := unitRes_error _ e h
    simp only [Op.apply, hs, createDataFrame_rejected s b n t i c ns ts cols e h']; exact .same
  | createTag b n t i c pos =>
    obtain ⟨h', hs⟩ := unitRes_error _ e h
    simp only [Op.apply, hs, createTag_rejected s b n t i c pos e h']; exact .same
  | createMultiTag b n t i c ph => exact absurd rfl (h1 b n t i c ph)
  | createProperty sec n i c dt =>
    obtain ⟨h', hs⟩ := unitRes_error _ e h
    simp only [Op.apply, hs, createProperty_rejected s sec n i c dt e h']; exact .same
  | createFeature tg b i c lt dh => exact absurd rfl (h2 tg b i c lt dh)
  | setSectionLink o f id => simp only [Op.apply] at h ⊢; rw [setSectionLink_rejected s o f id e h]; exact .same
  | unsetLink o f => simp [Op.apply, unsetLink] at h
  | setArrayLink o b f k => simp only [Op.apply] at h ⊢; rw [setArrayLink_rejected s o b f k e h]; exact .same
  | setExtents m b k => simp only [Op.apply] at h ⊢; rw [setExtents_rejected s m b k e h]; exact .same
  | addReference t b k => simp only [Op.apply] at h ⊢; rw [addReference_rejected s t b k e h]; exact .container _ _
  | addSource o b id =>
    simp only [Op.apply] at h ⊢
    rcases addSource_rejected s o b id e h with h' | h'
    · rw [h']; exact .same
    · rw [h']; exact .container _ _
  | addMember g b k n i => simp only [Op.apply] at h ⊢; rw [addMember_rejected s g b k n i e h]; exact .container _ _
  | setNonEmpty o k v => simp only [Op.apply] at h ⊢; rw [setNonEmpty_rejected s o k v e h]; exact .same
  | unsetAttr o k => simp [Op.apply, unsetAttr] at h
  | setAttr o k v => simp [Op.apply] at h
  | deleteBlock k => simp [Op.apply, okRes] at h
  | deleteSection p k => simp [Op.apply, okRes] at h
  | deleteSubSource p k => simp [Op.apply, okRes] at h
  | deleteBlockSource b k => simp [Op.apply, okRes] at h
  | removeEntity b k n i => simp [Op.apply, okRes] at h
  | deleteProperty sec k => simp [Op.apply, okRes] at h
  | removeReference t b k => simp [Op.apply, okRes] at h
  | removeSource o id => simp [Op.apply, okRes] at h
  | removeMember g k n i => simp [Op.apply, okRes] at h

/-- non-vacuity: a duplicate block name is refused, and the store is the store before the call -/
example :
    let s := (createBlock (newFile "f" "0" "xnix" "[1,2,0]") "b" "xt" "id1" "1").1
    (createBlock s "b" "xt" "id2" "2").2 = .error .duplicateName ∧ (createBlock s "b" "xt" "id2" "2").1 = s := by decide +kernel

end Nix.St
