import NixModel.Gen.Containers
import NixModel.Entities
/-
  C02 — the layout the store model assumes is the layout the backend uses.  Every backend class has two constructors (for a new
  entity and for one found in the file); both open the entity's container groups by name.  `gen/extract_containers.py` reads those
  names off the source on every run.  A constructor pair that disagrees makes an entity lose a whole container across close + reopen
  (what a handle created by `create…` wrote is not where a handle from `get…` looks).
-/
namespace Nix.Containers
open Nix Nix.St Nix.Gen.Containers

/-- the name under which a class opens one of its containers (first occurrence) -/
def nameIn (cls member : String) : Option String := (opened.find? fun r => r.1 == cls && r.2.2.1 == member).map (·.2.2.2)

/-- **the constructors of a class name the same containers** -/
theorem constructors_agree :
    ∀ a ∈ opened, ∀ b ∈ opened, a.1 = b.1 → a.2.2.1 = b.2.2.1 → a.2.2.2 = b.2.2.2 := by decide +kernel

/-- every container is opened by (at least) two constructors of its class -/
theorem opened_by_both_constructors :
    ∀ a ∈ opened, ∃ b ∈ opened, a.1 = b.1 ∧ a.2.2.1 = b.2.2.1 ∧ a.2.1 ≠ b.2.1 := by decide +kernel

/-- **the store model's container names are the backend's** -/
theorem model_container_names :
    nameIn "BlockHDF5" "data_array_group" = some (blockContainer "A") ∧
    nameIn "BlockHDF5" "data_frame_group" = some (blockContainer "D") ∧
    nameIn "BlockHDF5" "tag_group" = some (blockContainer "T") ∧
    nameIn "BlockHDF5" "multi_tag_group" = some (blockContainer "M") ∧
    nameIn "BlockHDF5" "groups_group" = some (blockContainer "G") ∧
    nameIn "BlockHDF5" "source_group" = some (blockContainer "O") ∧
    nameIn "GroupHDF5" "data_array_group" = some (groupContainer "A") ∧
    nameIn "GroupHDF5" "data_frame_group" = some (groupContainer "D") ∧
    nameIn "GroupHDF5" "tag_group" = some (groupContainer "T") ∧
    nameIn "GroupHDF5" "multi_tag_group" = some (groupContainer "M") ∧
    nameIn "BaseTagHDF5" "refs_group" = some "references" ∧
    nameIn "BaseTagHDF5" "feature_group" = some "features" ∧
    nameIn "EntityWithSourcesHDF5" "sources_refs" = some "sources" ∧
    nameIn "SourceHDF5" "source_group" = some "sources" ∧
    nameIn "SectionHDF5" "section_group" = some "sections" ∧
    nameIn "SectionHDF5" "property_group" = some "properties" := by decide +kernel

end Nix.Containers
