import NixModel.Gen.Catches
/-
  C09 / C08 — the entry points of the library are catch-free programs over HDF5 calls: an HDF5 call that fails (a write on a file
  opened read-only, a refused conversion, …) surfaces as an exception of the entry point.

  The models of C09 (a mutator on a read-only file throws) and C08 (a refused call leaves no trace) treat every entry point that
  way.  That was established by reading; this file re-establishes it on every run: the translator lists every exception handler of
  the library sources (NixModel/Gen/Catches.lean) with whether its last statement is a `throw`.  The handlers that let control
  leave normally are exactly the wrappers of the validator's conditions (a getter that throws counts as a failed condition — C19
  models that, `Got.threw`) and one has-query that answers `false` for a handle whose id cannot be read; no handler in an entry
  point that creates, modifies, links or deletes anything swallows an exception.
-/
namespace Nix.Catches
open Nix.Gen.Catches

/-- the handlers that may end without a `throw` -/
def maySwallow (file : String) : Bool :=
  file == "include/nix/valid/conditions.hpp" || file == "include/nix/base/EntityWithSources.hpp"

/-- **no_handler_swallows** — every exception handler outside the validator's condition wrappers and the `hasSource(Source)` query
    ends in a `throw` -/
theorem no_handler_swallows : ∀ s ∈ sites, s.2.2.2 = true ∨ maySwallow s.1 = true := by decide

/-- … and there is exactly one handler in EntityWithSources.hpp (the has-query): a second one there would need to be read -/
theorem one_query_handler : (sites.filter fun s => s.1 == "include/nix/base/EntityWithSources.hpp").length = 1 := by decide

end Nix.Catches
