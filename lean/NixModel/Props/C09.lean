import NixModel.OpenMode
import NixModel.Spec.C09
/-
  C09 — open modes.  Property theorems about the model of `File::open` / `FileHDF5::FileHDF5` and of a session
  (lean/NixModel/OpenMode.lean), for every content type `C`, every library version, every clock / id source.
-/
set_option linter.unusedSectionVars false
set_option linter.unusedSimpArgs false
set_option linter.unusedVariables false
namespace Nix.C09
open Nix Nix.Modes

variable {C : Type} (empty : C) (lib : FormatVersion) (env : Env)

/-! ### the root steps -/

/-- a root group with both container groups and both time stamps (what every file written by the library has) -/
def Root.complete (r : Root) : Bool := r.hasMetadata && r.hasData && r.createdAt.isSome && r.updatedAt.isSome

/-- what a writable open leaves of the root: missing groups / time stamps are added, nothing else is touched -/
def completed (now : Nat) (r : Root) : Root :=
  { r with hasMetadata := true, hasData := true, createdAt := some (r.createdAt.getD now), updatedAt := some (r.updatedAt.getD now) }

theorem rootSteps_writable (now : Nat) (r : Root) : rootSteps true now r = (completed now r, none) := by
  obtain ⟨f, v, i, m, d, c, u⟩ := r
  cases m <;> cases d <;> cases c <;> cases u <;> simp [rootSteps, ensure, completed]

theorem rootSteps_readOnly (now : Nat) (r : Root) :
    rootSteps false now r = (r, if Root.complete r then none else some .h5Error) := by
  obtain ⟨f, v, i, m, d, c, u⟩ := r
  cases m <;> cases d <;> cases c <;> cases u <;> simp [rootSteps, ensure, Root.complete]

theorem completed_of_complete (now : Nat) (r : Root) (h : Root.complete r = true) : completed now r = r := by
  obtain ⟨f, v, i, m, d, c, u⟩ := r
  cases m <;> cases d <;> cases c <;> cases u <;> simp_all [completed, Root.complete]

/-! ### ReadOnly on a missing path -/

/-- **ro_missing_refused** — ReadOnly on a path where nothing exists is refused, and nothing is created there -/
theorem ro_missing_refused (force : Bool) :
    openFile empty lib env (.missing : Disk C) .readOnly force = ⟨.error .stdRuntime, .missing⟩ := by
  simp [openFile, Disk.present]

/-- the answer satisfies the specification's relation -/
theorem ro_missing_refused_rel (force : Bool) :
    relRoMissing (match (openFile empty lib env (.missing : Disk C) .readOnly force).result with
                  | .error e => .refused e.name | .ok s => .opened "" s.mode 0 0)
                 (match (openFile empty lib env (.missing : Disk C) .readOnly force).disk with
                  | .missing => .nothing | .dir => .dir | _ => .bytes 0 "") = true := by
  rw [ro_missing_refused]; rfl

example : openFile (C := Nat) 0 libVersion ⟨5, "id"⟩ .missing .readOnly false = ⟨.error .stdRuntime, .missing⟩ := by decide

/-! ### opening ReadOnly never writes -/

/-- **ro_open_never_writes** — whatever is at the path, whatever the outcome, a ReadOnly open leaves it as it is -/
theorem ro_open_never_writes (d : Disk C) (force : Bool) : (openFile empty lib env d .readOnly force).disk = d := by
  cases d with
  | missing => simp [openFile, Disk.present]
  | dir => simp [openFile, Disk.present]
  | empty => simp [openFile, Disk.present]
  | junk => simp [openFile, Disk.present]
  | h5 r c =>
    simp only [openFile, Disk.present]
    simp only [Bool.not_true, Bool.and_false, Bool.false_eq_true, ↓reduceIte, Bool.false_or]
    have : (FileMode.readOnly == FileMode.overwrite) = false := by decide
    simp only [this, Bool.false_eq_true, ↓reduceIte]
    cases headerCheck lib r .readOnly force with
    | error e => rfl
    | ok fv =>
      simp only [proceed]
      have : (FileMode.readOnly != FileMode.readOnly) = false := by decide
      rw [this, rootSteps_readOnly]
      split <;> simp_all

/-- a ReadOnly open that succeeds shows exactly the root and the content that were there, and is not writable -/
theorem ro_open_exposes (r : Root) (c : C) (force : Bool) (s : Session C)
    (h : (openFile empty lib env (.h5 r c) .readOnly force).result = .ok s) :
    s.root = r ∧ s.content = c ∧ s.writable = false ∧ s.mode = .readOnly := by
  simp only [openFile, Disk.present] at h
  simp only [Bool.not_true, Bool.and_false, Bool.false_eq_true, ↓reduceIte, Bool.false_or] at h
  have e1 : (FileMode.readOnly == FileMode.overwrite) = false := by decide
  simp only [e1, Bool.false_eq_true, ↓reduceIte] at h
  cases hc : headerCheck lib r .readOnly force with
  | error e => rw [hc] at h; cases h
  | ok fv =>
    rw [hc] at h
    simp only [proceed] at h
    have e2 : (FileMode.readOnly != FileMode.readOnly) = false := by decide
    rw [e2, rootSteps_readOnly] at h
    split at h
    · cases h
    · rename_i r' heq
      simp only [Except.ok.injEq] at h
      have : r' = r := by simp only [Prod.mk.injEq] at heq; exact heq.1.symm
      subst h; simp [this]

/-! ### the header gate -/

/-- the header the property asks for: the NIX format string, a three-component version the library may open in that mode,
    and an id from the id-gate version on -/
def HeaderOk (mode : FileMode) (r : Root) : Prop :=
  r.format = .value Gen.fileFormat ∧
  ∃ x y z, r.version = .value [x, y, z] ∧
    accepts lib mode ⟨x, y, z⟩ = true ∧
    (FormatVersion.ge ⟨x, y, z⟩ idGateVersion = true → ∃ i, r.id = .value i)

/-- the defect list: every way a root group can fall short of `HeaderOk` -/
inductive HeaderDefect (mode : FileMode) (r : Root) : Prop
  | formatMissing (h : r.format = .missing)
  | formatWrong (s : String) (h : r.format = .value s) (hs : s ≠ Gen.fileFormat)
  | formatUnreadable (e : Err) (h : r.format = .unreadable e)
  | versionMissing (h : r.version = .missing)
  | versionUnreadable (e : Err) (h : r.version = .unreadable e)
  | versionWrongLength (vv : List Int) (h : r.version = .value vv) (hl : vv.length ≠ 3)
  | versionNotAccepted (x y z : Int) (h : r.version = .value [x, y, z])
      (hc : accepts lib mode ⟨x, y, z⟩ = false)
  | idMissing (x y z : Int) (h : r.version = .value [x, y, z]) (hg : FormatVersion.ge ⟨x, y, z⟩ idGateVersion = true) (hi : r.id = .missing)
  | idUnreadable (x y z : Int) (h : r.version = .value [x, y, z]) (hg : FormatVersion.ge ⟨x, y, z⟩ idGateVersion = true) (e : Err)
      (hi : r.id = .unreadable e)

theorem ofList?_some_iff (vv : List Int) (fv : FormatVersion) :
    FormatVersion.ofList? vv = some fv ↔ vv = [fv.x, fv.y, fv.z] := by
  match vv with
  | [] => simp [FormatVersion.ofList?]
  | [_] => simp [FormatVersion.ofList?]
  | [_, _] => simp [FormatVersion.ofList?]
  | [a, b, c] =>
    cases fv; simp [FormatVersion.ofList?]
  | _ :: _ :: _ :: _ :: _ => simp [FormatVersion.ofList?]

theorem ofList?_none_iff (vv : List Int) : FormatVersion.ofList? vv = none ↔ vv.length ≠ 3 := by
  match vv with
  | [] => simp [FormatVersion.ofList?]
  | [_] => simp [FormatVersion.ofList?]
  | [_, _] => simp [FormatVersion.ofList?]
  | [a, b, c] => simp [FormatVersion.ofList?]
  | _ :: _ :: _ :: _ :: _ => simp [FormatVersion.ofList?]

/-- the defect list is exhaustive and exact -/
theorem headerDefect_iff_not_ok (mode : FileMode) (r : Root) : HeaderDefect lib mode r ↔ ¬ HeaderOk lib mode r := by
  constructor
  · intro hd ⟨hf, x, y, z, hv, hc, hi⟩
    cases hd with
    | formatMissing h => rw [h] at hf; cases hf
    | formatWrong s h hs => rw [h] at hf; cases hf; exact hs rfl
    | formatUnreadable e h => rw [h] at hf; cases hf
    | versionMissing h => rw [h] at hv; cases hv
    | versionUnreadable e h => rw [h] at hv; cases hv
    | versionWrongLength vv h hl => rw [h] at hv; cases hv; exact hl rfl
    | versionNotAccepted x' y' z' h hc' => rw [h] at hv; cases hv; rw [hc] at hc'; cases hc'
    | idMissing x' y' z' h hg hi' =>
      rw [h] at hv; cases hv
      obtain ⟨i, hi⟩ := hi hg; rw [hi'] at hi; cases hi
    | idUnreadable x' y' z' h hg e hi' =>
      rw [h] at hv; cases hv
      obtain ⟨i, hi⟩ := hi hg; rw [hi'] at hi; cases hi
  · intro hn
    cases hf : r.format with
    | missing => exact .formatMissing hf
    | unreadable e => exact .formatUnreadable e hf
    | value s =>
      by_cases hs : s = Gen.fileFormat
      · subst hs
        cases hv : r.version with
        | missing => exact .versionMissing hv
        | unreadable e => exact .versionUnreadable e hv
        | value vv =>
          by_cases hl : vv.length = 3
          · match vv, hl with
            | [x, y, z], _ =>
              cases hc : accepts lib mode ⟨x, y, z⟩ with
              | false => exact .versionNotAccepted x y z hv hc
              | true =>
                cases hg : FormatVersion.ge ⟨x, y, z⟩ idGateVersion with
                | false => exact absurd ⟨hf, x, y, z, hv, hc, fun h => by rw [hg] at h; cases h⟩ hn
                | true =>
                  cases hi : r.id with
                  | missing => exact .idMissing x y z hv hg hi
                  | unreadable e => exact .idUnreadable x y z hv hg e hi
                  | value i => exact absurd ⟨hf, x, y, z, hv, hc, fun _ => ⟨i, hi⟩⟩ hn
          · exact .versionWrongLength vv hv hl
      · exact .formatWrong s hf hs

/-- the gate lets a header through exactly when it is what the property asks for -/
theorem gate_passes_iff (mode : FileMode) (r : Root) :
    (∃ fv, gate lib r mode = .ok (true, fv)) ↔ HeaderOk lib mode r := by
  cases hf : r.format with
  | missing => simp [gate, HeaderOk, hf]
  | unreadable e => simp [gate, HeaderOk, hf]
  | value s =>
    by_cases hs : s = Gen.fileFormat
    · subst hs
      cases hv : r.version with
      | missing => simp [gate, HeaderOk, hf, hv]
      | unreadable e => simp [gate, HeaderOk, hf, hv]
      | value vv =>
        match vv with
        | [] => simp [gate, HeaderOk, hf, hv, FormatVersion.ofList?]
        | [_] => simp [gate, HeaderOk, hf, hv, FormatVersion.ofList?]
        | [_, _] => simp [gate, HeaderOk, hf, hv, FormatVersion.ofList?]
        | _ :: _ :: _ :: _ :: _ => simp [gate, HeaderOk, hf, hv, FormatVersion.ofList?]
        | [x, y, z] =>
          cases hc : accepts lib mode ⟨x, y, z⟩ <;> cases hg : FormatVersion.ge ⟨x, y, z⟩ idGateVersion <;> cases hi : r.id <;>
            simp [gate, HeaderOk, hf, hv, FormatVersion.ofList?, hc, hg, hi] <;>
            first | exact ⟨x, y, z, ⟨rfl, rfl, rfl⟩, hc, hg⟩ | exact ⟨x, y, z, ⟨rfl, rfl, rfl⟩, hc⟩
    · have : (s == Gen.fileFormat) = false := by simpa using hs
      simp [gate, HeaderOk, hf, this, hs]

/-- when the gate does not let the header through and Force is not given, the constructor throws -/
theorem headerCheck_refuses (mode : FileMode) (r : Root) (h : ¬ HeaderOk lib mode r) :
    ∃ e, headerCheck lib r mode false = .error e := by
  unfold headerCheck
  cases hg : gate lib r mode with
  | error e => exact ⟨e, rfl⟩
  | ok p =>
    obtain ⟨c, fv⟩ := p
    cases c with
    | false => exact ⟨.invalidFile, by simp⟩
    | true => exact absurd ((gate_passes_iff lib mode r).1 ⟨fv, hg⟩) h

theorem openFile_h5 (r : Root) (c : C) (mode : FileMode) (hm : mode ≠ .overwrite) (force : Bool) :
    openFile empty lib env (.h5 r c) mode force =
      match headerCheck lib r mode force with
      | .error e => ⟨.error e, .h5 r c⟩
      | .ok fv => proceed env mode fv r c := by
  cases mode with
  | overwrite => exact absurd rfl hm
  | readOnly => simp [openFile, Disk.present]; cases headerCheck lib r .readOnly force <;> rfl
  | readWrite => simp [openFile, Disk.present]; cases headerCheck lib r .readWrite force <;> rfl

/-- **bad_header_refused** — an HDF5 file whose root group shows any of the defects (missing / wrong / unreadable format, missing /
    unreadable / wrong-length / not accepted version, missing / unreadable id from 1.2.0 on — in particular a plain HDF5 file) is refused
    in ReadOnly and ReadWrite mode, and is left exactly as it was -/
theorem bad_header_refused (r : Root) (c : C) (mode : FileMode) (hm : mode ≠ .overwrite) (hd : HeaderDefect lib mode r) :
    ∃ e, openFile empty lib env (.h5 r c) mode false = ⟨.error e, .h5 r c⟩ := by
  obtain ⟨e, he⟩ := headerCheck_refuses lib mode r ((headerDefect_iff_not_ok lib mode r).1 hd)
  exact ⟨e, by rw [openFile_h5 empty lib env r c mode hm, he]⟩

/-- a plain HDF5 file (no NIX attributes at all) is refused -/
theorem plain_hdf5_refused (r : Root) (c : C) (mode : FileMode) (hm : mode ≠ .overwrite) (h : r.format = .missing) :
    openFile empty lib env (.h5 r c) mode false = ⟨.error .invalidFile, .h5 r c⟩ := by
  rw [openFile_h5 empty lib env r c mode hm]
  simp [headerCheck, gate, h]

/-- bytes that are not an HDF5 file, and a directory, are refused in ReadOnly and ReadWrite mode whatever the flags -/
theorem non_hdf5_refused (mode : FileMode) (hm : mode ≠ .overwrite) (force : Bool) :
    openFile empty lib env (.junk : Disk C) mode force = ⟨.error .h5Error, .junk⟩ ∧
    openFile empty lib env (.dir : Disk C) mode force = ⟨.error .h5Error, .dir⟩ := by
  cases mode with
  | overwrite => exact absurd rfl hm
  | readOnly => simp [openFile, Disk.present]
  | readWrite => simp [openFile, Disk.present]

/-- a zero-byte file is refused: ReadOnly because HDF5 cannot open it, ReadWrite because the file HDF5 makes of it has no header -/
theorem empty_file_refused (mode : FileMode) (hm : mode ≠ .overwrite) :
    ∃ e, (openFile empty lib env (.empty : Disk C) mode false).result = .error e := by
  cases mode with
  | overwrite => exact absurd rfl hm
  | readOnly => exact ⟨.h5Error, by simp [openFile, Disk.present]⟩
  | readWrite => exact ⟨.invalidFile, by simp [openFile, Disk.present, headerCheck, gate, emptyRoot]⟩

/-- acceptance, completely: without Force an existing HDF5 file is opened exactly when its header is what the property asks for
    and — ReadOnly, where nothing can be added — the root group is complete -/
theorem open_accepted_iff (r : Root) (c : C) (mode : FileMode) (hm : mode ≠ .overwrite) :
    (∃ s, (openFile empty lib env (.h5 r c) mode false).result = .ok s) ↔
      (HeaderOk lib mode r ∧ (mode = .readOnly → Root.complete r = true)) := by
  rw [openFile_h5 empty lib env r c mode hm]
  constructor
  · rintro ⟨s, hs⟩
    by_cases hok : HeaderOk lib mode r
    · refine ⟨hok, ?_⟩
      intro hro; subst hro
      cases hc : headerCheck lib r .readOnly false with
      | error e => rw [hc] at hs; cases hs
      | ok fv =>
        rw [hc] at hs
        simp only [proceed] at hs
        have e2 : (FileMode.readOnly != FileMode.readOnly) = false := by decide
        rw [e2, rootSteps_readOnly] at hs
        cases hcomp : Root.complete r with
        | true => rfl
        | false => simp [hcomp] at hs
    · obtain ⟨e, he⟩ := headerCheck_refuses lib mode r hok
      rw [he] at hs; cases hs
  · rintro ⟨hok, hcomp⟩
    obtain ⟨fv, hg⟩ := (gate_passes_iff lib mode r).2 hok
    have hc : headerCheck lib r mode false = .ok fv := by simp [headerCheck, hg]
    rw [hc]
    cases mode with
    | overwrite => exact absurd rfl hm
    | readOnly =>
      simp only [proceed]
      have e2 : (FileMode.readOnly != FileMode.readOnly) = false := by decide
      rw [e2, rootSteps_readOnly, hcomp rfl]
      exact ⟨_, rfl⟩
    | readWrite =>
      simp only [proceed]
      have e2 : (FileMode.readWrite != FileMode.readOnly) = true := by decide
      rw [e2, rootSteps_writable]
      exact ⟨_, rfl⟩

/-! ### Force -/

/-- **force_skips_only_the_gate** — on an existing HDF5 file the Force flag changes exactly one thing: a header the gate rejects
    (`check = false`) no longer throws InvalidFile; exceptions raised while reading the attributes, and everything after the gate
    (root groups and time stamps, which a ReadOnly file cannot add), are as without it -/
theorem force_skips_only_the_gate (r : Root) (c : C) (mode : FileMode) (hm : mode ≠ .overwrite) :
    match gate lib r mode with
    | .error e => ∀ force, openFile empty lib env (.h5 r c) mode force = ⟨.error e, .h5 r c⟩
    | .ok (true, fv) => ∀ force, openFile empty lib env (.h5 r c) mode force = proceed env mode fv r c
    | .ok (false, fv) =>
        openFile empty lib env (.h5 r c) mode false = ⟨.error .invalidFile, .h5 r c⟩ ∧
        openFile empty lib env (.h5 r c) mode true = proceed env mode fv r c := by
  cases hg : gate lib r mode with
  | error e => intro force; rw [openFile_h5 empty lib env r c mode hm]; simp [headerCheck, hg]
  | ok p =>
    obtain ⟨ck, fv⟩ := p
    cases ck with
    | true => intro force; rw [openFile_h5 empty lib env r c mode hm]; simp [headerCheck, hg]
    | false =>
      constructor
      · rw [openFile_h5 empty lib env r c mode hm]; simp [headerCheck, hg]
      · rw [openFile_h5 empty lib env r c mode hm]; simp [headerCheck, hg]

/-- where there is no header gate (nothing at the path, a directory, non-HDF5 bytes; Overwrite on anything) Force changes nothing -/
theorem force_irrelevant_without_gate (d : Disk C) (mode : FileMode)
    (h : mode = .overwrite ∨ d = .missing ∨ d = .dir ∨ d = .junk) :
    openFile empty lib env d mode true = openFile empty lib env d mode false := by
  rcases h with h | h | h | h
  · subst h; cases d <;> simp [openFile, Disk.present]
  · subst h; cases mode <;> simp [openFile, Disk.present]
  · subst h; cases mode <;> simp [openFile, Disk.present]
  · subst h; cases mode <;> simp [openFile, Disk.present]

/-- Force does not make a ReadOnly open write: a plain HDF5 file stays refused (its root groups cannot be added) and untouched -/
theorem force_ro_plain_still_refused (c : C) :
    openFile empty lib env (.h5 emptyRoot c) .readOnly true = ⟨.error .h5Error, .h5 emptyRoot c⟩ := by
  simp [openFile, Disk.present, headerCheck, gate, emptyRoot, proceed, rootSteps, ensure]

/-! ### Overwrite and creation -/

/-- the root group of a file the library has just created -/
def freshRoot : Root :=
  { format := .value Gen.fileFormat, version := .value [lib.x, lib.y, lib.z], id := .value env.freshId,
    hasMetadata := true, hasData := true, createdAt := some env.now, updatedAt := some env.now }

/-- **overwrite_empty** — Overwrite on anything but a directory yields a writable session on an empty, valid NIX file: the format
    string, the library's version, a fresh id, both container groups, no content; whatever was there before and whatever the flags -/
theorem overwrite_empty (d : Disk C) (hd : d ≠ .dir) (force : Bool) :
    openFile empty lib env d .overwrite force =
      ⟨.ok { mode := .overwrite, writable := true, root := freshRoot lib env, content := empty, version := lib },
       .h5 (freshRoot lib env) empty⟩ := by
  have hr : rootSteps true env.now (createHeader lib env emptyRoot) = (freshRoot lib env, none) := by
    rw [rootSteps_writable]; rfl
  cases d with
  | dir => exact absurd rfl hd
  | missing => simp [openFile, Disk.present, hr]
  | empty => simp [openFile, Disk.present, hr]
  | junk => simp [openFile, Disk.present, hr]
  | h5 r c => simp [openFile, Disk.present, hr]

/-- the fresh header passes the gate of the same library in every mode: what Overwrite leaves can be reopened -/
theorem freshRoot_headerOk (mode : FileMode) : HeaderOk lib mode (freshRoot lib env) := by
  refine ⟨rfl, lib.x, lib.y, lib.z, rfl, ?_, fun _ => ⟨env.freshId, rfl⟩⟩
  cases lib
  unfold accepts
  split <;> simp [FormatVersion.canWrite, FormatVersion.canRead, FormatVersion.eq]

/-- ReadWrite "creates it if absent": on a missing path ReadWrite behaves as Overwrite (and reports Overwrite as its mode) -/
theorem rw_missing_creates (force : Bool) :
    openFile empty lib env (.missing : Disk C) .readWrite force = openFile empty lib env (.missing : Disk C) .overwrite force := by
  simp [openFile, Disk.present]

/-! ### ReadWrite preserves -/

/-- **rw_preserves** — a ReadWrite open that succeeds shows the content that was there; of the root group only what was missing
    (container groups, time stamps) is added: format, version and id attributes are as before -/
theorem rw_preserves (r : Root) (c : C) (force : Bool) (s : Session C) (d' : Disk C)
    (h : openFile empty lib env (.h5 r c) .readWrite force = ⟨.ok s, d'⟩) :
    s.content = c ∧ s.root = completed env.now r ∧ d' = .h5 (completed env.now r) c ∧ s.writable = true ∧ s.mode = .readWrite ∧
    s.root.format = r.format ∧ s.root.version = r.version ∧ s.root.id = r.id := by
  rw [openFile_h5 empty lib env r c .readWrite (by decide)] at h
  cases hc : headerCheck lib r .readWrite force with
  | error e => rw [hc] at h; simp at h
  | ok fv =>
    rw [hc] at h
    simp only [proceed] at h
    have e2 : (FileMode.readWrite != FileMode.readOnly) = true := by decide
    rw [e2, rootSteps_writable] at h
    simp only [OpenOut.mk.injEq, Except.ok.injEq] at h
    obtain ⟨hs, hd⟩ := h
    subst hs; subst hd
    simp [completed]

/-- a file the library wrote (complete root) is not changed at all by a ReadWrite open -/
theorem rw_open_of_complete_unchanged (r : Root) (c : C) (force : Bool) (hcomp : Root.complete r = true) :
    (openFile empty lib env (.h5 r c) .readWrite force).disk = .h5 r c := by
  rw [openFile_h5 empty lib env r c .readWrite (by decide)]
  cases hc : headerCheck lib r .readWrite force with
  | error e => rfl
  | ok fv =>
    simp only [proceed]
    have e2 : (FileMode.readWrite != FileMode.readOnly) = true := by decide
    rw [e2, rootSteps_writable, completed_of_complete env.now r hcomp]

/-! ### read-only sessions: every entry point, as a program over HDF5 calls -/

variable {σ W R A β : Type} (P : Prim σ W R A)

/-- **ro_never_writes** — on a file opened read-only no entry point, whatever it is made of, changes the store -/
theorem ro_never_writes (p : Prog W R A β) (s : σ) : (run P false p s).2 = s := by
  induction p generalizing s with
  | ret b => rfl
  | fail e => rfl
  | read r k ih => simp only [run]; exact ih _ s
  | write w k ih => simp [run]

/-- **ro_mutators_fail** — an entry point that changes the store when the file is writable ends with an exception when the same
    file is opened read-only -/
theorem ro_mutators_fail (p : Prog W R A β) (s : σ) (h : (run P true p s).2 ≠ s) : ∃ e, (run P false p s).1 = .error e := by
  induction p generalizing s with
  | ret b => exact absurd rfl h
  | fail e => exact absurd rfl h
  | read r k ih => simp only [run] at h ⊢; exact ih _ s h
  | write w k ih => exact ⟨.h5Error, by simp [run]⟩

/-- until its first modifying call an entry point behaves the same in both modes: if the writable run issues no modifying call
    that takes effect (the store stays as it is) and the read-only run does not throw, both give the same answer -/
theorem ro_answer_agrees (p : Prog W R A β) (s : σ) (b : β) (h : (run P false p s).1 = .ok b) : run P true p s = (.ok b, s) := by
  induction p generalizing s with
  | ret b' => simp only [run] at h ⊢; cases h; rfl
  | fail e => simp [run] at h
  | read r k ih => simp only [run] at h ⊢; exact ih _ s h
  | write w k ih => simp [run] at h

/-! ### the File object's own mutating entry points -/

/-- createBlock / createSection on a read-only file: always an exception, never a change — for every name and type -/
theorem createEntity_ro_refused (g : Where) (name type : String) (s : FileStore) :
    (∃ e, (run filePrim false (createEntity g env name type) s).1 = .error e) ∧
    (run filePrim false (createEntity g env name type) s).2 = s := by
  refine ⟨?_, ro_never_writes filePrim _ s⟩
  unfold createEntity
  cases nameCheck name with
  | some e => exact ⟨e, rfl⟩
  | none =>
    by_cases ht : type.isEmpty
    · exact ⟨.emptyString, by simp [ht, run]⟩
    · simp only [ht, Bool.false_eq_true, ↓reduceIte, run]
      cases filePrim.ask (.find g name) s with
      | flag b => exact ⟨.h5Error, by simp [run]⟩
      | ent o =>
        cases o with
        | some e => exact ⟨.duplicateName, by simp [run]⟩
        | none => exact ⟨.h5Error, by simp [run]⟩

theorem deleteSubsections_ro (name : String) (n : Nat) (k : FProg Bool) (s : FileStore)
    (hk : ∃ e, (run filePrim false k s).1 = .error e) : ∃ e, (run filePrim false (deleteSubsections name n k) s).1 = .error e := by
  cases n with
  | zero => exact hk
  | succ n => exact ⟨.h5Error, by simp [deleteSubsections, run]⟩

/-- deleteBlock / deleteSection on a read-only file: an exception exactly when the entity exists (else `false`), never a change -/
theorem deleteEntity_ro (g : Where) (key : String) (s : FileStore) :
    (run filePrim false (deleteEntity g key) s).2 = s ∧
    ((findByNameOrId (s.group g) key).isSome → ∃ e, (run filePrim false (deleteEntity g key) s).1 = .error e) ∧
    ((findByNameOrId (s.group g) key) = none → (run filePrim false (deleteEntity g key) s).1 = .ok false) := by
  refine ⟨ro_never_writes filePrim _ s, ?_, ?_⟩
  · intro h
    unfold deleteEntity
    simp only [run, filePrim]
    cases hf : findByNameOrId (s.group g) key with
    | none => rw [hf] at h; cases h
    | some e =>
      cases g with
      | data => exact ⟨.h5Error, by simp [run]⟩
      | metadata => exact deleteSubsections_ro _ _ _ s ⟨.h5Error, by simp [run]⟩
  · intro h
    unfold deleteEntity
    simp [run, filePrim, h]

/-- forceId / forceUpdatedAt / forceCreatedAt on a read-only file -/
theorem force_calls_ro_refused (t : Nat) (s : FileStore) :
    run filePrim false (forceId env) s = (.error .h5Error, s) ∧
    run filePrim false (forceUpdatedAt env) s = (.error .h5Error, s) ∧
    run filePrim false (forceCreatedAt t) s = (.error .h5Error, s) := by
  simp [forceId, forceUpdatedAt, forceCreatedAt, run]

/-! ### non-vacuity -/

def exStore : FileStore :=
  { root := { format := .value "nix", version := .value [1, 2, 0], id := .value "f", hasMetadata := true, hasData := true,
              createdAt := some 1, updatedAt := some 1 },
    blocks := [{ name := "b", id := "12345678-1234-1234-1234-123456789abc", type := "t", createdAt := 1, updatedAt := 1 }],
    sections := [{ name := "s", id := "i2", type := "t", createdAt := 1, updatedAt := 1, subsections := 2 }] }

-- a writable session does create the block, a read-only one refuses and leaves the store alone
example : (run filePrim true (createEntity .data ⟨7, "new-id"⟩ "c" "t") exStore).2.blocks.length = 2 := by decide
example : (run filePrim true (createEntity .data ⟨7, "new-id"⟩ "c" "t") exStore).1 = .ok "new-id" := by decide
example : run filePrim false (createEntity .data ⟨7, "new-id"⟩ "c" "t") exStore = (.error .h5Error, exStore) := by decide
example : (run filePrim false (createEntity .data ⟨7, "new-id"⟩ "b" "t") exStore).1 = .error .duplicateName := by decide
example : (run filePrim true (deleteEntity .data "12345678-1234-1234-1234-123456789abc") exStore).2.blocks = [] := by decide
example : (run filePrim false (deleteEntity .metadata "s") exStore).1 = .error .h5Error := by decide
example : (run filePrim false (deleteEntity .metadata "nope") exStore).1 = .ok false := by decide
-- the hypothesis of ro_mutators_fail is satisfiable
example : (run filePrim true (forceId ⟨7, "g"⟩) exStore).2 ≠ exStore := by decide
-- open: a library-written file in every mode
example : (openFile (C := Nat) 0 libVersion ⟨9, "n"⟩ (.h5 exStore.root 5) .readOnly false).disk = .h5 exStore.root 5 := by decide
example : ((openFile (C := Nat) 0 libVersion ⟨9, "n"⟩ (.h5 exStore.root 5) .readWrite false).result.toOption.map (·.content)) = some 5 := by decide
example : ((openFile (C := Nat) 0 libVersion ⟨9, "n"⟩ (.h5 exStore.root 5) .overwrite false).result.toOption.map (·.content)) = some 0 := by decide
-- defects
example : HeaderDefect libVersion .readOnly emptyRoot := .formatMissing rfl
example : HeaderOk libVersion .readWrite exStore.root := ⟨rfl, 1, 2, 0, rfl, by decide, fun _ => ⟨"f", rfl⟩⟩
example : openFile (C := Nat) 0 libVersion ⟨9, "n"⟩ (.h5 { exStore.root with id := .missing } 5) .readOnly false
    = ⟨.error .invalidFile, .h5 { exStore.root with id := .missing } 5⟩ := by decide
example : (openFile (C := Nat) 0 libVersion ⟨9, "n"⟩ (.h5 { exStore.root with id := .missing } 5) .readOnly true).result.toOption.isSome = true := by decide
-- a zero-byte file opened ReadWrite: refused, but HDF5 has made a file of it
example : openFile (C := Nat) 0 libVersion ⟨9, "n"⟩ .empty .readWrite false = ⟨.error .invalidFile, .h5 emptyRoot 0⟩ := by decide

end Nix.C09
