import NixModel.Gen.ByEntity
/-
  C03 / C04 / C08 — operations BY ENTITY are about that entity.  The store model's by-handle operations (delete, unlink, link, the
  single-valued links) go by the id of the entity behind the handle.  The C++ front end does the same exactly when every by-entity
  overload forwards `x.id()` to its backend; `gen/extract_byentity.py` reads off which accessor each one forwards, on every run.
  (D52 and D53 were three overloads forwarding `x.name()`: a namesake of another parent was deleted / unlinked / linked instead.)
-/
namespace Nix.ByEntity
open Nix.Gen.ByEntity

/-- every by-entity overload forwards the id of the entity — except the two has-queries that look the NAME up and then compare the
    id of what they found with the id of the entity handed in (`da && da.id() == reference.id()`) -/
theorem by_entity_overloads_forward_the_id :
    ∀ o ∈ overloads, o.2.2.2.2 = "id" ∨ (o.2.1 = "hasReference" ∧ o.2.2.2.1 = "getReference") := by decide

/-- the overloads the model's by-handle operations stand for are in the table (a renamed or restructured one would silently drop out
    of the statement above) -/
def modelled : List (String × String × String × String × String) :=
  [("src/Block.cpp", "deleteSource", "Source", "deleteSource", "id"),
   ("src/Source.cpp", "deleteSource", "Source", "deleteSource", "id"),
   ("src/Section.cpp", "deleteSection", "Section", "deleteSection", "id"),
   ("src/File.cpp", "deleteBlock", "Block", "deleteBlock", "id"),
   ("src/Section.cpp", "deleteProperty", "Property", "deleteProperty", "id"),
   ("src/Tag.cpp", "deleteFeature", "Feature", "deleteFeature", "id"),
   ("src/MultiTag.cpp", "deleteFeature", "Feature", "deleteFeature", "id"),
   ("src/Tag.cpp", "addReference", "DataArray", "addReference", "id"),
   ("src/MultiTag.cpp", "addReference", "DataArray", "addReference", "id"),
   ("src/Tag.cpp", "removeReference", "DataArray", "removeReference", "id"),
   ("src/MultiTag.cpp", "removeReference", "DataArray", "removeReference", "id"),
   ("include/nix/base/EntityWithSources.hpp", "addSource", "Source", "addSource", "id"),
   ("include/nix/base/EntityWithSources.hpp", "removeSource", "Source", "removeSource", "id"),
   ("include/nix/base/EntityWithMetadata.hpp", "metadata", "Section", "metadata", "id"),
   ("src/Section.cpp", "link", "Section", "link", "id"),
   ("src/MultiTag.cpp", "positions", "DataArray", "positions", "id"),
   ("src/MultiTag.cpp", "extents", "DataArray", "extents", "id"),
   ("src/Feature.cpp", "data", "DataArray", "data", "id")]

theorem modelled_overloads_are_tabulated : ∀ m ∈ modelled, m ∈ overloads := by decide

end Nix.ByEntity
