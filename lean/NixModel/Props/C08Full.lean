import NixModel.Props.C03Inv
/-
  C08, completed: createMultiTag and createFeature.

  Both entry points look the array up TWICE: the front end checks that it is in the block (by name and id of the handle, resp. by
  its id), the backend creates and initialises the entity group and then looks the array up again by its id to make the
  `positions` / `data` link.  If that second lookup could fail, the call would throw and leave the new entity behind (this is what
  D9 was on the pinned tree, before the front-end check existed).  The theorems show that it cannot: creating the entity only
  EXTENDS the store (`Extends`: old objects keep attributes and kind, links grow at the end, towards groups), and a lookup by id
  that succeeded keeps succeeding in an extended store.  Provisos, all true of every state the library produces: handles denote
  objects that carry a name and a well-formed id, the arrays container holds groups only, a new feature id is fresh.
  With them `rejected_no_trace` covers EVERY entry point of the store model.
-/
namespace Nix.St
open Store


/-- `Extends s s'`: every object of `s` keeps its attributes and kind, its links are extended at the end only, and whatever
    was appended points to a group -/
structure Extends (s s' : Store) : Prop where
  len : s.objs.length ≤ s'.objs.length
  attrs : ∀ o k, o < s.objs.length → s'.attr? o k = s.attr? o k
  kind : ∀ o, o < s.objs.length → s'.isGroupObj o = s.isGroupObj o
  links : ∀ o, o < s.objs.length → ∃ ext, s'.linksOf o = s.linksOf o ++ ext ∧ ∀ l ∈ ext, s'.isGroupObj l.2 = true

theorem Extends.refl (s : Store) : Extends s s :=
  ⟨Nat.le_refl _, fun _ _ _ => rfl, fun _ _ => rfl, fun _ _ => ⟨[], by simp, by simp⟩⟩

theorem isGroupObj_lt {s : Store} {o : ObjId} (h : s.isGroupObj o = true) : o < s.objs.length := by
  unfold isGroupObj at h
  cases hob : s.obj? o with
  | none => simp [hob] at h
  | some ob => exact obj?_lt hob

theorem Extends.trans {a b c : Store} (h1 : Extends a b) (h2 : Extends b c) : Extends a c := by
  refine ⟨Nat.le_trans h1.len h2.len, ?_, ?_, ?_⟩
  · intro o k ho; rw [h2.attrs o k (Nat.lt_of_lt_of_le ho h1.len), h1.attrs o k ho]
  · intro o ho; rw [h2.kind o (Nat.lt_of_lt_of_le ho h1.len), h1.kind o ho]
  · intro o ho
    obtain ⟨e1, he1, hg1⟩ := h1.links o ho
    obtain ⟨e2, he2, hg2⟩ := h2.links o (Nat.lt_of_lt_of_le ho h1.len)
    refine ⟨e1 ++ e2, by rw [he2, he1, List.append_assoc], ?_⟩
    intro l hl
    rcases List.mem_append.mp hl with hl | hl
    · have := hg1 l hl
      rw [h2.kind l.2 (isGroupObj_lt this)]; exact this
    · exact hg2 l hl

theorem linksOf_setAttr (s : Store) (g : ObjId) (k v : String) (o : ObjId) : (s.setAttr g k v).linksOf o = s.linksOf o := by
  simp only [Store.setAttr, linksOf, obj?_modifyObj]
  by_cases h : g = o
  · subst h; cases s.obj? g <;> simp
  · simp [h]

/-- writing an attribute of an object that did not exist in the base store -/
theorem Extends.setAttr_new {s0 s : Store} (h : Extends s0 s) (g : ObjId) (k v : String) (hg : s0.objs.length ≤ g) :
    Extends s0 (s.setAttr g k v) := by
  refine ⟨by rw [length_setAttr]; exact h.len, ?_, ?_, ?_⟩
  · intro o k' ho
    rw [attr?_setAttr_other s g k v o k' (Nat.ne_of_lt (Nat.lt_of_lt_of_le ho hg))]; exact h.attrs o k' ho
  · intro o ho; rw [isGroupObj_setAttr]; exact h.kind o ho
  · intro o ho
    obtain ⟨e, he, hge⟩ := h.links o ho
    exact ⟨e, by rw [linksOf_setAttr]; exact he, fun l hl => by rw [isGroupObj_setAttr]; exact hge l hl⟩

/-- opening / creating a (container or entity) group -/
theorem Extends.openGroupCreate (s : Store) (g : ObjId) (n : String) (hg : g < s.objs.length) : Extends s (s.openGroupCreate g n).1 := by
  by_cases hex : s.hasGroup g n = true
  · rw [openGroupCreate_existing s g n hex]; exact Extends.refl s
  · have hex' : s.hasGroup g n = false := by simpa using hex
    obtain ⟨hc1, hl, hgrp, hframe, hgob⟩ := openGroupCreate_fresh s g n hex' hg
    have hold := openGroupCreate_old s g n
    refine ⟨hold.1, fun o k ho => hold.2.1 o k ho, ?_, ?_⟩
    · intro o ho
      by_cases hog : o = g
      · subst hog
        obtain ⟨ob, hob⟩ : ∃ ob, s.obj? o = some ob := ⟨s.objs[o], by unfold obj?; exact List.getElem?_eq_getElem hg⟩
        simp [isGroupObj, hgob ob hob, hob]
      · simp [isGroupObj, hframe o hog ho]
    · intro o ho
      by_cases hog : o = g
      · subst hog
        obtain ⟨ob, hob⟩ : ∃ ob, s.obj? o = some ob := ⟨s.objs[o], by unfold obj?; exact List.getElem?_eq_getElem hg⟩
        refine ⟨[(n, (s.openGroupCreate o n).2)], by simp [linksOf, hgob ob hob, hob], ?_⟩
        intro l hl
        rw [List.mem_singleton] at hl; subst hl; exact hgrp
      · exact ⟨[], by simp [linksOf, hframe o hog ho], by simp⟩

/-- a successful Block::create* extends the store -/
theorem createInBlock_extends (s : Store) (b : ObjId) (k n t i c : String) (hb : b < s.objs.length) :
    Extends s (createInBlock s b k n t i c).1 := by
  cases hres : (createInBlock s b k n t i c).2 with
  | error e => rw [createInBlock_rejected s b k n t i c e hres]; exact Extends.refl s
  | ok g =>
    unfold createInBlock at hres ⊢
    cases hc : checkNameAndType n t with
    | error e' => simp [hc] at hres
    | ok u =>
      have ⟨hn, _, ht⟩ := checkNameAndType_ok hc
      simp only [hc, initNamed_ok _ _ _ _ _ _ hn ht] at hres ⊢
      by_cases hd : (blkFindKey s b k n).isSome = true
      · simp [hd] at hres
      · simp only [hd]
        have hnone : blkFindKey s b k n = none := by
          cases h : blkFindKey s b k n with
          | none => rfl
          | some x => simp [h] at hd
        obtain ⟨_, hnew⟩ := create2_new s b (blockContainer k) n hb (fun x hx => blkFind_none_hasGroup s b x k n hx hnone)
        have h1 := Extends.openGroupCreate s b (blockContainer k) hb
        have hc2 : (s.openGroupCreate b (blockContainer k)).2 < (s.openGroupCreate b (blockContainer k)).1.objs.length := by
          by_cases hex : s.hasGroup b (blockContainer k) = true
          · obtain ⟨_, x, hx, _⟩ := hasGroup_child s b _ hex
            have : (s.openGroupCreate b (blockContainer k)).2 = x := by unfold Store.openGroupCreate; simp [hex, hx]
            rw [this, openGroupCreate_existing s b _ hex]
            have hgx : s.isGroupObj x = true := by
              simp only [hasGroup] at hex
              simp [hx] at hex; exact hex.2
            exact isGroupObj_lt hgx
          · have hex' : s.hasGroup b (blockContainer k) = false := by simpa using hex
            have := (openGroupCreate_old s b (blockContainer k)).2.2 hex'
            rw [this.1, this.2]; exact Nat.lt_succ_self _
        have h2 := Extends.openGroupCreate (s.openGroupCreate b (blockContainer k)).1 (s.openGroupCreate b (blockContainer k)).2 n hc2
        have h12 := h1.trans h2
        exact (((h12.setAttr_new _ "entity_id" i hnew).setAttr_new _ "created_at" c hnew).setAttr_new _ "type" t hnew).setAttr_new _ "name" n hnew

theorem lookup_append_some {l ext : List (String × ObjId)} {n : String} {t : ObjId} (h : l.lookup n = some t) :
    (l ++ ext).lookup n = some t := by
  rw [List.lookup_append, h]; rfl

/-- in an extended store, a container that existed is still the same container -/
theorem Extends.optGroup {s s' : Store} (h : Extends s s') (o : ObjId) (n : String) (p : ObjId) (ho : o < s.objs.length)
    (hp : s.optGroup o n = some p) : s'.optGroup o n = some p := by
  unfold Store.optGroup at hp ⊢
  by_cases hg : s.hasGroup o n = true
  · simp only [hg, if_true] at hp
    obtain ⟨hn, x, hx, _⟩ := hasGroup_child s o n hg
    rw [hx] at hp
    have hxp : x = p := by simpa using hp
    subst hxp
    obtain ⟨ext, hext, _⟩ := h.links o ho
    have hx' : s'.child? o n = some x := by
      unfold child? at hx ⊢; rw [hext]; exact lookup_append_some hx
    have hgx : s.isGroupObj x = true := by
      simp only [hasGroup, hx, hn] at hg; simpa using hg
    have hgx' : s'.isGroupObj x = true := by rw [h.kind x (isGroupObj_lt hgx)]; exact hgx
    simp [hasGroup, hn, hx', hgx']
  · simp [hg] at hp

/-- the lookup of an array by ID ALONE succeeds as soon as the container links a group that carries the id, provided
    the container holds groups only -/
theorem blkFind_by_id_isSome (s : Store) (blk p a : ObjId) (kind id nm : String) (hp : s.optGroup blk (blockContainer kind) = some p)
    (hid : id.isEmpty = false) (hm : (nm, a) ∈ s.linksOf p) (hga : s.isGroupObj a = true) (hida : s.attr? a "entity_id" = some id)
    (hgroups : ∀ l ∈ s.linksOf p, s.isGroupObj l.2 = true) : (blkFind s blk kind "" id).isSome = true := by
  have e1 : ("" : String).isEmpty = true := by decide
  unfold blkFind
  simp only [hp, e1, hid, Bool.true_and, Bool.not_true, Bool.false_eq_true, if_false, Bool.not_false, if_true, Bool.false_and]
  by_cases ho : s.hasObject p id = true
  · -- something is NAMED like the id: it is a group, it is returned
    simp only [hasObject, hid, Bool.not_false, Bool.true_and] at ho
    cases hc : s.child? p id with
    | none => simp [hc] at ho
    | some x =>
      have hxg : s.isGroupObj x = true := hgroups (id, x) (child?_mem hc)
      simp [hasObject, hasGroup, hid, hc, hxg]
  · simp only [ho, Bool.false_eq_true, if_false]
    have : ((s.linksOf p).find? fun l => s.isGroupObj l.2 && s.attr? l.2 "entity_id" == some id).isSome = true := by
      rw [List.find?_isSome]
      exact ⟨(nm, a), hm, by simp [hga, hida]⟩
    unfold findGroupByAttribute
    cases hf : (s.linksOf p).find? fun l => s.isGroupObj l.2 && s.attr? l.2 "entity_id" == some id with
    | none => simp [hf] at this
    | some y => simp

/-- what a successful lookup by name AND id (the handle form) says about the container -/
theorem blkFind_some_facts (s : Store) (blk p a : ObjId) (kind nm id : String) (hp : s.optGroup blk (blockContainer kind) = some p)
    (hnm : nm.isEmpty = false) (hid : id.isEmpty = false) (h : blkFind s blk kind nm id = some a) :
    ∃ n', (n', a) ∈ s.linksOf p ∧ s.isGroupObj a = true ∧ s.attr? a "entity_id" = some id := by
  unfold blkFind at h
  simp only [hp, hid, hnm, Bool.and_false, Bool.false_eq_true, if_false, Bool.not_false, Bool.and_true, if_true, Bool.true_and] at h
  by_cases ho : s.hasObject p nm = true
  · simp only [ho, if_true] at h
    by_cases hg : s.hasGroup p nm = true
    · simp only [hg, if_true] at h
      cases hc : s.child? p nm with
      | none => simp [hc] at h
      | some x =>
        simp only [hc] at h
        by_cases hx : s.attr? x "entity_id" = some id
        · simp only [hx, bne_self_eq_false, Bool.false_eq_true, if_false, Option.some.injEq] at h
          subst h
          have hgx : s.isGroupObj x = true := by simp only [hasGroup, hc, hnm] at hg; simpa using hg
          exact ⟨nm, child?_mem hc, hgx, hx⟩
        · have : (s.attr? x "entity_id" != some id) = true := by simpa using hx
          simp [this] at h
    · simp [hg] at h
  · simp only [ho, Bool.false_eq_true, if_false] at h
    unfold findGroupByAttribute at h
    cases hf : (s.linksOf p).find? fun l => s.isGroupObj l.2 && s.attr? l.2 "entity_id" == some id with
    | none => simp [hf] at h
    | some y =>
      simp only [hf, Option.map_some] at h
      have hpred := List.find?_some hf
      have hmem := List.mem_of_find?_eq_some hf
      simp only [Bool.and_eq_true, beq_iff_eq] at hpred
      by_cases hy : s.attr? y.2 "entity_id" = some id
      · simp only [hy, bne_self_eq_false, Bool.false_eq_true, if_false, Option.some.injEq] at h
        subst h
        exact ⟨y.1, hmem, hpred.1, hy⟩
      · exact absurd hpred.2 hy

/-- the second lookup of createMultiTag / createFeature (by the id alone, in the store after the entity group has been made)
    finds what the front-end's lookup found -/
theorem blkFind_id_after_extend {s s' : Store} (hext : Extends s s') (blk p a : ObjId) (kind id : String) (hb : blk < s.objs.length)
    (hp : s.optGroup blk (blockContainer kind) = some p) (hid : id.isEmpty = false)
    (hm : ∃ n', (n', a) ∈ s.linksOf p) (hga : s.isGroupObj a = true) (hida : s.attr? a "entity_id" = some id)
    (hgroups : ∀ l ∈ s.linksOf p, s.isGroupObj l.2 = true) : (blkFind s' blk kind "" id).isSome = true := by
  obtain ⟨n', hm⟩ := hm
  have hp' := hext.optGroup blk _ p hb hp
  have hpl : p < s.objs.length := by
    have hh : s.hasGroup blk (blockContainer kind) = true := by
      unfold Store.optGroup at hp; by_cases hh : s.hasGroup blk (blockContainer kind) = true
      · exact hh
      · simp [hh] at hp
    obtain ⟨hn, x, hx, _⟩ := hasGroup_child s blk _ hh
    have hxp : s.optGroup blk (blockContainer kind) = some x := by simp [Store.optGroup, hh, hx]
    rw [hp] at hxp
    have hpx : p = x := by simpa using hxp
    subst hpx
    have : s.isGroupObj p = true := by simp only [hasGroup, hx, hn] at hh; simpa using hh
    exact isGroupObj_lt this
  obtain ⟨ext, hl, hge⟩ := hext.links p hpl
  have hal := isGroupObj_lt hga
  refine blkFind_by_id_isSome s' blk p a kind id n' hp' hid ?_ ?_ ?_ ?_
  · rw [hl]; exact List.mem_append_left _ hm
  · rw [hext.kind a hal]; exact hga
  · rw [hext.attrs a _ hal]; exact hida
  · intro l hlm
    rw [hl] at hlm
    rcases List.mem_append.mp hlm with h1 | h1
    · have := hgroups l h1
      rw [hext.kind l.2 (isGroupObj_lt this)]; exact this
    · exact hge l h1

theorem looksLikeUUID_nonempty {v : String} (h : looksLikeUUID v = true) : v.isEmpty = false := by
  cases hv : v.isEmpty with
  | false => rfl
  | true =>
    have : v = "" := by simpa using hv
    subst this
    simp [looksLikeUUID] at h

theorem blkFind_some_container {s : Store} {blk a : ObjId} {kind nm id : String} (h : blkFind s blk kind nm id = some a) :
    ∃ p, s.optGroup blk (blockContainer kind) = some p := by
  unfold blkFind at h
  cases hp : s.optGroup blk (blockContainer kind) with
  | none => simp [hp] at h
  | some p => exact ⟨p, rfl⟩

/-- setArrayLink succeeds as soon as its lookup does -/
theorem setArrayLink_ok_of_found (s : Store) (holder blk : ObjId) (f key : String) (h : (blkFindKey s blk "A" key).isSome = true) :
    ∃ s', setArrayLink s holder blk f key = (s', .ok ()) := by
  unfold setArrayLink
  cases hk : blkFindKey s blk "A" key with
  | none => simp [hk] at h
  | some a => exact ⟨_, rfl⟩

/-- C08 for createMultiTag: refused ⇒ nothing happened.  The positions handle denotes an object with a name and a well-formed id
    (what every handle obtained from the library has), and the arrays container of the block holds groups only. -/
theorem createMultiTag_rejected (s : Store) (blk : ObjId) (n t i c : String) (ph : Option Handle) (e : Err)
    (hb : blk < s.objs.length)
    (hgroups : ∀ p, s.optGroup blk (blockContainer "A") = some p → ∀ l ∈ s.linksOf p, s.isGroupObj l.2 = true)
    (hph : ∀ h, ph = some h → looksLikeUUID (idOf s h.obj) = true ∧ (nameOf s h.obj).isEmpty = false ∧ h.obj < s.objs.length)
    (h : (createMultiTag s blk n t i c ph).2 = .error e) : (createMultiTag s blk n t i c ph).1 = s := by
  unfold createMultiTag at h ⊢
  cases hc : checkNameAndType n t with
  | error e' => simp
  | ok u =>
    simp only [hc] at h ⊢
    by_cases hv : validHandle s ph = true
    · simp only [hv, Bool.not_true, Bool.false_eq_true, if_false] at h ⊢
      cases ph with
      | none => simp
      | some hh =>
        simp only at h ⊢
        obtain ⟨huuid, hnm, hlt⟩ := hph hh rfl
        by_cases hd : (blkFindKey s blk "M" n).isSome = true
        · simp [hd]
        · simp only [hd, Bool.false_eq_true, if_false] at h ⊢
          cases hfa : blkFindHandle s blk "A" hh with
          | none => simp [hfa]
          | some a =>
            simp only [hfa, Option.isNone_some, Bool.false_eq_true, if_false] at h ⊢
            obtain ⟨s1, g, hk⟩ := createInBlock_ok_of_checks s blk "M" n t i c hc (by simpa using hd)
            have hext : Extends s s1 := by
              have := createInBlock_extends s blk "M" n t i c hb; rw [hk] at this; exact this
            have hid := looksLikeUUID_nonempty huuid
            unfold blkFindHandle at hfa
            obtain ⟨p, hp⟩ := blkFind_some_container hfa
            obtain ⟨n', hm, hga, hida⟩ := blkFind_some_facts s blk p a "A" _ _ hp hnm hid hfa
            have hfound := blkFind_id_after_extend hext blk p a "A" (idOf s hh.obj) hb hp hid ⟨n', hm⟩ hga hida (hgroups p hp)
            have hidEq : idOf s1 hh.obj = idOf s hh.obj := by unfold idOf; rw [hext.attrs hh.obj _ hlt]
            have hkey : (blkFindKey s1 blk "A" (idOf s1 hh.obj)).isSome = true := by
              rw [hidEq]; unfold blkFindKey identOfString; simp only [huuid, if_true]; exact hfound
            obtain ⟨s2, hs2⟩ := setArrayLink_ok_of_found s1 g blk "positions" (idOf s1 hh.obj) hkey
            simp [hk, hs2] at h
    · have hv' : validHandle s ph = false := by simpa using hv
      simp [hv']

/-- a lookup by the id alone that succeeds keeps succeeding in an extended store -/
theorem blkFind_id_transport {s s' : Store} (hext : Extends s s') (blk : ObjId) (kind id : String) (hb : blk < s.objs.length)
    (hid : id.isEmpty = false)
    (hgroups : ∀ p, s.optGroup blk (blockContainer kind) = some p → ∀ l ∈ s.linksOf p, s.isGroupObj l.2 = true)
    (h : (blkFind s blk kind "" id).isSome = true) : (blkFind s' blk kind "" id).isSome = true := by
  cases hr : blkFind s blk kind "" id with
  | none => simp [hr] at h
  | some a =>
    obtain ⟨p, hp⟩ := blkFind_some_container hr
    have e1 : ("" : String).isEmpty = true := by decide
    unfold blkFind at hr
    simp only [hp, e1, hid, Bool.true_and, Bool.not_true, Bool.false_eq_true, if_false, Bool.not_false, if_true, Bool.false_and] at hr
    by_cases ho : s.hasObject p id = true
    · -- found by name: the first link of that name is still the first
      simp only [ho, if_true] at hr
      by_cases hg : s.hasGroup p id = true
      · simp only [hg, if_true] at hr
        cases hc : s.child? p id with
        | none => simp [hc] at hr
        | some x =>
          have hgx : s.isGroupObj x = true := hgroups p hp (id, x) (child?_mem hc)
          -- use the id-carrier lemma with x itself when x carries the id, otherwise argue directly
          have hp' := hext.optGroup blk _ p hb hp
          have hpl : p < s.objs.length := by
            have hh : s.hasGroup blk (blockContainer kind) = true := by
              unfold Store.optGroup at hp; by_cases hh : s.hasGroup blk (blockContainer kind) = true
              · exact hh
              · simp [hh] at hp
            obtain ⟨hn, y, hy, _⟩ := hasGroup_child s blk _ hh
            have hyp : s.optGroup blk (blockContainer kind) = some y := by simp [Store.optGroup, hh, hy]
            rw [hp] at hyp
            have hpy : p = y := by simpa using hyp
            subst hpy
            have : s.isGroupObj p = true := by simp only [hasGroup, hy, hn] at hh; simpa using hh
            exact isGroupObj_lt this
          obtain ⟨ext, hl, _⟩ := hext.links p hpl
          have hc' : s'.child? p id = some x := by unfold child? at hc ⊢; rw [hl]; exact lookup_append_some hc
          have hgx' : s'.isGroupObj x = true := by rw [hext.kind x (isGroupObj_lt hgx)]; exact hgx
          unfold blkFind
          simp [hp', e1, hid, hasObject, hasGroup, hc', hgx']
      · simp [hg] at hr
    · simp only [ho, Bool.false_eq_true, if_false] at hr
      unfold findGroupByAttribute at hr
      cases hf : (s.linksOf p).find? fun l => s.isGroupObj l.2 && s.attr? l.2 "entity_id" == some id with
      | none => simp [hf] at hr
      | some y =>
        have hpred := List.find?_some hf
        have hmem := List.mem_of_find?_eq_some hf
        simp only [Bool.and_eq_true, beq_iff_eq] at hpred
        exact blkFind_id_after_extend hext blk p y.2 kind id hb hp hid ⟨y.1, hmem⟩ hpred.1 hpred.2 (hgroups p hp)

/-- C08 for createFeature: refused ⇒ nothing happened (same provisos as createMultiTag) -/
theorem createFeature_rejected (s : Store) (tag blk : ObjId) (i c lt : String) (dh : Option Handle) (e : Err)
    (hb : blk < s.objs.length) (ht : tag < s.objs.length)
    (hgroups : ∀ p, s.optGroup blk (blockContainer "A") = some p → ∀ l ∈ s.linksOf p, s.isGroupObj l.2 = true)
    (hdh : ∀ h, dh = some h → looksLikeUUID (idOf s h.obj) = true)
    (hfresh : ∀ x, s.optGroup tag "features" = some x → s.hasGroup x i = false)
    (h : (createFeature s tag blk i c lt dh).2 = .error e) : (createFeature s tag blk i c lt dh).1 = s := by
  unfold createFeature at h ⊢
  by_cases hv : validHandle s dh = true
  · simp only [hv, Bool.not_true, Bool.false_eq_true, if_false] at h ⊢
    cases dh with
    | none => simp
    | some hh =>
      simp only at h ⊢
      have huuid := hdh hh rfl
      have hid := looksLikeUUID_nonempty huuid
      cases hfk : blkFindKey s blk "A" (idOf s hh.obj) with
      | none => simp [hfk]
      | some a =>
        simp only [hfk, Option.isNone_some, Bool.false_eq_true, if_false] at h ⊢
        -- the store after the feature group has been made and initialised extends s
        obtain ⟨_, hnew⟩ := create2_new s tag "features" i ht hfresh
        have h1 := Extends.openGroupCreate s tag "features" ht
        have hc2 : (s.openGroupCreate tag "features").2 < (s.openGroupCreate tag "features").1.objs.length := by
          by_cases hex : s.hasGroup tag "features" = true
          · obtain ⟨hn, x, hx, _⟩ := hasGroup_child s tag _ hex
            have : (s.openGroupCreate tag "features").2 = x := by unfold Store.openGroupCreate; simp [hex, hx]
            rw [this, openGroupCreate_existing s tag _ hex]
            have hgx : s.isGroupObj x = true := by simp only [hasGroup, hx, hn] at hex; simpa using hex
            exact isGroupObj_lt hgx
          · have hex' : s.hasGroup tag "features" = false := by simpa using hex
            have := (openGroupCreate_old s tag "features").2.2 hex'
            rw [this.1, this.2]; exact Nat.lt_succ_self _
        have h2 := Extends.openGroupCreate (s.openGroupCreate tag "features").1 (s.openGroupCreate tag "features").2 i hc2
        have h3 := (((h1.trans h2).setAttr_new _ "entity_id" i hnew).setAttr_new _ "created_at" c hnew).setAttr_new _ "link_type" lt hnew
        have hfound : (blkFind s blk "A" "" (idOf s hh.obj)).isSome = true := by
          unfold blkFindKey identOfString at hfk; simp only [huuid, if_true] at hfk; simp [hfk]
        have hkey := blkFind_id_transport h3 blk "A" (idOf s hh.obj) hb hid hgroups hfound
        generalize hs3 : (((((s.openGroupCreate tag "features").1.openGroupCreate (s.openGroupCreate tag "features").2 i).1.setAttr
            ((s.openGroupCreate tag "features").1.openGroupCreate (s.openGroupCreate tag "features").2 i).2 "entity_id" i).setAttr
            ((s.openGroupCreate tag "features").1.openGroupCreate (s.openGroupCreate tag "features").2 i).2 "created_at" c).setAttr
            ((s.openGroupCreate tag "features").1.openGroupCreate (s.openGroupCreate tag "features").2 i).2 "link_type" lt) = s3 at h hkey h3
        have hkey' : (blkFindKey s3 blk "A" (idOf s hh.obj)).isSome = true := by
          unfold blkFindKey identOfString; simp only [huuid, if_true]; exact hkey
        obtain ⟨s2, hs2⟩ := setArrayLink_ok_of_found s3 ((s.openGroupCreate tag "features").1.openGroupCreate (s.openGroupCreate tag "features").2 i).2
          blk "data" (idOf s hh.obj) hkey'
        simp [hs2] at h
  · have hv' : validHandle s dh = false := by simpa using hv
    simp [hv']

/-- the provisos under which the two remaining entry points are covered -/
def Op.wf (s : Store) : Op → Prop
  | .createMultiTag b _ _ _ _ ph => b < s.objs.length ∧
      (∀ p, s.optGroup b (blockContainer "A") = some p → ∀ l ∈ s.linksOf p, s.isGroupObj l.2 = true) ∧
      (∀ h, ph = some h → looksLikeUUID (idOf s h.obj) = true ∧ (nameOf s h.obj).isEmpty = false ∧ h.obj < s.objs.length)
  | .createFeature tag b i _ _ dh => b < s.objs.length ∧ tag < s.objs.length ∧
      (∀ p, s.optGroup b (blockContainer "A") = some p → ∀ l ∈ s.linksOf p, s.isGroupObj l.2 = true) ∧
      (∀ h, dh = some h → looksLikeUUID (idOf s h.obj) = true) ∧
      (∀ x, s.optGroup tag "features" = some x → s.hasGroup x i = false)
  | _ => True

/-- C08 for EVERY entry point of the store model: a call that answers with an exception leaves the store as it was, or as it
    was plus one empty container group (the three `add…` entry points) that no getter can tell from its absence -/
theorem rejected_no_trace (s : Store) (op : Op) (e : Err) (hwf : op.wf s) (h : (op.apply s).2 = .error e) :
    NoTrace s (op.apply s).1 := by
  cases op with
  | createMultiTag b n t i c ph =>
    obtain ⟨h', hs⟩ := unitRes_error _ e h
    simp only [Op.apply, hs, createMultiTag_rejected s b n t i c ph e hwf.1 hwf.2.1 hwf.2.2 h']; exact .same
  | createFeature tg b i c lt dh =>
    obtain ⟨h', hs⟩ := unitRes_error _ e h
    simp only [Op.apply, hs, createFeature_rejected s tg b i c lt dh e hwf.1 hwf.2.1 hwf.2.2.1 hwf.2.2.2.1 hwf.2.2.2.2 h']; exact .same
  | _ => exact rejected_no_trace_partial s _ e (by intros; simp) (by intros; simp) h

end Nix.St
