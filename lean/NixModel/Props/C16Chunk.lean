import NixModel.Chunking
/-
  C16 / C01 — `DataSet::guessChunking` terminates and hands HDF5 a usable chunk shape, for EVERY shape.

  The C++ loop is `while (true)` with two breaks; it is entered on every creation of a data array, data frame or property.  Here:
  whatever the floating-point test on the byte count answers, the loop leaves through a break after at most `mu n c * n` iterations
  (`guess_loop_terminates`: in each round of `n` iterations every extent above 1 is halved, so after `mu n c` rounds all extents are 1,
  the element count is 1 and the first break fires) — also when the element count wraps around 2^64 on the way; and the loop only
  ever halves (`iter_bounds`: every extent of the result is at least 1 and at most what it was), so no chunk extent is 0.
-/
namespace Nix.Chunk

theorem halve_lt {x : Nat} (h : 1 < x) : halve x - 1 < x - 1 := by
  unfold halve; simp [h]; omega

theorem halve_le (x : Nat) : halve x ≤ x := by
  unfold halve; split <;> omega

theorem halve_pos {x : Nat} (h : 1 ≤ x) : 1 ≤ halve x := by
  unfold halve; split <;> omega

theorem upd_pre (c : Nat → Nat) (k : Nat) : upd (pre k c) k = pre (k + 1) c := by
  funext j
  simp only [upd, pre]
  by_cases h1 : j = k
  · subst h1; simp
  · by_cases h2 : j < k
    · have : j < k + 1 := by omega
      simp [h1, h2, this]
    · have : ¬ j < k + 1 := by omega
      simp [h1, h2, this]

theorem mod_round (n r k : Nat) (hk : k < n) : (r * n + k) % n = k := by
  rw [Nat.add_comm, Nat.add_mul_mod_self_right, Nat.mod_eq_of_lt hk]

/-- k iterations inside a round that starts at loop counter r * n -/
theorem steps_in_round (n r : Nat) (c : Nat → Nat) : ∀ (m k : Nat), k + m ≤ n →
    steps n m (r * n + k) (pre k c) = pre (k + m) c
  | 0, k, _ => by simp [steps]
  | m + 1, k, h => by
    have hk : k < n := by omega
    simp only [steps]
    rw [mod_round n r k hk, upd_pre]
    have := steps_in_round n r c m (k + 1) (by omega)
    rw [show r * n + k + 1 = r * n + (k + 1) by omega, this]
    congr 1; omega

theorem pre_zero (c : Nat → Nat) : pre 0 c = c := by funext j; simp [pre]

theorem steps_add (n : Nat) : ∀ (a b i : Nat) (c : Nat → Nat), steps n (a + b) i c = steps n b (i + a) (steps n a i c)
  | 0, b, i, c => by simp [steps]
  | a + 1, b, i, c => by
    rw [show a + 1 + b = (a + b) + 1 by omega]
    simp only [steps]
    rw [steps_add n a b (i + 1) _]
    congr 1; omega

/-- r whole rounds -/
def rounds (n : Nat) : Nat → (Nat → Nat) → (Nat → Nat)
  | 0, c => c
  | r + 1, c => rounds n r (pre n c)

theorem steps_rounds (n : Nat) : ∀ (r q : Nat) (c : Nat → Nat), steps n (r * n) (q * n) c = rounds n r c
  | 0, q, c => by simp [steps, rounds]
  | r + 1, q, c => by
    rw [show (r + 1) * n = n + r * n by rw [Nat.add_mul]; omega, steps_add]
    have h1 := steps_in_round n q c n 0 (by omega)
    simp only [pre_zero, Nat.add_zero, Nat.zero_add] at h1
    rw [h1, show q * n + n = (q + 1) * n by rw [Nat.add_mul]; omega, steps_rounds n r (q + 1)]
    rfl

theorem mu_pre_le (c : Nat → Nat) : ∀ n, mu n (pre n c) ≤ mu n c ∧ ((∃ j, j < n ∧ 1 < c j) → mu n (pre n c) < mu n c) := by
  intro n
  induction n with
  | zero => exact ⟨Nat.le_refl _, fun ⟨j, hj, _⟩ => absurd hj (by omega)⟩
  | succ n ih =>
    have hpre : mu n (pre (n + 1) c) = mu n (pre n c) := by
      have : ∀ m, m ≤ n → mu m (pre (n + 1) c) = mu m (pre n c) := by
        intro m hm
        induction m with
        | zero => rfl
        | succ m ihm =>
          simp only [mu]
          rw [ihm (by omega)]
          have h1 : m < n + 1 := by omega
          have h2 : m < n := by omega
          simp [pre, h1, h2]
      exact this n (Nat.le_refl _)
    have hlast : pre (n + 1) c n = halve (c n) := by simp [pre]
    simp only [mu, hpre, hlast]
    refine ⟨by have := halve_le (c n); omega, ?_⟩
    rintro ⟨j, hj, hgt⟩
    by_cases hjn : j = n
    · subst hjn
      have := halve_lt hgt
      have := ih.1
      omega
    · have := ih.2 ⟨j, by omega, hgt⟩
      have := halve_le (c n)
      omega

theorem mu_zero_all_le_one : ∀ (n : Nat) (c : Nat → Nat), mu n c = 0 → ∀ j, j < n → c j ≤ 1
  | 0, _, _, j, hj => absurd hj (by omega)
  | n + 1, c, h, j, hj => by
    simp only [mu] at h
    by_cases hjn : j = n
    · subst hjn; omega
    · exact mu_zero_all_le_one n c (by omega) j (by omega)

theorem nelms_ones : ∀ (n : Nat) (c : Nat → Nat), (∀ j, j < n → c j = 1) → nelms n c = 1
  | 0, _, _ => rfl
  | n + 1, c, h => by
    simp only [nelms]
    rw [nelms_ones n c (fun j hj => h j (by omega)), h n (by omega)]
    decide

theorem pre_pos (n : Nat) (c : Nat → Nat) (h : ∀ j, 1 ≤ c j) : ∀ j, 1 ≤ pre n c j := by
  intro j; simp only [pre]; split
  · exact halve_pos (h j)
  · exact h j

theorem mu_zero_of_le_one : ∀ (k : Nat) (c : Nat → Nat), (∀ j, j < k → c j ≤ 1) → mu k c = 0
  | 0, _, _ => rfl
  | k + 1, c, h => by
    simp only [mu]
    rw [mu_zero_of_le_one k c (fun j hj => h j (by omega))]
    have := h k (by omega); omega

/-- after at most `mu n c` whole rounds every dimension is 1 -/
theorem rounds_reach_ones (n : Nat) : ∀ (r : Nat) (c : Nat → Nat), (∀ j, 1 ≤ c j) → mu n c ≤ r → ∀ j, j < n → rounds n r c j = 1
  | 0, c, hpos, hmu, j, hj => by
    have := mu_zero_all_le_one n c (by omega) j hj
    have := hpos j
    simp only [rounds]; omega
  | r + 1, c, hpos, hmu, j, hj => by
    simp only [rounds]
    have hle : mu n (pre n c) ≤ r := by
      by_cases hall : ∃ j, j < n ∧ 1 < c j
      · have := (mu_pre_le c n).2 hall; omega
      · have h0 : mu n c = 0 := mu_zero_of_le_one n c (fun j hj => by
          have : ¬ 1 < c j := fun hgt => hall ⟨j, hj, hgt⟩
          omega)
        have := (mu_pre_le c n).1; omega
    exact rounds_reach_ones n r (pre n c) (pre_pos n c hpos) hle j hj

/-- **the loop terminates**: whatever the break test on the byte count says, after `mu n c` whole rounds at the latest the element
    count is 1 and the loop breaks -/
theorem loop_breaks (n : Nat) (stop : Nat → Bool) (c : Nat → Nat) (hpos : ∀ j, 1 ≤ c j) :
    brk n stop (steps n (mu n c * n) 0 c) = true := by
  have h := steps_rounds n (mu n c) 0 c
  simp only [Nat.zero_mul] at h
  rw [h]
  simp only [brk, Bool.or_eq_true, beq_iff_eq]
  left
  exact nelms_ones n _ (rounds_reach_ones n (mu n c) c hpos (Nat.le_refl _))

/-- the bounded loop, given enough iterations, IS the unbounded one: it leaves through a break, at a state that `steps` reaches -/
theorem iter_spec (n : Nat) (stop : Nat → Bool) : ∀ (fuel i : Nat) (c : Nat → Nat) (m : Nat), m ≤ fuel → brk n stop (steps n m i c) = true →
    brk n stop (iter n stop fuel i c) = true ∧ ∃ m', m' ≤ m ∧ iter n stop fuel i c = steps n m' i c
  | 0, i, c, m, hm, hb => by
    have : m = 0 := by omega
    subst this
    exact ⟨by simpa [iter, steps] using hb, 0, Nat.le_refl _, rfl⟩
  | fuel + 1, i, c, m, hm, hb => by
    simp only [iter]
    by_cases hc : brk n stop c = true
    · rw [if_pos hc]
      exact ⟨hc, 0, Nat.zero_le _, rfl⟩
    · rw [if_neg hc]
      cases m with
      | zero => simp [steps] at hb; exact absurd hb hc
      | succ m =>
        simp only [steps] at hb
        obtain ⟨h1, m', hm', h2⟩ := iter_spec n stop fuel (i + 1) (upd c (i % n)) m (by omega) hb
        exact ⟨h1, m' + 1, by omega, by simp only [steps]; exact h2⟩

/-- **guess_loop_terminates** — the `while (true)` loop of `DataSet::guessChunking` leaves through one of its two breaks after at most
    `mu n c * n` iterations, for EVERY shape (every rank, every extent ≥ 1, element counts that wrap around 2^64 included) and every
    outcome of the floating-point test on the byte count: more iterations than that change nothing -/
theorem guess_loop_terminates (n : Nat) (stop : Nat → Bool) (c : Nat → Nat) (hpos : ∀ j, 1 ≤ c j) (fuel : Nat) (hf : mu n c * n ≤ fuel) :
    brk n stop (iter n stop fuel 0 c) = true ∧ iter n stop fuel 0 c = iter n stop (mu n c * n) 0 c := by
  have hb := loop_breaks n stop c hpos
  obtain ⟨h1, m1, hm1, e1⟩ := iter_spec n stop fuel 0 c (mu n c * n) hf hb
  refine ⟨h1, ?_⟩
  -- both runs stop at the FIRST state that breaks
  have key : ∀ (f1 f2 i : Nat) (c : Nat → Nat) (m : Nat), m ≤ f1 → m ≤ f2 → brk n stop (steps n m i c) = true →
      iter n stop f1 i c = iter n stop f2 i c := by
    intro f1
    induction f1 with
    | zero =>
      intro f2 i c m hm1 _ hb
      have : m = 0 := by omega
      subst this
      simp only [steps] at hb
      cases f2 <;> simp [iter, hb]
    | succ f1 ih =>
      intro f2 i c m hm1 hm2 hb
      by_cases hc : brk n stop c = true
      · cases f2 <;> simp [iter, hc]
      · cases m with
        | zero => simp [steps] at hb; exact absurd hb hc
        | succ m =>
          cases f2 with
          | zero => omega
          | succ f2 =>
            simp only [iter, hc]
            simp only [steps] at hb
            exact ih f2 (i + 1) _ m (by omega) (by omega) hb
  exact key fuel (mu n c * n) 0 c (mu n c * n) hf (Nat.le_refl _) hb

theorem upd_pos (c : Nat → Nat) (k : Nat) (h : ∀ j, 1 ≤ c j) : ∀ j, 1 ≤ upd c k j := by
  intro j; simp only [upd]; split
  · exact halve_pos (h j)
  · exact h j

theorem upd_le (c : Nat → Nat) (k j : Nat) : upd c k j ≤ c j := by
  simp only [upd]; split
  · exact halve_le _
  · exact Nat.le_refl _

/-- the loop only ever halves: every extent of the result is at least 1 and at most what it was -/
theorem iter_bounds (n : Nat) (stop : Nat → Bool) : ∀ (fuel i : Nat) (c : Nat → Nat), (∀ j, 1 ≤ c j) →
    ∀ j, 1 ≤ iter n stop fuel i c j ∧ iter n stop fuel i c j ≤ c j
  | 0, _, c, h, j => ⟨h j, Nat.le_refl _⟩
  | fuel + 1, i, c, h, j => by
    simp only [iter]
    split
    · exact ⟨h j, Nat.le_refl _⟩
    · have := iter_bounds n stop fuel (i + 1) (upd c (i % n)) (upd_pos c _ h) j
      exact ⟨this.1, Nat.le_trans this.2 (upd_le c _ j)⟩

end Nix.Chunk
