import NixModel.Gen.UnitChecks
/-
  C13 / C08 — "whichever entry point set them": the entry points that set the SAME unit accept the same units.  Which unit predicate
  each front-end function calls is read off the source on every run (`gen/extract_unitchecks.py`).  A setter that is stricter than
  the append function creating the dimension makes the append throw AFTER the dimension exists (the append pre-checks, creates, then
  calls the setter): a refused call leaves a descriptor behind.
-/
namespace Nix.UnitChecks
open Nix.Gen.UnitChecks

def predsOf (file fn : String) : Option String := (checks.find? fun c => c.1 == file && c.2.1 == fn).map (·.2.2.2.2)

/-- the append function of a dimension kind and the unit setter of that kind call the same predicates; so do the units of a tag and
    of a multi-tag, and the unit of an array and the check an alias dimension makes for it -/
theorem entry_points_of_one_unit_agree :
    predsOf "include/nix/DataArray.hpp" "appendRangeDimension" = predsOf "src/Dimensions.cpp" "RangeDimension::unit" ∧
    predsOf "include/nix/DataArray.hpp" "appendSampledDimension" = predsOf "src/Dimensions.cpp" "SampledDimension::unit" ∧
    predsOf "src/Tag.cpp" "Tag::units" = predsOf "src/MultiTag.cpp" "MultiTag::units" ∧
    predsOf "include/nix/DataArray.hpp" "appendAliasRangeDimension" = predsOf "src/DataArray.cpp" "DataArray::unit" := by decide +kernel

/-- … and each of them does check (the table has them) -/
theorem unit_setting_entry_points_check :
    (predsOf "include/nix/DataArray.hpp" "appendRangeDimension").isSome ∧ (predsOf "src/Dimensions.cpp" "RangeDimension::unit").isSome ∧
    (predsOf "include/nix/DataArray.hpp" "appendSampledDimension").isSome ∧ (predsOf "src/Dimensions.cpp" "SampledDimension::unit").isSome ∧
    (predsOf "src/Tag.cpp" "Tag::units").isSome ∧ (predsOf "src/MultiTag.cpp" "MultiTag::units").isSome ∧
    (predsOf "src/DataArray.cpp" "DataArray::unit").isSome ∧ (predsOf "include/nix/DataArray.hpp" "appendAliasRangeDimension").isSome := by decide +kernel

end Nix.UnitChecks
