import NixModel.Props.C01
/-
  C01 / C08 — the whole-array write that also sets the extent (`DataSet::setData(const T&)`), as repaired by fix 17a5091.

  * accepted: afterwards the array has the new shape and reads back exactly the values handed in (`setWhole_reads_back`);
  * refused (the element classes do not convert): the array is as it was, shape and every element (`setWhole_refused_no_trace`) —
    which needs the array to be normalised (zero outside its extent), as every array a history produces is (`applyOp_normal`);
  * the order of the pinned tree (extent first, write afterwards) does leave a trace: a kernel-checked witness (D40).
-/
namespace Nix.C01
open Nix

variable {V : Type}

theorem maxIdx_length (a b : Idx) (h : a.length = b.length) : (maxIdx a b).length = b.length := by
  simp [maxIdx, List.length_zipWith, h]

theorem inShape_maxIdx_right : ∀ (s t idx : Idx), s.length = t.length → inShape t idx = true → inShape (maxIdx s t) idx = true
  | [], [], [], _, _ => rfl
  | [], [], _ :: _, _, h => by simp [inShape] at h
  | a :: s, b :: t, [], _, h => by simp [inShape] at h
  | a :: s, b :: t, i :: is, hl, h => by
    simp only [inShape, Bool.and_eq_true, decide_eq_true_eq] at h
    simp only [maxIdx, List.zipWith_cons_cons, inShape, Bool.and_eq_true, decide_eq_true_eq]
    exact ⟨by omega, inShape_maxIdx_right s t is (by simpa using hl) h.2⟩
  | [], _ :: _, _, hl, _ => by simp at hl
  | _ :: _, [], _, hl, _ => by simp at hl

theorem inShape_maxIdx_left : ∀ (s t idx : Idx), s.length = t.length → inShape s idx = true → inShape (maxIdx s t) idx = true
  | [], [], [], _, _ => rfl
  | [], [], _ :: _, _, h => by simp [inShape] at h
  | a :: s, b :: t, [], _, h => by simp [inShape] at h
  | a :: s, b :: t, i :: is, hl, h => by
    simp only [inShape, Bool.and_eq_true, decide_eq_true_eq] at h
    simp only [maxIdx, List.zipWith_cons_cons, inShape, Bool.and_eq_true, decide_eq_true_eq]
    exact ⟨by omega, inShape_maxIdx_left s t is (by simpa using hl) h.2⟩
  | [], _ :: _, _, hl, _ => by simp at hl
  | _ :: _, [], _, hl, _ => by simp at hl

theorem setExtent_ok (a : NDArray V) (shape : Idx) (h : shape.length = a.shape.length) :
    ∃ b, a.setExtent shape = .ok b := by
  unfold NDArray.setExtent
  simp [h]

/-- **setWhole_refused_no_trace** — a whole-array write that is refused leaves the array exactly as it was: the same extent, and
    every element reads as before (C08's clause "nothing is … resized"; false of the pinned tree, D40) -/
theorem setWhole_refused_no_trace (a : NDArray V) (hn : Normal a) (shape : Idx) (vals : List V) :
    ((a.setWhole shape vals false).1).shape = a.shape ∧ ∀ idx, ((a.setWhole shape vals false).1).get idx = a.get idx := by
  unfold NDArray.setWhole
  by_cases hl : shape.length = a.shape.length
  · have hl' : (shape.length != a.shape.length) = false := by simp [hl]
    simp only [hl', Bool.false_eq_true, if_false]
    obtain ⟨b, hb⟩ := setExtent_ok a (maxIdx shape a.shape) (maxIdx_length _ _ hl)
    rw [hb]
    simp only [Bool.not_false, if_true]
    have hbs := (get_setExtent a b _ hb []).1
    obtain ⟨c, hc⟩ := setExtent_ok b a.shape (by rw [hbs, maxIdx_length _ _ hl])
    rw [hc]
    refine ⟨(get_setExtent b c _ hc []).1, fun idx => ?_⟩
    rw [(get_setExtent b c _ hc idx).2.2, hbs, (get_setExtent a b _ hb idx).2.2, (get_setExtent a b _ hb idx).2.1]
    cases hin : inShape a.shape idx with
    | true => simp [inShape_maxIdx_right shape a.shape idx hl hin]
    | false => simp [hn idx hin]
  · have hl' : (shape.length != a.shape.length) = true := by simp [hl]
    simp [hl']

/-- growing an array and cutting it back to its old extent gives the array back: nothing is lost, nothing appears (for a normalised
    array; `big` covers the old extent) -/
theorem setExtent_grow_back (a b c : NDArray V) (hn : Normal a) (big : Idx) (hcover : ∀ idx, inShape a.shape idx = true → inShape big idx = true)
    (hb : a.setExtent big = .ok b) (hc : b.setExtent a.shape = .ok c) : c.shape = a.shape ∧ ∀ idx, c.get idx = a.get idx := by
  have hbs := (get_setExtent a b _ hb []).1
  refine ⟨(get_setExtent b c _ hc []).1, fun idx => ?_⟩
  rw [(get_setExtent b c _ hc idx).2.2, hbs, (get_setExtent a b _ hb idx).2.2, (get_setExtent a b _ hb idx).2.1]
  cases hin : inShape a.shape idx with
  | true => simp [hcover idx hin]
  | false => simp [hn idx hin]

theorem inShape_addIdx : ∀ (s d idx : Idx), s.length = d.length → inShape s idx = true → inShape (addIdx s d) idx = true
  | [], [], [], _, _ => rfl
  | [], [], _ :: _, _, h => by simp [inShape] at h
  | a :: s, b :: t, [], _, h => by simp [inShape] at h
  | a :: s, b :: t, i :: is, hl, h => by
    simp only [inShape, Bool.and_eq_true, decide_eq_true_eq] at h
    simp only [addIdx, List.zipWith_cons_cons, inShape, Bool.and_eq_true, decide_eq_true_eq]
    exact ⟨by omega, inShape_addIdx s t is (by simpa using hl) h.2⟩
  | [], _ :: _, _, hl, _ => by simp at hl
  | _ :: _, [], _, hl, _ => by simp at hl

/-- **append_refused_no_trace** — an append whose data HDF5 refuses (numbers appended to a string array …) leaves the array exactly as
    it was: the enlargement along the axis is taken back (false of the pinned tree, D41); so does an append refused by the front
    end (axis, rank, shape) -/
theorem append_refused_no_trace (a : NDArray V) (hn : Normal a) (cnt : Idx) (axis : Nat) (vals : List V) :
    ((a.appendChecked cnt axis vals false).1).shape = a.shape ∧ ∀ idx, ((a.appendChecked cnt axis vals false).1).get idx = a.get idx := by
  unfold NDArray.appendChecked
  split
  · exact ⟨rfl, fun _ => rfl⟩
  split
  · exact ⟨rfl, fun _ => rfl⟩
  split
  · exact ⟨rfl, fun _ => rfl⟩
  have hlen : ((List.range a.shape.length).map fun i => if i == axis then (cnt[i]?).getD 0 else 0).length = a.shape.length := by simp
  have hel : (addIdx a.shape ((List.range a.shape.length).map fun i => if i == axis then (cnt[i]?).getD 0 else 0)).length = a.shape.length := by
    simp [addIdx, List.length_zipWith]
  obtain ⟨b, hb⟩ := setExtent_ok a _ hel
  simp only [hb, Bool.false_eq_true, if_false]
  have hbs := (get_setExtent a b _ hb []).1
  obtain ⟨c, hc⟩ := setExtent_ok b a.shape (by rw [hbs, hel])
  simp only [hc]
  exact setExtent_grow_back a b c hn _ (fun idx hin => inShape_addIdx _ _ idx hlen.symm hin) hb hc

theorem boxWithin_zeros_max : ∀ (s t : Idx), s.length = t.length → boxWithin (maxIdx s t) (zeros s.length) s = true
  | [], [], _ => rfl
  | a :: s, b :: t, hl => by
    simp only [maxIdx, List.zipWith_cons_cons, List.length_cons, zeros, List.replicate_succ, boxWithin, Bool.and_eq_true,
      decide_eq_true_eq]
    exact ⟨by omega, boxWithin_zeros_max s t (by simpa using hl)⟩
  | [], _ :: _, hl => by simp at hl
  | _ :: _, [], hl => by simp at hl

theorem inBox_zeros_iff : ∀ (s idx : Idx), inBox (zeros s.length) s idx = inShape s idx
  | [], [] => rfl
  | [], _ :: _ => by simp [inBox, inShape, zeros]
  | a :: s, [] => by simp [inBox, inShape, zeros, List.replicate_succ]
  | a :: s, i :: is => by
    simp only [List.length_cons, zeros, List.replicate_succ, inBox, inShape, Nat.zero_le, decide_true, Bool.true_and, Nat.zero_add]
    rw [show List.replicate s.length 0 = zeros s.length from rfl, inBox_zeros_iff s is]

theorem subIdx_zeros : ∀ (s idx : Idx), inShape s idx = true → subIdx idx (zeros s.length) = idx
  | [], [], _ => rfl
  | [], _ :: _, h => by simp [inShape] at h
  | _ :: _, [], h => by simp [inShape] at h
  | a :: s, i :: is, h => by
    simp only [inShape, Bool.and_eq_true] at h
    simp only [List.length_cons, zeros, List.replicate_succ, subIdx, List.zipWith_cons_cons, Nat.sub_zero]
    rw [show List.zipWith (· - ·) is (List.replicate s.length 0) = subIdx is (zeros s.length) from rfl, subIdx_zeros s is h.2]

/-- **setWhole_reads_back** — an accepted whole-array write gives the array the new extent, whatever the old one was, and every
    element inside it reads as the value handed in at its row-major position (C01: "written as a whole … a later read returns
    exactly those values") -/
theorem setWhole_reads_back (a : NDArray V) (shape : Idx) (vals : List V) (hne : shape ≠ []) (hl : shape.length = a.shape.length) :
    (a.setWhole shape vals true).2 = .ok () ∧ ((a.setWhole shape vals true).1).shape = shape ∧
    ∀ idx, inShape shape idx = true →
      ((a.setWhole shape vals true).1).get idx = (match vals[linear shape idx]? with | some v => v | none => a.zero) := by
  unfold NDArray.setWhole
  have hl' : (shape.length != a.shape.length) = false := by simp [hl]
  simp only [hl', Bool.false_eq_true, if_false, Bool.not_true]
  obtain ⟨b, hb⟩ := setExtent_ok a (maxIdx shape a.shape) (maxIdx_length _ _ hl)
  rw [hb]
  simp only []
  have hbs := (get_setExtent a b _ hb []).1
  have hbz := (get_setExtent a b _ hb []).2.1
  have hz : zeros shape.length ≠ [] := by
    cases shape with
    | nil => exact absurd rfl hne
    | cons x xs => simp [zeros, List.replicate_succ]
  have hbox : b.boxOk (zeros shape.length) shape = true := by
    unfold NDArray.boxOk; rw [hbs]; exact boxWithin_zeros_max shape a.shape hl
  have hres := resolve_of_boxOk b shape (zeros shape.length) hne hz hbox
  cases hw : b.write shape (zeros shape.length) vals with
  | error e =>
    exfalso
    unfold NDArray.write at hw
    rw [hres] at hw
    cases hw
  | ok c =>
    simp only []
    have hcs := (write_shape b c _ _ _ hw).1
    obtain ⟨d, hd⟩ := setExtent_ok c shape (by rw [hcs, hbs, maxIdx_length _ _ hl]; exact hl)
    rw [hd]
    refine ⟨rfl, (get_setExtent c d _ hd []).1, fun idx hin => ?_⟩
    simp only []
    rw [(get_setExtent c d _ hd idx).2.2, hin, hcs, hbs, inShape_maxIdx_left shape a.shape idx hl hin]
    simp only [Bool.and_self, if_true]
    rw [get_write b c shape (zeros shape.length) vals hne hz hbox hw idx, inBox_zeros_iff, hin, subIdx_zeros shape idx hin, hbz]
    simp only [if_true]
    cases vals[linear shape idx]? <;> rfl

/-- D40, kernel-checked: with the order of the pinned tree (extent first, write afterwards) a refused whole write of 1 element
    into an array of 2 leaves the extent [1] and the second element is gone — the repaired order leaves the array as it was -/
example :
    let a : NDArray Nat := { shape := [2], zero := 0, get := fun idx => if idx == [0] then 7 else if idx == [1] then 8 else 0 }
    ((a.setWholeNaive [1] [5] false).1.shape = [1]) ∧
    ((a.setWhole [1] [5] false).1.shape = [2] ∧ (a.setWhole [1] [5] false).1.get [1] = 8) := by
  decide

/-- non-vacuity of `setWhole_reads_back`: a shrinking and a growing accepted whole write -/
example :
    let a : NDArray Nat := { shape := [2], zero := 0, get := fun idx => if idx == [0] then 7 else if idx == [1] then 8 else 0 }
    (a.setWhole [3] [1, 2, 3] true).1.shape = [3] ∧ (a.setWhole [3] [1, 2, 3] true).1.get [2] = 3 ∧
    (a.setWhole [1] [9] true).1.shape = [1] ∧ (a.setWhole [1] [9] true).1.get [0] = 9 ∧ (a.setWhole [1] [9] true).1.get [1] = 0 := by
  decide

end Nix.C01
