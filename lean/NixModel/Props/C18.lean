import NixModel.Proofs.UnitsLemmas
/-
  C18 — unit scaling.  Property theorems.  All table facts are decided by the kernel
  (`decide +kernel`, no `native_decide`) over the alternations and the exponent table that
  gen/extract_tables.py extracted from src/util/util.cpp for THIS run.
-/
namespace Nix.C18
open Nix.Units

theorem units_first_alt_self : ∀ u ∈ unitAlts, firstAlt unitAlts u = some (u, []) := by decide +kernel
theorem prefix_first_alt : ∀ p ∈ prefixAlts, ∀ u ∈ unitAlts, firstAlt prefixAlts (p ++ u) = some (p, u) := by decide +kernel
theorem no_caret : ∀ a ∈ prefixAlts ++ unitAlts, '^' ∉ a := by decide +kernel
theorem unit_not_prefixed : ∀ u ∈ unitAlts, matchPU u = false := by decide +kernel
theorem alts_nonempty : ∀ a ∈ prefixAlts ++ unitAlts, a ≠ [] := by decide +kernel
theorem split_no_power : ∀ p ∈ ([] :: prefixAlts), ∀ u ∈ unitAlts, splitUnit (p ++ u) = ⟨p, u, []⟩ := by decide +kernel

theorem caret_not_in_prefix {a : Str} (h : a ∈ prefixAlts) : '^' ∉ a := no_caret a (by simp [h])
theorem caret_not_in_unit {a : Str} (h : a ∈ unitAlts) : '^' ∉ a := no_caret a (by simp [h])

theorem matchUP_unit_power (u n : Str) (hu : u ∈ unitAlts) (hn : matchPower ('^' :: n) = true) :
    matchUP (u ++ '^' :: n) = true := by
  unfold matchUP
  rw [List.any_eq_true]
  refine ⟨u, hu, ?_⟩
  simp [hn]

theorem matchPUP_prefix_unit_power (p u n : Str) (hp : p ∈ prefixAlts) (hu : u ∈ unitAlts)
    (hn : matchPower ('^' :: n) = true) : matchPUP (p ++ u ++ '^' :: n) = true := by
  unfold matchPUP
  rw [List.any_eq_true]
  refine ⟨p, hp, ?_⟩
  simp [List.append_assoc, matchUP_unit_power u n hu hn]

theorem searchAlt_units (u n : Str) (hu : u ∈ unitAlts) :
    searchAlt unitAlts (u ++ '^' :: n) = some (u, '^' :: n) := by
  apply searchAlt_of_firstAlt
  rw [firstAlt_append_sep unitAlts u n '^' (fun a ha => caret_not_in_unit ha), units_first_alt_self u hu]
  rfl

theorem searchAlt_prefixes (p u n : Str) (hp : p ∈ prefixAlts) (hu : u ∈ unitAlts) :
    searchAlt prefixAlts (p ++ u ++ '^' :: n) = some (p, u ++ '^' :: n) := by
  apply searchAlt_of_firstAlt
  rw [firstAlt_append_sep prefixAlts (p ++ u) n '^' (fun a ha => caret_not_in_prefix ha), prefix_first_alt p hp u hu]
  rfl

theorem split_prefix_power (p u n : Str) (hp : p ∈ prefixAlts) (hu : u ∈ unitAlts)
    (hn : matchPower ('^' :: n) = true) : splitUnit (p ++ u ++ '^' :: n) = ⟨p, u, n⟩ := by
  unfold splitUnit
  rw [matchPUP_prefix_unit_power p u n hp hu hn, searchAlt_prefixes p u n hp hu]
  simp only [if_true]
  rw [searchAlt_units u n hu]
  simp

/-- without a prefix the three-part pattern cannot match: that would make the unit itself a
    prefix+unit string -/
theorem matchPUP_unit_power_false (u n : Str) (hu : u ∈ unitAlts) : matchPUP (u ++ '^' :: n) = false := by
  cases h : matchPUP (u ++ '^' :: n) with
  | false => rfl
  | true =>
    exfalso
    unfold matchPUP at h
    rw [List.any_eq_true] at h
    obtain ⟨p', hp', h⟩ := h
    simp only [Bool.and_eq_true] at h
    obtain ⟨hpre, hup⟩ := h
    rw [isPrefixOf_append_sep p' u n '^' (caret_not_in_prefix hp')] at hpre
    rw [drop_append_of_isPrefixOf p' u ('^' :: n) hpre] at hup
    unfold matchUP at hup
    rw [List.any_eq_true] at hup
    obtain ⟨u', hu', h2⟩ := hup
    simp only [Bool.and_eq_true] at h2
    obtain ⟨hpre2, hpow⟩ := h2
    rw [isPrefixOf_append_sep u' _ n '^' (caret_not_in_unit hu')] at hpre2
    rw [drop_append_of_isPrefixOf u' _ ('^' :: n) hpre2] at hpow
    -- the remainder of u after p' and u' must be empty
    have hrest : (u.drop p'.length).drop u'.length = [] := by
      cases hr : (u.drop p'.length).drop u'.length with
      | nil => rfl
      | cons c cs =>
        have hnc : '^' ∉ (u.drop p'.length).drop u'.length := by
          intro hm
          exact caret_not_in_unit hu (List.mem_of_mem_drop (List.mem_of_mem_drop hm))
        have := matchPower_append_false _ ('^' :: n) (by rw [hr]; simp) hnc
        rw [this] at hpow; cases hpow
    -- hence u = p' ++ u', contradicting the table fact
    have h1 := List.isPrefixOf_iff_prefix.mp hpre
    have h2 := List.isPrefixOf_iff_prefix.mp hpre2
    obtain ⟨t1, ht1⟩ := h1
    obtain ⟨t2, ht2⟩ := h2
    have hd1 : u.drop p'.length = t1 := by rw [← ht1]; simp
    rw [hd1] at ht2 hrest
    have hd2 : t1.drop u'.length = t2 := by rw [← ht2]; simp
    rw [hd2] at hrest
    subst hrest
    have hu_eq : u = p' ++ u' := by rw [← ht1, ← ht2]; simp
    have hT4 := unit_not_prefixed u hu
    have : matchPU u = true := by
      unfold matchPU
      rw [List.any_eq_true]
      refine ⟨p', hp', ?_⟩
      simp only [Bool.and_eq_true]
      refine ⟨hpre, ?_⟩
      rw [List.any_eq_true]
      exact ⟨u', hu', by rw [hu_eq]; simp⟩
    rw [this] at hT4; cases hT4

theorem split_unit_power (u n : Str) (hu : u ∈ unitAlts) (hn : matchPower ('^' :: n) = true) :
    splitUnit (u ++ '^' :: n) = ⟨[], u, n⟩ := by
  unfold splitUnit
  rw [matchPUP_unit_power_false u n hu, matchUP_unit_power u n hu hn, searchAlt_units u n hu]
  simp

/-! ### the property's units: optional prefix, base unit, optional well-formed power -/

/-- a well-formed unit triple: prefix from the table or none, base unit from the table, power
    absent or matching the POWER pattern (optional sign, no leading zero) -/
def WF (p u n : Str) : Prop :=
  (p = [] ∨ p ∈ prefixAlts) ∧ u ∈ unitAlts ∧ (n = [] ∨ matchPower ('^' :: n) = true)

/-- how such a unit is written -/
def mk (p u n : Str) : Str := p ++ u ++ (if n = [] then [] else '^' :: n)

/-- a printed unit is split back into exactly its prefix, base unit and power -/
theorem split_print_roundtrip (p u n : Str) (h : WF p u n) : splitUnit (mk p u n) = ⟨p, u, n⟩ := by
  obtain ⟨hp, hu, hn⟩ := h
  unfold mk
  by_cases hn0 : n = []
  · subst hn0
    simp only [if_true, List.append_nil]
    exact split_no_power p (by rcases hp with h | h <;> simp [h]) u hu
  · simp only [hn0, if_false]
    have hn' : matchPower ('^' :: n) = true := by rcases hn with h | h; exact absurd h hn0; exact h
    rcases hp with hp | hp
    · subst hp; simpa using split_unit_power u n hu hn'
    · exact split_prefix_power p u n hp hu hn'

/-- prefix and unit are never ambiguous: different well-formed triples print differently -/
theorem prefix_unit_unambiguous (p u n p' u' n' : Str) (h : WF p u n) (h' : WF p' u' n')
    (heq : mk p u n = mk p' u' n') : p = p' ∧ u = u' ∧ n = n' := by
  have a := split_print_roundtrip p u n h
  have b := split_print_roundtrip p' u' n' h'
  rw [heq, b] at a
  injection a with h1 h2 h3
  exact ⟨h1.symm, h2.symm, h3.symm⟩

theorem isSI_no_power : ∀ p ∈ ([] :: prefixAlts), ∀ u ∈ unitAlts, isSIUnit (p ++ u) = true := by decide +kernel

theorem isSI_mk (p u n : Str) (h : WF p u n) : isSIUnit (mk p u n) = true := by
  obtain ⟨hp, hu, hn⟩ := h
  unfold mk
  by_cases hn0 : n = []
  · subst hn0
    simp only [if_true, List.append_nil]
    exact isSI_no_power p (by rcases hp with h | h <;> simp [h]) u hu
  · simp only [hn0, if_false]
    have hn' : matchPower ('^' :: n) = true := by rcases hn with h | h; exact absurd h hn0; exact h
    have hne : u ≠ [] := alts_nonempty u (by simp [hu])
    unfold isSIUnit isAtomicSIUnit
    rcases hp with hp | hp
    · subst hp
      have := matchUP_unit_power u n hu hn'
      simp only [List.nil_append] at this ⊢
      simp [this, hne]
    · have := matchPUP_prefix_unit_power p u n hp hu hn'
      rw [List.append_assoc] at this
      simp [this, hne]

/-- same base unit and same power ⇒ scalable, whatever the prefixes -/
theorem scalable_mk (p1 p2 u n : Str) (h1 : WF p1 u n) (h2 : WF p2 u n) :
    isScalable (mk p1 u n) (mk p2 u n) = true := by
  unfold isScalable
  simp [isSI_mk _ _ _ h1, isSI_mk _ _ _ h2, split_print_roundtrip _ _ _ h1, split_print_roundtrip _ _ _ h2]

/-- scalability is symmetric (for all strings) -/
theorem scalable_symm (a b : Str) : isScalable a b = isScalable b a := by
  unfold isScalable
  rw [Bool.and_comm (isSIUnit a)]
  by_cases h : (isSIUnit b && isSIUnit a) = true
  · simp only [h, Bool.not_true, Bool.false_eq_true, if_false]
    rw [Bool.beq_comm (a := (splitUnit a).unit), Bool.beq_comm (a := (splitUnit a).power)]
  · simp [h]

/-- different base unit or different power ⇒ not scalable -/
theorem scalable_iff_same_base_and_power (p1 u1 n1 p2 u2 n2 : Str) (h1 : WF p1 u1 n1) (h2 : WF p2 u2 n2) :
    isScalable (mk p1 u1 n1) (mk p2 u2 n2) = true ↔ (u1 = u2 ∧ n1 = n2) := by
  unfold isScalable
  simp [isSI_mk _ _ _ h1, isSI_mk _ _ _ h2, split_print_roundtrip _ _ _ h1, split_print_roundtrip _ _ _ h2]

/-- non-SI units are rejected -/
theorem nonSI_rejected (tbl : List (String × Int)) (a b : Str) (h : isSIUnit a = false ∨ isSIUnit b = false) :
    siScalingExp tbl a b = .error .invalidUnit := by
  unfold siScalingExp isScalable
  rcases h with h | h <;> simp [h]

/-- the exponent table in the source is the SI table -/
theorem prefix_table_correct : ∀ p ∈ Gen.prefixes, prefixExp libTable p.toList = siExp p := by decide +kernel

/-! ### the scaling factor -/

/-- specification: SI exponent of a prefix written as a character list -/
def specPrefixExp (p : Str) : Option Int := siExp (String.ofList p)
/-- specification: the power of a unit (absent = 1) -/
def specPower (n : Str) : Option Int := if n = [] then some 1 else parsePower n

theorem table_lookup : ∀ p ∈ prefixAlts, prefixExp libTable p = specPrefixExp p ∧ (specPrefixExp p).isSome = true := by
  decide +kernel

theorem isDigit_of_19 (d : Char) (h1 : '1' ≤ d) (h2 : d ≤ '9') : isDigit d = true := by
  simp only [isDigit, Bool.and_eq_true, decide_eq_true_eq]
  exact ⟨Char.le_trans (by decide) h1, h2⟩

theorem parsePower_wf (n : Str) (h : matchPower ('^' :: n) = true) : ∃ v, parsePower n = some v := by
  unfold matchPower at h
  simp only at h
  unfold parsePower
  generalize (stripSign n).2 = ds at h
  generalize (stripSign n).1 = neg
  cases ds with
  | nil => cases h
  | cons d ds' =>
    simp only [Bool.and_eq_true, decide_eq_true_eq] at h
    have hd := isDigit_of_19 d h.1.1 h.1.2
    simp [hd, h.2]

/-- the factor from `p1 u^n` to `p2 u^n` is 10^(n · (exp p1 − exp p2)), with the SI exponents -/
theorem scaling_exponent (p1 p2 u n : Str) (h1 : WF p1 u n) (h2 : WF p2 u n) :
    ∃ e1 e2 v, (if p1 = [] then some 0 else specPrefixExp p1) = some e1 ∧
      (if p2 = [] then some 0 else specPrefixExp p2) = some e2 ∧ specPower n = some v ∧
      siScalingExp libTable (mk p1 u n) (mk p2 u n) = .ok (v * (e1 - e2)) := by
  have lk : ∀ p, (p = [] ∨ p ∈ prefixAlts) → ∃ e, (if p = [] then some 0 else specPrefixExp p) = some e ∧
      (if p.isEmpty then some 0 else prefixExp libTable p) = some e := by
    intro p hp
    rcases hp with hp | hp
    · subst hp; exact ⟨0, by simp, by simp⟩
    · have hne : p ≠ [] := alts_nonempty p (by simp [hp])
      obtain ⟨ht, hs⟩ := table_lookup p hp
      obtain ⟨e, he⟩ := Option.isSome_iff_exists.mp hs
      refine ⟨e, by simp [hne, he], ?_⟩
      have : p.isEmpty = false := by cases p <;> simp_all
      simp [this, ht, he]
  obtain ⟨e1, he1, hl1⟩ := lk p1 h1.1
  obtain ⟨e2, he2, hl2⟩ := lk p2 h2.1
  have hv : ∃ v, specPower n = some v := by
    unfold specPower
    by_cases hn0 : n = []
    · exact ⟨1, by simp [hn0]⟩
    · rcases h1.2.2 with h | h
      · exact absurd h hn0
      · obtain ⟨v, hv⟩ := parsePower_wf n h; exact ⟨v, by simp [hn0, hv]⟩
  obtain ⟨v, hv⟩ := hv
  refine ⟨e1, e2, v, he1, he2, hv, ?_⟩
  unfold siScalingExp
  rw [scalable_mk p1 p2 u n h1 h2, split_print_roundtrip _ _ _ h1, split_print_roundtrip _ _ _ h2]
  simp only [Bool.not_true, Bool.false_eq_true, if_false, beq_self_eq_true, Bool.and_true]
  by_cases hpp : p1 = p2
  · subst hpp
    have : e1 = e2 := by rw [he1] at he2; exact Option.some.inj he2
    simp [this]
  · have hne : (p1 == p2) = false := by simpa using hpp
    simp only [hne, Bool.false_eq_true, if_false, hl1, hl2]
    unfold specPower at hv
    by_cases hn0 : n = []
    · subst hn0
      simp only [if_true, Option.some.injEq] at hv
      simp [← hv]
    · have hne' : n.isEmpty = false := by cases n <;> simp_all
      simp only [hn0, if_false] at hv
      simp only [hne', Bool.false_eq_true, if_false, hv]
      rw [Int.mul_comm]

/-- a→b and b→a are reciprocal: the exponents are opposite -/
theorem scaling_reciprocal (p1 p2 u n : Str) (h1 : WF p1 u n) (h2 : WF p2 u n) :
    ∃ k, siScalingExp libTable (mk p1 u n) (mk p2 u n) = .ok k ∧
         siScalingExp libTable (mk p2 u n) (mk p1 u n) = .ok (-k) := by
  obtain ⟨e1, e2, v, a1, a2, a3, a4⟩ := scaling_exponent p1 p2 u n h1 h2
  obtain ⟨f2, f1, w, b2, b1, b3, b4⟩ := scaling_exponent p2 p1 u n h2 h1
  rw [a1] at b1; rw [a2] at b2; rw [a3] at b3
  cases b1; cases b2; cases b3
  refine ⟨_, a4, ?_⟩
  rw [b4]; congr 1
  rw [← Int.mul_neg]; congr 1; omega

/-- a→b→c composes to a→c: the exponents add -/
theorem scaling_compose (p1 p2 p3 u n : Str) (h1 : WF p1 u n) (h2 : WF p2 u n) (h3 : WF p3 u n) :
    ∃ k12 k23, siScalingExp libTable (mk p1 u n) (mk p2 u n) = .ok k12 ∧
      siScalingExp libTable (mk p2 u n) (mk p3 u n) = .ok k23 ∧
      siScalingExp libTable (mk p1 u n) (mk p3 u n) = .ok (k12 + k23) := by
  obtain ⟨e1, e2, v, a1, a2, a3, a4⟩ := scaling_exponent p1 p2 u n h1 h2
  obtain ⟨f2, f3, w, b2, b3, b4, b5⟩ := scaling_exponent p2 p3 u n h2 h3
  obtain ⟨g1, g3, x, c1, c3, c4, c5⟩ := scaling_exponent p1 p3 u n h1 h3
  rw [a2] at b2; rw [a3] at b4 c4; rw [a1] at c1; rw [b3] at c3
  cases b2; cases b4; cases c4; cases c1; cases c3
  refine ⟨_, _, a4, b5, ?_⟩
  rw [c5]; congr 1
  rw [← Int.mul_add]; congr 1; omega

/-! ### non-vacuity: concrete well-formed units and their factors -/
instance (p u n : Str) : Decidable (WF p u n) := by unfold WF; infer_instance
example : WF "m".toList "s".toList [] ∧ WF "u".toList "s".toList [] ∧ WF "m".toList "mol".toList "-2".toList := by decide +kernel
example : (siScalingExp libTable "ms".toList "us".toList).toOption = some 3 := by decide +kernel
example : (siScalingExp libTable "mmol^2".toList "mol^2".toList).toOption = some (-6) := by decide +kernel
example : splitUnit "daL^-3".toList = ⟨"da".toList, "L".toList, "-3".toList⟩ := by decide +kernel
example : (siScalingExp libTable "mV".toList "ms".toList).toOption = none := by decide +kernel

end Nix.C18
