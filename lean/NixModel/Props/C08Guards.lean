import NixModel.Gen.CreateGuards
/-
  C08 / C03 / C12 — the guards of the front-end create functions, read off the source on every run (`gen/extract_createguards.py`):
  the model's create entry points check name and type, then refuse a duplicate name WITHIN THE CONTAINER OF THE KIND BEING CREATED,
  and only then create.  A guard that asks another container (a copy-and-paste slip: `hasDataArray(name)` in `createDataFrame`)
  lets a duplicate reach the backend, which reopens the existing group and overwrites its id and type.
-/
namespace Nix.Guards
open Nix.Gen.CreateGuards

/-- every create function checks the name first, asks the container of its own kind for a duplicate, and only then creates -/
theorem create_guards_are_in_place :
    ∀ g ∈ guards, g.2.2.2.2.1 ≠ "" ∧ g.2.2.2.2.2.1 = g.2.2.2.1 ∧ g.2.2.2.2.2.2 = true := by decide +kernel

/-- name AND type are checked wherever the entity has a type (a property has none) -/
theorem type_checked_with_the_name :
    ∀ g ∈ guards, g.2.2.2.1 = "Property" ∨ g.2.2.2.2.1 = "checkEntityNameAndType" := by decide +kernel

/-- the create functions the model has entry points for are in the table -/
def modelled : List (String × String) :=
  [("src/File.cpp", "createBlock"), ("src/File.cpp", "createSection"), ("src/Section.cpp", "createSection"), ("src/Section.cpp", "createProperty"),
   ("src/Block.cpp", "createSource"), ("src/Source.cpp", "createSource"), ("src/Block.cpp", "createDataArray"), ("include/nix/Block.hpp", "createDataFrame"),
   ("src/Block.cpp", "createTag"), ("src/Block.cpp", "createMultiTag"), ("src/Block.cpp", "createGroup")]

theorem modelled_creates_are_tabulated : ∀ m ∈ modelled, ∃ g ∈ guards, g.1 = m.1 ∧ g.2.1 = m.2 := by decide +kernel

end Nix.Guards
