import NixModel.Spec.C15
/-
  C15 — DataFrame cells.  Property theorems about the frame model of lean/NixModel/DataFrame.lean, for every cell
  token type `V`, every fill function `zero`, every numeric member conversion `conv` and every history.
-/
set_option linter.unusedSectionVars false
set_option linter.unusedSimpArgs false
set_option linter.unusedVariables false
namespace Nix.C15
open Nix Nix.PV Nix.DF

variable {V : Type} (zero : DType → V) (conv : DType → DType → V → V)

/-! ### single operations -/

/-- **resize_preserves_surviving** — `rows(n)`: the schema stays, rows below both counts keep every cell, every other
    row reads as the fill value of its column -/
theorem resize_preserves_surviving (f : Frame V) (n : Nat) :
    (f.setRows zero n).cols = f.cols ∧ (f.setRows zero n).nrows = n ∧
    (∀ r c, r < n → r < f.nrows → (f.setRows zero n).get r c = f.get r c) ∧
    (∀ r c, (r ≥ n ∨ r ≥ f.nrows) → (f.setRows zero n).get r c = zero (f.colType c)) := by
  refine ⟨rfl, rfl, ?_, ?_⟩
  · intro r c h1 h2; simp [Frame.setRows, h1, h2]
  · intro r c h
    have : ¬ (r < n ∧ r < f.nrows) := by omega
    simp [Frame.setRows, this]

/-- what was cut off does not come back: shrink, then grow -/
theorem shrink_then_grow_zero (f : Frame V) (small big : Nat) (r c : Nat) (h : r ≥ small) :
    ((f.setRows zero small).setRows zero big).get r c = zero (f.colType c) := by
  have hs : ¬ (r < big ∧ r < small) := by omega
  simp [Frame.setRows, hs, Frame.colType]

/-- an accepted `writeCells`: what it did, exactly -/
theorem writeCells_ok (f f' : Frame V) (row : Nat) (cells : List (Ref × Variant V)) (h : f.writeCells conv row cells = .ok f') :
    ∃ rc, f.resolve [] cells = .ok rc ∧ row < f.nrows ∧ f' = f.setCells conv row rc := by
  unfold Frame.writeCells at h
  by_cases h1 : (cells.any fun c => !c.2.ty.isValueType) = true
  · simp [h1] at h
  · by_cases h2 : cells.isEmpty = true
    · simp [h1, h2] at h
    · cases hr : f.resolve [] cells with
      | error e => simp [h1, h2, hr] at h
      | ok rc =>
        by_cases h3 : row ≥ f.nrows
        · simp [h1, h2, hr, h3] at h
        · by_cases h4 : (rc.any fun cv => !convertible cv.2.ty (f.colType cv.1)) = true
          · simp only [h1, h2, hr, h3, h4, Bool.false_eq_true, ↓reduceIte] at h; cases h
          · simp only [h1, h2, hr, h3, h4, Bool.false_eq_true, ↓reduceIte, Except.ok.injEq] at h
            exact ⟨rc, rfl, by omega, h.symm⟩

theorem colIndex_lt (f : Frame V) (name : String) (c : Nat) (h : f.colIndex name = some c) : c < f.ncols := by
  unfold Frame.colIndex at h
  split at h
  · rename_i hi; simp only [Option.some.injEq] at h; subst h; exact hi
  · cases h

/-- an accepted `writeColumn`: what it did, exactly -/
theorem writeColumn_ok (f f' : Frame V) (ref : Ref) (ty : DType) (vals : List V) (offset count : Nat)
    (h : f.writeColumn conv ref ty vals offset count = .ok f') :
    ∃ c, c < f.ncols ∧ effCount count vals.length ≤ vals.length ∧
      ((effCount count vals.length = 0 ∧ f' = f) ∨
       (effCount count vals.length > 0 ∧ offset + effCount count vals.length ≤ f.nrows ∧
        f' = f.setColumn conv c ty offset (effCount count vals.length) vals)) := by
  unfold Frame.writeColumn at h
  split at h
  · cases h
  · rename_i name _
    by_cases hcnt : count > vals.length
    · simp [hcnt] at h
    · have hle : effCount count vals.length ≤ vals.length := by unfold effCount; split <;> omega
      cases hc : f.colIndex name with
      | none => simp [hcnt, hc] at h
      | some c =>
        refine ⟨c, colIndex_lt f name c hc, hle, ?_⟩
        by_cases h0 : effCount count vals.length = 0
        · simp only [hcnt, hc, h0, ↓reduceIte, Except.ok.injEq] at h
          exact Or.inl ⟨h0, h.symm⟩
        · by_cases hin : offset + effCount count vals.length > f.nrows
          · simp [hcnt, hc, h0, hin] at h
          · by_cases hcv : (!convertible ty (f.colType c)) = true
            · simp only [hcnt, hc, h0, hin, hcv, ↓reduceIte] at h; cases h
            · simp only [hcnt, hc, h0, hin, hcv, Bool.false_eq_true, ↓reduceIte, Except.ok.injEq] at h
              exact Or.inr ⟨by omega, by omega, h.symm⟩

/-! ### read paths: all three return the table -/

/-- `readRow` returns the cells of the row, each with its column's type -/
theorem readRow_spec (f : Frame V) (row : Nat) (vs : List (Variant V)) (h : f.readRow row = .ok vs) :
    row < f.nrows ∧ vs = (List.range f.ncols).map fun c => { ty := f.colType c, val := f.get row c } := by
  unfold Frame.readRow at h
  split at h
  · cases h
  · simp only [Except.ok.injEq] at h; exact ⟨by omega, h.symm⟩

/-- `readCells` returns, for each requested name, the cell of that column -/
theorem readCells_spec (f : Frame V) (row : Nat) (names : List String) (l : List (String × Variant V))
    (h : f.readCells row names = .ok l) :
    row < f.nrows ∧ (∀ n ∈ names, (f.colIndex n).isSome) ∧
    l = names.map fun n => (n, { ty := f.colType ((f.colIndex n).getD 0), val := f.get row ((f.colIndex n).getD 0) }) := by
  unfold Frame.readCells at h
  split at h
  · cases h
  · rename_i hany
    split at h
    · cases h
    · split at h
      · cases h
      · split at h
        · cases h
        · simp only [Except.ok.injEq] at h
          refine ⟨by omega, ?_, h.symm⟩
          intro n hn
          cases hc : (f.colIndex n).isSome with
          | true => rfl
          | false =>
            exfalso; apply hany
            rw [List.any_eq_true]
            exact ⟨n, hn, by simp [Option.isNone, Option.isSome] at hc ⊢; cases hx : f.colIndex n <;> simp_all⟩

/-- `readColumn` (any of the overloads ends here): the first `count` elements are the column's cells from `offset` on,
    the rest of the buffer is untouched -/
theorem readColumnRaw_spec (f : Frame V) (name : String) (ty : DType) (buf out : List V) (count offset : Nat)
    (h : f.readColumnRaw conv name ty buf count offset = .ok out) :
    ∃ c, f.colIndex name = some c ∧
      ((count = 0 ∧ out = buf) ∨ (count > 0 ∧ offset + count ≤ f.nrows ∧
        out = (List.range count).map (fun i => convert conv (f.colType c) ty (f.get (offset + i) c)) ++ buf.drop count)) := by
  unfold Frame.readColumnRaw at h
  cases hc : f.colIndex name with
  | none => rw [hc] at h; cases h
  | some c =>
    rw [hc] at h
    simp only [] at h
    refine ⟨c, rfl, ?_⟩
    split at h
    · rename_i h0; simp only [Except.ok.injEq] at h; exact Or.inl ⟨h0, h.symm⟩
    · split at h
      · cases h
      · split at h
        · cases h
        · simp only [Except.ok.injEq] at h; exact Or.inr ⟨by omega, by omega, h.symm⟩

/-! ### a column that does not exist -/

/-- **column_oob_rejected** — a column index past the last column, or a name the schema does not have, is refused by
    every access path (and, the mutators being all-or-nothing, nothing changes) -/
theorem column_oob_rejected (f : Frame V) (i : Nat) (hi : i ≥ f.ncols) (name : String) (hn : f.colIndex name = none)
    (hne : name.isEmpty = false) (row : Nat) (v : Variant V) (hv : v.ty.isValueType = true) (ty : DType) (vals buf : List V) (off cnt : Nat)
    (rs : Bool) :
    f.colName i = .error .other ∧
    f.writeCells conv row [(.idx i, v)] = .error .other ∧
    f.writeCells conv row [(.name name, v)] = .error .h5Error ∧
    f.readCell zero row (.idx i) = .error .other ∧
    f.readCell zero row (.name name) = .error .h5Error ∧
    f.readCells row [name] = .error .h5Error ∧
    (cnt ≤ vals.length → f.writeColumn conv (.name name) ty vals off cnt = .error .h5Error) ∧
    f.writeColumn conv (.idx i) ty vals off cnt = .error .other ∧
    f.readColumn zero conv (.idx i) ty buf rs off = .error .other ∧
    f.readColumnRaw conv name ty buf cnt off = .error .h5Error := by
  have hcn : f.colName i = .error .other := by
    unfold Frame.colName
    have : f.cols[i]? = none := by simp [Frame.ncols] at hi; simp [hi]
    rw [this]
  have hvv : (!v.ty.isValueType) = false := by simp [hv]
  refine ⟨hcn, ?_, ?_, ?_, ?_, ?_, ?_, ?_, ?_, ?_⟩
  · simp [Frame.writeCells, hvv, Frame.resolve, Frame.cellName, hcn]
  · simp [Frame.writeCells, hvv, Frame.resolve, Frame.cellName, hne, hn]
  · simp [Frame.readCell, Frame.refName, hcn]
  · simp [Frame.readCell, Frame.refName, Frame.readCells, hn]
  · simp [Frame.readCells, hn]
  · intro hc
    have : ¬ cnt > vals.length := by omega
    simp [Frame.writeColumn, Frame.refName, this, hn]
  · simp [Frame.writeColumn, Frame.refName, hcn]
  · simp [Frame.readColumn, Frame.refName, hcn]
  · simp [Frame.readColumnRaw, hn]

/-- a row past the last row is refused by every access path -/
theorem row_oob_rejected (f : Frame V) (row : Nat) (hr : row ≥ f.nrows) (cells : List (Ref × Variant V)) (names : List String) :
    f.readRow row = .error .h5Error ∧ (∃ e, f.writeCells conv row cells = .error e) ∧ (∃ e, f.readCells row names = .error e) := by
  refine ⟨by simp [Frame.readRow, hr], ?_, ?_⟩
  · unfold Frame.writeCells
    split
    · exact ⟨_, rfl⟩
    · split
      · exact ⟨_, rfl⟩
      · cases f.resolve [] cells with
        | error e => exact ⟨e, rfl⟩
        | ok rc => simp [hr]
  · unfold Frame.readCells
    split
    · exact ⟨_, rfl⟩
    · split
      · exact ⟨_, rfl⟩
      · split
        · exact ⟨_, rfl⟩
        · simp [hr]

/-! ### the session: rejected calls, schema -/

/-- **a rejected call leaves no trace**: every mutator is all-or-nothing, and a read-only file refuses all of them -/
theorem rejected_call_leaves_no_trace (s : FSt V) (op : Op V) (e : Err) (hc : ∀ cols, op ≠ .create cols)
    (h : (step zero conv s op).2 = some e) : (step zero conv s op).1 = s := by
  have hmut : ∀ g : Frame V → Except Err (Frame V), (s.mutate g).2 = some e → (s.mutate g).1 = s := by
    intro g hg
    unfold FSt.mutate at hg ⊢
    cases hf : s.frame with
    | none => rfl
    | some fr =>
      simp only [hf] at hg ⊢
      cases hgf : g fr with
      | error e1 => rfl
      | ok fr' =>
        simp only [hgf] at hg ⊢
        cases hw : s.writable with
        | true => simp [hw] at hg
        | false => simp
  cases op with
  | create cols => exact absurd rfl (hc cols)
  | setRows n => exact hmut _ h
  | writeRow row vals => exact hmut _ h
  | writeCells row cells => exact hmut _ h
  | writeColumn ref ty vals offset count => exact hmut _ h
  | reopen w => simp [DF.step] at h

theorem readonly_changes_nothing (s : FSt V) (op : Op V) (hro : s.writable = false) (hc : ∀ cols, op ≠ .create cols)
    (hw : ∀ w, op ≠ .reopen w) : (step zero conv s op).1 = s := by
  have hmut : ∀ g : Frame V → Except Err (Frame V), (s.mutate g).1 = s := by
    intro g
    unfold FSt.mutate
    cases hf : s.frame with
    | none => rfl
    | some fr =>
      simp only []
      cases g fr with
      | error e1 => rfl
      | ok fr' => simp [hro]
  cases op with
  | create cols => exact absurd rfl (hc cols)
  | setRows n => exact hmut _
  | writeRow row vals => exact hmut _
  | writeCells row cells => exact hmut _
  | writeColumn ref ty vals offset count => exact hmut _
  | reopen w => exact absurd rfl (hw w)

/-- **schema_roundtrip** (creation): an accepted creation yields exactly the given columns — names, units, types and
    order — with no rows; a rejected one yields no frame -/
theorem create_schema (cols : List Col) (f : Frame V) (h : Frame.create zero cols = .ok f) :
    f.cols = cols ∧ f.nrows = 0 ∧ cols ≠ [] ∧ ∀ r c, f.get r c = zero (f.colType c) := by
  unfold Frame.create at h
  split at h
  · cases h
  · rename_i hne
    split at h
    · cases h
    · simp only [Except.ok.injEq] at h
      subst h
      refine ⟨rfl, rfl, ?_, fun r c => rfl⟩
      intro hx; subst hx; simp at hne

/-! ### histories: every cell holds the value of the last write that covered it -/

/-- the cell list `writeRow` hands to `writeCells` -/
def rowCells (vals : List (Variant V)) : List (Ref × Variant V) :=
  (List.range vals.length).zip vals |>.map fun kv => (Ref.idx kv.1, kv.2)

/-- the event an accepted call is recorded as (exactly what the driver records for the implementation) -/
def evOf (cols : List Col) : Op V → Option (Ev V)
  | .create cs => some (.created cs)
  | .setRows n => some (.rows n)
  | .writeRow row vals => some (.cells row (resolvedCells cols (rowCells vals)))
  | .writeCells row cells => some (.cells row (resolvedCells cols cells))
  | .writeColumn ref ty vals offset count =>
    match resolveRef cols ref with
    | some c => if effCount count vals.length > 0 then some (.column c ty offset (vals.take (effCount count vals.length))) else none
    | none => none
  | .reopen w => some (.reopened w)

/-- the history after one more call: a creation starts a new file (and a new history), accepted calls are recorded,
    rejected ones are not -/
def record (s : FSt V) (op : Op V) (h : List (Ev V)) : List (Ev V) :=
  match op with
  | .create cs => (match (step zero conv s op).2 with | none => [.created cs] | some _ => [])
  | _ =>
    match (step zero conv s op).2, evOf (schemaOf h) op with
    | none, some e => e :: h
    | _, _ => h

def runH : FSt V → List (Ev V) → List (Op V) → FSt V × List (Ev V)
  | s, h, [] => (s, h)
  | s, h, op :: ops => runH (step zero conv s op).1 (record zero conv s op h) ops

/-- a frame of the model agrees with the history -/
structure AgreeF (f : Frame V) (h : List (Ev V)) : Prop where
  unique : (f.cols.map (·.name)).Nodup
  schema : schemaOf h = f.cols
  rows : rowsAfter h = f.nrows
  cell : ∀ r c, f.get r c = lastCell zero conv f.cols h r c
  normal : ∀ r c, r ≥ f.nrows → f.get r c = zero (f.colType c)

def Agree (s : FSt V) (h : List (Ev V)) : Prop :=
  (match s.frame with
   | none => schemaOf h = []
   | some f => AgreeF zero conv f h) ∧ writableAfter h = s.writable

/-- well-formed schema: what `Block::createDataFrame` guarantees -/
def UniqueNames (cols : List Col) : Prop := (cols.map (·.name)).Nodup

theorem checkCols_unique : ∀ (cols : List Col) (seen : List String), checkCols seen cols = none →
    UniqueNames cols ∧ ∀ c ∈ cols, c.name ∉ seen
  | [], _, _ => ⟨List.nodup_nil, fun _ h => by simp at h⟩
  | c :: rest, seen, h => by
    unfold checkCols at h
    split at h
    · cases h
    · split at h
      · cases h
      · split at h
        · cases h
        · rename_i _ _ hseen
          obtain ⟨hu, hs⟩ := checkCols_unique rest (c.name :: seen) h
          refine ⟨?_, ?_⟩
          · unfold UniqueNames at hu ⊢
            rw [List.map_cons, List.nodup_cons]
            refine ⟨?_, hu⟩
            intro hmem
            rw [List.mem_map] at hmem
            obtain ⟨c', hc', hn⟩ := hmem
            exact hs c' hc' (by rw [hn]; simp)
          · intro c' hc'
            rw [List.mem_cons] at hc'
            cases hc' with
            | inl he => subst he; simpa using hseen
            | inr hr => intro hin; exact hs c' hr (List.mem_cons_of_mem _ hin)

theorem findIdx_name_unique : ∀ (cols : List Col) (i : Nat) (col : Col), cols[i]? = some col → UniqueNames cols →
    cols.findIdx (fun c => c.name == col.name) = i
  | [], i, col, h, _ => by simp at h
  | c0 :: rest, 0, col, h, _ => by
    simp at h; subst h; simp [List.findIdx_cons]
  | c0 :: rest, i + 1, col, h, hn => by
    simp only [List.getElem?_cons_succ] at h
    unfold UniqueNames at hn
    rw [List.map_cons, List.nodup_cons] at hn
    have hmem : col ∈ rest := List.mem_of_getElem? h
    have hne : (c0.name == col.name) = false := by
      simp only [beq_eq_false_iff_ne, ne_eq]
      intro he
      exact hn.1 (by rw [he, List.mem_map]; exact ⟨col, hmem, rfl⟩)
    rw [List.findIdx_cons, hne]
    simp only [cond_false]
    rw [findIdx_name_unique rest i col h hn.2]

/-- with unique column names, going from an index to the member name and back finds the same column -/
theorem colIndex_colName (f : Frame V) (hu : UniqueNames f.cols) (i : Nat) (name : String) (h : f.colName i = .ok name) :
    i < f.cols.length ∧ f.colIndex name = some i := by
  unfold Frame.colName at h
  cases hg : f.cols[i]? with
  | none => rw [hg] at h; cases h
  | some col =>
    rw [hg] at h
    simp only [Except.ok.injEq] at h
    subst h
    have hil : i < f.cols.length := by
      cases hlt : decide (i < f.cols.length) with
      | true => simpa using hlt
      | false => simp at hlt; simp [hlt] at hg
    refine ⟨hil, ?_⟩
    unfold Frame.colIndex
    rw [findIdx_name_unique f.cols i col hg hu, if_pos hil]

/-- the model's name / index resolution (through member names, as the C++ does it) is the one of Spec/C15.lean -/
theorem resolve_sound (f : Frame V) (hu : UniqueNames f.cols) : ∀ (cells : List (Ref × Variant V)) (seen : List String)
    (rc : List (Nat × Variant V)), f.resolve seen cells = .ok rc → rc = resolvedCells f.cols cells
  | [], _, rc, h => by simp [Frame.resolve] at h; subst h; rfl
  | (ref, v) :: rest, seen, rc, h => by
    unfold Frame.resolve at h
    -- the member name of the cell, and the column it designates
    have key : ∀ name, f.cellName ref = .ok name →
        ∀ c, f.colIndex name = some c → resolveCellRef f.cols ref = some c := by
      intro name hn c hc
      cases ref with
      | idx i =>
        simp only [Frame.cellName] at hn
        obtain ⟨hil, hci⟩ := colIndex_colName f hu i name hn
        rw [hci] at hc; simp only [Option.some.injEq] at hc; subst hc
        simp [resolveCellRef, resolveRef, hil]
      | name n =>
        simp only [Frame.cellName] at hn
        by_cases he : n.isEmpty = true
        · simp only [he, ↓reduceIte] at hn
          obtain ⟨hil, hci⟩ := colIndex_colName f hu 0 name hn
          rw [hci] at hc; simp only [Option.some.injEq] at hc; subst hc
          simp [resolveCellRef, resolveRef, he, hil]
        · simp only [he, Bool.false_eq_true, ↓reduceIte, Except.ok.injEq] at hn
          subst hn
          unfold Frame.colIndex at hc
          simp only [resolveCellRef, he, Bool.false_eq_true, ↓reduceIte, resolveRef]
          exact hc
    cases hn : f.cellName ref with
    | error e => rw [hn] at h; cases h
    | ok name =>
      rw [hn] at h
      simp only [] at h
      cases hc : f.colIndex name with
      | none => rw [hc] at h; cases h
      | some c =>
        rw [hc] at h
        simp only [] at h
        split at h
        · cases h
        · cases hr : f.resolve (name :: seen) rest with
          | error e => rw [hr] at h; cases h
          | ok l =>
            rw [hr] at h
            simp only [Except.ok.injEq] at h
            subst h
            have ih := resolve_sound f hu rest (name :: seen) l hr
            simp only [resolvedCells, List.filterMap_cons, key name hn c hc, Option.map_some]
            rw [ih]; rfl

theorem refName_sound (f : Frame V) (hu : UniqueNames f.cols) (ref : Ref) (name : String) (c : Nat)
    (hn : f.refName ref = .ok name) (hc : f.colIndex name = some c) : resolveRef f.cols ref = some c := by
  cases ref with
  | idx i =>
    simp only [Frame.refName] at hn
    obtain ⟨hil, hci⟩ := colIndex_colName f hu i name hn
    rw [hci] at hc; simp only [Option.some.injEq] at hc; subst hc
    simp [resolveRef, hil]
  | name n =>
    simp only [Frame.refName, Except.ok.injEq] at hn
    subst hn
    unfold Frame.colIndex at hc
    simp only [resolveRef]
    exact hc

theorem mutate_accepted (s : FSt V) (g : Frame V → Except Err (Frame V)) (h : (s.mutate g).2 = none) :
    ∃ f f', s.frame = some f ∧ g f = .ok f' ∧ s.writable = true ∧ (s.mutate g).1 = { s with frame := some f' } := by
  unfold FSt.mutate at h ⊢
  cases hf : s.frame with
  | none => simp [hf] at h
  | some f =>
    simp only [hf] at h ⊢
    cases hg : g f with
    | error e => simp [hg] at h
    | ok f' =>
      simp only [hg] at h ⊢
      cases hw : s.writable with
      | false => simp [hw] at h
      | true => exact ⟨f, f', rfl, hg, rfl, by simp⟩

/-- one step keeps the frame model and the history of accepted calls in agreement -/
theorem step_agree (s : FSt V) (h : List (Ev V)) (op : Op V) (ha : Agree zero conv s h) :
    Agree zero conv (step zero conv s op).1 (record zero conv s op h) := by
  -- a rejected call (other than a creation): nothing changes, nothing is recorded
  have rejected : ∀ e, (∀ cols, op ≠ .create cols) → (step zero conv s op).2 = some e →
      Agree zero conv (step zero conv s op).1 (record zero conv s op h) := by
    intro e hc he
    rw [rejected_call_leaves_no_trace zero conv s op e hc he]
    have : record zero conv s op h = h := by
      unfold record
      cases op with
      | create cols => exact absurd rfl (hc cols)
      | _ => simp [he]
    rw [this]; exact ha
  cases op with
  | create cols =>
    simp only [DF.step, record]
    cases hc : Frame.create zero cols with
    | error e => simp only []; exact ⟨rfl, rfl⟩
    | ok f =>
      simp only []
      obtain ⟨h1, h2, _, h4⟩ := create_schema zero cols f hc
      have hu : (f.cols.map (·.name)).Nodup := by
        rw [h1]
        unfold Frame.create at hc
        split at hc
        · cases hc
        · cases hk : checkCols [] cols with
          | some e => simp [hk] at hc
          | none => exact (checkCols_unique cols [] hk).1
      refine ⟨⟨hu, by simp [schemaOf, h1], by simp [rowsAfter, h2], fun r c => ?_, fun r c _ => h4 r c⟩, rfl⟩
      rw [h4 r c]; simp [lastCell, typeAt, Frame.colType]
  | setRows n =>
    cases hr : (step zero conv s (.setRows n)).2 with
    | some e => exact rejected e (fun _ => by simp) hr
    | none =>
      simp only [DF.step] at hr ⊢
      obtain ⟨f, f', hf, hg, hw, hst⟩ := mutate_accepted s _ hr
      simp only [Except.ok.injEq] at hg
      have hrec : record zero conv s (.setRows n) h = .rows n :: h := by simp [record, DF.step, hr, evOf]
      rw [hrec, hst]
      have haf : AgreeF zero conv f h := by have := ha.1; rw [hf] at this; exact this
      refine ⟨?_, by simp [writableAfter]; exact ha.2⟩
      simp only []
      subst hg
      refine ⟨haf.unique, by simp [schemaOf, Frame.setRows]; exact haf.schema, by simp [rowsAfter, Frame.setRows], fun r c => ?_, fun r c hr => ?_⟩
      · simp only [Frame.setRows, lastCell]
        by_cases h1 : r < n
        · by_cases h2 : r < f.nrows
          · simp [h1, h2, haf.cell r c]
          · simp only [h1, h2, and_false, ↓reduceIte]
            rw [← haf.cell r c, haf.normal r c (by omega)]
        · simp [h1, typeAt, Frame.colType]
      · have : ¬ (r < n ∧ r < f.nrows) := by simp [Frame.setRows] at hr; omega
        simp [Frame.setRows, this, Frame.colType]
  | writeRow row vals =>
    cases hr : (step zero conv s (.writeRow row vals)).2 with
    | some e => exact rejected e (fun _ => by simp) hr
    | none =>
      simp only [DF.step] at hr ⊢
      obtain ⟨f, f', hf, hg, hw, hst⟩ := mutate_accepted s _ hr
      have haf : AgreeF zero conv f h := by have := ha.1; rw [hf] at this; exact this
      have hg' : f.writeCells conv row (rowCells vals) = .ok f' := by
        unfold Frame.writeRow at hg
        split at hg
        · cases hg
        · exact hg
      obtain ⟨rc, hres, hrow, hf'⟩ := writeCells_ok conv f f' row _ hg'
      have hrc := resolve_sound f haf.unique _ _ _ hres
      have hrec : record zero conv s (.writeRow row vals) h = .cells row rc :: h := by
        simp [record, DF.step, hr, evOf, haf.schema, hrc]
      rw [hrec, hst]
      refine ⟨?_, by simp [writableAfter]; exact ha.2⟩
      simp only []
      subst hf'
      refine ⟨haf.unique, by simp [schemaOf, Frame.setCells]; exact haf.schema, by simp [rowsAfter, Frame.setCells]; exact haf.rows,
              fun r c => ?_, fun r c hr => ?_⟩
      · simp only [Frame.setCells, lastCell, typeAt, Frame.colType]
        by_cases h1 : r = row
        · simp only [h1, ↓reduceIte]
          cases rc.lookup c with
          | some v => rfl
          | none => simp only []; exact haf.cell row c
        · simp only [h1, ↓reduceIte]; exact haf.cell r c
      · have : r ≠ row := by simp [Frame.setCells] at hr; omega
        simp only [Frame.setCells, this, ↓reduceIte]
        exact haf.normal r c (by simpa [Frame.setCells] using hr)
  | writeCells row cells =>
    cases hr : (step zero conv s (.writeCells row cells)).2 with
    | some e => exact rejected e (fun _ => by simp) hr
    | none =>
      simp only [DF.step] at hr ⊢
      obtain ⟨f, f', hf, hg, hw, hst⟩ := mutate_accepted s _ hr
      have haf : AgreeF zero conv f h := by have := ha.1; rw [hf] at this; exact this
      obtain ⟨rc, hres, hrow, hf'⟩ := writeCells_ok conv f f' row _ hg
      have hrc := resolve_sound f haf.unique _ _ _ hres
      have hrec : record zero conv s (.writeCells row cells) h = .cells row rc :: h := by
        simp [record, DF.step, hr, evOf, haf.schema, hrc]
      rw [hrec, hst]
      refine ⟨?_, by simp [writableAfter]; exact ha.2⟩
      simp only []
      subst hf'
      refine ⟨haf.unique, by simp [schemaOf, Frame.setCells]; exact haf.schema, by simp [rowsAfter, Frame.setCells]; exact haf.rows,
              fun r c => ?_, fun r c hr => ?_⟩
      · simp only [Frame.setCells, lastCell, typeAt, Frame.colType]
        by_cases h1 : r = row
        · simp only [h1, ↓reduceIte]
          cases rc.lookup c with
          | some v => rfl
          | none => simp only []; exact haf.cell row c
        · simp only [h1, ↓reduceIte]; exact haf.cell r c
      · have : r ≠ row := by simp [Frame.setCells] at hr; omega
        simp only [Frame.setCells, this, ↓reduceIte]
        exact haf.normal r c (by simpa [Frame.setCells] using hr)
  | writeColumn ref ty vals offset count =>
    cases hr : (step zero conv s (.writeColumn ref ty vals offset count)).2 with
    | some e => exact rejected e (fun _ => by simp) hr
    | none =>
      simp only [DF.step] at hr ⊢
      obtain ⟨f, f', hf, hg, hw, hst⟩ := mutate_accepted s _ hr
      have haf : AgreeF zero conv f h := by have := ha.1; rw [hf] at this; exact this
      -- the column the call designates
      have hcol : ∃ name c, f.refName ref = .ok name ∧ f.colIndex name = some c := by
        unfold Frame.writeColumn at hg
        cases hn : f.refName ref with
        | error e => rw [hn] at hg; cases hg
        | ok name =>
          rw [hn] at hg
          simp only [] at hg
          split at hg
          · cases hg
          · cases hc : f.colIndex name with
            | none => rw [hc] at hg; cases hg
            | some c => exact ⟨name, c, rfl, hc⟩
      obtain ⟨name, c0, hn, hc0⟩ := hcol
      have hres := refName_sound f haf.unique ref name c0 hn hc0
      obtain ⟨c, hlt, hle, hcase⟩ := writeColumn_ok conv f f' ref ty vals offset count hg
      -- `c` of writeColumn_ok is the column found by name
      have hcc : (effCount count vals.length > 0 → f' = f.setColumn conv c0 ty offset (effCount count vals.length) vals) := by
        intro hpos
        unfold Frame.writeColumn at hg
        rw [hn] at hg
        simp only [] at hg
        split at hg
        · cases hg
        · rw [hc0] at hg
          simp only [] at hg
          have h0 : ¬ effCount count vals.length = 0 := by omega
          simp only [h0, ↓reduceIte] at hg
          split at hg
          · cases hg
          · split at hg
            · cases hg
            · simp only [Except.ok.injEq] at hg; exact hg.symm
      rw [hst]
      by_cases hpos : effCount count vals.length > 0
      · have hrec : record zero conv s (.writeColumn ref ty vals offset count) h =
            .column c0 ty offset (vals.take (effCount count vals.length)) :: h := by
          simp [record, DF.step, hr, evOf, haf.schema, hres, hpos]
        rw [hrec]
        have hf' := hcc hpos
        have hin : offset + effCount count vals.length ≤ f.nrows := by
          cases hcase with
          | inl h0 => omega
          | inr h1 => exact h1.2.1
        refine ⟨?_, by simp [writableAfter]; exact ha.2⟩
        simp only []
        subst hf'
        refine ⟨haf.unique, by simp [schemaOf, Frame.setColumn]; exact haf.schema, by simp [rowsAfter, Frame.setColumn]; exact haf.rows,
                fun r k => ?_, fun r k hr => ?_⟩
        · simp only [Frame.setColumn, lastCell, typeAt, Frame.colType, List.length_take, Nat.min_eq_left hle]
          by_cases hin2 : k = c0 ∧ offset ≤ r ∧ r < offset + effCount count vals.length
          · simp only [hin2, and_self, ↓reduceIte]
            have hidx : r - offset < effCount count vals.length := by omega
            rw [List.getElem?_take_of_lt hidx]
            cases vals[r - offset]? with
            | some v => rfl
            | none => simp only []; rw [← hin2.1]; exact haf.cell r k
          · simp only [hin2, ↓reduceIte]; exact haf.cell r k
        · have hr' : r ≥ f.nrows := by simpa [Frame.setColumn] using hr
          have : ¬ (k = c0 ∧ offset ≤ r ∧ r < offset + effCount count vals.length) := by omega
          simp only [Frame.setColumn, this, ↓reduceIte]
          exact haf.normal r k hr'
      · have h0 : effCount count vals.length = 0 := by omega
        have hrec : record zero conv s (.writeColumn ref ty vals offset count) h = h := by
          simp [record, DF.step, hr, evOf, haf.schema, hres, h0]
        rw [hrec]
        have hf' : f' = f := by
          cases hcase with
          | inl h1 => exact h1.2
          | inr h1 => omega
        subst hf'
        refine ⟨?_, ha.2⟩
        simp only []
        exact haf
  | reopen w =>
    have hrec : record zero conv s (.reopen w) h = .reopened w :: h := by simp [record, DF.step, evOf]
    rw [hrec]
    simp only [DF.step]
    refine ⟨?_, by simp [writableAfter]⟩
    have := ha.1
    cases hf : s.frame with
    | none => rw [hf] at this; simp only [] at this ⊢; simpa [schemaOf] using this
    | some f =>
      rw [hf] at this
      simp only [] at this ⊢
      exact ⟨this.unique, by simp [schemaOf]; exact this.schema, by simp [rowsAfter]; exact this.rows,
             fun r c => by simp [lastCell]; exact this.cell r c, this.normal⟩

theorem agree_empty : Agree zero conv ({} : FSt V) ([] : List (Ev V)) := ⟨rfl, rfl⟩

/-- induction over the history -/
theorem history_agree : ∀ (ops : List (Op V)) (s : FSt V) (h : List (Ev V)), Agree zero conv s h →
    Agree zero conv (runH zero conv s h ops).1 (runH zero conv s h ops).2
  | [], _, _, ha => ha
  | op :: ops, s, h, ha => history_agree ops _ _ (step_agree zero conv s h op ha)

theorem runH_state : ∀ (ops : List (Op V)) (s : FSt V) (h : List (Ev V)), (runH zero conv s h ops).1 = run zero conv s ops
  | [], _, _ => rfl
  | op :: ops, s, h => by simp only [runH, DF.run, List.foldl_cons]; exact runH_state ops _ _

/-- **cell_last_writer** — THE PROPERTY, for the model.  After any sequence of calls (creation, row-count changes,
    writeRow, writeCells by name or index, writeColumn with offset / count, reopens, accepted or refused, in any mix),
    the frame that exists has the schema it was created with, the row count last set, and EVERY cell (r, c) holds the
    value of the last accepted write — through any of the three write paths — that covered it since row r was last
    outside the row count, and the fill value of its column type if there is none. -/
theorem cell_last_writer (ops : List (Op V)) (f : Frame V) (hf : (run zero conv {} ops).frame = some f) :
    f.cols = schemaOf (runH zero conv {} [] ops).2 ∧ f.nrows = rowsAfter (runH zero conv {} [] ops).2 ∧
    ∀ r c, f.get r c = lastCell zero conv (schemaOf (runH zero conv {} [] ops).2) (runH zero conv {} [] ops).2 r c := by
  have ha := history_agree zero conv ops {} [] (agree_empty zero conv)
  rw [runH_state] at ha
  have := ha.1
  rw [hf] at this
  simp only [] at this
  exact ⟨this.schema.symm, this.rows.symm, fun r c => by rw [this.schema]; exact this.cell r c⟩

/-- … read through `readRow`: the row the history rule designates -/
theorem history_readRow (ops : List (Op V)) (f : Frame V) (hf : (run zero conv {} ops).frame = some f) (row : Nat)
    (vs : List (Variant V)) (hr : f.readRow row = .ok vs) :
    vs = expectRow zero conv (runH zero conv {} [] ops).2 row := by
  obtain ⟨h1, h2, h3⟩ := cell_last_writer zero conv ops f hf
  obtain ⟨_, hv⟩ := readRow_spec f row vs hr
  rw [hv]
  unfold expectRow
  simp only [Frame.ncols, Frame.colType, typeAt, ← h1]
  apply List.map_congr_left
  intro c _
  rw [h3 row c, ← h1]

/-- … read through `readCells` (and `readCell`): for each requested column the value the history rule designates -/
theorem history_readCells (ops : List (Op V)) (f : Frame V) (hf : (run zero conv {} ops).frame = some f) (row : Nat)
    (names : List String) (l : List (String × Variant V)) (hr : f.readCells row names = .ok l) :
    l = names.map fun n =>
      let c := (resolveRef (schemaOf (runH zero conv {} [] ops).2) (.name n)).getD 0
      (n, { ty := typeAt (schemaOf (runH zero conv {} [] ops).2) c,
            val := lastCell zero conv (schemaOf (runH zero conv {} [] ops).2) (runH zero conv {} [] ops).2 row c }) := by
  obtain ⟨h1, h2, h3⟩ := cell_last_writer zero conv ops f hf
  obtain ⟨_, _, hv⟩ := readCells_spec f row names l hr
  rw [hv]
  apply List.map_congr_left
  intro n _
  simp only [resolveRef, Frame.colIndex, Frame.colType, typeAt, ← h1]
  rw [h3, ← h1]

/-- … read through `readColumn` (every overload ends in `readColumnRaw`): the first `count` elements are the values
    the history rule designates for rows offset … offset+count−1 of that column, the rest of the buffer is untouched -/
theorem history_readColumn (ops : List (Op V)) (f : Frame V) (hf : (run zero conv {} ops).frame = some f) (name : String)
    (ty : DType) (buf out : List V) (count offset : Nat) (hpos : count > 0)
    (hr : f.readColumnRaw conv name ty buf count offset = .ok out) :
    ∃ c, resolveRef (schemaOf (runH zero conv {} [] ops).2) (.name name) = some c ∧
      out = expectColumn zero conv (runH zero conv {} [] ops).2 c ty offset count ++ buf.drop count := by
  obtain ⟨h1, h2, h3⟩ := cell_last_writer zero conv ops f hf
  obtain ⟨c, hc, hcase⟩ := readColumnRaw_spec conv f name ty buf out count offset hr
  refine ⟨c, ?_, ?_⟩
  · unfold Frame.colIndex at hc
    simp only [resolveRef, ← h1]
    exact hc
  · cases hcase with
    | inl h0 => omega
    | inr h =>
      rw [h.2.2]
      unfold expectColumn
      simp only [Frame.colType, typeAt, ← h1]
      congr 1
      apply List.map_congr_left
      intro i _
      rw [h3, ← h1]

/-- **unwritten_zero** — a cell no accepted write has covered reads as the fill value of its column type (zero, or the
    empty string): here for every history that contains no write at all -/
theorem unwritten_zero (cols : List Col) : ∀ (h : List (Ev V)),
    (∀ ev ∈ h, match ev with | .cells _ _ => False | .column _ _ _ _ => False | _ => True) →
    ∀ r c, lastCell zero conv cols h r c = zero (typeAt cols c)
  | [], _, _, _ => rfl
  | ev :: rest, hw, r, c => by
    have ih := unwritten_zero cols rest (fun e he => hw e (List.mem_cons_of_mem _ he)) r c
    have h0 := hw ev (by simp)
    cases ev with
    | created cs => rfl
    | rows n =>
      simp only [lastCell]
      split
      · exact ih
      · rfl
    | cells row cs => exact absurd h0 (by simp)
    | column col ty off vals => exact absurd h0 (by simp)
    | reopened w => simpa [lastCell] using ih

/-- … and in general: a cell reads as the fill value unless some write of the history covers it -/
theorem uncovered_zero (cols : List Col) : ∀ (h : List (Ev V)) (r c : Nat),
    (∀ ev ∈ h, match ev with
      | .cells row cs => ¬ (r = row ∧ (cs.lookup c).isSome)
      | .column col _ off vals => ¬ (c = col ∧ off ≤ r ∧ r < off + vals.length)
      | _ => True) →
    lastCell zero conv cols h r c = zero (typeAt cols c)
  | [], _, _, _ => rfl
  | ev :: rest, r, c, hw => by
    have ih := uncovered_zero cols rest r c (fun e he => hw e (List.mem_cons_of_mem _ he))
    have h0 := hw ev (by simp)
    cases ev with
    | created cs => rfl
    | rows n =>
      simp only [lastCell]
      split
      · exact ih
      · rfl
    | cells row cs =>
      simp only [lastCell]
      simp only [] at h0
      by_cases h1 : r = row
      · simp only [h1, ↓reduceIte]
        cases hl : cs.lookup c with
        | none => simp only []; rw [← h1]; exact ih
        | some v => exact absurd ⟨h1, by simp [hl]⟩ h0
      · simp only [h1, ↓reduceIte]; exact ih
    | column col ty off vals =>
      simp only [lastCell]
      simp only [] at h0
      rw [if_neg h0]; exact ih
    | reopened w => simpa [lastCell] using ih

/-- **schema_roundtrip** — whatever is done to the frame after its creation, `columns()` is the list given at the creation
    (names, units, types, order), and column name ↔ index agree with it -/
theorem schema_roundtrip (cols : List Col) (ops : List (Op V)) (hc : ∀ op ∈ ops, ∀ cs, op ≠ .create cs)
    (f0 : Frame V) (h0 : Frame.create zero cols = .ok f0) :
    ∃ f, (run zero conv {} (.create cols :: ops)).frame = some f ∧ f.cols = cols ∧
      (∀ i col, cols[i]? = some col → f.colName i = .ok col.name ∧ f.colIndex col.name = some i) := by
  -- mutators and reopen keep the frame's columns
  have keep : ∀ (ops : List (Op V)) (s : FSt V) (f : Frame V), (∀ op ∈ ops, ∀ cs, op ≠ .create cs) → s.frame = some f →
      ∃ f', (DF.run zero conv s ops).frame = some f' ∧ f'.cols = f.cols := by
    intro ops
    induction ops with
    | nil => intro s f _ hf; exact ⟨f, hf, rfl⟩
    | cons op ops ih =>
      intro s f hc hf
      have hstep : ∃ f1, (DF.step zero conv s op).1.frame = some f1 ∧ f1.cols = f.cols := by
        cases hr : (DF.step zero conv s op).2 with
        | some e =>
          rw [rejected_call_leaves_no_trace zero conv s op e (hc op (by simp)) hr]; exact ⟨f, hf, rfl⟩
        | none =>
          cases op with
          | create cs => exact absurd rfl (hc _ (by simp) cs)
          | setRows n =>
            simp only [DF.step] at hr ⊢
            obtain ⟨g, g', hg, hgg, _, hst⟩ := mutate_accepted s _ hr
            rw [hst]; rw [hf] at hg; cases hg
            simp only [Except.ok.injEq] at hgg; subst hgg
            exact ⟨_, rfl, rfl⟩
          | writeRow row vals =>
            simp only [DF.step] at hr ⊢
            obtain ⟨g, g', hg, hgg, _, hst⟩ := mutate_accepted s _ hr
            rw [hst]; rw [hf] at hg; cases hg
            have hg' : f.writeCells conv row (rowCells vals) = .ok g' := by
              unfold Frame.writeRow at hgg
              split at hgg
              · cases hgg
              · exact hgg
            obtain ⟨rc, _, _, hf'⟩ := writeCells_ok conv f g' row _ hg'
            exact ⟨g', rfl, by rw [hf']; rfl⟩
          | writeCells row cells =>
            simp only [DF.step] at hr ⊢
            obtain ⟨g, g', hg, hgg, _, hst⟩ := mutate_accepted s _ hr
            rw [hst]; rw [hf] at hg; cases hg
            obtain ⟨rc, _, _, hf'⟩ := writeCells_ok conv f g' row _ hgg
            exact ⟨g', rfl, by rw [hf']; rfl⟩
          | writeColumn ref ty vals offset count =>
            simp only [DF.step] at hr ⊢
            obtain ⟨g, g', hg, hgg, _, hst⟩ := mutate_accepted s _ hr
            rw [hst]; rw [hf] at hg; cases hg
            obtain ⟨c, _, _, hcase⟩ := writeColumn_ok conv f g' ref ty vals offset count hgg
            refine ⟨g', rfl, ?_⟩
            cases hcase with
            | inl h1 => rw [h1.2]
            | inr h1 => rw [h1.2.2]; rfl
          | reopen w => exact ⟨f, hf, rfl⟩
      obtain ⟨f1, hf1, hc1⟩ := hstep
      obtain ⟨f', hf', hc'⟩ := ih (DF.step zero conv s op).1 f1 (fun o ho => hc o (by simp [ho])) hf1
      exact ⟨f', by simp only [DF.run, List.foldl_cons] at hf' ⊢; exact hf', by rw [hc', hc1]⟩
  obtain ⟨hcols, _, _, _⟩ := create_schema zero cols f0 h0
  have hs : (DF.step zero conv ({} : FSt V) (.create cols)).1.frame = some f0 := by simp [DF.step, h0]
  obtain ⟨f, hf, hfc⟩ := keep ops _ f0 hc hs
  refine ⟨f, by simp only [DF.run, List.foldl_cons] at hf ⊢; exact hf, by rw [hfc, hcols], ?_⟩
  intro i col hi
  have hu : UniqueNames f.cols := by
    rw [hfc, hcols]
    unfold Frame.create at h0
    split at h0
    · cases h0
    · cases hk : checkCols [] cols with
      | some e => simp [hk] at h0
      | none => exact (checkCols_unique cols [] hk).1
  have hn : f.colName i = .ok col.name := by
    unfold Frame.colName; rw [hfc, hcols, hi]
  exact ⟨hn, (colIndex_colName f hu i col.name hn).2⟩

/-! ### non-vacuity: a concrete history (cells are natural-number tokens) -/

def z : DType → Nat := fun _ => 0
def cv : DType → DType → Nat → Nat := fun _ _ v => v + 1000       -- a visible "conversion"
def demoCols : List Col := [⟨"i", "mV", .int32⟩, ⟨"d", "", .double⟩, ⟨"s", "u s", .string⟩]

/-- create, grow, row / cell / column writes through names and indices, an int64 written into the int32 column
    (converted), refused calls (row past the end, unknown column, column twice, string into a number), shrink and
    grow again, a read-only session -/
def demoOps : List (Op Nat) :=
  [.create demoCols, .writeRow 0 [⟨.int32, 1⟩], .setRows 4,
   .writeRow 0 [⟨.int32, 1⟩, ⟨.double, 2⟩, ⟨.string, 3⟩], .writeCells 1 [(.name "s", ⟨.string, 5⟩), (.idx 0, ⟨.int64, 7⟩)],
   .writeColumn (.name "d") .double [10, 11, 12, 13] 1 3, .writeCells 9 [(.idx 0, ⟨.int32, 1⟩)],
   .writeCells 2 [(.name "nope", ⟨.int32, 1⟩)], .writeCells 2 [(.name "d", ⟨.double, 1⟩), (.idx 1, ⟨.double, 2⟩)],
   .writeCells 2 [(.idx 0, ⟨.string, 1⟩)], .setRows 2, .setRows 3, .reopen false, .writeRow 0 [⟨.int32, 99⟩], .reopen true,
   .writeColumn (.idx 2) .string [21, 22] 1 0]

example : ((run z cv {} demoOps).frame.map fun f =>
      (f.nrows, (List.range 4).map fun r => (List.range 3).map fun c => f.get r c)) =
    some (3, [[1, 2, 3], [1007, 10, 21], [0, 0, 22], [0, 0, 0]]) := by decide +kernel
/-- the exception each call of the history raises -/
def demoErrs : List (Option Err) :=
  (demoOps.foldl (fun (acc : FSt Nat × List (Option Err)) op => ((step z cv acc.1 op).1, acc.2 ++ [(step z cv acc.1 op).2])) ({}, [])).2
example : demoErrs = [none, some .h5Error, none, none, none, none, some .h5Error, some .h5Error, some .h5Error, some .h5Error,
    none, none, none, some .h5Error, none, none] := by decide +kernel
example : ((run z cv {} demoOps).frame.bind fun f => (f.readRow 1).toOption) =
    some [⟨.int32, 1007⟩, ⟨.double, 10⟩, ⟨.string, 21⟩] := by decide +kernel
example : ((run z cv {} demoOps).frame.bind fun f => (f.readCells 1 ["s", "i"]).toOption) =
    some [("s", ⟨.string, 21⟩), ("i", ⟨.int32, 1007⟩)] := by decide +kernel
example : ((run z cv {} demoOps).frame.bind fun f => (f.readColumnRaw cv "d" .double [7, 7, 7] 2 0).toOption) =
    some [2, 10, 7] := by decide +kernel
example : ((run z cv {} demoOps).frame.bind fun f => (f.readRow 3).toOption) = none := by decide +kernel
example : (List.range 3).map (fun c => lastCell z cv demoCols (runH z cv {} [] demoOps).2 1 c) = [1007, 10, 21] := by decide +kernel
example : (expectRow z cv (runH z cv {} [] demoOps).2 2, rowsAfter (runH z cv {} [] demoOps).2) =
    ([⟨.int32, 0⟩, ⟨.double, 0⟩, ⟨.string, 22⟩], 3) := by decide +kernel

end Nix.C15
