import NixModel.Spec.C14
import NixModel.Proofs.PropsLemmas
/-
  C14 — metadata property values.  Property theorems about the model of lean/NixModel/Property.lean, for every
  value token type `V`, every double token type `D`, every fill function `zero` and every history.
-/
set_option linter.unusedSectionVars false
set_option linter.unusedSimpArgs false
set_option linter.unusedVariables false
namespace Nix.C14
open Nix Nix.PV

variable {V D : Type} (zero : DType → V)

/-! ### one property: assignment -/

theorem setExtent_length (p : PropSt V D) (n : Nat) : (p.setExtent zero n).cells.length = n := by
  simp only [PropSt.setExtent, List.length_append, List.length_take, List.length_replicate]; omega

theorem mapM_getAs_uniform (dt : DType) : ∀ (vs : List (Variant V)), (∀ v ∈ vs, v.ty = dt) →
    vs.mapM (Variant.getAs dt) = .ok (vs.map (·.val))
  | [], _ => rfl
  | v :: vs, h => by
    have hv : v.ty = dt := h v (by simp)
    have ih := mapM_getAs_uniform dt vs (fun w hw => h w (by simp [hw]))
    simp [List.mapM_cons, Variant.getAs, hv, ih, bind, Except.bind, pure, Except.pure]

theorem map_retag (dt : DType) : ∀ (vs : List (Variant V)), (∀ v ∈ vs, v.ty = dt) →
    (vs.map (·.val)).map (Variant.mk dt) = vs
  | [], _ => rfl
  | v :: vs, h => by
    have hv : v.ty = dt := h v (by simp)
    have ih := map_retag dt vs (fun w hw => h w (by simp [hw]))
    cases v with
    | mk ty val => simp at hv; subst hv; simp [ih]

theorem assign_cons (p : PropSt V D) (v0 : Variant V) (rest : List (Variant V)) :
    p.assign zero (v0 :: rest) =
      if v0.ty ≠ p.dtype then (p, some .stdInvalidArgument) else
      if (v0 :: rest).any (fun v => v.ty ≠ v0.ty) then (p, some .stdInvalidArgument) else
      if v0.ty.isValueType then (p.setExtent zero (v0 :: rest).length).writeAll v0.ty (v0 :: rest)
      else (p.setExtent zero (v0 :: rest).length, none) := rfl

theorem any_ne_false (dt : DType) (vs : List (Variant V)) (h : ∀ v ∈ vs, v.ty = dt) :
    vs.any (fun v => decide (v.ty ≠ dt)) = false := by
  rw [List.any_eq_false]; intro v hv; simp [h v hv]

theorem any_ne_true (dt : DType) (vs : List (Variant V)) (h : ∃ v ∈ vs, v.ty ≠ dt) :
    vs.any (fun v => decide (v.ty ≠ dt)) = true := by
  obtain ⟨w, hw, hne⟩ := h
  rw [List.any_eq_true]; exact ⟨w, hw, by simp [hne]⟩

/-- the outcome of an assignment whose values all have the property's type -/
theorem assign_uniform (p : PropSt V D) (v0 : Variant V) (rest : List (Variant V)) (h : ∀ v ∈ v0 :: rest, v.ty = p.dtype) :
    p.assign zero (v0 :: rest) =
      if p.dtype.isValueType then ({ p with cells := (v0 :: rest).map (·.val) }, none)
      else (p.setExtent zero (v0 :: rest).length, none) := by
  have h0 : v0.ty = p.dtype := h v0 (by simp)
  rw [assign_cons, h0, if_neg (by simp), any_ne_false p.dtype _ h, if_neg (by simp)]
  by_cases hv : p.dtype.isValueType = true
  · rw [if_pos hv, if_pos hv]
    unfold PropSt.writeAll
    rw [mapM_getAs_uniform p.dtype (v0 :: rest) h]
    rfl
  · rw [if_neg hv, if_neg hv]

/-- a non-empty vector whose values all have the property's (value) type is written as it is -/
theorem assign_welltyped (p : PropSt V D) (vs : List (Variant V)) (hne : vs ≠ []) (h : ∀ v ∈ vs, v.ty = p.dtype)
    (hv : p.dtype.isValueType = true) :
    p.assign zero vs = ({ p with cells := vs.map (·.val) }, none) := by
  cases vs with
  | nil => exact absurd rfl hne
  | cons v0 rest => rw [assign_uniform zero p v0 rest h, if_pos hv]

/-- **mixed_type_rejected** (and no trace): a vector containing a value whose type is not the property's type is
    refused with `std::invalid_argument` and the property is exactly as before — whatever the position of the
    offending value -/
theorem mixed_type_rejected (p : PropSt V D) (vs : List (Variant V)) (h : ∃ v ∈ vs, v.ty ≠ p.dtype) :
    p.assign zero vs = (p, some .stdInvalidArgument) := by
  cases vs with
  | nil => obtain ⟨w, hw, _⟩ := h; simp at hw
  | cons v0 rest =>
    rw [assign_cons]
    by_cases h0 : v0.ty = p.dtype
    · rw [h0, if_neg (by simp), any_ne_true p.dtype _ h, if_pos rfl]
    · rw [if_pos h0]

/-- the verdict of an assignment is decided by the element types alone -/
theorem assign_accepted_iff (p : PropSt V D) (vs : List (Variant V)) :
    (p.assign zero vs).2 = none ↔ ∀ v ∈ vs, v.ty = p.dtype := by
  constructor
  · intro h v hv
    by_cases hx : v.ty = p.dtype
    · exact hx
    · rw [mixed_type_rejected zero p vs ⟨v, hv, hx⟩] at h; simp at h
  · intro hall
    cases vs with
    | nil => simp [PropSt.assign]
    | cons v0 rest =>
      rw [assign_uniform zero p v0 rest hall]
      split <;> rfl

/-- an assignment that raises leaves the property untouched (D11: the type check precedes the resize, and after it
    the per-element conversion cannot fail) -/
theorem rejected_assign_leaves_no_trace (p : PropSt V D) (vs : List (Variant V)) (e : Err)
    (h : (p.assign zero vs).2 = some e) : (p.assign zero vs).1 = p := by
  by_cases hmix : ∃ v ∈ vs, v.ty ≠ p.dtype
  · rw [mixed_type_rejected zero p _ hmix]
  · have hall : ∀ v ∈ vs, v.ty = p.dtype := fun v hv => by
      by_cases hx : v.ty = p.dtype
      · exact hx
      · exact absurd ⟨v, hv, hx⟩ hmix
    rw [(assign_accepted_iff zero p vs).2 hall] at h
    cases h

theorem assign_keeps_attributes (p : PropSt V D) (vs : List (Variant V)) :
    (p.assign zero vs).1.dtype = p.dtype ∧ (p.assign zero vs).1.unit = p.unit ∧
    (p.assign zero vs).1.unc = p.unc ∧ (p.assign zero vs).1.defn = p.defn := by
  cases vs with
  | nil => simp [PropSt.assign, PropSt.deleteValues, PropSt.setExtent]
  | cons v0 rest =>
    unfold PropSt.assign
    by_cases h0 : v0.ty = p.dtype
    · simp only [h0, ne_eq, not_true_eq_false, ↓reduceIte]
      split
      · simp
      · split
        · unfold PropSt.writeAll
          split <;> simp [PropSt.setExtent]
        · simp [PropSt.setExtent]
    · simp [h0]

/-- a property type that can exist (it has a file representation) and is the type of some Variant is a value type -/
theorem valueType_of_variant_file (t : DType) (h1 : t.isVariantType = true) (h2 : t.hasFileType = true) :
    t.isValueType = true := by
  cases t <;> simp_all [DType.isVariantType, DType.hasFileType, DType.isValueType]

/-- **values_roundtrip** — after an accepted assignment `values()` returns exactly the assigned vector (types, order,
    length, any length including 0) and `valueCount()` its length -/
theorem values_roundtrip (p : PropSt V D) (vs : List (Variant V)) (hp : p.dtype.hasFileType = true)
    (hv : ∀ v ∈ vs, v.ty.isVariantType = true) (h : (p.assign zero vs).2 = none) :
    (p.assign zero vs).1.values = vs ∧ (p.assign zero vs).1.valueCount = vs.length := by
  cases vs with
  | nil => simp [PropSt.assign, PropSt.deleteValues, PropSt.setExtent, PropSt.values, PropSt.valueCount]
  | cons v0 rest =>
    have hall := (assign_accepted_iff zero p _).1 h
    have h0 : v0.ty = p.dtype := hall v0 (by simp)
    have hvt : p.dtype.isValueType = true := valueType_of_variant_file _ (h0 ▸ hv v0 (by simp)) hp
    rw [assign_welltyped zero p _ (by simp) hall hvt]
    refine ⟨?_, by simp [PropSt.valueCount]⟩
    have := map_retag p.dtype (v0 :: rest) hall
    simp only [PropSt.values, hvt, List.length_map, List.length_cons]
    simp only [show ¬ (rest.length + 1 < 1) by omega, ↓reduceIte]
    exact this

/-- **replace_changes_count** — a second assignment replaces the first entirely: values and count are those of the
    second vector, whether it is shorter, longer or empty -/
theorem replace_changes_count (p : PropSt V D) (vs1 vs2 : List (Variant V)) (hp : p.dtype.hasFileType = true)
    (hv : ∀ v ∈ vs2, v.ty.isVariantType = true)
    (h2 : (((p.assign zero vs1).1).assign zero vs2).2 = none) :
    (((p.assign zero vs1).1).assign zero vs2).1.values = vs2 ∧
    (((p.assign zero vs1).1).assign zero vs2).1.valueCount = vs2.length :=
  values_roundtrip zero _ vs2 (by rw [(assign_keeps_attributes zero p vs1).1]; exact hp) hv h2

/-- **clear_empty** — `deleteValues()`, `values(none)` and the empty vector leave no value; type and attributes stay -/
theorem clear_empty (p : PropSt V D) :
    (p.deleteValues zero).values = [] ∧ (p.deleteValues zero).valueCount = 0 ∧
    (p.deleteValues zero).dtype = p.dtype ∧ (p.deleteValues zero).unit = p.unit ∧
    (p.deleteValues zero).unc = p.unc ∧ (p.deleteValues zero).defn = p.defn ∧
    p.assign zero [] = (p.deleteValues zero, none) := by
  simp [PropSt.assign, PropSt.deleteValues, PropSt.setExtent, PropSt.values, PropSt.valueCount]

/-! ### one property: unit, uncertainty, definition -/

/-- **unit roundtrip** — the unit read back is the one set, without blanks; an all-blank unit unsets it; values,
    type, uncertainty and definition are untouched -/
theorem unit_roundtrip (p : PropSt V D) (u : String) :
    (p.setUnit u).unit = normUnit (some u) ∧ (p.setUnit u).cells = p.cells ∧ (p.setUnit u).dtype = p.dtype ∧
    (p.setUnit u).unc = p.unc ∧ (p.setUnit u).defn = p.defn := by
  unfold PropSt.setUnit normUnit
  by_cases h : (deblank u).isEmpty = true <;> simp [h]

theorem deblank_idem (u : String) : deblank (deblank u) = deblank u := by
  simp [deblank, List.filter_filter]

/-- writing back the unit that was read changes nothing -/
theorem unit_reread_stable (p : PropSt V D) (u w : String) (h : (p.setUnit u).unit = some w) :
    ((p.setUnit u).setUnit w).unit = some w := by
  have h1 := (unit_roundtrip p u).1
  rw [h] at h1
  unfold normUnit at h1
  by_cases he : (deblank u).isEmpty = true
  · simp [he] at h1
  · simp [he] at h1
    rw [(unit_roundtrip (p.setUnit u) w).1]
    subst h1
    simp [normUnit, deblank_idem, he]

/-- **definition roundtrip** — a non-empty definition is stored as it is; the empty string is refused without trace -/
theorem definition_roundtrip (p : PropSt V D) (s : String) :
    (s.isEmpty = false → p.setDefinition s = ({ p with defn := some s }, none)) ∧
    (s.isEmpty = true → p.setDefinition s = (p, some .emptyString)) := by
  unfold PropSt.setDefinition
  constructor <;> intro h <;> simp [h]

/-! ### the section: creation, frame, rejected calls -/

theorem newDataset_err (s : SecSt V D) (name : String) (dt : DType) (n : Nat) (e : Err)
    (h : (s.newDataset zero name dt n).2 = some e) :
    (s.newDataset zero name dt n).1.props = s.props ∧ (s.newDataset zero name dt n).1.writable = s.writable := by
  unfold SecSt.newDataset at h ⊢
  cases hw : s.writable <;> cases hg : s.grp <;> cases hf : dt.hasFileType <;> simp_all

theorem newDataset_ok (s : SecSt V D) (name : String) (dt : DType) (n : Nat)
    (h : (s.newDataset zero name dt n).2 = none) :
    s.writable = true ∧ dt.hasFileType = true ∧ (s.newDataset zero name dt n).1.writable = true ∧
    (s.newDataset zero name dt n).1.props = s.props ++ [(name, { dtype := dt, cells := List.replicate n (zero dt) })] := by
  unfold SecSt.newDataset at h ⊢
  cases hw : s.writable <;> cases hg : s.grp <;> cases hf : dt.hasFileType <;> simp_all

theorem find_newDataset_ok (s : SecSt V D) (name : String) (dt : DType) (n : Nat)
    (h : (s.newDataset zero name dt n).2 = none) (hnew : s.find name = none) (m : String) :
    (s.newDataset zero name dt n).1.find m =
      if m = name then some { dtype := dt, cells := List.replicate n (zero dt) } else s.find m := by
  obtain ⟨_, _, _, hp⟩ := newDataset_ok zero s name dt n h
  unfold SecSt.find at hnew ⊢
  rw [hp, lookup_append_single]
  by_cases hm : m = name
  · subst hm; rw [hnew]
  · cases s.props.lookup m <;> simp [hm]

/-- the name an op is addressed to -/
def _root_.Nix.PV.Op.target : Op V D → Option String
  | .createDtype n _ | .createValues n _ | .createValue n _ | .assign n _ | .clear n | .setUnit n _ | .setUnc n _
  | .setDef n _ | .delete n => some n
  | .reopen _ => none

/-- what a freshly created property is assigned: never refused once the vector is uniformly typed -/
theorem assign_new_accepted (dt : DType) (cells : List V) (vs : List (Variant V)) (h : ∀ v ∈ vs, v.ty = dt) :
    (({ dtype := dt, cells := cells } : PropSt V D).assign zero vs).2 = none :=
  (assign_accepted_iff zero _ vs).2 h

theorem all_of_not_any (v0 : Variant V) (vs : List (Variant V)) (h : ¬ (vs.any (fun v => decide (v.ty ≠ v0.ty)) = true)) :
    ∀ v ∈ vs, v.ty = v0.ty := by
  intro v hv
  by_cases hx : v.ty = v0.ty
  · exact hx
  · exact absurd (any_ne_true v0.ty vs ⟨v, hv, hx⟩) h

/-- **a rejected call leaves no trace** — whatever the call (creation with a bad or duplicate name, with an empty or
    mixed-type vector, with a type that has no file representation; assignment of another type; empty definition;
    any mutator on a read-only file; any call through an empty handle), if it raises, every property of the section is
    exactly as before and no property has appeared or disappeared -/
theorem rejected_call_leaves_no_trace (s : SecSt V D) (op : Op V D) (e : Err) (h : (step zero s op).2 = some e) :
    (step zero s op).1.writable = s.writable ∧ ∀ n, (step zero s op).1.find n = s.find n := by
  -- ops that run a mutator on one property: the mutator returns its argument when it raises
  have onp : ∀ (name : String) (f : PropSt V D → PropSt V D × Option Err),
      (∀ p, (f p).2 ≠ none → (f p).1 = p) → (s.onProp name f).2 = some e →
      (s.onProp name f).1.writable = s.writable ∧ ∀ n, (s.onProp name f).1.find n = s.find n := by
    intro name f hf he
    refine ⟨onProp_writable s name f, fun n => ?_⟩
    rw [onProp_find]
    by_cases hn : n = name
    · subst hn
      rw [if_pos rfl]
      cases hp : s.find n with
      | none => rfl
      | some p =>
        rw [onProp_err, hp] at he
        simp only [] at he
        simp only [Option.map_some]
        rw [hf p (by rw [he]; simp)]
    · rw [if_neg hn]
  -- creation: the data set is made, then the values are assigned (cannot fail)
  have mk : ∀ (name : String) (dt : DType) (k : Nat) (vs : List (Variant V)), (∀ v ∈ vs, v.ty = dt) → s.find name = none →
      (s.createWith zero name dt k vs).2 = some e →
      (s.createWith zero name dt k vs).1.writable = s.writable ∧ ∀ n, (s.createWith zero name dt k vs).1.find n = s.find n := by
    intro name dt k vs hu hnew he
    unfold SecSt.createWith at he ⊢
    cases hnd : s.newDataset zero name dt k with
    | mk s1 r =>
      cases r with
      | some e1 =>
        have := newDataset_err zero s name dt k e1 (by rw [hnd])
        rw [hnd] at this
        simp only [] at he ⊢
        exact ⟨this.2, fun n => by unfold SecSt.find; rw [this.1]⟩
      | none =>
        exfalso
        rw [hnd] at he
        simp only [] at he
        have hf := find_newDataset_ok zero s name dt k (by rw [hnd]) hnew name
        rw [hnd, if_pos rfl] at hf
        simp only [] at hf
        rw [onProp_err, hf] at he
        simp only [] at he
        rw [assign_new_accepted zero dt _ vs hu] at he
        cases he
  have guard_none : ∀ name, s.createGuard name = none → s.find name = none := by
    intro name hg
    unfold SecSt.createGuard at hg
    cases hc : checkName name with
    | some e1 => simp [hc] at hg
    | none =>
      cases hf : s.find name with
      | none => rfl
      | some p => simp [hc, hf] at hg
  cases op with
  | createDtype name dt =>
    simp only [step] at h ⊢
    cases hg : s.createGuard name with
    | some e1 => simp
    | none =>
      simp only [hg] at h ⊢
      have := newDataset_err zero s name dt _ e h
      exact ⟨this.2, fun n => by unfold SecSt.find; rw [this.1]⟩
  | createValues name vs =>
    cases vs with
    | nil => simp [step]
    | cons v0 rest =>
      simp only [step] at h ⊢
      cases hg : s.createGuard name with
      | some e1 => simp
      | none =>
        simp only [hg] at h ⊢
        by_cases hm : (v0 :: rest).any (fun v => decide (v.ty ≠ v0.ty)) = true
        · rw [if_pos hm]; exact ⟨rfl, fun _ => rfl⟩
        · simp only [hm, Bool.false_eq_true, ↓reduceIte] at h ⊢
          exact mk name v0.ty _ (v0 :: rest) (all_of_not_any v0 _ hm) (guard_none name hg) h
  | createValue name v =>
    simp only [step] at h ⊢
    cases hg : s.createGuard name with
    | some e1 => simp
    | none =>
      simp only [hg] at h ⊢
      exact mk name v.ty _ [v] (by simp) (guard_none name hg) h
  | assign name vs =>
    simp only [step] at h ⊢
    refine onp name _ (fun p hne => ?_) h
    by_cases hw : s.writable = true
    · simp only [hw, ↓reduceIte] at hne ⊢
      cases hr : (p.assign zero vs).2 with
      | none => exact absurd hr hne
      | some e1 => exact rejected_assign_leaves_no_trace zero p vs e1 hr
    · simp only [hw, Bool.false_eq_true, ↓reduceIte]
      cases vs with
      | nil => rfl
      | cons v0 rest =>
        simp only []
        split
        · rfl
        · split <;> rfl
  | clear name =>
    simp only [step] at h ⊢
    refine onp name _ (fun p hne => ?_) h
    by_cases hw : s.writable = true
    · simp [hw] at hne
    · simp [hw]
  | setUnit name u =>
    simp only [step] at h ⊢
    refine onp name _ (fun p hne => ?_) h
    by_cases hw : s.writable = true
    · cases u <;> simp [hw] at hne
    · simp [hw]
  | setUnc name d =>
    simp only [step] at h ⊢
    refine onp name _ (fun p hne => ?_) h
    by_cases hw : s.writable = true
    · simp [hw] at hne
    · simp [hw]
  | setDef name d =>
    simp only [step] at h ⊢
    refine onp name _ (fun p hne => ?_) h
    cases d with
    | none =>
      by_cases hw : s.writable = true
      · simp [hw] at hne
      · simp [hw]
    | some t =>
      by_cases ht : t.isEmpty = true
      · simp [ht]
      · by_cases hw : s.writable = true
        · simp [ht, hw, PropSt.setDefinition] at hne
        · simp [ht, hw]
  | delete name =>
    simp only [step] at h ⊢
    cases hf : s.find name with
    | none => simp [hf] at h
    | some p =>
      simp only [hf] at h ⊢
      by_cases hw : s.writable = true
      · simp [hw] at h
      · simp [hw]
  | reopen w => simp [step] at h

theorem createGuard_none (s : SecSt V D) (name : String) (hg : s.createGuard name = none) : s.find name = none := by
  unfold SecSt.createGuard at hg
  cases hc : checkName name with
  | some e1 => simp [hc] at hg
  | none =>
    cases hf : s.find name with
    | none => rfl
    | some p => simp [hc, hf] at hg

/-- an accepted creation from values: the section gains exactly the new property, holding the result of the assignment -/
theorem createWith_ok (s : SecSt V D) (name : String) (dt : DType) (k : Nat) (vs : List (Variant V))
    (hnew : s.find name = none) (h : (s.createWith zero name dt k vs).2 = none) :
    s.writable = true ∧ dt.hasFileType = true ∧ (s.createWith zero name dt k vs).1.writable = true ∧
    ∀ m, (s.createWith zero name dt k vs).1.find m =
      if m = name then some (({ dtype := dt, cells := List.replicate k (zero dt) } : PropSt V D).assign zero vs).1
      else s.find m := by
  unfold SecSt.createWith at h ⊢
  cases hnd : s.newDataset zero name dt k with
  | mk s1 r =>
    cases r with
    | some e1 => rw [hnd] at h; simp at h
    | none =>
      have hok := newDataset_ok zero s name dt k (by rw [hnd])
      have hf := find_newDataset_ok zero s name dt k (by rw [hnd]) hnew
      rw [hnd] at hok hf
      simp only [] at hok hf ⊢
      refine ⟨hok.1, hok.2.1, by rw [onProp_writable]; exact hok.2.2.1, fun m => ?_⟩
      rw [onProp_find, hf name, if_pos rfl, hf m]
      by_cases hm : m = name
      · simp [hm]
      · simp [hm]

/-- **frame** — a call addressed to one property (or a reopen) leaves every other property exactly as it was -/
theorem step_frame (s : SecSt V D) (op : Op V D) (n : String) (hn : op.target ≠ some n) :
    (step zero s op).1.find n = s.find n := by
  cases hr : (step zero s op).2 with
  | some e => exact (rejected_call_leaves_no_trace zero s op e hr).2 n
  | none =>
    cases op with
    | createDtype name dt =>
      have hne : n ≠ name := fun h => hn (by simp [Op.target, h])
      simp only [step] at hr ⊢
      cases hg : s.createGuard name with
      | some e1 => rfl
      | none =>
        simp only [hg] at hr ⊢
        rw [find_newDataset_ok zero s name dt _ hr (createGuard_none s name hg), if_neg hne]
    | createValues name vs =>
      have hne : n ≠ name := fun h => hn (by simp [Op.target, h])
      cases vs with
      | nil => rfl
      | cons v0 rest =>
        simp only [step] at hr ⊢
        cases hg : s.createGuard name with
        | some e1 => rfl
        | none =>
          simp only [hg] at hr ⊢
          by_cases hm : (v0 :: rest).any (fun v => decide (v.ty ≠ v0.ty)) = true
          · rw [if_pos hm]
          · rw [if_neg hm] at hr ⊢
            rw [(createWith_ok zero s name _ _ _ (createGuard_none s name hg) hr).2.2.2 n, if_neg hne]
    | createValue name v =>
      have hne : n ≠ name := fun h => hn (by simp [Op.target, h])
      simp only [step] at hr ⊢
      cases hg : s.createGuard name with
      | some e1 => rfl
      | none =>
        simp only [hg] at hr ⊢
        rw [(createWith_ok zero s name _ _ _ (createGuard_none s name hg) hr).2.2.2 n, if_neg hne]
    | assign name vs =>
      have hne : n ≠ name := fun h => hn (by simp [Op.target, h])
      simp only [step]; rw [onProp_find, if_neg hne]
    | clear name =>
      have hne : n ≠ name := fun h => hn (by simp [Op.target, h])
      simp only [step]; rw [onProp_find, if_neg hne]
    | setUnit name u =>
      have hne : n ≠ name := fun h => hn (by simp [Op.target, h])
      simp only [step]; rw [onProp_find, if_neg hne]
    | setUnc name d =>
      have hne : n ≠ name := fun h => hn (by simp [Op.target, h])
      simp only [step]; rw [onProp_find, if_neg hne]
    | setDef name d =>
      have hne : n ≠ name := fun h => hn (by simp [Op.target, h])
      simp only [step]; rw [onProp_find, if_neg hne]
    | delete name =>
      have hne : n ≠ name := fun h => hn (by simp [Op.target, h])
      simp only [step]
      cases hf : s.find name with
      | none => rfl
      | some p =>
        simp only []
        by_cases hw : s.writable = true
        · simp only [hw, Bool.not_true, Bool.false_eq_true, ↓reduceIte]
          unfold SecSt.find
          rw [lookup_filter_ne, if_neg hne]
        · simp [hw]
    | reopen w => rfl

/-- **reopen_preserves** — closing and reopening the file (in either mode) changes no property: values, type, unit,
    uncertainty and definition are what they were (the model keeps nothing outside the file; that HDF5 persists the
    file is established by the correspondence run) -/
theorem reopen_preserves (s : SecSt V D) (w : Bool) :
    (step zero s (.reopen w)).2 = none ∧ (step zero s (.reopen w)).1.props = s.props ∧
    (step zero s (.reopen w)).1.writable = w := ⟨rfl, rfl, rfl⟩

/-! ### histories: what a property reports is what was last assigned to it -/

/-- the event an accepted call is recorded as (exactly what the driver records for the implementation) -/
def evOf (s : SecSt V D) : Op V D → Option (Ev V D)
  | .createDtype name dt => some (.created name dt none)
  | .createValues name vs => some (.created name ((vs.head?.map (·.ty)).getD .nothing) (some vs))
  | .createValue name v => some (.created name v.ty (some [v]))
  | .assign name vs => some (.assigned name vs)
  | .clear name => some (.cleared name)
  | .setUnit name u => some (.unit name u)
  | .setUnc name d => some (.unc name d)
  | .setDef name d => some (.defn name d)
  | .delete name => if (s.find name).isSome then some (.deleted name) else none
  | .reopen w => some (.reopened w)

/-- the history after one more call: accepted calls are recorded, rejected ones are not -/
def record (s : SecSt V D) (op : Op V D) (h : List (Ev V D)) : List (Ev V D) :=
  match (step zero s op).2, evOf s op with
  | none, some e => e :: h
  | _, _ => h

/-- run a list of calls, keeping the history of accepted ones (most recent first) -/
def runH : SecSt V D → List (Ev V D) → List (Op V D) → SecSt V D × List (Ev V D)
  | s, h, [] => (s, h)
  | s, h, op :: ops => runH (step zero s op).1 (record zero s op h) ops

/-- the values offered by a call are Variants (one of the seven types, or Nothing) -/
def WFOp : Op V D → Prop
  | .createValues _ vs => ∀ v ∈ vs, v.ty.isVariantType = true
  | .createValue _ v => v.ty.isVariantType = true
  | .assign _ vs => ∀ v ∈ vs, v.ty.isVariantType = true
  | _ => True

def ValOK (p : PropSt V D) : Known (List (Variant V)) → Prop
  | .is vs => p.values = vs ∧ p.valueCount = vs.length
  | .unspecified => True
  | .absent => False

/-- a property of the model agrees with the history -/
structure AgreeP (name : String) (h : List (Ev V D)) (p : PropSt V D) : Prop where
  ty : typeOf name h = some p.dtype
  file : p.dtype.hasFileType = true
  vals : ValOK p (lastValues name h)
  unit : lastUnit name h = .is p.unit
  unc : lastUnc name h = .is p.unc
  defn : lastDef name h = .is p.defn

def AgreeAt (name : String) (h : List (Ev V D)) : Option (PropSt V D) → Prop
  | none => typeOf name h = none
  | some p => AgreeP name h p

def Agree (s : SecSt V D) (h : List (Ev V D)) : Prop :=
  (∀ name, AgreeAt name h (s.find name)) ∧ writableAfter h = s.writable

/-- the property an event is about -/
def Ev.target : Ev V D → Option String
  | .created n _ _ | .assigned n _ | .cleared n | .unit n _ | .unc n _ | .defn n _ | .deleted n => some n
  | .reopened _ => none

/-- events about other properties (and reopens) are invisible to the history rules of `name` -/
theorem spec_skip (name : String) (ev : Ev V D) (h : List (Ev V D)) (hne : Ev.target ev ≠ some name) :
    typeOf name (ev :: h) = typeOf name h ∧ lastValues name (ev :: h) = lastValues name h ∧
    lastUnit name (ev :: h) = lastUnit name h ∧ lastUnc name (ev :: h) = lastUnc name h ∧
    lastDef name (ev :: h) = lastDef name h := by
  cases ev <;> simp [Ev.target] at hne <;> simp [typeOf, lastValues, lastUnit, lastUnc, lastDef, hne]

theorem agreeAt_skip (name : String) (ev : Ev V D) (h : List (Ev V D)) (hne : Ev.target ev ≠ some name)
    (o : Option (PropSt V D)) (ha : AgreeAt name h o) : AgreeAt name (ev :: h) o := by
  obtain ⟨h1, h2, h3, h4, h5⟩ := spec_skip name ev h hne
  cases o with
  | none => simp only [AgreeAt] at ha ⊢; rw [h1]; exact ha
  | some p =>
    simp only [AgreeAt] at ha ⊢
    exact ⟨by rw [h1]; exact ha.ty, ha.file, by rw [h2]; exact ha.vals, by rw [h3]; exact ha.unit,
           by rw [h4]; exact ha.unc, by rw [h5]; exact ha.defn⟩

theorem valOK_congr (p q : PropSt V D) (hc : q.cells = p.cells) (hd : q.dtype = p.dtype) (k : Known (List (Variant V)))
    (h : ValOK p k) : ValOK q k := by
  have hv : q.values = p.values := by simp [PropSt.values, hc, hd]
  have hn : q.valueCount = p.valueCount := by simp [PropSt.valueCount, hc]
  cases k with
  | is vs => simp only [ValOK] at h ⊢; rw [hv, hn]; exact h
  | unspecified => trivial
  | absent => exact h

theorem writableAfter_skip (ev : Ev V D) (h : List (Ev V D)) (hne : ∀ w, ev ≠ .reopened w) :
    writableAfter (ev :: h) = writableAfter h := by
  cases ev <;> simp [writableAfter] <;> exact absurd rfl (hne _)

theorem onProp_accepted (s : SecSt V D) (name : String) (f : PropSt V D → PropSt V D × Option Err)
    (h : (s.onProp name f).2 = none) : ∃ p, s.find name = some p ∧ (f p).2 = none ∧ (s.onProp name f).1.find name = some (f p).1 := by
  rw [onProp_err] at h
  cases hf : s.find name with
  | none => rw [hf] at h; cases h
  | some p =>
    rw [hf] at h
    exact ⟨p, rfl, h, by rw [onProp_find, if_pos rfl, hf]; rfl⟩

/-- an accepted call about `name`: every other property and the write mode are as before -/
theorem agree_of_target (s s' : SecSt V D) (h : List (Ev V D)) (ev : Ev V D) (name : String)
    (htar : Ev.target ev = some name) (hfr : ∀ n, n ≠ name → s'.find n = s.find n) (hw : s'.writable = s.writable)
    (hself : AgreeAt name (ev :: h) (s'.find name)) (ha : Agree s h) : Agree s' (ev :: h) := by
  refine ⟨fun n => ?_, ?_⟩
  · by_cases hn : n = name
    · subst hn; exact hself
    · rw [hfr n hn]
      exact agreeAt_skip n ev h (by rw [htar]; simpa using fun h => hn h.symm) _ (ha.1 n)
  · rw [writableAfter_skip ev h (by intro w hx; rw [hx] at htar; simp [Ev.target] at htar), ha.2, hw]

/-- one step keeps the model and the history of accepted calls in agreement -/
theorem step_agree (s : SecSt V D) (h : List (Ev V D)) (op : Op V D) (hwf : WFOp op) (ha : Agree s h) :
    Agree (step zero s op).1 (record zero s op h) := by
  cases hr : (step zero s op).2 with
  | some e =>
    have := rejected_call_leaves_no_trace zero s op e hr
    have hrec : record zero s op h = h := by simp [record, hr]
    rw [hrec]
    exact ⟨fun n => by rw [this.2 n]; exact ha.1 n, by rw [this.1]; exact ha.2⟩
  | none =>
    cases op with
    | createDtype name dt =>
      have hrec : record zero s (.createDtype name dt) h = .created name dt none :: h := by simp [record, hr, evOf]
      rw [hrec]
      refine agree_of_target s _ h _ name rfl (fun n hn => step_frame zero s _ n (by simp [Op.target]; exact fun h => hn h.symm)) ?_ ?_ ha
      · simp only [step] at hr ⊢
        cases hg : s.createGuard name with
        | some e1 => simp [hg] at hr
        | none =>
          simp only [hg] at hr ⊢
          have := newDataset_ok zero s name dt _ hr
          rw [this.2.2.1, this.1]
      · simp only [step] at hr ⊢
        cases hg : s.createGuard name with
        | some e1 => simp [hg] at hr
        | none =>
          simp only [hg] at hr ⊢
          have hok := newDataset_ok zero s name dt _ hr
          rw [find_newDataset_ok zero s name dt _ hr (createGuard_none s name hg) name, if_pos rfl]
          exact ⟨by simp [typeOf], hok.2.1, by simp [lastValues, ValOK], by simp [lastUnit], by simp [lastUnc], by simp [lastDef]⟩
    | createValues name vs =>
      cases vs with
      | nil => simp [step] at hr
      | cons v0 rest =>
        have hrec : record zero s (.createValues name (v0 :: rest)) h = .created name v0.ty (some (v0 :: rest)) :: h := by
          simp [record, hr, evOf]
        rw [hrec]
        simp only [step] at hr
        cases hg : s.createGuard name with
        | some e1 => simp [hg] at hr
        | none =>
          simp only [hg] at hr
          by_cases hm : (v0 :: rest).any (fun v => decide (v.ty ≠ v0.ty)) = true
          · rw [if_pos hm] at hr; cases hr
          · rw [if_neg hm] at hr
            have hu := all_of_not_any v0 _ hm
            have hok := createWith_ok zero s name v0.ty _ (v0 :: rest) (createGuard_none s name hg) hr
            have hst : step zero s (.createValues name (v0 :: rest)) = s.createWith zero name v0.ty (v0 :: rest).length (v0 :: rest) := by
              simp only [step, hg]; rw [if_neg hm]
            rw [hst]
            refine agree_of_target s _ h _ name rfl (fun n hn => by rw [hok.2.2.2 n, if_neg hn]) (by rw [hok.2.2.1, hok.1]) ?_ ha
            rw [hok.2.2.2 name, if_pos rfl]
            let p0 : PropSt V D := { dtype := v0.ty, cells := List.replicate (v0 :: rest).length (zero v0.ty) }
            have hacc : (p0.assign zero (v0 :: rest)).2 = none := assign_new_accepted zero v0.ty _ _ hu
            have hrt := values_roundtrip zero p0 (v0 :: rest) hok.2.1 hwf hacc
            have hk := assign_keeps_attributes zero p0 (v0 :: rest)
            exact ⟨by simp [typeOf]; exact hk.1.symm, by rw [hk.1]; exact hok.2.1, by simp [lastValues, ValOK]; exact hrt,
                   by simp [lastUnit]; exact hk.2.1.symm, by simp [lastUnc]; exact hk.2.2.1.symm, by simp [lastDef]; exact hk.2.2.2.symm⟩
    | createValue name v =>
      have hrec : record zero s (.createValue name v) h = .created name v.ty (some [v]) :: h := by simp [record, hr, evOf]
      rw [hrec]
      simp only [step] at hr
      cases hg : s.createGuard name with
      | some e1 => simp [hg] at hr
      | none =>
        simp only [hg] at hr
        have hok := createWith_ok zero s name v.ty _ [v] (createGuard_none s name hg) hr
        have hst : step zero s (.createValue name v) = s.createWith zero name v.ty Nix.Gen.defaultPropertySize [v] := by
          simp only [step, hg]
        rw [hst]
        refine agree_of_target s _ h _ name rfl (fun n hn => by rw [hok.2.2.2 n, if_neg hn]) (by rw [hok.2.2.1, hok.1]) ?_ ha
        rw [hok.2.2.2 name, if_pos rfl]
        let p0 : PropSt V D := { dtype := v.ty, cells := List.replicate Nix.Gen.defaultPropertySize (zero v.ty) }
        have hacc : (p0.assign zero [v]).2 = none := assign_new_accepted zero v.ty _ _ (by simp)
        have hrt := values_roundtrip zero p0 [v] hok.2.1 (fun w hw => by simp at hw; subst hw; exact hwf) hacc
        have hk := assign_keeps_attributes zero p0 [v]
        exact ⟨by simp [typeOf]; exact hk.1.symm, by rw [hk.1]; exact hok.2.1, by simp [lastValues, ValOK]; exact hrt,
               by simp [lastUnit]; exact hk.2.1.symm, by simp [lastUnc]; exact hk.2.2.1.symm, by simp [lastDef]; exact hk.2.2.2.symm⟩
    | assign name vs =>
      have hrec : record zero s (.assign name vs) h = .assigned name vs :: h := by simp [record, hr, evOf]
      rw [hrec]
      simp only [step] at hr ⊢
      obtain ⟨p, hp, hacc, hnew⟩ := onProp_accepted s name _ hr
      refine agree_of_target s _ h _ name rfl (fun n hn => by rw [onProp_find, if_neg hn]) (onProp_writable s name _) ?_ ha
      rw [hnew]
      have hap : AgreeP name h p := by have := ha.1 name; rw [hp] at this; exact this
      have hw : s.writable = true := by
        cases hw : s.writable with
        | true => rfl
        | false =>
          exfalso
          simp only [hw, Bool.false_eq_true, ↓reduceIte] at hacc
          cases vs with
          | nil => simp at hacc
          | cons v0 rest =>
            simp only [] at hacc
            split at hacc
            · simp at hacc
            · split at hacc <;> simp at hacc
      simp only [hw, ↓reduceIte] at hacc ⊢
      have hrt := values_roundtrip zero p vs hap.file hwf hacc
      have hk := assign_keeps_attributes zero p vs
      exact ⟨by simp [typeOf]; rw [hk.1]; exact hap.ty, by rw [hk.1]; exact hap.file, by simp [lastValues, ValOK]; exact hrt,
             by simp [lastUnit]; rw [hk.2.1]; exact hap.unit, by simp [lastUnc]; rw [hk.2.2.1]; exact hap.unc,
             by simp [lastDef]; rw [hk.2.2.2]; exact hap.defn⟩
    | clear name =>
      have hrec : record zero s (.clear name) h = .cleared name :: h := by simp [record, hr, evOf]
      rw [hrec]
      simp only [step] at hr ⊢
      obtain ⟨p, hp, hacc, hnew⟩ := onProp_accepted s name _ hr
      refine agree_of_target s _ h _ name rfl (fun n hn => by rw [onProp_find, if_neg hn]) (onProp_writable s name _) ?_ ha
      rw [hnew]
      have hap : AgreeP name h p := by have := ha.1 name; rw [hp] at this; exact this
      have hw : s.writable = true := by
        cases hw : s.writable with
        | true => rfl
        | false => simp [hw] at hacc
      simp only [hw, ↓reduceIte]
      have hc := clear_empty zero p
      exact ⟨by simp [typeOf]; rw [hc.2.2.1]; exact hap.ty, by rw [hc.2.2.1]; exact hap.file,
             by simp [lastValues, ValOK]; exact ⟨hc.1, hc.2.1⟩,
             by simp [lastUnit]; rw [hc.2.2.2.1]; exact hap.unit, by simp [lastUnc]; rw [hc.2.2.2.2.1]; exact hap.unc,
             by simp [lastDef]; rw [hc.2.2.2.2.2.1]; exact hap.defn⟩
    | setUnit name u =>
      have hrec : record zero s (.setUnit name u) h = .unit name u :: h := by simp [record, hr, evOf]
      rw [hrec]
      simp only [step] at hr ⊢
      obtain ⟨p, hp, hacc, hnew⟩ := onProp_accepted s name _ hr
      refine agree_of_target s _ h _ name rfl (fun n hn => by rw [onProp_find, if_neg hn]) (onProp_writable s name _) ?_ ha
      rw [hnew]
      have hap : AgreeP name h p := by have := ha.1 name; rw [hp] at this; exact this
      have hw : s.writable = true := by
        cases hw : s.writable with
        | true => rfl
        | false => simp [hw] at hacc
      simp only [hw, Bool.not_true, Bool.false_eq_true, ↓reduceIte]
      cases u with
      | none =>
        exact ⟨by simp [typeOf]; exact hap.ty, hap.file, by simp [lastValues]; exact valOK_congr p _ rfl rfl _ hap.vals,
               by simp [lastUnit, normUnit], by simp [lastUnc]; exact hap.unc, by simp [lastDef]; exact hap.defn⟩
      | some u =>
        have hu := unit_roundtrip p u
        exact ⟨by simp [typeOf]; rw [hu.2.2.1]; exact hap.ty, by rw [hu.2.2.1]; exact hap.file,
               by simp [lastValues]; exact valOK_congr p _ hu.2.1 hu.2.2.1 _ hap.vals,
               by simp [lastUnit]; exact hu.1.symm, by simp [lastUnc]; rw [hu.2.2.2.1]; exact hap.unc,
               by simp [lastDef]; rw [hu.2.2.2.2]; exact hap.defn⟩
    | setUnc name d =>
      have hrec : record zero s (.setUnc name d) h = .unc name d :: h := by simp [record, hr, evOf]
      rw [hrec]
      simp only [step] at hr ⊢
      obtain ⟨p, hp, hacc, hnew⟩ := onProp_accepted s name _ hr
      refine agree_of_target s _ h _ name rfl (fun n hn => by rw [onProp_find, if_neg hn]) (onProp_writable s name _) ?_ ha
      rw [hnew]
      have hap : AgreeP name h p := by have := ha.1 name; rw [hp] at this; exact this
      have hw : s.writable = true := by
        cases hw : s.writable with
        | true => rfl
        | false => simp [hw] at hacc
      simp only [hw, Bool.not_true, Bool.false_eq_true, ↓reduceIte]
      exact ⟨by simp [typeOf]; exact hap.ty, hap.file, by simp [lastValues]; exact valOK_congr p _ rfl rfl _ hap.vals,
             by simp [lastUnit]; exact hap.unit, by simp [lastUnc], by simp [lastDef]; exact hap.defn⟩
    | setDef name d =>
      have hrec : record zero s (.setDef name d) h = .defn name d :: h := by simp [record, hr, evOf]
      rw [hrec]
      simp only [step] at hr ⊢
      obtain ⟨p, hp, hacc, hnew⟩ := onProp_accepted s name _ hr
      refine agree_of_target s _ h _ name rfl (fun n hn => by rw [onProp_find, if_neg hn]) (onProp_writable s name _) ?_ ha
      rw [hnew]
      have hap : AgreeP name h p := by have := ha.1 name; rw [hp] at this; exact this
      cases d with
      | none =>
        have hw : s.writable = true := by
          cases hw : s.writable with
          | true => rfl
          | false => simp [hw] at hacc
        simp only [hw, Bool.not_true, Bool.false_eq_true, ↓reduceIte]
        exact ⟨by simp [typeOf]; exact hap.ty, hap.file, by simp [lastValues]; exact valOK_congr p _ rfl rfl _ hap.vals,
               by simp [lastUnit]; exact hap.unit, by simp [lastUnc]; exact hap.unc, by simp [lastDef]⟩
      | some t =>
        simp only [] at hacc ⊢
        by_cases ht : t.isEmpty = true
        · simp [ht] at hacc
        · have hw : s.writable = true := by
            cases hw : s.writable with
            | true => rfl
            | false => simp [ht, hw] at hacc
          simp only [ht, hw, Bool.not_true, Bool.false_eq_true, ↓reduceIte, PropSt.setDefinition]
          exact ⟨by simp [typeOf]; exact hap.ty, hap.file, by simp [lastValues]; exact valOK_congr p _ rfl rfl _ hap.vals,
                 by simp [lastUnit]; exact hap.unit, by simp [lastUnc]; exact hap.unc, by simp [lastDef]⟩
    | delete name =>
      simp only [step] at hr ⊢
      cases hf : s.find name with
      | none =>
        have hrec : record zero s (.delete name) h = h := by simp [record, evOf, hf]
        rw [hrec]; simp only []; exact ha
      | some p =>
        have hw : s.writable = true := by
          cases hw : s.writable with
          | true => rfl
          | false => simp [hf, hw] at hr
        have hrec : record zero s (.delete name) h = .deleted name :: h := by simp [record, evOf, hf, step, hw]
        rw [hrec]
        simp only [hw, Bool.not_true, Bool.false_eq_true, ↓reduceIte]
        refine agree_of_target s _ h _ name rfl (fun n hn => by unfold SecSt.find; rw [lookup_filter_ne, if_neg hn]) (by simp [hw]) ?_ ha
        have : ∀ w g, SecSt.find ({ props := s.props.filter fun np => np.1 != name, writable := w, grp := g } : SecSt V D) name = none := by
          intro w g; unfold SecSt.find; rw [lookup_filter_ne, if_pos rfl]
        rw [this]
        simp [AgreeAt, typeOf]
    | reopen w =>
      have hrec : record zero s (.reopen w) h = .reopened w :: h := by simp [record, evOf, step]
      rw [hrec]
      refine ⟨fun n => agreeAt_skip n _ h (by simp [Ev.target]) _ (ha.1 n), by simp [writableAfter, step]⟩

theorem agree_empty : Agree ({} : SecSt V D) ([] : List (Ev V D)) :=
  ⟨fun _ => by simp [SecSt.find, AgreeAt, typeOf], rfl⟩

/-- induction over the history: model and record of accepted calls stay in agreement -/
theorem history_agree : ∀ (ops : List (Op V D)) (s : SecSt V D) (h : List (Ev V D)), Agree s h → (∀ op ∈ ops, WFOp op) →
    Agree (runH zero s h ops).1 (runH zero s h ops).2
  | [], _, _, ha, _ => ha
  | op :: ops, s, h, ha, hwf =>
    history_agree ops _ _ (step_agree zero s h op (hwf op (by simp)) ha) (fun o ho => hwf o (by simp [ho]))

theorem runH_state : ∀ (ops : List (Op V D)) (s : SecSt V D) (h : List (Ev V D)), (runH zero s h ops).1 = run zero s ops
  | [], _, _ => rfl
  | op :: ops, s, h => by simp only [runH, run, List.foldl_cons]; exact runH_state ops _ _

/-- what `pv_get` observes of a property of the model -/
def obsOf (p : PropSt V D) : Obs V D :=
  { dtype := p.dtype, count := p.valueCount, values := p.values, unit := p.unit, unc := p.unc, defn := p.defn }

theorem values_length (p : PropSt V D) (h : p.dtype.isValueType = true) : p.values.length = p.valueCount := by
  unfold PropSt.values PropSt.valueCount
  by_cases hl : p.cells.length < 1
  · simp only [hl, ↓reduceIte, List.length_nil]; omega
  · simp [hl, h]

theorem values_typed (p : PropSt V D) : ∀ v ∈ p.values, v.ty = p.dtype := by
  intro v hv
  unfold PropSt.values at hv
  split at hv
  · simp at hv
  · split at hv
    · simp at hv; obtain ⟨a, _, rfl⟩ := hv; rfl
    · simp at hv

section
variable [DecidableEq V] [DecidableEq D]

/-- agreement is what the decidable relation of Spec/C14.lean checks -/
theorem rel_of_agree (name : String) (h : List (Ev V D)) (p : PropSt V D) (ha : AgreeP name h p) :
    Rel name h (obsOf p) = true := by
  have hv : relValues name h (obsOf p) = true := by
    unfold relValues
    have := ha.vals
    cases hk : lastValues name h with
    | is vs => rw [hk] at this; simp only [ValOK] at this; simp [obsOf, this.1, this.2]
    | unspecified =>
      simp only [obsOf]
      cases ht : p.dtype.isValueType with
      | false => simp
      | true => simp [values_length p ht]
    | absent => rw [hk] at this; exact absurd this (by simp [ValOK])
  have ht : relType name h (obsOf p) = true := by
    unfold relType
    simp only [obsOf, ha.ty, beq_self_eq_true, Bool.true_and, List.all_eq_true, beq_iff_eq]
    exact values_typed p
  have hu : relUnit name h (obsOf p) = true := by simp [relUnit, ha.unit, obsOf]
  have hc : relUnc name h (obsOf p) = true := by simp [relUnc, ha.unc, obsOf]
  have hd : relDef name h (obsOf p) = true := by simp [relDef, ha.defn, obsOf]
  simp [Rel, hv, ht, hu, hc, hd]

/-- **history_last_assigned** — THE PROPERTY, for the model.  Start from an empty section, make any sequence of calls
    (creations through the three overloads, assignments of any vectors, clearings, unit / uncertainty / definition
    changes, deletions and re-creations, reopens in either mode — accepted or refused).  Then every property that
    exists satisfies the relation `Rel` against the history of ACCEPTED calls: its values are those of the last accepted
    assignment / clearing / creation-from-values (count = length), its type is the creation type, its unit is the last
    one set without blanks, its uncertainty and definition the last ones set; and a property that does not exist has no
    live creation in the history (nothing was left behind by a refused call, nothing survives a deletion). -/
theorem history_last_assigned (ops : List (Op V D)) (hwf : ∀ op ∈ ops, WFOp op) (name : String) :
    match (run zero {} ops).find name with
    | some p => Rel name (runH zero {} [] ops).2 (obsOf p) = true
    | none => typeOf name (runH zero {} [] ops).2 = none := by
  have ha := history_agree zero ops {} [] agree_empty hwf
  rw [runH_state] at ha
  have := ha.1 name
  cases hf : (run zero {} ops).find name with
  | none => rw [hf] at this; exact this
  | some p => rw [hf] at this; exact rel_of_agree name _ p this
end

/-- the same, spelled out for the values: whenever the history designates a vector, that is what `values()` returns -/
theorem history_values (ops : List (Op V D)) (hwf : ∀ op ∈ ops, WFOp op) (name : String) (p : PropSt V D)
    (hf : (run zero {} ops).find name = some p) (vs : List (Variant V))
    (hl : lastValues name (runH zero {} [] ops).2 = .is vs) : p.values = vs ∧ p.valueCount = vs.length := by
  have ha := history_agree zero ops {} [] agree_empty hwf
  rw [runH_state] at ha
  have := ha.1 name
  rw [hf] at this
  have hv := this.vals
  rw [hl] at hv
  exact hv

/-- a read-only session changes nothing: whatever is called, every property reads as before -/
theorem readonly_changes_nothing (s : SecSt V D) (op : Op V D) (hro : s.writable = false) (hop : ∀ w, op ≠ .reopen w)
    (n : String) : (step zero s op).1.find n = s.find n := by
  cases hr : (step zero s op).2 with
  | some e => exact (rejected_call_leaves_no_trace zero s op e hr).2 n
  | none =>
    cases op with
    | createDtype name dt =>
      simp only [step] at hr ⊢
      cases hg : s.createGuard name with
      | some e1 => rfl
      | none => simp only [hg] at hr; have := newDataset_ok zero s name dt _ hr; rw [hro] at this; simp at this
    | createValues name vs =>
      cases vs with
      | nil => rfl
      | cons v0 rest =>
        simp only [step] at hr ⊢
        cases hg : s.createGuard name with
        | some e1 => rfl
        | none =>
          simp only [hg] at hr ⊢
          by_cases hm : (v0 :: rest).any (fun v => decide (v.ty ≠ v0.ty)) = true
          · rw [if_pos hm]
          · rw [if_neg hm] at hr
            have := createWith_ok zero s name _ _ _ (createGuard_none s name hg) hr
            rw [hro] at this; simp at this
    | createValue name v =>
      simp only [step] at hr ⊢
      cases hg : s.createGuard name with
      | some e1 => rfl
      | none =>
        simp only [hg] at hr
        have := createWith_ok zero s name _ _ _ (createGuard_none s name hg) hr
        rw [hro] at this; simp at this
    | assign name vs =>
      simp only [step] at hr
      obtain ⟨p, _, hacc, _⟩ := onProp_accepted s name _ hr
      exfalso
      simp only [hro, Bool.false_eq_true, ↓reduceIte] at hacc
      cases vs with
      | nil => simp at hacc
      | cons v0 rest =>
        simp only [] at hacc
        split at hacc
        · simp at hacc
        · split at hacc <;> simp at hacc
    | clear name =>
      simp only [step] at hr
      obtain ⟨p, _, hacc, _⟩ := onProp_accepted s name _ hr
      simp [hro] at hacc
    | setUnit name u =>
      simp only [step] at hr
      obtain ⟨p, _, hacc, _⟩ := onProp_accepted s name _ hr
      simp [hro] at hacc
    | setUnc name d =>
      simp only [step] at hr
      obtain ⟨p, _, hacc, _⟩ := onProp_accepted s name _ hr
      simp [hro] at hacc
    | setDef name d =>
      simp only [step] at hr
      obtain ⟨p, _, hacc, _⟩ := onProp_accepted s name _ hr
      cases d with
      | none => simp [hro] at hacc
      | some t => by_cases ht : t.isEmpty = true <;> simp [hro, ht] at hacc
    | delete name =>
      simp only [step] at hr ⊢
      cases hf : s.find name with
      | none => rfl
      | some p => simp [hf, hro] at hr
    | reopen w => exact absurd rfl (hop w)

/-! ### non-vacuity: concrete histories (values and doubles are natural-number tokens) -/

def z : DType → Nat := fun _ => 0
def i32 (n : Nat) : Variant Nat := ⟨.int32, n⟩
def str (n : Nat) : Variant Nat := ⟨.string, n⟩

/-- create from values, replace by a longer and a shorter vector, a refused mixed vector, unit with blanks, reopen
    read-only, a refused assignment, reopen, clear, delete and re-create under the same name -/
def demoOps : List (Op Nat Nat) :=
  [.createValues "p" [i32 1, i32 2], .assign "p" [i32 7, i32 8, i32 9], .setUnit "p" (some " m V"), .setUnc "p" (some 5),
   .assign "p" [i32 1, str 2], .createDtype "q" .double, .reopen false, .assign "p" [i32 4], .reopen true,
   .assign "p" [i32 3], .createValues "r" [str 1, i32 2], .delete "q", .createValue "q" (str 11), .clear "r"]

instance : (op : Op Nat Nat) → Decidable (WFOp op)
  | .createValues _ vs => by unfold WFOp; infer_instance
  | .createValue _ v => by unfold WFOp; infer_instance
  | .assign _ vs => by unfold WFOp; infer_instance
  | .createDtype _ _ | .clear _ | .setUnit _ _ | .setUnc _ _ | .setDef _ _ | .delete _ | .reopen _ => isTrue trivial
example : ∀ op ∈ demoOps, WFOp op := by decide +kernel
example : ((run z {} demoOps).find "p").map (fun p => (p.values, p.valueCount, p.unit, p.unc)) =
    some ([i32 3], 1, some "mV", some 5) := by decide +kernel
example : ((run z {} demoOps).find "q").map (fun p => (p.dtype, p.values)) = some (.string, [str 11]) := by decide +kernel
example : ((run z {} demoOps).find "r").isNone = true := by decide +kernel
example : (match lastValues "p" (runH z {} [] demoOps).2 with | .is vs => vs == [i32 3] | _ => false) = true := by decide +kernel
example : (demoOps.map fun op => (step z (run z {} (demoOps.take 4)) op).2).take 5 =
    [some .duplicateName, none, none, none, some .stdInvalidArgument] := by decide +kernel
-- the rules can fail: an observation that kept the refused vector violates the relation
example : Rel "p" (runH z {} [] demoOps).2
    { dtype := .int32, count := 1, values := [i32 4], unit := some "mV", unc := some 5, defn := none } = false := by decide +kernel
example : let r := ({ dtype := .int32, cells := [1, 2, 3] } : PropSt Nat Nat).assign z [i32 1, str 2]
    (r.1.cells, r.2) = ([1, 2, 3], some Err.stdInvalidArgument) := by decide +kernel

end Nix.C14
