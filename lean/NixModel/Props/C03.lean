import NixModel.Props.C04
/-
  C03 — names are unique per parent; name / id / index lookups, counts and order agree.

  A container is a group whose links are (name ↦ entity group), in creation order.  `Container s c` says what creation
  establishes for it: link names pairwise distinct and non-empty, targets are groups that carry their link name as `name`
  and an `entity_id`, ids pairwise distinct.  Under it, for EVERY container and EVERY index i:
    * the i-th child is found by its name (`find_by_name`, `blkFind_by_name`),
    * and by its id (`find_by_id`, `blkFind_by_id`) provided the id looks like an id and no sibling is NAMED like that id —
      a name wins over an id (`find_by_id_shadowed`), and creation refuses a name that equals a sibling's id, so with fresh
      ids the proviso holds in every reachable state;
    * count = length of the enumeration, enumeration = the children by index (by definition of the getters);
  creation appends at the end and refuses a taken name (`create_appends`), deletion keeps the relative order of the
  survivors (`delete_keeps_order`).
-/
namespace Nix.St
open Store

structure Container (s : Store) (c : ObjId) : Prop where
  namesDistinct : (s.linksOf c).Pairwise (fun a b => a.1 ≠ b.1)
  namesNonEmpty : ∀ l ∈ s.linksOf c, l.1.isEmpty = false
  groups : ∀ l ∈ s.linksOf c, s.isGroupObj l.2 = true
  idsDistinct : (s.linksOf c).Pairwise (fun a b => s.attr? a.2 "entity_id" ≠ s.attr? b.2 "entity_id")

theorem lookup_of_pairwise {l : List (String × ObjId)} (hp : l.Pairwise (fun a b => a.1 ≠ b.1)) {n : String} {t : ObjId}
    (hm : (n, t) ∈ l) : l.lookup n = some t := by
  induction l with
  | nil => simp at hm
  | cons x xs ih =>
    obtain ⟨a, b⟩ := x
    rw [List.pairwise_cons] at hp
    simp only [List.lookup_cons]
    rcases List.mem_cons.mp hm with h | h
    · cases h; simp
    · have hne : a ≠ n := by
        have := hp.1 (n, t) h
        simpa using this
      have : (n == a) = false := by simp [Ne.symm hne]
      simp only [this]
      exact ih hp.2 h

/-- lookup by name returns exactly the child that carries the name -/
theorem find_by_name (s : Store) (c : ObjId) (hc : Container s c) (n : String) (t : ObjId) (hm : (n, t) ∈ s.linksOf c) :
    s.findGroupByNameOrAttribute c "entity_id" n = some t := by
  have hl : s.child? c n = some t := lookup_of_pairwise hc.namesDistinct hm
  have hne := hc.namesNonEmpty _ hm
  simp only at hne
  simp [findGroupByNameOrAttribute, hasObject, hl, hne]

theorem find?_of_pairwise_ids (s : Store) {l : List (String × ObjId)}
    (hp : l.Pairwise (fun a b => s.attr? a.2 "entity_id" ≠ s.attr? b.2 "entity_id"))
    (hg : ∀ x ∈ l, s.isGroupObj x.2 = true) {n : String} {t : ObjId} {id : String}
    (hm : (n, t) ∈ l) (hid : s.attr? t "entity_id" = some id) :
    (l.find? fun x => s.isGroupObj x.2 && s.attr? x.2 "entity_id" == some id) = some (n, t) := by
  induction l with
  | nil => simp at hm
  | cons x xs ih =>
    rw [List.pairwise_cons] at hp
    rcases List.mem_cons.mp hm with h | h
    · subst h
      simp [List.find?_cons, hg (n, t) (by simp), hid]
    · have hx : s.attr? x.2 "entity_id" ≠ some id := by
        have := hp.1 (n, t) h
        rw [hid] at this
        exact this
      have : (s.isGroupObj x.2 && s.attr? x.2 "entity_id" == some id) = false := by
        simp [hx]
      rw [List.find?_cons, this]
      exact ih hp.2 (fun y hy => hg y (List.mem_cons_of_mem _ hy)) h

/-- lookup by id returns exactly the child that carries the id — unless a sibling is NAMED like that id -/
theorem find_by_id (s : Store) (c : ObjId) (hc : Container s c) (n id : String) (t : ObjId) (hm : (n, t) ∈ s.linksOf c)
    (hid : s.attr? t "entity_id" = some id) (huuid : looksLikeUUID id = true) (hshadow : s.child? c id = none) :
    s.findGroupByNameOrAttribute c "entity_id" id = some t := by
  have := find?_of_pairwise_ids s hc.idsDistinct hc.groups hm hid
  simp [findGroupByNameOrAttribute, hasObject, hshadow, huuid, findGroupByAttribute, this]

/-- the name wins: if a sibling IS named like the id, the lookup by id returns that sibling, not the owner of the id -/
theorem find_by_id_shadowed (s : Store) (c : ObjId) (id : String) (t' : ObjId) (hne : id.isEmpty = false)
    (hshadow : s.child? c id = some t') : s.findGroupByNameOrAttribute c "entity_id" id = some t' := by
  simp [findGroupByNameOrAttribute, hasObject, hshadow, hne]

/-- count and enumeration agree, and the enumeration is the children by index -/
theorem count_eq_enumeration_length (s : Store) (c : Option ObjId) : countIn s c = (linkedIds s c).length := by
  cases c <;> simp [countIn, linkedIds, objectCount]

theorem enumeration_eq_by_index (s : Store) (c : Option ObjId) (i : Nat) :
    (linkedIds s c)[i]? = (nthChild s c i).map (idOf s) := by
  cases c <;> simp [linkedIds, nthChild, List.getElem?_map, Function.comp_def]

/-- `getX(index)` is in range exactly below the count -/
theorem nthChild_isSome_iff (s : Store) (c : Option ObjId) (i : Nat) : (nthChild s c i).isSome = true ↔ i < countIn s c := by
  cases c with
  | none => simp [nthChild, countIn]
  | some c =>
    simp only [nthChild, countIn, objectCount, Option.isSome_map]
    cases h : (s.linksOf c)[i]? with
    | none => simp [List.getElem?_eq_none_iff.mp h]
    | some x => simpa using (List.getElem?_eq_some_iff.mp h).1

-- ----- the containers of a block (BlockHDF5::findEntityGroup) ------------------------------------------------------------------

theorem blkFind_by_name (s : Store) (blk p : ObjId) (kind : String) (hp : s.optGroup blk (blockContainer kind) = some p)
    (hc : Container s p) (n : String) (t : ObjId) (hm : (n, t) ∈ s.linksOf p) :
    blkFind s blk kind n "" = some t := by
  have hl : s.child? p n = some t := lookup_of_pairwise hc.namesDistinct hm
  have hne := hc.namesNonEmpty _ hm
  have hg := hc.groups _ hm
  simp only at hne hg
  simp [blkFind, hp, hne, hasObject, hasGroup, hl, hg]

/-- the handle-based queries (`hasX(entity)`, `deleteX(entity)`): name and id together -/
theorem blkFind_by_name_and_id (s : Store) (blk p : ObjId) (kind : String) (hp : s.optGroup blk (blockContainer kind) = some p)
    (hc : Container s p) (n id : String) (t : ObjId) (hm : (n, t) ∈ s.linksOf p) (hid : s.attr? t "entity_id" = some id)
    (hidne : id.isEmpty = false) : blkFind s blk kind n id = some t := by
  have hl : s.child? p n = some t := lookup_of_pairwise hc.namesDistinct hm
  have hne := hc.namesNonEmpty _ hm
  have hg := hc.groups _ hm
  simp only at hne hg
  simp [blkFind, hp, hne, hidne, hasObject, hasGroup, hl, hg, hid]

theorem blkFind_by_id (s : Store) (blk p : ObjId) (kind : String) (hp : s.optGroup blk (blockContainer kind) = some p)
    (hc : Container s p) (n id : String) (t : ObjId) (hm : (n, t) ∈ s.linksOf p) (hid : s.attr? t "entity_id" = some id)
    (hidne : id.isEmpty = false) (hshadow : s.child? p id = none) : blkFind s blk kind "" id = some t := by
  have := find?_of_pairwise_ids s hc.idsDistinct hc.groups hm hid
  simp [blkFind, hp, hidne, hasObject, hshadow, findGroupByAttribute, this]

-- ----- order ------------------------------------------------------------------------------------------------------------------

/-- index order is creation order: a successful create appends the new entity at the END of its container, under a name that
    no sibling had -/
theorem createBlock_appends (s : Store) (n t i c : String) (g : ObjId) (s' : Store) (h : createBlock s n t i c = (s', .ok g)) :
    s.child? dataGrp n = none ∧ (dataGrp < s.objs.length → s'.linksOf dataGrp = s.linksOf dataGrp ++ [(n, g)]) := by
  unfold createBlock at h
  cases hc : checkNameAndType n t with
  | error e' => simp [hc] at h
  | ok u =>
    have ⟨hn, _, ht⟩ := checkNameAndType_ok hc
    simp only [hc, initNamed_ok _ _ _ _ _ _ hn ht] at h
    split at h
    · simp at h
    · rename_i hdup
      have hnone : s.child? dataGrp n = none := by
        simp only [findGroupByNameOrAttribute, hasObject, hn] at hdup
        cases hch : s.child? dataGrp n with
        | none => rfl
        | some x => simp [hch] at hdup
      refine ⟨hnone, ?_⟩
      intro hlt
      have hg : s.hasGroup dataGrp n = false := by simp [hasGroup, hnone]
      obtain ⟨hc1, _, _, _, hgob⟩ := openGroupCreate_fresh s dataGrp n hg hlt
      obtain ⟨ob, hob⟩ : ∃ ob, s.obj? dataGrp = some ob := ⟨s.objs[dataGrp], by unfold obj?; exact List.getElem?_eq_getElem hlt⟩
      have hnew := hgob ob hob
      simp only [Prod.mk.injEq, Except.ok.injEq] at h
      obtain ⟨hs', hgeq⟩ := h
      have hne : (s.openGroupCreate dataGrp n).2 ≠ dataGrp := by rw [hc1]; exact Nat.ne_of_gt hlt
      subst hs'
      rw [hgeq] at hne hnew
      simp [setAttr, linksOf, obj?_modifyObj, hne, hnew, hob, hgeq]

/-- deleting others keeps the relative order of the survivors: the links of every group after a delete are the old links with
    some removed, in the old order -/
theorem delete_keeps_order (s : Store) (D : List ObjId) (o : ObjId) : ((s.unlinkAll D).linksOf o).Sublist (s.linksOf o) := by
  rw [(unlinkAll_frame s D o).1]
  exact List.filter_sublist

/-- the hypothesis `hshadow` of the id lookups is what creation protects: a new entity cannot be NAMED like the id of a
    sibling — the duplicate check of create finds the sibling through its id and refuses (kernel-checked instance).  With ids
    drawn fresh (never equal to an existing name: C12) a sibling named like an id therefore never exists. -/
example :
    let id1 := "11111111-1111-1111-1111-111111111111"
    let s1 := (createBlock (newFile "f" "0" "xnix" "[1,2,0]") "first" "xt" id1 "1").1
    (createBlock s1 id1 "xt" "22222222-2222-2222-2222-222222222222" "2").2 = .error .duplicateName := by
  decide +kernel

/-- non-vacuity of `Container` and of the lookup theorems: a file with two blocks -/
example :
    let s1 := (createBlock (newFile "f" "0" "xnix" "[1,2,0]") "first" "xt" "11111111-1111-1111-1111-111111111111" "1").1
    let s2 := (createBlock s1 "second" "xt" "22222222-2222-2222-2222-222222222222" "2").1
    s2.linksOf dataGrp = [("first", 3), ("second", 4)] ∧
    s2.findGroupByNameOrAttribute dataGrp "entity_id" "second" = some 4 ∧
    s2.findGroupByNameOrAttribute dataGrp "entity_id" "11111111-1111-1111-1111-111111111111" = some 3 := by
  decide +kernel

end Nix.St
