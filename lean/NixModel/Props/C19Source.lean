import NixModel.ValidSource
/-
  C19 — the rule tables of the model ARE the rule tables of src/valid/validate.cpp.

  For every `validate(const X &)` overload: evaluating the table the translator extracted from the source on this run
  (NixModel/Gen/ValidRules.lean) on an entity description gives exactly what the model's hand-written table
  (NixModel/Validate.lean: validateArray, validateTag, …) gives — for EVERY description.  Two steps per table: the source table,
  with its (getter, check) pairs and message texts resolved, IS a skeleton written down here (a closed computation, checked by the
  kernel: `rfl`); and evaluating that skeleton is the model's table (symbolic, by `simp`).  A change of the source that moves a rule
  under another one, changes a severity, swaps two rules, drops or adds one, or changes a message makes the first step fail to
  check on the next run.
-/
namespace Nix.Validate
open Nix Nix.Gen.Valid

theorem validator_nil : validator [] = Result.empty := rfl

theorem foldl_concat (acc : Result) (l : List Result) : l.foldl Result.concat acc = acc.concat (validator l) := by
  induction l generalizing acc with
  | nil => simp [validator, Result.concat, Result.empty]
  | cons x xs ih =>
    simp only [validator, List.foldl_cons]
    rw [ih, ih (Result.empty.concat x)]
    simp [Result.concat, Result.empty, List.append_assoc]

theorem validator_cons (x : Result) (xs : List Result) : validator (x :: xs) = x.concat (validator xs) := by
  simp only [validator, List.foldl_cons]
  rw [foldl_concat]
  simp [Result.concat, Result.empty, validator]

theorem concat_empty (r : Result) : r.concat Result.empty = r := by
  cases r; simp [Result.concat, Result.empty]

variable {α : Type} [Scalar α]

-- the skeletons: severity, atom number, message class, sub-rules
def entitySkel : List SRule := [.node 0 0 (some .id) [], .node 0 1 (some .date) []]
def namedSkel : List SRule := [.node 0 0 (some .name) [], .node 0 1 (some .type) []]
def arraySkel : List SRule :=
  [.node 0 0 (some .dtype) [],
   .node 0 1 (some .ndims) [.node 2 2 none [.node 0 3 (some .ticksN) [], .node 0 4 (some .labelsN) [], .node 0 5 (some .rowsN) []]],
   .node 2 6 none [.node 1 7 (some .unitSI) []],
   .node 2 8 none [.node 1 9 (some .noOrigin) []],
   .node 2 9 none [.node 1 8 (some .noPoly) []]]
def tagSkel (first : Cls) : List SRule :=
  [.node 0 0 (some first) [], .node 2 1 none [.node 0 2 (some .tagUnit) [], .node 0 3 (some .refUnits) []]]
def propSkel : List SRule :=
  [.node 0 0 (some .name) [], .node 2 1 none [.node 1 2 (some .propNoUnit) []], .node 2 2 none [.node 0 3 (some .unitSI) []]]
def rangeSkel : List SRule :=
  [.node 0 0 (some .index) [], .node 0 1 (some .noTicks) [], .node 0 2 (some .dimType) [], .node 2 3 none [.node 0 4 (some .dimUnit) []],
   .node 0 5 (some .unsorted) []]
def sampledSkel : List SRule :=
  [.node 0 0 (some .index) [], .node 0 1 (some .interval) [], .node 0 2 (some .dimType) [], .node 2 3 none [.node 1 4 (some .offsetUnit) []],
   .node 2 5 none [.node 0 4 (some .dimUnit) []]]
def setSkel : List SRule := [.node 0 0 (some .index) [], .node 0 1 (some .dimType) []]
def featureSkel : List SRule := [.node 0 0 (some .featData) [], .node 0 1 (some .linkType) []]

-- step 1: the source's tables resolve to the skeletons (closed terms: the kernel computes)
set_option maxRecDepth 200000
theorem entity_source : compileRules entityIdx entity = some entitySkel := by rfl
theorem named_source : compileRules namedIdx namedEntity = some namedSkel := by rfl
theorem dataArray_source : compileRules arrayIdx dataArray = some arraySkel := by rfl
theorem tag_source : compileRules tagIdx tag = some (tagSkel .pos) := by rfl
theorem multiTag_source : compileRules multiTagIdx multiTag = some (tagSkel .positions) := by rfl
theorem property_source : compileRules propIdx property = some propSkel := by rfl
theorem rangeDimension_source : compileRules rangeIdx rangeDimension = some rangeSkel := by rfl
theorem sampledDimension_source : compileRules sampledIdx sampledDimension = some sampledSkel := by rfl
theorem setDimension_source : compileRules setIdx setDimension = some setSkel := by rfl
theorem feature_source : compileRules featureIdx feature = some featureSkel := by rfl

-- step 2: evaluating the skeletons is the model's tables (for every entity description)
theorem entity_skel (id : String) (created : Got Int) : evalSs (entityAtoms id created) id entitySkel = validateEntity id created := by
  simp [evalSs, evalS, entitySkel, entityAtoms, validateEntity, must, validator_cons, validator_nil, concat_empty]

theorem named_skel (e : Named) :
    (evalSs (namedAtoms e) e.id namedSkel).concat (evalSs (entityAtoms e.id e.created) e.id entitySkel) = validateNamed e := by
  simp [evalSs, evalS, namedSkel, entitySkel, namedAtoms, entityAtoms, validateNamed, validateEntity, must, validator_cons, validator_nil,
    concat_empty]

theorem array_skel (a : ArrayDesc α) : (evalSs (arrayAtoms a) a.ent.id arraySkel).concat (validateNamed a.ent) = validateArray a := by
  simp [evalSs, evalS, arraySkel, arrayAtoms, validateArray, must, should, could, validator_cons, validator_nil, concat_empty]

theorem tag_skel (t : TagDesc) :
    (evalSs (tagAtoms t) t.ent.id (tagSkel (if t.isMulti then .positions else .pos))).concat (validateNamed t.ent) = validateTag t := by
  simp [evalSs, evalS, tagSkel, tagAtoms, validateTag, must, should, could, validator_cons, validator_nil, concat_empty]

theorem prop_skel (p : PropDesc) : (evalSs (propAtoms p) p.id propSkel).concat (validateEntity p.id p.created) = validateProp p := by
  simp [evalSs, evalS, propSkel, propAtoms, validateProp, must, should, could, validator_cons, validator_nil, concat_empty]

theorem range_skel (index : Nat) (ticks : List α) (unit : Got (Option String)) :
    evalSs (rangeAtoms index ticks unit) dimId rangeSkel = validateRange index ticks unit := by
  simp [evalSs, evalS, rangeSkel, rangeAtoms, validateRange, must, should, could, validator_cons, validator_nil, concat_empty]

theorem sampled_skel (index : Nat) (interval : Got α) (offsetSet : Got Bool) (unit : Got (Option String)) :
    evalSs (sampledAtoms index interval offsetSet unit) dimId sampledSkel = validateSampled index interval offsetSet unit := by
  simp [evalSs, evalS, sampledSkel, sampledAtoms, validateSampled, must, should, could, validator_cons, validator_nil, concat_empty]

theorem set_skel (index : Nat) : evalSs (setAtoms index) dimId setSkel = validateSet index := by
  simp [evalSs, evalS, setSkel, setAtoms, validateSet, must, validator_cons, validator_nil, concat_empty]

theorem feature_skel (f : FeatureDesc) : (evalSs (featureAtoms f) f.id featureSkel).concat (validateEntity f.id f.created) = validateFeature f := by
  simp [evalSs, evalS, featureSkel, featureAtoms, validateFeature, must, validator_cons, validator_nil, concat_empty]

-- the two steps together: the source's table, evaluated, is the model's table
/-- **validateArray_is_the_source_table** -/
theorem validateArray_is_the_source_table (a : ArrayDesc α) :
    (evalTable arrayIdx (arrayAtoms a) a.ent.id dataArray).map (·.concat (validateNamed a.ent)) = some (validateArray a) := by
  simp only [evalTable, dataArray_source, Option.map_some, array_skel]

theorem validateNamed_is_the_source_table (e : Named) :
    (do let r ← evalTable namedIdx (namedAtoms e) e.id namedEntity
        let b ← evalTable entityIdx (entityAtoms e.id e.created) e.id entity
        pure (r.concat b)) = some (validateNamed e) := by
  simp only [evalTable, named_source, entity_source, Option.map_some]
  exact congrArg some (named_skel e)

theorem validateTag_is_the_source_table (t : TagDesc) :
    (evalTable (if t.isMulti then multiTagIdx else tagIdx) (tagAtoms t) t.ent.id (if t.isMulti then multiTag else tag)).map
      (·.concat (validateNamed t.ent)) = some (validateTag t) := by
  cases h : t.isMulti <;> simp only [evalTable, tag_source, multiTag_source, Option.map_some, if_true, if_false, Bool.false_eq_true]
  · have := tag_skel t; rw [h] at this; simpa using this
  · have := tag_skel t; rw [h] at this; simpa using this

theorem validateProp_is_the_source_table (p : PropDesc) :
    (evalTable propIdx (propAtoms p) p.id property).map (·.concat (validateEntity p.id p.created)) = some (validateProp p) := by
  simp only [evalTable, property_source, Option.map_some, prop_skel]

theorem validateRange_is_the_source_table (index : Nat) (ticks : List α) (unit : Got (Option String)) :
    evalTable rangeIdx (rangeAtoms index ticks unit) dimId rangeDimension = some (validateRange index ticks unit) := by
  simp only [evalTable, rangeDimension_source, Option.map_some, range_skel]

theorem validateSampled_is_the_source_table (index : Nat) (interval : Got α) (offsetSet : Got Bool) (unit : Got (Option String)) :
    evalTable sampledIdx (sampledAtoms index interval offsetSet unit) dimId sampledDimension =
      some (validateSampled index interval offsetSet unit) := by
  simp only [evalTable, sampledDimension_source, Option.map_some, sampled_skel]

theorem validateSet_is_the_source_table (index : Nat) : evalTable setIdx (setAtoms index) dimId setDimension = some (validateSet index) := by
  simp only [evalTable, setDimension_source, Option.map_some, set_skel]

theorem validateFeature_is_the_source_table (f : FeatureDesc) :
    (evalTable featureIdx (featureAtoms f) f.id feature).map (·.concat (validateEntity f.id f.created)) = some (validateFeature f) := by
  simp only [evalTable, feature_source, Option.map_some, feature_skel]

/-- which base table is concatenated after each table (`result.concat(result_base)`) -/
theorem base_tables : entityBase = "" ∧ namedEntityBase = "entity" ∧ dataArrayBase = "namedEntity" ∧ tagBase = "namedEntity" ∧
    multiTagBase = "namedEntity" ∧ propertyBase = "entity" ∧ rangeDimensionBase = "" ∧ sampledDimensionBase = "" ∧
    setDimensionBase = "" ∧ featureBase = "entity" := by decide

end Nix.Validate
