import NixModel.Props.C08
import NixModel.Props.C04
/-
  C12 (store-model part) — an entity keeps its id for life.

  `IdsKept s s'`: every object of `s` is still an object of `s'` and carries the `entity_id` it carried.  It holds across EVERY
  entry point of the store model (`entity_id_immutable`): creation initialises a group that the duplicate check has made sure
  is NEW (this is what Block::createDataFrame broke on the pinned tree: it re-initialised the existing group, D2), every link
  operation and every delete touches links only, and no setter writes the `entity_id` attribute.
-/
namespace Nix.St
open Store

/-- `IdsKept s s'`: every object of `s` is still there and carries the id it carried -/
def IdsKept (s s' : Store) : Prop :=
  s.objs.length ≤ s'.objs.length ∧ ∀ o, o < s.objs.length → s'.attr? o "entity_id" = s.attr? o "entity_id"

theorem IdsKept.refl (s : Store) : IdsKept s s := ⟨Nat.le_refl _, fun _ _ => rfl⟩

theorem IdsKept.trans {a b c : Store} (h1 : IdsKept a b) (h2 : IdsKept b c) : IdsKept a c :=
  ⟨Nat.le_trans h1.1 h2.1, fun o ho => by rw [h2.2 o (Nat.lt_of_lt_of_le ho h1.1), h1.2 o ho]⟩

theorem IdsKept.openGroupCreate (s : Store) (g : ObjId) (n : String) : IdsKept s (s.openGroupCreate g n).1 :=
  ⟨(openGroupCreate_old s g n).1, fun o ho => (openGroupCreate_old s g n).2.1 o _ ho⟩

theorem IdsKept.setAttr_key (s : Store) (o : ObjId) (k v : String) (hk : k ≠ "entity_id") : IdsKept s (s.setAttr o k v) := by
  refine ⟨by simp [length_setAttr], fun o' _ => ?_⟩
  simp only [Store.setAttr, attr?, obj?_modifyObj]
  by_cases h : o = o'
  · subst h
    cases hob : s.obj? o with
    | none => simp
    | some ob => simp [lookup_setKV_ne _ _ _ _ (Ne.symm hk)]
  · simp [h]

theorem IdsKept.setAttr_new {s0 s : Store} (h0 : IdsKept s0 s) (o : ObjId) (k v : String) (ho : s0.objs.length ≤ o) :
    IdsKept s0 (s.setAttr o k v) := by
  refine ⟨by rw [length_setAttr]; exact h0.1, fun o' ho' => ?_⟩
  rw [attr?_setAttr_other s o k v o' "entity_id" (Nat.ne_of_lt (Nat.lt_of_lt_of_le ho' ho))]
  exact h0.2 o' ho'

theorem IdsKept.addLink (s : Store) (g : ObjId) (n : String) (t : ObjId) : IdsKept s (s.addLink g n t) :=
  ⟨by simp [length_addLink], fun o _ => attr?_addLink s g n t o _⟩

/-- Block::create* never re-identifies anything: the ids of all existing objects are kept — because the duplicate check has
    made sure that the entity group it initialises is a NEW group (the property that createDataFrame broke on the pinned tree, D2) -/
theorem createInBlock_idsKept (s : Store) (b : ObjId) (k n t i c : String) (hb : b < s.objs.length) :
    IdsKept s (createInBlock s b k n t i c).1 := by
  cases hres : (createInBlock s b k n t i c).2 with
  | error e => rw [createInBlock_rejected s b k n t i c e hres]; exact IdsKept.refl s
  | ok g =>
    unfold createInBlock at hres ⊢
    cases hc : checkNameAndType n t with
    | error e' => simp [hc] at hres
    | ok u =>
      have ⟨hn, _, ht⟩ := checkNameAndType_ok hc
      simp only [hc, initNamed_ok _ _ _ _ _ _ hn ht] at hres ⊢
      by_cases hd : (blkFindKey s b k n).isSome = true
      · simp [hd] at hres
      · simp only [hd]
        have hnone : blkFindKey s b k n = none := by
          cases h : blkFindKey s b k n with
          | none => rfl
          | some x => simp [h] at hd
        -- the container, then the entity group: the latter is new
        have h1 := IdsKept.openGroupCreate s b (blockContainer k)
        have h2 := IdsKept.openGroupCreate (s.openGroupCreate b (blockContainer k)).1 (s.openGroupCreate b (blockContainer k)).2 n
        have h12 := h1.trans h2
        have hgnew : s.objs.length ≤ ((s.openGroupCreate b (blockContainer k)).1.openGroupCreate (s.openGroupCreate b (blockContainer k)).2 n).2 := by
          have hg2 : (s.openGroupCreate b (blockContainer k)).1.hasGroup (s.openGroupCreate b (blockContainer k)).2 n = false := by
            by_cases hcont : s.hasGroup b (blockContainer k) = true
            · -- the container existed: nothing under the name (duplicate check)
              have hs1 : (s.openGroupCreate b (blockContainer k)).1 = s := openGroupCreate_existing s b _ hcont
              obtain ⟨_, x, hx, _⟩ := hasGroup_child s b _ hcont
              have hp : s.optGroup b (blockContainer k) = some x := by simp [optGroup, hcont, hx]
              have hsnd : (s.openGroupCreate b (blockContainer k)).2 = x := by
                unfold Store.openGroupCreate; simp [hcont, hx]
              rw [hs1, hsnd]
              exact blkFind_none_hasGroup s b x k n hp hnone
            · -- a container created just now is empty
              have hcont' : s.hasGroup b (blockContainer k) = false := by simpa using hcont
              obtain ⟨_, hl, _, _, _⟩ := openGroupCreate_fresh s b _ hcont' hb
              simp [hasGroup, child?, hl]
          have := (openGroupCreate_old _ _ n).2.2 hg2
          rw [this.1]; exact h1.1
        exact (((h12.setAttr_new _ "entity_id" i hgnew).setAttr_new _ "created_at" c hgnew).setAttr_new _ "type" t hgnew).setAttr_new _ "name" n hgnew

/-- the two-level creation pattern (container on demand, then the entity group): when the container — if it exists — has no
    group under the name, the entity group is a new object -/
theorem create2_new (s : Store) (par : ObjId) (cname n : String) (hpar : par < s.objs.length)
    (hdup : ∀ x, s.optGroup par cname = some x → s.hasGroup x n = false) :
    IdsKept s ((s.openGroupCreate par cname).1.openGroupCreate (s.openGroupCreate par cname).2 n).1 ∧
    s.objs.length ≤ ((s.openGroupCreate par cname).1.openGroupCreate (s.openGroupCreate par cname).2 n).2 := by
  have h1 := IdsKept.openGroupCreate s par cname
  have h2 := IdsKept.openGroupCreate (s.openGroupCreate par cname).1 (s.openGroupCreate par cname).2 n
  refine ⟨h1.trans h2, ?_⟩
  have hg2 : (s.openGroupCreate par cname).1.hasGroup (s.openGroupCreate par cname).2 n = false := by
    by_cases hcont : s.hasGroup par cname = true
    · have hs1 : (s.openGroupCreate par cname).1 = s := openGroupCreate_existing s par _ hcont
      obtain ⟨_, x, hx, _⟩ := hasGroup_child s par _ hcont
      have hp : s.optGroup par cname = some x := by simp [optGroup, hcont, hx]
      have hsnd : (s.openGroupCreate par cname).2 = x := by
        unfold Store.openGroupCreate; simp [hcont, hx]
      rw [hs1, hsnd]
      exact hdup x hp
    · have hcont' : s.hasGroup par cname = false := by simpa using hcont
      obtain ⟨_, hl, _, _, _⟩ := openGroupCreate_fresh s par _ hcont' hpar
      simp [hasGroup, child?, hl]
  have := (openGroupCreate_old _ _ n).2.2 hg2
  rw [this.1]; exact h1.1

theorem initNamed_idsKept {s0 s : Store} (h0 : IdsKept s0 s) (g : ObjId) (id type name created : String) (hg : s0.objs.length ≤ g) :
    IdsKept s0 (initNamed s g id type name created).1 := by
  unfold initNamed
  have a := h0.setAttr_new g "entity_id" id hg
  have b := a.setAttr_new g "created_at" created hg
  split
  · exact b
  · have c := b.setAttr_new g "type" type hg
    split
    · exact c
    · exact c.setAttr_new g "name" name hg

theorem createBlock_idsKept (s : Store) (n t i c : String) : IdsKept s (createBlock s n t i c).1 := by
  unfold createBlock
  cases hc : checkNameAndType n t with
  | error e' => exact IdsKept.refl s
  | ok u =>
    have ⟨hn, _, _⟩ := checkNameAndType_ok hc
    simp only
    by_cases hd : (s.findGroupByNameOrAttribute dataGrp "entity_id" n).isSome = true
    · simp only [hd, if_true]; exact IdsKept.refl s
    · simp only [hd]
      have hnone : s.findGroupByNameOrAttribute dataGrp "entity_id" n = none := by
        cases h : s.findGroupByNameOrAttribute dataGrp "entity_id" n with
        | none => rfl
        | some x => simp [h] at hd
      have hg := find_none_hasGroup s dataGrp "entity_id" n hn hnone
      have hnew := (openGroupCreate_old s dataGrp n).2.2 hg
      have h1 := IdsKept.openGroupCreate s dataGrp n
      have := initNamed_idsKept h1 (s.openGroupCreate dataGrp n).2 i t n c (by rw [hnew.1]; exact Nat.le_refl _)
      generalize hr : initNamed (s.openGroupCreate dataGrp n).1 (s.openGroupCreate dataGrp n).2 i t n c = r at this
      obtain ⟨s', x⟩ := r
      cases x <;> exact this

theorem createSectionIn_idsKept (s : Store) (p : Option ObjId) (n t i c : String) (hp : ∀ x, p = some x → x < s.objs.length) :
    IdsKept s (createSectionIn s p n t i c).1 := by
  unfold createSectionIn
  cases hc : checkNameAndType n t with
  | error e' => exact IdsKept.refl s
  | ok u =>
    have ⟨hn, _, _⟩ := checkNameAndType_ok hc
    simp only
    cases p with
    | none =>
      simp only
      by_cases hd : (s.findGroupByNameOrAttribute metadataGrp "entity_id" n).isSome = true
      · simp only [hd, if_true]; exact IdsKept.refl s
      · simp only [hd]
        have hnone : s.findGroupByNameOrAttribute metadataGrp "entity_id" n = none := by
          cases h : s.findGroupByNameOrAttribute metadataGrp "entity_id" n with
          | none => rfl
          | some x => simp [h] at hd
        have hg := find_none_hasGroup s metadataGrp "entity_id" n hn hnone
        have hnew := (openGroupCreate_old s metadataGrp n).2.2 hg
        have h1 := IdsKept.openGroupCreate s metadataGrp n
        have := initNamed_idsKept h1 (s.openGroupCreate metadataGrp n).2 i t n c (by rw [hnew.1]; exact Nat.le_refl _)
        generalize hr : initNamed (s.openGroupCreate metadataGrp n).1 (s.openGroupCreate metadataGrp n).2 i t n c = r at this
        obtain ⟨s', x⟩ := r
        cases x <;> exact this
    | some par =>
      simp only
      cases ho : s.optGroup par "sections" with
      | none =>
        simp only [Option.isSome_none, Bool.false_eq_true, if_false]
        obtain ⟨hk, hnew⟩ := create2_new s par "sections" n (hp par rfl) (fun x hx => by rw [ho] at hx; cases hx)
        have := initNamed_idsKept hk _ i t n c hnew
        generalize hr : initNamed _ _ i t n c = r at this
        obtain ⟨s', x⟩ := r
        cases x <;> exact this
      | some cc =>
        simp only
        by_cases hfs : (s.findGroupByNameOrAttribute cc "entity_id" n).isSome = true
        · simp only [hfs, if_true]; exact IdsKept.refl s
        · simp only [hfs]
          have hf : s.findGroupByNameOrAttribute cc "entity_id" n = none := by
            cases h : s.findGroupByNameOrAttribute cc "entity_id" n with
            | none => rfl
            | some x => simp [h] at hfs
          obtain ⟨hk, hnew⟩ := create2_new s par "sections" n (hp par rfl)
            (fun x hx => by rw [ho] at hx; cases hx; exact find_none_hasGroup s cc "entity_id" n hn hf)
          have := initNamed_idsKept hk _ i t n c hnew
          generalize hr : initNamed _ _ i t n c = r at this
          obtain ⟨s', x⟩ := r
          cases x <;> exact this

theorem createSourceIn_idsKept (s : Store) (par : ObjId) (n t i c : String) (hp : par < s.objs.length) :
    IdsKept s (createSourceIn s par n t i c).1 := by
  unfold createSourceIn
  cases hc : checkNameAndType n t with
  | error e' => exact IdsKept.refl s
  | ok u =>
    have ⟨hn, _, _⟩ := checkNameAndType_ok hc
    simp only
    cases ho : s.optGroup par "sources" with
    | none =>
      simp only [Option.isSome_none, Bool.false_eq_true, if_false]
      obtain ⟨hk, hnew⟩ := create2_new s par "sources" n hp (fun x hx => by rw [ho] at hx; cases hx)
      have := initNamed_idsKept hk _ i t n c hnew
      generalize hr : initNamed _ _ i t n c = r at this
      obtain ⟨s', x⟩ := r
      cases x <;> exact this
    | some cc =>
      simp only
      by_cases hfs : (s.findGroupByNameOrAttribute cc "entity_id" n).isSome = true
      · simp only [hfs, if_true]; exact IdsKept.refl s
      · simp only [hfs]
        have hf : s.findGroupByNameOrAttribute cc "entity_id" n = none := by
          cases h : s.findGroupByNameOrAttribute cc "entity_id" n with
          | none => rfl
          | some x => simp [h] at hfs
        obtain ⟨hk, hnew⟩ := create2_new s par "sources" n hp
          (fun x hx => by rw [ho] at hx; cases hx; exact find_none_hasGroup s cc "entity_id" n hn hf)
        have := initNamed_idsKept hk _ i t n c hnew
        generalize hr : initNamed _ _ i t n c = r at this
        obtain ⟨s', x⟩ := r
        cases x <;> exact this

end Nix.St

namespace Nix.St
open Store

theorem IdsKept.modifyLinks (s : Store) (g : ObjId) (f : List (String × ObjId) → List (String × ObjId)) :
    IdsKept s (s.modifyObj g fun ob => { ob with links := f ob.links }) :=
  ⟨by simp [length_modifyObj], fun o _ => attr?_modifyObj_links s g o f _⟩

theorem IdsKept.unlink (s : Store) (g : ObjId) (n : String) : IdsKept s (s.unlink g n) := IdsKept.modifyLinks s g _

theorem IdsKept.removeGroup (s : Store) (g : ObjId) (n : String) : IdsKept s (s.removeGroup g n) := by
  unfold Store.removeGroup; split
  · exact IdsKept.unlink s g n
  · exact IdsKept.refl s

theorem IdsKept.removeData (s : Store) (g : ObjId) (n : String) : IdsKept s (s.removeData g n) := by
  unfold Store.removeData; split
  · exact IdsKept.unlink s g n
  · exact IdsKept.refl s

theorem IdsKept.unlinkAll (s : Store) (D : List ObjId) : IdsKept s (s.unlinkAll D) :=
  ⟨by rw [(unlinkAll_frame s D 0).2.2.2]; exact Nat.le_refl _, fun o _ => (unlinkAll_frame s D o).2.1 _⟩

theorem IdsKept.removeAttr_key (s : Store) (o : ObjId) (k : String) (hk : k ≠ "entity_id") : IdsKept s (s.removeAttr o k) := by
  refine ⟨by simp [Store.removeAttr, length_modifyObj], fun o' _ => ?_⟩
  simp only [Store.removeAttr, attr?, obj?_modifyObj]
  by_cases h : o = o'
  · subst h
    cases hob : s.obj? o with
    | none => simp
    | some ob =>
      simp only [if_true, Option.map_some, delK]
      induction ob.attrs with
      | nil => rfl
      | cons x xs ih =>
        obtain ⟨a, b⟩ := x
        simp only [List.filter_cons]
        by_cases ha : a = k
        · subst ha
          have : ("entity_id" == a) = false := by simpa using Ne.symm hk
          simp [List.lookup_cons, this, ih]
        · have hne : (a != k) = true := by simpa using ha
          simp only [hne, if_true, List.lookup_cons]
          cases ("entity_id" == a) <;> simp [ih]
  · simp [h]

theorem setArrayLink_idsKept (s : Store) (h b : ObjId) (f k : String) : IdsKept s (setArrayLink s h b f k).1 := by
  unfold setArrayLink
  split
  · exact IdsKept.refl s
  · exact (IdsKept.removeGroup s h f).trans (IdsKept.addLink _ h f _)

theorem setSectionLink_idsKept (s : Store) (h : ObjId) (f id : String) : IdsKept s (setSectionLink s h f id).1 := by
  unfold setSectionLink
  split
  · exact IdsKept.refl s
  · split
    · exact IdsKept.refl s
    · exact (IdsKept.removeGroup s h f).trans (IdsKept.addLink _ h f _)

theorem setExtents_idsKept (s : Store) (m b : ObjId) (k : String) : IdsKept s (setExtents s m b k).1 := by
  unfold setExtents
  repeat' split
  all_goals first
    | exact IdsKept.refl s
    | exact (IdsKept.removeGroup s m "extents").trans (IdsKept.addLink _ m "extents" _)

theorem addReference_idsKept (s : Store) (t b : ObjId) (k : String) : IdsKept s (addReference s t b k).1 := by
  unfold addReference
  have h1 := IdsKept.openGroupCreate s t "references"
  simp only
  repeat' split
  all_goals first
    | exact h1
    | exact h1.trans (IdsKept.addLink _ _ _ _)

theorem addSource_idsKept (s : Store) (o b : ObjId) (id : String) : IdsKept s (addSource s o b id).1 := by
  unfold addSource
  have h1 := IdsKept.openGroupCreate s o "sources"
  simp only
  repeat' split
  all_goals first
    | exact IdsKept.refl s
    | exact h1
    | exact h1.trans (IdsKept.addLink _ _ _ _)

theorem addMember_idsKept (s : Store) (g b : ObjId) (k n i : String) : IdsKept s (addMember s g b k n i).1 := by
  unfold addMember
  have h1 := IdsKept.openGroupCreate s g (groupContainer k)
  simp only
  repeat' split
  all_goals first
    | exact h1
    | exact h1.trans (IdsKept.addLink _ _ _ _)

theorem unitRes_fst {α : Type} (r : Res α) : (unitRes r).1 = r.1 := by
  obtain ⟨s, x⟩ := r; cases x <;> rfl

/-- the side conditions under which `entity_id_immutable` is stated: handles denote objects, setters do not address the id
    attribute (no front-end setter does), and a new feature id is not the name of an existing feature of the tag (fresh ids) -/
def Op.idSafe (s : Store) : Op → Prop
  | .createSection p _ _ _ _ => ∀ x, p = some x → x < s.objs.length
  | .createSubSource p _ _ _ _ => p < s.objs.length
  | .createGroup b _ _ _ _ | .createSource b _ _ _ _ | .createDataArray b _ _ _ _ _ _ | .createDataFrame b _ _ _ _ _ _ _
  | .createTag b _ _ _ _ _ | .createMultiTag b _ _ _ _ _ => b < s.objs.length
  | .createProperty sec _ _ _ _ => sec < s.objs.length
  | .createFeature tag _ id _ _ _ => tag < s.objs.length ∧ ∀ x, s.optGroup tag "features" = some x → s.hasGroup x id = false
  | .setNonEmpty _ k _ | .unsetAttr _ k | .setAttr _ k _ => k ≠ "entity_id"
  | _ => True


theorem createDataArray_idsKept (s : Store) (b : ObjId) (n t i c dt sh : String) (hb : b < s.objs.length) :
    IdsKept s (createDataArray s b n t i c dt sh).1 := by
  unfold createDataArray
  have hk := createInBlock_idsKept s b "A" n t i c hb
  repeat' split
  all_goals first
    | exact IdsKept.refl s
    | (rename_i heq; rw [heq] at hk; exact hk)
    | (rename_i heq; rw [heq] at hk
       exact (hk.trans (IdsKept.setAttr_key _ _ "ds:dtype" dt (by decide))).trans (IdsKept.setAttr_key _ _ "ds:shape" sh (by decide)))

theorem createTag_idsKept (s : Store) (b : ObjId) (n t i c pos : String) (hb : b < s.objs.length) :
    IdsKept s (createTag s b n t i c pos).1 := by
  unfold createTag
  have hk := createInBlock_idsKept s b "T" n t i c hb
  split
  · rename_i heq; rw [heq] at hk; exact hk
  · rename_i heq; rw [heq] at hk; exact hk.trans (IdsKept.setAttr_key _ _ "ds:position" pos (by decide))

theorem createDataFrame_idsKept (s : Store) (b : ObjId) (n t i c : String) (ns ts : List String) (cols : String) (hb : b < s.objs.length) :
    IdsKept s (createDataFrame s b n t i c ns ts cols).1 := by
  unfold createDataFrame
  have hk := createInBlock_idsKept s b "D" n t i c hb
  repeat' split
  all_goals first
    | exact IdsKept.refl s
    | (rename_i heq; rw [heq] at hk; exact hk)
    | (rename_i heq; rw [heq] at hk; exact hk.trans (IdsKept.setAttr_key _ _ "ds:cols" cols (by decide)))

theorem createMultiTag_idsKept (s : Store) (b : ObjId) (n t i c : String) (ph : Option Handle) (hb : b < s.objs.length) :
    IdsKept s (createMultiTag s b n t i c ph).1 := by
  unfold createMultiTag
  have hk := createInBlock_idsKept s b "M" n t i c hb
  split
  · exact IdsKept.refl s
  · split
    · exact IdsKept.refl s
    · split
      · exact IdsKept.refl s
      · split
        · exact IdsKept.refl s
        · split
          · exact IdsKept.refl s
          · generalize createInBlock s b "M" n t i c = r at hk ⊢
            obtain ⟨s1, x⟩ := r
            cases x with
            | error e => exact hk
            | ok g =>
              simp only
              rename_i ph' _ _ _
              have h2 := setArrayLink_idsKept s1 g b "positions" (idOf s1 ph'.obj)
              generalize setArrayLink s1 g b "positions" (idOf s1 ph'.obj) = r2 at h2 ⊢
              obtain ⟨s2, y⟩ := r2
              cases y <;> exact hk.trans h2

theorem propertyCreated_idsKept (s : Store) (sec : ObjId) (n i c dt : String) :
    IdsKept s ((((((((s.openGroupCreate sec "properties").1.alloc { isGroup := false }).1.addLink (s.openGroupCreate sec "properties").2 n
      ((s.openGroupCreate sec "properties").1.alloc { isGroup := false }).2).setAttr
      ((s.openGroupCreate sec "properties").1.alloc { isGroup := false }).2 "entity_id" i).setAttr
      ((s.openGroupCreate sec "properties").1.alloc { isGroup := false }).2 "created_at" c).setAttr
      ((s.openGroupCreate sec "properties").1.alloc { isGroup := false }).2 "name" n).setAttr
      ((s.openGroupCreate sec "properties").1.alloc { isGroup := false }).2 "ds:dtype" dt)) := by
  have h1 := IdsKept.openGroupCreate s sec "properties"
  have hlen : s.objs.length ≤ ((s.openGroupCreate sec "properties").1.alloc { isGroup := false }).2 := by
    rw [alloc_snd]; exact h1.1
  have h2 : IdsKept s ((s.openGroupCreate sec "properties").1.alloc { isGroup := false }).1 :=
    h1.trans ⟨by rw [length_alloc]; omega, fun o ho => attr?_alloc_old _ _ o _ ho⟩
  have h3 := h2.trans (IdsKept.addLink ((s.openGroupCreate sec "properties").1.alloc { isGroup := false }).1
    (s.openGroupCreate sec "properties").2 n ((s.openGroupCreate sec "properties").1.alloc { isGroup := false }).2)
  exact (((h3.setAttr_new _ "entity_id" i hlen).setAttr_new _ "created_at" c hlen).setAttr_new _ "name" n hlen).setAttr_new _ "ds:dtype" dt hlen

theorem createProperty_idsKept (s : Store) (sec : ObjId) (n i c dt : String) : IdsKept s (createProperty s sec n i c dt).1 := by
  unfold createProperty
  cases hc : checkName n with
  | error e => exact IdsKept.refl s
  | ok u =>
    simp only
    have fin : IdsKept s (if (!dtypeStorable dt) = true then (s, (Except.error Err.stdInvalidArgument : Except Err ObjId))
        else
          (((((((s.openGroupCreate sec "properties").1.alloc { isGroup := false }).1.addLink
              (s.openGroupCreate sec "properties").2 n ((s.openGroupCreate sec "properties").1.alloc { isGroup := false }).2).setAttr
              ((s.openGroupCreate sec "properties").1.alloc { isGroup := false }).2 "entity_id" i).setAttr
              ((s.openGroupCreate sec "properties").1.alloc { isGroup := false }).2 "created_at" c).setAttr
              ((s.openGroupCreate sec "properties").1.alloc { isGroup := false }).2 "name" n).setAttr
              ((s.openGroupCreate sec "properties").1.alloc { isGroup := false }).2 "ds:dtype" dt,
            Except.ok ((s.openGroupCreate sec "properties").1.alloc { isGroup := false }).2)).1 := by
      by_cases h2 : dtypeStorable dt = true
      · simp only [h2, Bool.not_true, Bool.false_eq_true, if_false]
        exact propertyCreated_idsKept s sec n i c dt
      · have h2' : dtypeStorable dt = false := by simpa using h2
        simp only [h2', Bool.not_false, if_true]
        exact IdsKept.refl s
    cases hopt : s.optGroup sec "properties" with
    | none => simp only [Option.isSome_none, Bool.false_eq_true, if_false]; exact fin
    | some cc =>
      simp only
      by_cases hf : (s.findDataByNameOrAttribute cc "entity_id" n).isSome = true
      · simp only [hf, if_true]; exact IdsKept.refl s
      · simp only [hf, if_false]; exact fin

theorem createFeature_idsKept (s : Store) (tag b : ObjId) (i c lt : String) (dh : Option Handle) (ht : tag < s.objs.length)
    (hfresh : ∀ x, s.optGroup tag "features" = some x → s.hasGroup x i = false) : IdsKept s (createFeature s tag b i c lt dh).1 := by
  unfold createFeature
  obtain ⟨hk, hnew⟩ := create2_new s tag "features" i ht hfresh
  split
  · exact IdsKept.refl s
  · split
    · exact IdsKept.refl s
    · simp only
      split
      · exact IdsKept.refl s
      · rename_i dh' _ _
        have h3 := ((hk.setAttr_new _ "entity_id" i hnew).setAttr_new _ "created_at" c hnew).setAttr_new _ "link_type" lt hnew
        have h4 := setArrayLink_idsKept
          (((((s.openGroupCreate tag "features").1.openGroupCreate (s.openGroupCreate tag "features").2 i).1.setAttr
            ((s.openGroupCreate tag "features").1.openGroupCreate (s.openGroupCreate tag "features").2 i).2 "entity_id" i).setAttr
            ((s.openGroupCreate tag "features").1.openGroupCreate (s.openGroupCreate tag "features").2 i).2 "created_at" c).setAttr
            ((s.openGroupCreate tag "features").1.openGroupCreate (s.openGroupCreate tag "features").2 i).2 "link_type" lt)
          ((s.openGroupCreate tag "features").1.openGroupCreate (s.openGroupCreate tag "features").2 i).2 b "data" (idOf s dh'.obj)
        generalize setArrayLink _ _ b "data" (idOf s dh'.obj) = r2 at h4 ⊢
        obtain ⟨s2, y⟩ := r2
        cases y <;> exact h3.trans h4

/-- C12: no entry point of the store model changes the id of anything that exists — for EVERY operation and EVERY store -/
theorem entity_id_immutable (s : Store) (op : Op) (hsafe : op.idSafe s) : IdsKept s (op.apply s).1 := by
  cases op with
  | createBlock n t i c => simp only [Op.apply, unitRes_fst]; exact createBlock_idsKept s n t i c
  | createSection p n t i c => simp only [Op.apply, unitRes_fst]; exact createSectionIn_idsKept s p n t i c hsafe
  | createSubSource p n t i c => simp only [Op.apply, unitRes_fst]; exact createSourceIn_idsKept s p n t i c hsafe
  | createGroup b n t i c => simp only [Op.apply, unitRes_fst]; exact createInBlock_idsKept s b "G" n t i c hsafe
  | createSource b n t i c => simp only [Op.apply, unitRes_fst]; exact createInBlock_idsKept s b "O" n t i c hsafe
  | createDataArray b n t i c dt sh => simp only [Op.apply, unitRes_fst]; exact createDataArray_idsKept s b n t i c dt sh hsafe
  | createDataFrame b n t i c ns ts cols => simp only [Op.apply, unitRes_fst]; exact createDataFrame_idsKept s b n t i c ns ts cols hsafe
  | createTag b n t i c pos => simp only [Op.apply, unitRes_fst]; exact createTag_idsKept s b n t i c pos hsafe
  | createMultiTag b n t i c ph => simp only [Op.apply, unitRes_fst]; exact createMultiTag_idsKept s b n t i c ph hsafe
  | createProperty sec n i c dt => simp only [Op.apply, unitRes_fst]; exact createProperty_idsKept s sec n i c dt
  | createFeature tg b i c lt dh => simp only [Op.apply, unitRes_fst]; exact createFeature_idsKept s tg b i c lt dh hsafe.1 hsafe.2
  | setSectionLink o f id => exact setSectionLink_idsKept s o f id
  | unsetLink o f => exact IdsKept.removeGroup s o f
  | setArrayLink o b f k => exact setArrayLink_idsKept s o b f k
  | setExtents m b k => exact setExtents_idsKept s m b k
  | addReference t b k => exact addReference_idsKept s t b k
  | addSource o b id => exact addSource_idsKept s o b id
  | addMember g b k n i => exact addMember_idsKept s g b k n i
  | setNonEmpty o k v =>
    simp only [Op.apply, setNonEmpty]
    split
    · exact IdsKept.refl s
    · exact IdsKept.setAttr_key s o k v hsafe
  | unsetAttr o k => exact IdsKept.removeAttr_key s o k hsafe
  | setAttr o k v => exact IdsKept.setAttr_key s o k v hsafe
  | deleteBlock k => obtain ⟨D, h⟩ := (delete_only_unlinks s).1 k; simp only [Op.apply, okRes, h]; exact IdsKept.unlinkAll s D
  | deleteSection p k => obtain ⟨D, h⟩ := (delete_only_unlinks s).2.1 p k; simp only [Op.apply, okRes, h]; exact IdsKept.unlinkAll s D
  | deleteSubSource p k => obtain ⟨D, h⟩ := (delete_only_unlinks s).2.2.1 p k; simp only [Op.apply, okRes, h]; exact IdsKept.unlinkAll s D
  | deleteBlockSource b k => obtain ⟨D, h⟩ := (delete_only_unlinks s).2.2.2.1 b k; simp only [Op.apply, okRes, h]; exact IdsKept.unlinkAll s D
  | removeEntity b kd n i => obtain ⟨D, h⟩ := (delete_only_unlinks s).2.2.2.2 b kd n i; simp only [Op.apply, okRes, h]; exact IdsKept.unlinkAll s D
  | deleteProperty sec k =>
    simp only [Op.apply, okRes, deleteProperty]
    repeat' split
    all_goals first
      | exact IdsKept.refl s
      | exact IdsKept.removeData s _ _
  | removeReference t b k =>
    simp only [Op.apply, okRes, removeReference]
    repeat' split
    all_goals first
      | exact IdsKept.refl s
      | exact IdsKept.removeGroup s _ _
  | removeSource o id =>
    simp only [Op.apply, okRes, removeSource]
    repeat' split
    all_goals first
      | exact IdsKept.refl s
      | exact IdsKept.removeGroup s _ _
  | removeMember g kd n i =>
    simp only [Op.apply, okRes, removeMember]
    repeat' split
    all_goals first
      | exact IdsKept.refl s
      | exact IdsKept.removeGroup s _ _

/-- and so across every history whose operations meet the side conditions when they are applied -/
theorem history_ids_kept (ops : List Op) (s : Store) (h : ∀ (pre : List Op) (op : Op) (post : List Op), ops = pre ++ op :: post → op.idSafe (run s pre)) :
    IdsKept s (run s ops) := by
  induction ops generalizing s with
  | nil => exact IdsKept.refl s
  | cons op rest ih =>
    have h0 : op.idSafe s := h [] op rest rfl
    have h1 := entity_id_immutable s op h0
    have h2 := ih (op.apply s).1 (fun pre o post he => by
      have := h (op :: pre) o post (by rw [he]; rfl)
      simpa [run] using this)
    exact h1.trans h2

end Nix.St
