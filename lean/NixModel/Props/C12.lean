import NixModel.Ids
/-
  C12 — ids.  Theorems about the id model (lean/NixModel/Ids.lean).
-/
set_option linter.unusedSectionVars false
set_option linter.unusedSimpArgs false
set_option linter.unusedVariables false
namespace Nix.C12
open Nix Nix.Ids

/-! ### the text form -/

theorem isHex_hexDigit : ∀ n : Fin 16, Dump.isHex (hexDigit n.val) = true := by decide

theorem hexDigit_inj : ∀ m n : Fin 16, hexDigit m.val = hexDigit n.val → m = n := by decide

theorem isHex_hi (b : Byte) : Dump.isHex (hexDigit (b.val / 16)) = true :=
  isHex_hexDigit ⟨b.val / 16, by have := b.isLt; omega⟩
theorem isHex_lo (b : Byte) : Dump.isHex (hexDigit (b.val % 16)) = true :=
  isHex_hexDigit ⟨b.val % 16, by omega⟩

theorem version_nibble : ∀ b : Byte, hexDigit ((stampVersion b).val / 16) = '4' := by decide +kernel
theorem variant_nibble : ∀ b : Byte, let c := hexDigit ((stampVariant b).val / 16); c = '8' ∨ c = '9' ∨ c = 'a' ∨ c = 'b' := by decide +kernel

theorem range36 : List.range 36 = [0, 1, 2, 3, 4, 5, 6, 7, 8, 9, 10, 11, 12, 13, 14, 15, 16, 17, 18, 19, 20, 21, 22, 23, 24, 25, 26, 27,
    28, 29, 30, 31, 32, 33, 34, 35] := by decide

/-- the text of any 16 bytes is 8-4-4-4-12 lower-case hex -/
theorem uuidChars_wellformed (bs : List Byte) (h : bs.length = 16) : Dump.wellFormedUUID (String.ofList (uuidChars bs)) = true := by
  match bs, h with
  | [b0, b1, b2, b3, b4, b5, b6, b7, b8, b9, b10, b11, b12, b13, b14, b15], _ =>
    simp [Dump.wellFormedUUID, uuidChars, hexOf, byteHex, List.take, List.drop, range36, isHex_hi, isHex_lo]

/-- **uuidText_wellformed** — for every 128-bit value the generator can draw, the id is a well-formed UUID: 8-4-4-4-12 lower-case hex,
    version nibble 4, variant bits 10 -/
theorem uuidText_wellformed (v : BitVec 128) : wellFormedV4 (uuidText v) = true := by
  have hlen : (bytesOf v).length = 16 := by simp [bytesOf]
  match hb : bytesOf v, hlen with
  | [b0, b1, b2, b3, b4, b5, b6, b7, b8, b9, b10, b11, b12, b13, b14, b15], _ =>
    have hs : stamp [b0, b1, b2, b3, b4, b5, b6, b7, b8, b9, b10, b11, b12, b13, b14, b15] =
        [b0, b1, b2, b3, b4, b5, stampVersion b6, b7, stampVariant b8, b9, b10, b11, b12, b13, b14, b15] := by
      simp [stamp, List.set, List.getD]
    have hw := uuidChars_wellformed [b0, b1, b2, b3, b4, b5, stampVersion b6, b7, stampVariant b8, b9, b10, b11, b12, b13, b14, b15] rfl
    unfold wellFormedV4 uuidText
    rw [hb, hs, hw]
    simp only [uuidChars, hexOf, byteHex, List.take, List.drop, List.flatMap_cons, List.flatMap_nil, List.cons_append,
      List.nil_append, List.append_nil, String.toList_ofList, List.getElem?_cons_zero, List.getElem?_cons_succ, version_nibble]
    rcases variant_nibble b8 with h | h | h | h <;> simp [h]

/-- two bytes with the same two hex digits are the same byte -/
theorem byte_inj (b c : Byte) (hhi : hexDigit (b.val / 16) = hexDigit (c.val / 16)) (hlo : hexDigit (b.val % 16) = hexDigit (c.val % 16)) :
    b = c := by
  have h1 := hexDigit_inj ⟨b.val / 16, by have := b.isLt; omega⟩ ⟨c.val / 16, by have := c.isLt; omega⟩ hhi
  have h2 := hexDigit_inj ⟨b.val % 16, by omega⟩ ⟨c.val % 16, by omega⟩ hlo
  simp only [Fin.mk.injEq] at h1 h2
  exact Fin.ext (by omega)

/-- **uuidText_injective** — the text form loses nothing: two 16-byte values with the same text are equal -/
theorem uuidChars_injective (bs cs : List Byte) (hb : bs.length = 16) (hc : cs.length = 16)
    (h : String.ofList (uuidChars bs) = String.ofList (uuidChars cs)) : bs = cs := by
  have h' : uuidChars bs = uuidChars cs := by
    have := congrArg String.toList h
    simpa [String.toList_ofList] using this
  match bs, hb, cs, hc with
  | [b0, b1, b2, b3, b4, b5, b6, b7, b8, b9, b10, b11, b12, b13, b14, b15], _,
    [c0, c1, c2, c3, c4, c5, c6, c7, c8, c9, c10, c11, c12, c13, c14, c15], _ =>
    simp only [uuidChars, hexOf, byteHex, List.take, List.drop, List.flatMap_cons, List.flatMap_nil, List.cons_append,
      List.nil_append, List.append_nil, List.cons.injEq, and_true, true_and] at h'
    obtain ⟨a0, a0', a1, a1', a2, a2', a3, a3', a4, a4', a5, a5', a6, a6', a7, a7', a8, a8', a9, a9', a10, a10', a11, a11',
      a12, a12', a13, a13', a14, a14', a15, a15'⟩ := h'
    rw [byte_inj b0 c0 a0 a0', byte_inj b1 c1 a1 a1', byte_inj b2 c2 a2 a2', byte_inj b3 c3 a3 a3', byte_inj b4 c4 a4 a4',
      byte_inj b5 c5 a5 a5', byte_inj b6 c6 a6 a6', byte_inj b7 c7 a7 a7', byte_inj b8 c8 a8 a8', byte_inj b9 c9 a9 a9',
      byte_inj b10 c10 a10 a10', byte_inj b11 c11 a11 a11', byte_inj b12 c12 a12 a12', byte_inj b13 c13 a13 a13',
      byte_inj b14 c14 a14 a14', byte_inj b15 c15 a15 a15']

/-- **uuidText_injective** — as a function of the UUID value (the 16 bytes after the stamps) the id text is injective.  (As a function
    of the raw 128 random bits it cannot be: the stamps overwrite 6 of them — see `uuidText_eq_iff`.) -/
theorem uuidText_injective (bs cs : List Byte) (hb : bs.length = 16) (hc : cs.length = 16)
    (h : String.ofList (uuidChars bs) = String.ofList (uuidChars cs)) : bs = cs := uuidChars_injective bs cs hb hc h

theorem stamp_length (bs : List Byte) : (stamp bs).length = bs.length := by simp [stamp]

/-- two draws give the same id exactly when they agree on the 122 bits the stamps leave free -/
theorem uuidText_eq_iff (v w : BitVec 128) : uuidText v = uuidText w ↔ stamp (bytesOf v) = stamp (bytesOf w) := by
  constructor
  · intro h
    exact uuidChars_injective _ _ (by simp [stamp_length, bytesOf]) (by simp [stamp_length, bytesOf]) h
  · intro h; simp [uuidText, h]

/-! ### distinctness, given a fresh source -/

/-- what the theorems need from an id source: it never hands out the same id twice (across every session and process that ever
    writes to the file — the draws are numbered globally) -/
def FreshIds (src : Nat → String) : Prop := ∀ m n, src m = src n → m = n

def Inv (src : Nat → String) (f : File) : Prop :=
  (f.ents.map (·.id)).Nodup ∧ f.fileId ∉ f.ents.map (·.id) ∧ ∀ i ∈ f.allIds, ∃ n, n < f.drawn ∧ src n = i

theorem inv_new (src : Nat → String) : Inv src (newFile src) := by
  refine ⟨by simp [newFile], by simp [newFile], ?_⟩
  intro i hi
  simp only [File.allIds, newFile, List.map_nil, List.mem_cons, List.not_mem_nil, or_false] at hi
  exact ⟨0, by simp [newFile], hi.symm⟩

theorem map_id_modify (ents : List Ent) (k : Nat) (n : String) :
    (ents.map fun e => if e.key == k then { e with name := n } else e).map (·.id) = ents.map (·.id) := by
  induction ents with
  | nil => rfl
  | cons e es ih =>
    simp only [List.map_cons, List.cons.injEq]
    exact ⟨by split <;> rfl, ih⟩

theorem step_inv (src : Nat → String) (hf : FreshIds src) (f : File) (op : Op) (h : Inv src f) : Inv src (step src f op) := by
  obtain ⟨hnd, hfile, hsrc⟩ := h
  cases op with
  | create name =>
    simp only [step]
    split
    · exact ⟨hnd, hfile, hsrc⟩
    · have hnew : ∀ i ∈ f.allIds, i ≠ src f.drawn := by
        intro i hi heq
        obtain ⟨n, hn, hsn⟩ := hsrc i hi
        have := hf n f.drawn (hsn.trans heq)
        omega
      refine ⟨?_, ?_, ?_⟩
      · simp only [List.map_append, List.map_cons, List.map_nil]
        rw [List.nodup_append]
        refine ⟨hnd, by simp, ?_⟩
        intro a ha b hb
        simp only [List.mem_cons, List.not_mem_nil, or_false] at hb
        subst hb
        exact hnew a (by simp [File.allIds, ha])
      · simp only [List.map_append, List.map_cons, List.map_nil, List.mem_append, List.mem_cons, List.not_mem_nil, or_false, not_or]
        exact ⟨hfile, hnew f.fileId (by simp [File.allIds])⟩
      · intro i hi
        simp only [File.allIds, List.map_append, List.map_cons, List.map_nil, List.mem_cons, List.mem_append, List.not_mem_nil, or_false] at hi
        rcases hi with hi | hi | hi
        · obtain ⟨n, hn, hsn⟩ := hsrc i (by simp [File.allIds, hi]); exact ⟨n, by simp only; omega, hsn⟩
        · obtain ⟨n, hn, hsn⟩ := hsrc i (by simp [File.allIds, hi]); exact ⟨n, by simp only; omega, hsn⟩
        · exact ⟨f.drawn, by simp only; omega, hi.symm⟩
  | delete k =>
    simp only [step]
    have hsub : ∀ i ∈ (f.ents.filter (·.key != k)).map (·.id), i ∈ f.ents.map (·.id) := by
      intro i hi
      simp only [List.mem_map, List.mem_filter] at hi ⊢
      obtain ⟨e, ⟨he, _⟩, hei⟩ := hi
      exact ⟨e, he, hei⟩
    refine ⟨?_, fun hm => hfile (hsub _ hm), ?_⟩
    · exact List.Nodup.sublist (List.Sublist.map _ List.filter_sublist) hnd
    · intro i hi
      simp only [File.allIds, List.mem_cons] at hi
      rcases hi with hi | hi
      · exact hsrc i (by simp [File.allIds, hi])
      · exact hsrc i (by simp only [File.allIds, List.mem_cons]; right; exact hsub i hi)
  | modify k n =>
    simp only [step]
    refine ⟨by rw [map_id_modify]; exact hnd, by rw [map_id_modify]; exact hfile, ?_⟩
    intro i hi
    simp only [File.allIds, map_id_modify] at hi
    exact hsrc i hi
  | reopen => exact ⟨hnd, hfile, hsrc⟩
  | forceId =>
    simp only [step]
    have hnew : ∀ i ∈ f.ents.map (·.id), i ≠ src f.drawn := by
      intro i hi heq
      obtain ⟨n, hn, hsn⟩ := hsrc i (by simp only [File.allIds, List.mem_cons]; right; exact hi)
      have := hf n f.drawn (hsn.trans heq)
      omega
    refine ⟨hnd, fun hm => hnew _ hm rfl, ?_⟩
    intro i hi
    simp only [File.allIds, List.mem_cons] at hi
    rcases hi with hi | hi
    · exact ⟨f.drawn, by simp only; omega, hi.symm⟩
    · obtain ⟨n, hn, hsn⟩ := hsrc i (by simp only [File.allIds, List.mem_cons]; right; exact hi)
      exact ⟨n, by simp only; omega, hsn⟩

/-- **ids_distinct_invariant** — given a source that never repeats itself, after every history of creations, deletions, modifications,
    close/reopen cycles and forceId calls the file id and all entity ids in the file are pairwise distinct -/
theorem ids_distinct_invariant (src : Nat → String) (hf : FreshIds src) (ops : List Op) : (run src (newFile src) ops).allIds.Nodup := by
  have key : ∀ (f : File), Inv src f → ∀ ops, Inv src (run src f ops) := by
    intro f h ops
    induction ops generalizing f with
    | nil => exact h
    | cons o ops ih => simp only [run, List.foldl_cons]; exact ih _ (step_inv src hf f o h)
  obtain ⟨hnd, hfile, _⟩ := key _ (inv_new src) ops
  simp only [File.allIds, List.nodup_cons]
  exact ⟨hfile, hnd⟩

/-! ### immutability -/

theorem find_filter_ne (ents : List Ent) (k d : Nat) (h : k ≠ d) :
    (ents.filter (·.key != d)).find? (·.key == k) = ents.find? (·.key == k) := by
  induction ents with
  | nil => rfl
  | cons e es ih =>
    rw [List.filter_cons]
    by_cases hd : e.key = d
    · have hk : (e.key == k) = false := by simp only [beq_eq_false_iff_ne, ne_eq]; omega
      have hd' : (e.key != d) = false := by simp [hd]
      rw [hd']
      simp only [Bool.false_eq_true, ↓reduceIte, List.find?_cons, hk]
      exact ih
    · have hd' : (e.key != d) = true := by simp [hd]
      rw [hd']
      simp only [↓reduceIte, List.find?_cons]
      cases hk : (e.key == k)
      · exact ih
      · rfl

theorem find_map_key (g : Ent → Ent) (hkey : ∀ e, (g e).key = e.key) (hid : ∀ e, (g e).id = e.id) (ents : List Ent) (k : Nat) :
    ((ents.map g).find? (·.key == k)).map (·.id) = (ents.find? (·.key == k)).map (·.id) := by
  induction ents with
  | nil => rfl
  | cons e es ih =>
    simp only [List.map_cons, List.find?_cons, hkey]
    cases (e.key == k)
    · exact ih
    · simp [hid]

theorem find_modify (ents : List Ent) (k m : Nat) (n : String) :
    ((ents.map fun e => if e.key == m then { e with name := n } else e).find? (·.key == k)).map (·.id) =
      (ents.find? (·.key == k)).map (·.id) :=
  find_map_key _ (by intro e; split <;> rfl) (by intro e; split <;> rfl) ents k

/-- **id_immutable** — no operation other than `File::forceId` changes an existing id: an entity that exists before and after a step has
    the id it had, and the file keeps its id -/
theorem id_immutable (src : Nat → String) (f : File) (op : Op) (hop : op ≠ .forceId) :
    (step src f op).fileId = f.fileId ∧
    ∀ k i, f.idOf k = some i → ((step src f op).idOf k = some i ∨ (step src f op).idOf k = none) := by
  cases op with
  | forceId => exact absurd rfl hop
  | reopen => exact ⟨rfl, fun k i h => Or.inl h⟩
  | create name =>
    simp only [step]
    split
    · exact ⟨rfl, fun k i h => Or.inl h⟩
    · refine ⟨rfl, fun k i h => Or.inl ?_⟩
      simp only [File.idOf] at h ⊢
      cases hfind : f.ents.find? (·.key == k) with
      | none => rw [hfind] at h; cases h
      | some e => rw [hfind] at h; simp [List.find?_append, hfind, h]
  | delete d =>
    refine ⟨rfl, fun k i h => ?_⟩
    by_cases hk : k = d
    · right
      subst hk
      simp only [step, File.idOf, Option.map_eq_none_iff, List.find?_eq_none, List.mem_filter]
      intro e ⟨_, he⟩
      simpa using he
    · left
      simp only [step, File.idOf]
      rw [find_filter_ne f.ents k d hk]
      exact h
  | modify m n =>
    refine ⟨rfl, fun k i h => Or.inl ?_⟩
    simp only [step, File.idOf]
    rw [find_modify]
    exact h

/-- keys are handed out in increasing order and never reused -/
def KeysOk (f : File) : Prop := ∀ e ∈ f.ents, e.key < f.nextKey

theorem step_keysOk (src : Nat → String) (f : File) (op : Op) (h : KeysOk f) :
    KeysOk (step src f op) ∧ f.nextKey ≤ (step src f op).nextKey := by
  cases op with
  | create name =>
    simp only [step]
    split
    · exact ⟨h, Nat.le_refl _⟩
    · refine ⟨?_, by simp⟩
      intro e he
      simp only [List.mem_append, List.mem_cons, List.not_mem_nil, or_false] at he
      rcases he with he | he
      · have := h e he; simp only; omega
      · subst he; simp
  | delete d =>
    refine ⟨?_, Nat.le_refl _⟩
    intro e he
    simp only [step, List.mem_filter] at he
    exact h e he.1
  | modify m n =>
    refine ⟨?_, Nat.le_refl _⟩
    intro e he
    simp only [step, List.mem_map] at he
    obtain ⟨e', he', rfl⟩ := he
    have := h e' he'
    show (if (e'.key == m) = true then { e' with name := n } else e').key < f.nextKey
    split <;> exact this
  | reopen => exact ⟨h, Nat.le_refl _⟩
  | forceId => exact ⟨h, Nat.le_refl _⟩

theorem idOf_none_step (src : Nat → String) (f : File) (k : Nat) (hk : k < f.nextKey) (h : f.idOf k = none) (op : Op) :
    (step src f op).idOf k = none := by
  simp only [File.idOf, Option.map_eq_none_iff] at h
  cases op with
  | create name =>
    simp only [step]
    split
    · simpa [File.idOf] using h
    · have : (f.nextKey == k) = false := by simp only [beq_eq_false_iff_ne, ne_eq]; omega
      simp [File.idOf, List.find?_append, h, List.find?, this]
  | delete d =>
    simp only [step, File.idOf, Option.map_eq_none_iff, List.find?_eq_none, List.mem_filter]
    rw [List.find?_eq_none] at h
    intro e ⟨he, _⟩; exact h e he
  | modify m n =>
    have := find_modify f.ents k m n
    simp only [step, File.idOf]
    rw [this]; simp [h]
  | reopen => simpa [File.idOf, step] using h
  | forceId => simpa [File.idOf, step] using h

theorem idOf_some_lt (f : File) (hk : KeysOk f) (k : Nat) (i : String) (h : f.idOf k = some i) : k < f.nextKey := by
  simp only [File.idOf, Option.map_eq_some_iff] at h
  obtain ⟨e, he, _⟩ := h
  have hm := List.mem_of_find?_eq_some he
  have hkey := List.find?_some he
  have := hk e hm
  simp only [beq_iff_eq] at hkey
  omega

/-- over whole histories without forceId: the file id is constant, and an entity keeps its id for as long as it exists — once deleted
    its key (and so its place) is never taken by another entity -/
theorem id_immutable_history (src : Nat → String) (f : File) (hk : KeysOk f) (ops : List Op) (hops : ∀ o ∈ ops, o ≠ .forceId) :
    (run src f ops).fileId = f.fileId ∧
    ∀ k i, f.idOf k = some i → ((run src f ops).idOf k = some i ∨ (run src f ops).idOf k = none) := by
  have gone : ∀ (ops : List Op) (g : File) (k : Nat), KeysOk g → k < g.nextKey → g.idOf k = none → (run src g ops).idOf k = none := by
    intro ops
    induction ops with
    | nil => intro g k _ _ h; exact h
    | cons o ops ih =>
      intro g k hg hlt h
      simp only [run, List.foldl_cons]
      have := step_keysOk src g o hg
      exact ih _ k this.1 (by omega) (idOf_none_step src g k hlt h o)
  induction ops generalizing f with
  | nil => exact ⟨rfl, fun k i h => Or.inl h⟩
  | cons o ops ih =>
    have ho := hops o (List.mem_cons_self)
    have hrest : ∀ o' ∈ ops, o' ≠ .forceId := fun o' h => hops o' (List.mem_cons_of_mem _ h)
    obtain ⟨h1, h2⟩ := id_immutable src f o ho
    have hk' := step_keysOk src f o hk
    obtain ⟨h3, h4⟩ := ih (step src f o) hk'.1 hrest
    simp only [run, List.foldl_cons] at h3 h4 ⊢
    refine ⟨h3.trans h1, fun k i h => ?_⟩
    rcases h2 k i h with h' | h'
    · exact h4 k i h'
    · right
      have hlt := idOf_some_lt f hk k i h
      have := gone ops (step src f o) k hk'.1 (by omega) h'
      simpa [run] using this

/-! ### the negative: a generator that is a function of its seed -/

variable {State Seed : Type}

/-- **same_seed_same_ids** — two processes whose generators were seeded with the same value create the same ids, in the same order -/
theorem same_seed_same_ids (g : Gen State Seed) (s₁ s₂ : Seed) (h : s₁ = s₂) (n : Nat) : g.draw s₁ n = g.draw s₂ n := by
  subst h; rfl

/-- the formal reason seeding with `time(0)` violates the property: if the seed is the second in which the process started, two
    processes started in the same second are not a fresh source — whatever the generator is -/
theorem time_seeded_not_fresh (g : Gen State Nat) (startSecond : Nat → Nat) (p q : Nat) (hpq : p ≠ q)
    (hsame : startSecond p = startSecond q) :
    ¬ (∀ a b : Nat × Nat, g.draw (startSecond a.1) a.2 = g.draw (startSecond b.1) b.2 → a = b) := by
  intro hinj
  have := hinj (p, 0) (q, 0) (same_seed_same_ids g _ _ hsame 0)
  simp only [Prod.mk.injEq, and_true] at this
  exact hpq this

/-! ### non-vacuity -/

example : uuidText 0 = "00000000-0000-4000-8000-000000000000" := by decide
example : wellFormedV4 "12345678-1234-4234-9234-123456789abc" = true := by decide
example : wellFormedV4 "12345678-1234-1234-1234-123456789abc" = false := by decide
example : inImageOfUuidText "12345678-1234-4234-9234-123456789abc" = true := by decide
example : inImageOfUuidText "12345678-1234-4234-c234-123456789abc" = false := by decide
-- a counter standing in for a fresh source
def exSrc (n : Nat) : String := uuidText (BitVec.ofNat 128 (n * 2 ^ 64 + n))
example : (run exSrc (newFile exSrc) [.create "a", .create "b", .create "a", .delete 0, .reopen, .create "c", .forceId, .modify 1 "z"]).allIds.length = 3 := by
  decide
-- a source that repeats itself breaks distinctness: the hypothesis is needed
example : ¬ (run (fun _ => "x") (newFile fun _ => "x") [.create "a"]).allIds.Nodup := by decide
-- forceId does change the file id: the exception in id_immutable is needed
example : (step exSrc (newFile exSrc) .forceId).fileId ≠ (newFile exSrc).fileId := by decide

end Nix.C12
