import NixModel.Proofs.IdUniq
import NixModel.Props.C03Schema
/-
  C03 / C12 — lookups by id in EVERY reachable state, ids pairwise distinct in EVERY reachable state.

  `Props/C03.lean` proves the lookup theorems under the hypothesis `Container s c` (names distinct and non-empty, children groups,
  ids distinct).  Here the hypothesis is discharged for every state a history of API calls can produce:
    * the schema invariant `WT` (Proofs/Roles*.lean) gives: children of a container are groups, non-empty names are distinct;
    * the id invariant `IdUniq` (Proofs/IdUniq.lean) gives: no two objects of the file carry the same id —
  provided every creating call was handed an id that is new to the file (`FreshRun`; that the generator never repeats an id is
  C12's other half, decided by the process-level checks, not by the store model).
-/
namespace Nix.St
open Store

/-- a state produced by a history of calls on a new file in which every call gets objects of the role its signature guarantees
    and every creating call an id that is new to the file -/
def ReachableFresh (s : Store) (ρ : ObjId → Role) : Prop :=
  ∃ id created format version ops, KindedRun (newFile id created format version) initRoles ops ∧
    FreshRun (newFile id created format version) ops ∧
    s = run (newFile id created format version) ops ∧ ρ = runRoles (newFile id created format version) initRoles ops

theorem ReachableFresh.reachable {s : Store} {ρ : ObjId → Role} (h : ReachableFresh s ρ) : Reachable s ρ := by
  obtain ⟨id, created, format, version, ops, hk, _, hs, hr⟩ := h
  exact ⟨id, created, format, version, ops, hk, hs, hr⟩

/-- C12: in every reachable file no two objects — entities of any kind, properties, deleted ones included — carry the same id -/
theorem ids_pairwise_distinct {s : Store} {ρ : ObjId → Role} (h : ReachableFresh s ρ) : IdUniq s := by
  obtain ⟨id, created, format, version, ops, _, hf, rfl, _⟩ := h
  exact run_idUniq _ ops (newFile_idUniq id created format version) hf

/-- the lookup by attribute returns the owner of the id, whatever else the container holds: under `IdUniq` the first child that
    carries the id IS the owner -/
theorem findGroupByAttribute_of_idUniq (s : Store) (c : ObjId) (hU : IdUniq s) (n id : String) (t : ObjId)
    (hm : (n, t) ∈ s.linksOf c) (hg : s.isGroupObj t = true) (hid : s.attr? t "entity_id" = some id) :
    s.findGroupByAttribute c "entity_id" id = some t := by
  unfold findGroupByAttribute
  cases hf : (s.linksOf c).find? (fun l => s.isGroupObj l.2 && s.attr? l.2 "entity_id" == some id) with
  | none =>
    have := List.find?_eq_none.mp hf (n, t) hm
    simp [hg, hid] at this
  | some l =>
    have hp := List.find?_some hf
    simp only [Bool.and_eq_true, beq_iff_eq] at hp
    simp only [Option.map_some]
    exact congrArg some (hU l.2 t id hp.2 hid)

/-- C03, lookup by id, for every container of every reachable file: the child that carries the id is what the lookup returns
    (unless a sibling is NAMED like that id — the name wins, `find_by_id_shadowed`; creation refuses such a name) -/
theorem lookup_by_id_finds_the_entity {s : Store} {ρ : ObjId → Role} (h : ReachableFresh s ρ) (c : ObjId) (hc : ρ c ≠ .pcont)
    (n id : String) (t : ObjId) (hm : (n, t) ∈ s.linksOf c) (hid : s.attr? t "entity_id" = some id)
    (huuid : looksLikeUUID id = true) (hshadow : s.child? c id = none) :
    s.findGroupByNameOrAttribute c "entity_id" id = some t := by
  have hg := children_are_groups h.reachable c hc (n, t) hm
  have := findGroupByAttribute_of_idUniq s c (ids_pairwise_distinct h) n id t hm hg hid
  simp [findGroupByNameOrAttribute, hasObject, hshadow, huuid, this]

/-- … and the lookup by name, for every legal (non-empty) name -/
theorem lookup_by_name_finds_the_entity {s : Store} {ρ : ObjId → Role} (h : ReachableFresh s ρ) (c : ObjId)
    (n : String) (t : ObjId) (hn : n.isEmpty = false) (hm : (n, t) ∈ s.linksOf c) :
    s.findGroupByNameOrAttribute c "entity_id" n = some t := by
  have hl := lookup_by_name_finds_the_link h.reachable c n t hn hm
  simp [findGroupByNameOrAttribute, hasObject, hl, hn]

/-- the two lookups agree: by name and by id one reaches the same child (C03's "lookups agree with one another") -/
theorem lookups_by_name_and_id_agree {s : Store} {ρ : ObjId → Role} (h : ReachableFresh s ρ) (c : ObjId) (hc : ρ c ≠ .pcont)
    (n id : String) (t : ObjId) (hn : n.isEmpty = false) (hm : (n, t) ∈ s.linksOf c) (hid : s.attr? t "entity_id" = some id)
    (huuid : looksLikeUUID id = true) (hshadow : s.child? c id = none) :
    s.findGroupByNameOrAttribute c "entity_id" n = s.findGroupByNameOrAttribute c "entity_id" id := by
  rw [lookup_by_name_finds_the_entity h c n t hn hm, lookup_by_id_finds_the_entity h c hc n id t hm hid huuid hshadow]

/-- the `idsDistinct` clause of `Container` (Props/C03.lean) for the children of one container, in every reachable file: two
    DIFFERENT children never carry the same id -/
theorem children_ids_distinct {s : Store} {ρ : ObjId → Role} (h : ReachableFresh s ρ) (c : ObjId) (a b : String × ObjId)
    (_ha : a ∈ s.linksOf c) (_hb : b ∈ s.linksOf c) (hne : a.2 ≠ b.2) (id : String) (hida : s.attr? a.2 "entity_id" = some id) :
    s.attr? b.2 "entity_id" ≠ some id :=
  fun hidb => hne (ids_pairwise_distinct h a.2 b.2 id hida hidb)

/-- the has-query of a Group by HANDLE (name and id together, `GroupHDF5::findEntityGroup`): members are linked under their id, so
    an entity whose id is not linked there is not a member — whatever another member is called (false of the pinned tree, D44:
    the lookup fell back to a scan by name and `removeTag(entity)` removed a member of the same name) -/
theorem grpFind_by_handle_needs_the_id_link (s : Store) (grp p : ObjId) (kind iname iid : String)
    (hp : s.optGroup grp (groupContainer kind) = some p) (hn : iname.isEmpty = false) (hi : iid.isEmpty = false)
    (hl : s.hasObject p iid = false) : grpFind s grp kind iname iid = none := by
  simp [grpFind, hp, hn, hi, hl]

/-- non-vacuity: a history with two blocks, an array, a deletion and a re-creation under the same name is kinded and fresh, the
    re-created array is a new object with a new id and the old id still sits on the unlinked object -/
example :
    let s0 := newFile "f" "0" "xnix" "[1,2,0]"
    let ops := [Op.createBlock "b" "xt" "11111111-1111-1111-1111-111111111111" "1",
                Op.createDataArray 3 "a" "xt" "22222222-2222-2222-2222-222222222222" "1" "Double" "[2]",
                Op.removeEntity 3 "A" "a" "",
                Op.createDataArray 3 "a" "xt" "33333333-3333-3333-3333-333333333333" "1" "Double" "[2]"]
    (run s0 ops).attr? 5 "entity_id" = some "22222222-2222-2222-2222-222222222222" ∧
    (run s0 ops).attr? 6 "entity_id" = some "33333333-3333-3333-3333-333333333333" ∧
    (run s0 ops).findGroupByNameOrAttribute 4 "entity_id" "33333333-3333-3333-3333-333333333333" = some 6 ∧
    (run s0 ops).findGroupByNameOrAttribute 4 "entity_id" "22222222-2222-2222-2222-222222222222" = none := by
  decide +kernel

end Nix.St
