import NixModel.Spec.C01
/-
  C01 — array data round trip.  Property theorems about the array model (lean/NixModel/NDArray.lean),
  for every element type `V`, rank, shape and history.
-/
set_option linter.unusedSectionVars false
set_option linter.unusedSimpArgs false
namespace Nix.C01
open Nix

variable {V : Type}

/-! ### index arithmetic -/

theorem inBox_inShape_of_within : ∀ (shape off cnt idx : Idx), boxWithin shape off cnt = true → inBox off cnt idx = true →
    inShape shape idx = true
  | [], [], [], [], _, _ => rfl
  | n :: ns, o :: os, c :: cs, i :: is, hw, hb => by
    simp only [boxWithin, Bool.and_eq_true, decide_eq_true_eq] at hw
    simp only [inBox, Bool.and_eq_true, decide_eq_true_eq] at hb
    simp only [inShape, Bool.and_eq_true, decide_eq_true_eq]
    exact ⟨by omega, inBox_inShape_of_within ns os cs is hw.2 hb.2⟩
  | [], [], [], _ :: _, _, hb => by simp [inBox] at hb
  | _ :: _, _ :: _, _ :: _, [], _, hb => by simp [inBox] at hb
  | [], _ :: _, _, _, hw, _ => by simp [boxWithin] at hw
  | [], [], _ :: _, _, hw, _ => by simp [boxWithin] at hw
  | _ :: _, [], _, _, hw, _ => by simp [boxWithin] at hw
  | _ :: _, _ :: _, [], _, hw, _ => by simp [boxWithin] at hw

/-- a box inside an extent has the rank of the extent -/
theorem boxWithin_lengths : ∀ (shape off cnt : Idx), boxWithin shape off cnt = true → off.length = shape.length ∧ cnt.length = shape.length
  | [], [], [], _ => ⟨rfl, rfl⟩
  | n :: ns, o :: os, c :: cs, h => by
    simp only [boxWithin, Bool.and_eq_true, decide_eq_true_eq] at h
    have := boxWithin_lengths ns os cs h.2
    simp [this.1, this.2]
  | [], _ :: _, _, h => by simp [boxWithin] at h
  | [], [], _ :: _, h => by simp [boxWithin] at h
  | _ :: _, [], _, h => by simp [boxWithin] at h
  | _ :: _, _ :: _, [], h => by simp [boxWithin] at h

/-- the hyperslab a well-formed request (non-empty count and offset inside the extent) addresses -/
theorem resolve_of_boxOk (a : NDArray V) (cnt off : Idx) (hc : cnt ≠ []) (ho : off ≠ []) (hb : a.boxOk off cnt = true) :
    a.resolve cnt off = .ok (off, cnt) := by
  unfold NDArray.resolve
  have h1 : off.isEmpty = false := by cases off <;> simp_all
  have h2 : cnt.isEmpty = false := by cases cnt <;> simp_all
  obtain ⟨hl1, hl2⟩ := boxWithin_lengths a.shape off cnt hb
  have t1 : List.take a.shape.length cnt = cnt := by rw [← hl2]; exact List.take_length
  have t2 : List.take a.shape.length off = off := by rw [← hl1]; exact List.take_length
  simp [h1, h2, hl1, hl2, t1, t2, hb]

/-- a request of the wrong rank is never served as the box (off, cnt) of the same rank: too few entries are refused outright
    (`InvalidRank`, fix de0d7a0) -/
theorem resolve_short_refused (a : NDArray V) (cnt off : Idx) (hc : cnt ≠ []) (ho : off ≠ [])
    (hs : cnt.length < a.shape.length ∨ off.length < a.shape.length) : a.resolve cnt off = .error .invalidRank := by
  unfold NDArray.resolve
  have h1 : off.isEmpty = false := by cases off <;> simp_all
  have h2 : cnt.isEmpty = false := by cases cnt <;> simp_all
  simp [h1, h2, hs]

/-! ### single operations -/

/-- after a write, an element reads as the written value inside the box and as before outside it -/
theorem get_write (a a' : NDArray V) (cnt off : Idx) (vals : List V) (hc : cnt ≠ []) (ho : off ≠ [])
    (hb : a.boxOk off cnt = true) (h : a.write cnt off vals = .ok a') (idx : Idx) :
    a'.get idx = if inBox off cnt idx then (match vals[linear cnt (subIdx idx off)]? with | some v => v | none => a.zero)
                 else a.get idx := by
  unfold NDArray.write at h
  rw [resolve_of_boxOk a cnt off hc ho hb] at h
  simp only [Except.ok.injEq] at h
  subst h
  rfl

/-- **read_write_disjoint** — elements outside the written box keep their value -/
theorem read_write_disjoint (a a' : NDArray V) (cnt off : Idx) (vals : List V) (hc : cnt ≠ []) (ho : off ≠ [])
    (hb : a.boxOk off cnt = true) (h : a.write cnt off vals = .ok a') (idx : Idx) (hout : inBox off cnt idx = false) :
    a'.get idx = a.get idx := by
  rw [get_write a a' cnt off vals hc ho hb h idx, hout]; simp

/-- the shape and the zero element are untouched by a write -/
theorem write_shape (a a' : NDArray V) (cnt off : Idx) (vals : List V) (h : a.write cnt off vals = .ok a') :
    a'.shape = a.shape ∧ a'.zero = a.zero := by
  unfold NDArray.write at h
  cases hr : a.resolve cnt off with
  | error e => rw [hr] at h; cases h
  | ok oc => rw [hr] at h; simp only [Except.ok.injEq] at h; rw [← h]; exact ⟨rfl, rfl⟩

/-- a box with a zero count contains no index -/
theorem inBox_zero : ∀ (off cnt idx : Idx), 0 ∈ cnt → inBox off cnt idx = false
  | [], [], [], h => by simp at h
  | o :: os, c :: cs, i :: is, h => by
    simp only [inBox]
    rcases List.mem_cons.1 h with h0 | h1
    · subst h0; simp; omega
    · simp [inBox_zero os cs is h1]
  | [], _ :: _, _, _ => by simp [inBox]
  | [], [], _ :: _, _ => by simp [inBox]
  | _ :: _, [], _, _ => by simp [inBox]
  | _ :: _, _ :: _, [], _ => by simp [inBox]

/-- a write with a zero entry in its count is accepted wherever it points and changes no element (HDF5 selects nothing) -/
theorem get_write_zero (a a' : NDArray V) (cnt off : Idx) (vals : List V) (ho : off ≠ [])
    (hcl : cnt.length = a.shape.length) (hol : off.length = a.shape.length) (hz : 0 ∈ cnt)
    (h : a.write cnt off vals = .ok a') (idx : Idx) : a'.get idx = a.get idx := by
  unfold NDArray.write NDArray.resolve at h
  have h1 : off.isEmpty = false := by cases off <;> simp_all
  have h2 : cnt.isEmpty = false := by cases cnt <;> simp_all
  have t1 : List.take a.shape.length cnt = cnt := by rw [← hcl]; exact List.take_length
  have t2 : List.take a.shape.length off = off := by rw [← hol]; exact List.take_length
  simp [h1, h2, hcl, hol, t1, t2, hz] at h
  subst h
  simp [inBox_zero off cnt idx hz]

/-- a write that would leave the extent (and asks for at least one element) is refused and transfers nothing -/
theorem write_outside_rejected (a : NDArray V) (cnt off : Idx) (vals : List V) (hc : cnt ≠ []) (ho : off ≠ [])
    (hcl : cnt.length = a.shape.length) (hol : off.length = a.shape.length) (hz : 0 ∉ cnt)
    (hb : a.boxOk off cnt = false) : a.write cnt off vals = .error .h5Error := by
  unfold NDArray.write NDArray.resolve
  have h1 : off.isEmpty = false := by cases off <;> simp_all
  have h2 : cnt.isEmpty = false := by cases cnt <;> simp_all
  have t1 : List.take a.shape.length cnt = cnt := by rw [← hcl]; exact List.take_length
  have t2 : List.take a.shape.length off = off := by rw [← hol]; exact List.take_length
  simp [h1, h2, hcl, hol, t1, t2, hb, hz]

/-- **setExtent**: surviving elements keep their value, newly exposed ones read as zero -/
theorem get_setExtent (a a' : NDArray V) (shape : Idx) (h : a.setExtent shape = .ok a') (idx : Idx) :
    a'.shape = shape ∧ a'.zero = a.zero ∧
    a'.get idx = if inShape shape idx && inShape a.shape idx then a.get idx else a.zero := by
  unfold NDArray.setExtent at h
  split at h
  · cases h
  · simp only [Except.ok.injEq] at h; rw [← h]; exact ⟨rfl, rfl, rfl⟩

/-- **read_after_grow_zero** -/
theorem read_after_grow_zero (a a' : NDArray V) (shape : Idx) (h : a.setExtent shape = .ok a') (idx : Idx)
    (hnew : inShape a.shape idx = false) : a'.get idx = a.zero := by
  rw [(get_setExtent a a' shape h idx).2.2, hnew]; simp

/-- **shrink_then_grow_zero** — what was cut off does not come back -/
theorem shrink_then_grow_zero (a b c : NDArray V) (small big : Idx) (h1 : a.setExtent small = .ok b)
    (h2 : b.setExtent big = .ok c) (idx : Idx) (hcut : inShape small idx = false) : c.get idx = a.zero := by
  obtain ⟨hs, hz, _⟩ := get_setExtent a b small h1 idx
  rw [(get_setExtent b c big h2 idx).2.2, hs, hcut, hz]; simp

/-! ### histories -/

/-- normalisation: outside its extent an array reads as zero -/
def Normal (a : NDArray V) : Prop := ∀ idx, inShape a.shape idx = false → a.get idx = a.zero

theorem normal_empty (shape : Idx) (z : V) : Normal (NDArray.empty shape z) := fun _ _ => rfl

theorem applyOp_normal (a : NDArray V) (op : HOp V) (hn : Normal a) (hadm : Admissible a op) :
    Normal (applyOp a op) ∧ (applyOp a op).zero = a.zero := by
  cases op with
  | write off cnt vals =>
    obtain ⟨hb, hc, ho⟩ := hadm
    simp only [applyOp]
    cases hw : a.write cnt off vals with
    | error e => exact ⟨hn, rfl⟩
    | ok a' =>
      simp only []
      obtain ⟨hs, hz⟩ := write_shape a a' cnt off vals hw
      refine ⟨?_, hz⟩
      intro idx hout
      rw [hs] at hout
      have hnb : inBox off cnt idx = false := by
        cases hx : inBox off cnt idx with
        | false => rfl
        | true => rw [inBox_inShape_of_within a.shape off cnt idx hb hx] at hout; cases hout
      rw [read_write_disjoint a a' cnt off vals hc ho hb hw idx hnb, hz]
      exact hn idx hout
  | extent shape =>
    simp only [applyOp]
    cases hw : a.setExtent shape with
    | error e => exact ⟨hn, rfl⟩
    | ok a' =>
      simp only []
      obtain ⟨hs, hz, _⟩ := get_setExtent a a' shape hw []
      refine ⟨?_, hz⟩
      intro idx hout
      rw [hs] at hout
      rw [(get_setExtent a a' shape hw idx).2.2, hout, hz]; simp

/-- every event of the history is admissible in the state it meets -/
def AllAdmissible (a : NDArray V) : List (HOp V) → Prop
  | [] => True
  | op :: ops => Admissible a op ∧ AllAdmissible (applyOp a op) ops

theorem step_lastValue (a : NDArray V) (past : List (HOp V)) (op : HOp V) (hn : Normal a) (hadm : Admissible a op)
    (ih : ∀ idx, a.get idx = lastValue a.zero past idx) (idx : Idx) :
    (applyOp a op).get idx = lastValue a.zero (op :: past) idx := by
  cases op with
  | write off cnt vals =>
    obtain ⟨hb, hc, ho⟩ := hadm
    simp only [applyOp, lastValue]
    cases hw : a.write cnt off vals with
    | error e =>
      cases hbb : a.boxOk off cnt with
      | true =>
        unfold NDArray.write at hw
        rw [resolve_of_boxOk a cnt off hc ho hbb] at hw
        cases hw
      | false => rw [hbb] at hb; cases hb
    | ok a' =>
      simp only []
      rw [get_write a a' cnt off vals hc ho hb hw idx, ih idx]
      cases inBox off cnt idx <;> rfl
  | extent shape =>
    simp only [applyOp, lastValue]
    cases hw : a.setExtent shape with
    | error e =>
      unfold NDArray.setExtent at hw
      have : shape.length = a.shape.length := hadm
      simp [this] at hw
    | ok a' =>
      simp only []
      rw [(get_setExtent a a' shape hw idx).2.2]
      cases h1 : inShape shape idx with
      | false => simp
      | true =>
        cases h2 : inShape a.shape idx with
        | true => simp [ih idx]
        | false => simp [← ih idx, hn idx h2]

/-- **history_last_writer** — after any admissible history every element holds the value of the last write
    covering it since its index was last outside the extent, and zero if there is none
    (induction over the history; `past` is the history so far, most recent first) -/
theorem history_last_writer (ops : List (HOp V)) :
    ∀ (a : NDArray V) (past : List (HOp V)), Normal a → (∀ idx, a.get idx = lastValue a.zero past idx) →
      AllAdmissible a ops →
      ∀ idx, (ops.foldl applyOp a).get idx = lastValue a.zero (ops.reverse ++ past) idx := by
  induction ops with
  | nil => intro a past _ ih _ idx; simpa using ih idx
  | cons op ops ihops =>
    intro a past hn ih hadm idx
    obtain ⟨h1, h2⟩ := hadm
    obtain ⟨hn', hz'⟩ := applyOp_normal a op hn h1
    have hstep := step_lastValue a past op hn h1 ih
    have := ihops (applyOp a op) (op :: past) hn' (by intro i; rw [hz']; exact hstep i) h2 idx
    simp only [List.foldl_cons, List.reverse_cons, List.append_assoc, List.singleton_append]
    rw [this, hz']

/-- … started from a freshly created array -/
theorem history_from_creation (shape0 : Idx) (z : V) (ops : List (HOp V))
    (hadm : AllAdmissible (NDArray.empty shape0 z) ops) (idx : Idx) :
    (ops.foldl applyOp (NDArray.empty shape0 z)).get idx = lastValue z (ops.reverse ++ [.extent shape0]) idx := by
  have := history_last_writer ops (NDArray.empty shape0 z) [.extent shape0] (normal_empty shape0 z)
    (by intro i; simp [NDArray.empty, lastValue]) hadm idx
  simpa [NDArray.empty] using this

/-- **reopen_preserves_data** — the model has no session state: an array is its extent and its elements, which is
    what close + reopen must hand back (the tie to HDF5 persistence is the correspondence run) -/
theorem read_depends_on_store_only (a b : NDArray V) (hs : a.shape = b.shape) (hg : ∀ idx, a.get idx = b.get idx)
    (cnt off : Idx) : a.read cnt off = b.read cnt off := by
  unfold NDArray.read NDArray.resolve NDArray.boxOk
  rw [hs]
  split
  · rfl
  · rename_i o c heq; simp [hg]

/-! ### non-vacuity -/
def demoOps : List (HOp Nat) := [.write [0, 1] [2, 2] [1, 2, 3, 4], .extent [2, 2], .extent [3, 3], .write [2, 0] [1, 3] [7, 8, 9]]
instance (a : NDArray V) (op : HOp V) : Decidable (Admissible a op) := by
  cases op <;> unfold Admissible <;> infer_instance
instance : (a : NDArray V) → (ops : List (HOp V)) → Decidable (AllAdmissible a ops)
  | _, [] => isTrue trivial
  | a, op :: ops => by
    unfold AllAdmissible
    exact @instDecidableAnd _ _ _ (instDecidableAllAdmissible (applyOp a op) ops)
example : AllAdmissible (NDArray.empty [2, 3] 0) demoOps := by decide
example : (tuples [3, 3]).map (demoOps.foldl applyOp (NDArray.empty [2, 3] 0)).get = [0, 1, 0, 0, 3, 0, 7, 8, 9] := by decide

end Nix.C01
