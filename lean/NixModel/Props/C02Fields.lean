import NixModel.Gen.Fields
/-
  C02 / C13 / C14 — "reads back what it was given": a field of an entity is an HDF5 attribute (or a small data set) that the setter
  writes, the getter reads and the reset overload removes, each NAMING it by a string literal.  `gen/extract_fields.py` reads, on every
  run, which names every member function of the HDF5 backend hands to the attribute / data-set primitives.  A getter that names another
  attribute than its setter (or a `has` guard that asks for another name than the call it guards, or a reset that removes another
  attribute) makes a field that was set read back as "not set" — in the session or after the reopen.
-/
namespace Nix.Fields
open Nix.Gen.Fields

abbrev Row := String × String × String × String × String
def Row.cls (r : Row) := r.1
def Row.fn (r : Row) := r.2.1
def Row.kind (r : Row) := r.2.2.1
def Row.op (r : Row) := r.2.2.2.1
def Row.name (r : Row) := r.2.2.2.2

/-- the primitives that read / write / test / remove ONE attribute or data set of the entity's group -/
def fieldOps : List String := ["getAttr", "setAttr", "hasAttr", "removeAttr", "hasData", "openData", "createData", "removeData"]
def Row.isField (r : Row) : Bool := fieldOps.contains r.op && r.name != "?"

/-- the functions that by design touch several fields: the header of the file, the constructor of a property (a data set: it has no
    NamedEntity constructor to do it), the creation of a frame (table + units), the ticks of a range dimension (attribute of the
    dimension or data of the aliased array) -/
def several : List (String × String) :=
  [("FileHDF5", "checkHeader"), ("FileHDF5", "createHeader"), ("PropertyHDF5", "PropertyHDF5"),
   ("DataFrameHDF5", "createData"), ("RangeDimensionHDF5", "ticks")]

def fieldRows : List Row := accesses.filter fun r => r.isField && !several.contains (r.cls, r.fn)

/-- the name the first field access of `cls::fn` (any overload) uses -/
def fieldOf (cls fn : String) : Option String := (fieldRows.find? fun r => r.cls == cls && r.fn == fn).map (·.name)

/-- **all overloads of an accessor — getter, setter, reset — and every guard inside them name ONE attribute / data set** -/
theorem accessor_overloads_name_one_field : ∀ r : Row, r ∈ fieldRows → fieldOf r.cls r.fn = some r.name := by decide +kernel

def writes (r : Row) : Bool := r.op == "setAttr" || r.op == "createData"
def reads (r : Row) : Bool := r.op == "getAttr" || r.op == "openData"

/-- **whatever a backend function writes under a literal name, some function of the backend reads under that name** (and the other
    way round: nothing is read that nothing writes) -/
theorem every_written_field_is_read :
    ∀ w : Row, w ∈ accesses → w.isField = true → writes w = true → ∃ r : Row, r ∈ accesses ∧ reads r = true ∧ r.name = w.name := by decide +kernel
theorem every_read_field_is_written :
    ∀ r : Row, r ∈ accesses → r.isField = true → reads r = true → ∃ w : Row, w ∈ accesses ∧ writes w = true ∧ w.name = r.name := by decide +kernel

/-- **a reset overload removes exactly what the setter of the same name writes** -/
theorem reset_removes_what_the_setter_writes :
    ∀ r : Row, r ∈ accesses → r.kind = "reset" → r.op = "removeAttr" →
      ∃ w : Row, w ∈ accesses ∧ w.cls = r.cls ∧ w.fn = r.fn ∧ w.kind = "arg" ∧ w.op = "setAttr" ∧ w.name = r.name := by decide +kernel

/-- **every getter that reads an attribute has a setter of the same name in its class that writes it** (fields that are written by a
    constructor only — ids, names of the entity, creation time, the column of a data-frame dimension — or by a function of another
    name — `updated_at` by `setUpdatedAt` / `forceUpdatedAt` — have none and are listed; `every_read_field_is_written` covers them) -/
def writtenOnce : List String :=
  ["entity_id", "name", "created_at", "updated_at", "format", "version", "id", "dimension_type", "data", "units", "column_index"]
theorem getter_has_a_setter :
    ∀ r : Row, r ∈ fieldRows → r.kind = "get" → reads r = true → ¬ r.name ∈ writtenOnce →
      ∃ w : Row, w ∈ accesses ∧ w.cls = r.cls ∧ w.fn = r.fn ∧ w.kind = "arg" ∧ writes w = true ∧ w.name = r.name := by decide +kernel

/-- the accessor (class, function) → attribute pairs the models rely on: the store model (`Entities.lean`, `Observe.lean`,
    `Drive/StoreModel.lean`), the dimension model (`DimDesc.lean`), the property model (`Property.lean`) -/
theorem model_field_names :
    fieldOf "NamedEntityHDF5" "definition" = some "definition" ∧
    fieldOf "NamedEntityHDF5" "type" = some "type" ∧
    fieldOf "NamedEntityHDF5" "name" = some "name" ∧
    fieldOf "EntityHDF5" "id" = some "entity_id" ∧
    fieldOf "EntityHDF5" "createdAt" = some "created_at" ∧
    fieldOf "EntityHDF5" "updatedAt" = some "updated_at" ∧
    fieldOf "SectionHDF5" "repository" = some "repository" ∧
    fieldOf "DataArrayHDF5" "label" = some "label" ∧
    fieldOf "DataArrayHDF5" "unit" = some "unit" ∧
    fieldOf "DataArrayHDF5" "expansionOrigin" = some "expansion_origin" ∧
    fieldOf "DataArrayHDF5" "polynomCoefficients" = some "polynom_coefficients" ∧
    fieldOf "TagHDF5" "position" = some "position" ∧
    fieldOf "TagHDF5" "extent" = some "extent" ∧
    fieldOf "TagHDF5" "units" = some "units" ∧
    fieldOf "MultiTagHDF5" "units" = some "units" ∧
    fieldOf "FeatureHDF5" "linkType" = some "link_type" ∧
    fieldOf "SampledDimensionHDF5" "samplingInterval" = some "sampling_interval" ∧
    fieldOf "SampledDimensionHDF5" "offset" = some "offset" ∧
    fieldOf "SampledDimensionHDF5" "unit" = some "unit" ∧
    fieldOf "SampledDimensionHDF5" "label" = some "label" ∧
    fieldOf "SetDimensionHDF5" "labels" = some "labels" ∧
    fieldOf "RangeDimensionHDF5" "unit" = some "unit" ∧
    fieldOf "RangeDimensionHDF5" "label" = some "label" ∧
    fieldOf "DataFrameDimensionHDF5" "columnIndex" = some "column_index" ∧
    fieldOf "PropertyHDF5" "unit" = some "unit" ∧
    fieldOf "PropertyHDF5" "uncertainty" = some "uncertainty" ∧
    fieldOf "PropertyHDF5" "definition" = some "definition" := by decide +kernel

/-- non-vacuity: the table is the size it is on the pinned tree or larger, and holds the three overloads of a field -/
example : 120 ≤ fieldRows.length := by decide +kernel
example : ("SampledDimensionHDF5", "offset", "reset", "removeAttr", "offset") ∈ accesses ∧
          ("SampledDimensionHDF5", "offset", "arg", "setAttr", "offset") ∈ accesses ∧
          ("SampledDimensionHDF5", "offset", "get", "getAttr", "offset") ∈ accesses := by decide +kernel

end Nix.Fields
