import NixModel.Proofs.RolesHistory
import NixModel.Props.C08Full
/-
  C03, first clause — "names are unique per parent" — and the structure of every file nix can produce, for EVERY reachable state.

  `WT` (Proofs/Roles.lean) is the schema of a nix file as an invariant of the store model; `apply_wt` / `run_wt`
  (Proofs/RolesHistory.lean) show that every one of the 30 entry points keeps it when its object arguments have the role their
  C++ front-end type guarantees (`Op.kinded`: a `Block` wraps a block group, …).  Consequences, all without a hypothesis on the
  state:
    * `names_unique_per_parent` — in every object two different links never carry the same non-empty name: nix never asks HDF5
      for a link name that is taken (the model's `addLink` appends blindly, so a duplicate would show);
    * `lookup_by_name_finds_the_link` — looking a non-empty link name up yields exactly the child linked under it;
    * `children_are_groups` / `properties_are_datasets` — only `properties` containers hold data sets and they hold nothing else:
      the `openGroup` calls of the entity layer never hit a data set (the proviso in `blkFind`, and the container hypothesis of
      `Op.wf` in Props/C08Full.lean, hold in every reachable state);
    * `link_targets_exist`, `links_conform_to_schema`.
-/
namespace Nix.St
open Store

def initRoles : ObjId → Role := fun o => if o = 0 then .root else if o = 1 then .topMeta else .topData

/-- a history of calls on a new file in which every call gets objects of the role its C++ signature guarantees -/
def Reachable (s : Store) (ρ : ObjId → Role) : Prop :=
  ∃ id created format version ops, KindedRun (newFile id created format version) initRoles ops ∧
    s = run (newFile id created format version) ops ∧ ρ = runRoles (newFile id created format version) initRoles ops

theorem reachable_wt {s : Store} {ρ : ObjId → Role} (h : Reachable s ρ) : WT s ρ := by
  obtain ⟨id, created, format, version, ops, hk, rfl, rfl⟩ := h
  exact run_wt (newFile_wt id created format version) ops hk

theorem names_unique_per_parent {s : Store} {ρ : ObjId → Role} (h : Reachable s ρ) (o : ObjId) :
    (s.linksOf o).Pairwise fun a b => a.1 ≠ b.1 ∨ a.1.isEmpty = true :=
  (reachable_wt h).uniq o

theorem lookup_of_uniq {l : List (String × ObjId)} (hu : UniqNames l) {n : String} {t : ObjId} (hn : n.isEmpty = false)
    (hm : (n, t) ∈ l) : l.lookup n = some t := by
  induction l with
  | nil => simp at hm
  | cons x xs ih =>
    obtain ⟨a, b⟩ := x
    unfold UniqNames at hu
    rw [List.pairwise_cons] at hu
    rcases List.mem_cons.mp hm with h | h
    · cases h; simp [List.lookup]
    · have hne : a ≠ n := by
        intro e
        have := hu.1 (n, t) h
        simp only at this
        rcases this with h1 | h1
        · exact h1 e
        · rw [e, hn] at h1; cases h1
      have : (n == a) = false := by simpa using Ne.symm hne
      simp only [List.lookup, this]
      exact ih hu.2 h

theorem lookup_by_name_finds_the_link {s : Store} {ρ : ObjId → Role} (h : Reachable s ρ) (o : ObjId) (n : String) (t : ObjId)
    (hn : n.isEmpty = false) (hm : (n, t) ∈ s.linksOf o) : s.child? o n = some t :=
  lookup_of_uniq ((reachable_wt h).uniq o) hn hm

theorem link_targets_exist {s : Store} {ρ : ObjId → Role} (h : Reachable s ρ) (o : ObjId) (l : String × ObjId)
    (hm : l ∈ s.linksOf o) : l.2 < s.objs.length :=
  ((reachable_wt h).link o l hm).1

theorem links_conform_to_schema {s : Store} {ρ : ObjId → Role} (h : Reachable s ρ) (o : ObjId) (l : String × ObjId)
    (hm : l ∈ s.linksOf o) : childRole (ρ o) l.1 = some (ρ l.2) :=
  ((reachable_wt h).link o l hm).2

theorem WT.children_are_groups {s : Store} {ρ : ObjId → Role} (h : WT s ρ) (o : ObjId) (ho : ρ o ≠ .pcont)
    (l : String × ObjId) (hm : l ∈ s.linksOf o) : s.isGroupObj l.2 = true := by
  have ⟨hl, hr⟩ := h.link o l hm
  rw [h.grp l.2 hl]
  simp only [decide_eq_true_eq]
  intro hp
  rw [hp] at hr
  exact ho (childRole_prop hr)

theorem children_are_groups {s : Store} {ρ : ObjId → Role} (h : Reachable s ρ) (o : ObjId) (ho : ρ o ≠ .pcont)
    (l : String × ObjId) (hm : l ∈ s.linksOf o) : s.isGroupObj l.2 = true :=
  (reachable_wt h).children_are_groups o ho l hm

theorem properties_are_datasets {s : Store} {ρ : ObjId → Role} (h : Reachable s ρ) (o : ObjId) (ho : ρ o = .pcont)
    (l : String × ObjId) (hm : l ∈ s.linksOf o) : s.isGroupObj l.2 = false := by
  have ⟨hl, hr⟩ := (reachable_wt h).link o l hm
  rw [(reachable_wt h).grp l.2 hl]
  rw [ho] at hr
  simp only [childRole] at hr
  have : ρ l.2 = .prop := (Option.some.inj hr).symm
  simp [this]

/-- the container hypothesis of `Op.wf` (Props/C08Full.lean) holds in every state that satisfies the schema -/
theorem WT.block_containers_hold_groups {s : Store} {ρ : ObjId → Role} (h : WT s ρ) (b : ObjId) (hb : ρ b = .ent .B) (k : String) :
    ∀ p, s.optGroup b (blockContainer k) = some p → ∀ l ∈ s.linksOf p, s.isGroupObj l.2 = true := by
  intro p hp l hl
  have ⟨_, hpr⟩ := h.optGroup hp
  rw [hb, childRole_blockContainer] at hpr
  have hρp : ρ p = .cont (bKind k) := (Option.some.inj hpr).symm
  exact h.children_are_groups p (by rw [hρp]; simp) l hl

/-- non-vacuity: a kinded history with a block, an array, a section, a metadata link, a tag and a reference; the schema holds
    after it by `run_wt`, and here the handles the model hands out are checked to have the roles used (3 block, 5 array,
    6 section, 8 tag) -/
example :
    let s0 := newFile "f" "0" "xnix" "[1,2,0]"
    let ops := [Op.createBlock "b" "xt" "11111111-1111-1111-1111-111111111111" "1",
                Op.createDataArray 3 "a" "xt" "22222222-2222-2222-2222-222222222222" "1" "Double" "[2]",
                Op.createSection none "m" "xt" "33333333-3333-3333-3333-333333333333" "1",
                Op.setSectionLink 5 "metadata" "33333333-3333-3333-3333-333333333333",
                Op.createTag 3 "t" "xt" "44444444-4444-4444-4444-444444444444" "1" "[d0]",
                Op.addReference 8 3 "a",
                Op.removeEntity 3 "A" "a" ""]
    (runRoles s0 initRoles ops 3 = .ent .B ∧ runRoles s0 initRoles ops 5 = .ent .A ∧ runRoles s0 initRoles ops 6 = .ent .S ∧
     runRoles s0 initRoles ops 8 = .ent .T ∧ runRoles s0 initRoles ops 9 = .lcont .A) ∧
    (run s0 (ops.take 6)).child? 9 "22222222-2222-2222-2222-222222222222" = some 5 ∧
    (run s0 ops).child? 9 "22222222-2222-2222-2222-222222222222" = none := by
  decide +kernel

/-- … and that history is kinded: every call gets objects of the role its signature asks for -/
example :
    KindedRun (newFile "f" "0" "xnix" "[1,2,0]") initRoles
      [Op.createBlock "b" "xt" "11111111-1111-1111-1111-111111111111" "1",
       Op.createDataArray 3 "a" "xt" "22222222-2222-2222-2222-222222222222" "1" "Double" "[2]",
       Op.createSection none "m" "xt" "33333333-3333-3333-3333-333333333333" "1",
       Op.setSectionLink 5 "metadata" "33333333-3333-3333-3333-333333333333",
       Op.createTag 3 "t" "xt" "44444444-4444-4444-4444-444444444444" "1" "[d0]",
       Op.addReference 8 3 "a",
       Op.removeEntity 3 "A" "a" ""] := by
  simp only [KindedRun, Op.kinded, and_true, true_and]
  refine ⟨?_, ?_, ?_, ?_, ?_⟩
  · decide +kernel
  · intro x hx; cases hx
  · decide +kernel
  · decide +kernel
  · decide +kernel

end Nix.St
