import NixModel.Scalar
import NixModel.Err
/-
  Dimension descriptors of one DataArray (C13).

  Hand-written model of
    include/nix/DataArray.hpp      append*Dimension, create*Dimension (deprecated), deleteDimensions, dimensions, getDimension
    src/DataArray.cpp              DataArray::unit, DataArray::label, DataArray::dimensions
    src/Dimensions.cpp             the front-end setters of Sampled / Set / Range dimensions
    backend/hdf5/DataArrayHDF5.cpp createDimensionGroup, create*Dimension, deleteDimensions, getDimension, dimensionCount
    backend/hdf5/DimensionHDF5.cpp typed getters / setters, alias = hard link to the array + redirectGroup
  in the statement order of the C++ (checks first, then the backend writes).

  The HDF5 side is the abstract store of DESIGN §2.3(3): the `dimensions` group of the array is an ordered list of links
  `(name, group)` (creation order); a dimension group carries its attributes and data sets.  A group never changes its kind:
  `createDimensionGroup` removes an existing group of the same name and creates a fresh one.
-/
namespace Nix.DimDesc
open Nix

/-- what a dimension group holds besides `label` / `unit`, by `dimension_type` -/
inductive Body (α : Type)
  | sampled (interval : α) (offset : Option α)   -- attributes sampling_interval, offset
  | range (ticks : List α)                        -- data set `ticks`
  | alias                                         -- range dimension whose group holds a hard link to the array and no `ticks`
  | set (labels : Option (List String))           -- data set `labels` (may be absent)
  | frame (col : Option Nat)                      -- link `data_frame` + attribute column_index
deriving Repr, DecidableEq

/-- the content of a dimension group apart from its link name -/
structure Desc (α : Type) where
  label : Option String := none
  unit : Option String := none
  body : Body α
deriving Repr, DecidableEq

/-- a link in the `dimensions` group: `util::numToStr(index)` ↦ group -/
structure Grp (α : Type) where
  name : Nat
  d : Desc α
deriving Repr, DecidableEq

/-- the array: what the dimension code reads and writes of it -/
structure Arr (α : Type) where
  rank : Nat                  -- dataExtent().size()
  numeric : Bool              -- data_type_is_numeric(dataType())
  label : Option String       -- attribute label of the array group
  unit : Option String        -- attribute unit of the array group
  data : List α               -- data set `data` read as doubles (tracked for 1-d numeric arrays)
  dims : List (Grp α)         -- links of the `dimensions` group in creation order
  ro : Bool := false          -- file opened ReadOnly
deriving Repr

/-- what does not change during a history -/
structure Env (α : Type) where
  conv : α → α                         -- a double written to the array's file type and read back as double
  isSI : String → Bool                 -- util::isSIUnit
  isCompound : String → Bool           -- util::isCompoundSIUnit
  frameName : String                   -- the data frame of the array's block
  cols : List (String × String)        -- its columns: name, unit
  foreignCols : List (String × String) -- columns of a data frame that lives in another block

variable {α : Type}

/-- `std::isblank` in the C locale -/
def isBlank (c : Char) : Bool := c == ' ' || c == '\t'
/-- util::deblankString -/
def deblank (s : String) : String := String.ofList (s.toList.filter (fun c => !isBlank c))

/-! ### the `dimensions` group -/

/-- DataArrayHDF5::dimensionCount: objectCount of the group -/
def Arr.count (a : Arr α) : Nat := a.dims.length

def findName (i : Nat) : List (Grp α) → Option (Grp α)
  | [] => none
  | g :: rest => if g.name = i then some g else findName i rest

/-- DataArrayHDF5::getDimension: `hasGroup(numToStr(index))` -/
def Arr.lookup (a : Arr α) (i : Nat) : Option (Grp α) := findName i a.dims

/-- names of the links, in creation order -/
def Arr.names (a : Arr α) : List Nat := a.dims.map (·.name)

/-- DataArrayHDF5::createDimensionGroup(index) followed by the constructor of the dimension class, which fills the fresh group.
    `index` must be in 1..count+1; an existing group of that name is removed first. -/
def Arr.createGroup (a : Arr α) (idx : Nat) (d : Desc α) : Except Err (Arr α) :=
  if idx > a.count + 1 ∨ idx = 0 then .error .stdRuntime
  else .ok { a with dims := a.dims.filter (fun g => g.name ≠ idx) ++ [⟨idx, d⟩] }

/-- DataArrayHDF5::deleteDimensions: `for (i = dimensionCount(); i > 0; --i) if (hasGroup(i)) removeGroup(i)` -/
def deleteLoop : Nat → List (Grp α) → List (Grp α)
  | 0, l => l
  | i + 1, l => deleteLoop i (l.filter (fun g => g.name ≠ i + 1))

/-- replace the content of the group named `i` -/
def updName (i : Nat) (f : Desc α → Desc α) : List (Grp α) → List (Grp α)
  | [] => []
  | g :: rest => if g.name = i then ⟨g.name, f g.d⟩ :: rest else g :: updName i f rest

/-! ### argument checks of the front-end -/

section checks
variable [Scalar α]

/-- the sortedness check of `appendRangeDimension` and `RangeDimension::ticks`: no neighbours with `!(a <= b)` -/
def ascending : List α → Bool
  | [] => true
  | [_] => true
  | a :: b :: rest => decide (a ≤ b) && ascending (b :: rest)

/-- `sampling_interval > 0.0` -/
def positive (x : α) : Bool := decide (Scalar.zero < x)

end checks

/-! ### operations of the public API -/

/-- which data frame is handed to `appendDataFrameDimension` -/
inductive FrameArg | own | foreign | uninit
deriving Repr, DecidableEq

/-- the column argument: an index, a column name, or none (whole frame) -/
inductive ColArg
  | idx (i : Nat)
  | name (s : String)
  | whole
deriving Repr, DecidableEq

inductive Op (α : Type)
  | appendSet (labels : List String)
  | appendRange (ticks : List α) (label unit : String)
  | appendSampled (interval : α) (label unit : String) (offset : α)
  | appendAlias
  | appendFrame (f : FrameArg) (c : ColArg)
  | deleteDims
  | setLabel (i : Nat) (v : Option String)
  | setUnit (i : Nat) (v : Option String)
  | setInterval (i : Nat) (v : α)
  | setOffset (i : Nat) (v : Option α)
  | setTicks (i : Nat) (v : List α)
  | setLabels (i : Nat) (v : Option (List String))
  | arrLabel (v : Option String)
  | arrUnit (v : Option String)
  | arrData (v : List α)
  | arrExtent (shape : List Nat)
  | reopen (readOnly : Bool)
deriving Repr

/-- position of a column name (`DataFrame::colIndex`) -/
def colIndex (name : String) : List (String × String) → Option Nat
  | [] => none
  | c :: rest => if c.1 = name then some 0 else (colIndex name rest).map (· + 1)

section step
variable [Scalar α]

/-- `dim.label(label)` of a freshly created Sampled / Range dimension when the argument is non-empty; same for unit -/
def optArg (s : String) : Option String := if s.isEmpty then none else some s

/-- DataArray::appendSetDimension: create, then `labels(labels)` if the vector is non-empty -/
def appendSet (a : Arr α) (labels : List String) : Except Err (Arr α) :=
  a.createGroup (a.count + 1) { body := .set (if labels.isEmpty then none else some labels) }

/-- DataArray::appendRangeDimension: empty ticks, sortedness, unit are checked before the group is created -/
def appendRange (env : Env α) (a : Arr α) (ticks : List α) (label unit : String) : Except Err (Arr α) :=
  if ticks.isEmpty then .error .invalidDimension
  else if !ascending ticks then .error .unsortedTicks
  else if !unit.isEmpty && !env.isSI unit then .error .invalidUnit
  else a.createGroup (a.count + 1) { label := optArg label, unit := optArg unit, body := .range ticks }

/-- DataArray::appendSampledDimension: interval and unit are checked before the group is created; the offset is stored only
    when `offset != 0.0` -/
def appendSampled (env : Env α) (a : Arr α) (si : α) (label unit : String) (offset : α) : Except Err (Arr α) :=
  if !positive si then .error .stdRuntime
  else if !unit.isEmpty && !env.isSI unit then .error .invalidUnit
  else a.createGroup (a.count + 1)
    { label := optArg label, unit := optArg unit, body := .sampled si (if Scalar.beq offset Scalar.zero then none else some offset) }

/-- DataArray::appendAliasRangeDimension: 1-d, numeric, no dimension yet, unit (if any) SI or compound SI;
    DataArrayHDF5::createAliasRangeDimension creates group `1` with a link to the array -/
def appendAlias (env : Env α) (a : Arr α) : Except Err (Arr α) :=
  if a.rank > 1 then .error .invalidDimension
  else if !a.numeric then .error .invalidDimension
  else if a.count > 0 then .error .invalidDimension
  else match a.unit with
    | some u => if !(env.isSI u || env.isCompound u) then .error .invalidUnit else a.createGroup 1 { body := .alias }
    | none => a.createGroup 1 { body := .alias }

/-- DataArray::appendDataFrameDimension (three overloads) + DataArrayHDF5::createDataFrameDimension, which looks the frame up in
    the array's block before it creates the group -/
def appendFrame (env : Env α) (a : Arr α) (f : FrameArg) (c : ColArg) : Except Err (Arr α) :=
  let cols := match f with | .own => env.cols | .foreign => env.foreignCols | .uninit => []
  match c with
  | .idx i =>
    if f = .uninit then .error .uninitializedEntity            -- frame.columns() on an empty handle
    else if i ≥ cols.length then .error .outOfBounds
    else if f = .foreign then .error .stdRuntime
    else a.createGroup (a.count + 1) { body := .frame (some i) }
  | .name s =>
    if f = .uninit then .error .uninitializedEntity
    else match colIndex s cols with
      | none => .error .outOfBounds
      | some i => if f = .foreign then .error .stdRuntime else a.createGroup (a.count + 1) { body := .frame (some i) }
  | .whole =>
    if f = .uninit then .error .uninitializedEntity
    else if f = .foreign then .error .stdRuntime
    else a.createGroup (a.count + 1) { body := .frame none }

/-- setters reach a dimension through `getDimension(i)`; a missing one is an empty handle; the harness refuses a field that the
    kind does not have with std::invalid_argument -/
def withDim (a : Arr α) (i : Nat) (k : Grp α → Except Err (Arr α)) : Except Err (Arr α) :=
  match a.lookup i with
  | none => .error .uninitializedEntity
  | some g => k g

def setDesc (a : Arr α) (i : Nat) (f : Desc α → Desc α) : Arr α := { a with dims := updName i f a.dims }

/-- `label(string)` / `label(none)` of Sampled, Set and Range dimensions; an alias redirects to the array group -/
def setLabel (a : Arr α) (i : Nat) (v : Option String) : Except Err (Arr α) :=
  withDim a i fun g =>
    match g.d.body with
    | .frame _ => .error .stdInvalidArgument
    | .alias =>
      match v with
      | some s => if s.isEmpty then .error .emptyString else .ok { a with label := some s }
      | none => .ok { a with label := none }
    | _ =>
      match v with
      | some s => if s.isEmpty then .error .emptyString else .ok (setDesc a i fun d => { d with label := some s })
      | none => .ok (setDesc a i fun d => { d with label := none })

/-- `unit(string)` / `unit(none)` of Sampled and Range dimensions -/
def setUnit (env : Env α) (a : Arr α) (i : Nat) (v : Option String) : Except Err (Arr α) :=
  withDim a i fun g =>
    match g.d.body with
    | .frame _ => .error .stdInvalidArgument
    | .set _ => .error .stdInvalidArgument
    | .alias =>
      match v with
      | some s => if s.isEmpty then .error .emptyString else if !env.isSI s then .error .invalidUnit else .ok { a with unit := some s }
      | none => .ok { a with unit := none }
    | _ =>
      match v with
      | some s => if s.isEmpty then .error .emptyString else if !env.isSI s then .error .invalidUnit
                  else .ok (setDesc a i fun d => { d with unit := some s })
      | none => .ok (setDesc a i fun d => { d with unit := none })

/-- SampledDimension::samplingInterval -/
def setInterval (a : Arr α) (i : Nat) (v : α) : Except Err (Arr α) :=
  withDim a i fun g =>
    match g.d.body with
    | .sampled _ off => if !positive v then .error .stdRuntime else .ok (setDesc a i fun d => { d with body := .sampled v off })
    | _ => .error .stdInvalidArgument

/-- SampledDimension::offset(double) / offset(none): unchecked -/
def setOffset (a : Arr α) (i : Nat) (v : Option α) : Except Err (Arr α) :=
  withDim a i fun g =>
    match g.d.body with
    | .sampled si _ => .ok (setDesc a i fun d => { d with body := .sampled si v })
    | _ => .error .stdInvalidArgument

/-- RangeDimension::ticks: sortedness check, then the own `ticks` data set or, for an alias, the array's `data`
    (`setExtent` + `write`: the values pass through the array's element type) -/
def setTicks (env : Env α) (a : Arr α) (i : Nat) (v : List α) : Except Err (Arr α) :=
  withDim a i fun g =>
    match g.d.body with
    | .range _ => if !ascending v then .error .unsortedTicks else .ok (setDesc a i fun d => { d with body := .range v })
    | .alias => if !ascending v then .error .unsortedTicks else .ok { a with data := v.map env.conv }
    | _ => .error .stdInvalidArgument

/-- SetDimension::labels(vector) / labels(none): unchecked -/
def setLabels (a : Arr α) (i : Nat) (v : Option (List String)) : Except Err (Arr α) :=
  withDim a i fun g =>
    match g.d.body with
    | .set _ => .ok (setDesc a i fun d => { d with body := .set v })
    | _ => .error .stdInvalidArgument

/-- is dimension 1 the only one and an alias? (`DataArray::unit`) -/
def soleAlias (a : Arr α) : Bool :=
  a.count == 1 && (match a.lookup 1 with | some g => (match g.d.body with | .alias => true | _ => false) | none => false)

/-- DataArray::unit(string): the deblanked string is checked, the string as given is stored -/
def arrUnit (env : Env α) (a : Arr α) (v : Option String) : Except Err (Arr α) :=
  match v with
  | none => .ok { a with unit := none }
  | some s =>
    let u := deblank s
    if u.isEmpty then .error .emptyString
    else if soleAlias a && !(env.isSI u || env.isCompound u) then .error .invalidUnit
    else .ok { a with unit := some s }

def arrLabel (a : Arr α) (v : Option String) : Except Err (Arr α) :=
  match v with
  | none => .ok { a with label := none }
  | some s => if s.isEmpty then .error .emptyString else .ok { a with label := some s }

/-- `setData(std::vector<double>)`: the extent becomes the vector's, the values pass through the element type -/
def arrData (env : Env α) (a : Arr α) (v : List α) : Except Err (Arr α) :=
  if a.rank ≠ 1 then .error .invalidRank
  else if !a.numeric then .error .h5Error
  else .ok { a with data := v.map env.conv }

/-- `dataExtent(shape)`: surviving elements keep their value, new ones read as zero -/
def arrExtent (a : Arr α) (shape : List Nat) : Except Err (Arr α) :=
  if shape.length ≠ a.rank then .error .invalidRank
  else match shape with
    | [n] => .ok { a with data := (a.data ++ List.replicate (n - a.data.length) Scalar.zero).take n }
    | _ => .ok a

/-- one call of the public API.  A refused call returns the error; every check precedes the first write, so the state is the one
    before the call.  `.ok n`: the index the new descriptor reports (appends), else 0. -/
def step (env : Env α) (a : Arr α) (op : Op α) : Except Err (Arr α × Nat) :=
  match op with
  | .reopen r => .ok ({ a with ro := r }, 0)
  | _ =>
  if a.ro then .error .h5Error else
  match op with
  | .appendSet l => (appendSet a l).map fun a' => (a', a.count + 1)
  | .appendRange t l u => (appendRange env a t l u).map fun a' => (a', a.count + 1)
  | .appendSampled si l u o => (appendSampled env a si l u o).map fun a' => (a', a.count + 1)
  | .appendAlias => (appendAlias env a).map fun a' => (a', 1)
  | .appendFrame f c => (appendFrame env a f c).map fun a' => (a', a.count + 1)
  | .deleteDims => .ok ({ a with dims := deleteLoop a.count a.dims }, 0)
  | .setLabel i v => (setLabel a i v).map (·, 0)
  | .setUnit i v => (setUnit env a i v).map (·, 0)
  | .setInterval i v => (setInterval a i v).map (·, 0)
  | .setOffset i v => (setOffset a i v).map (·, 0)
  | .setTicks i v => (setTicks env a i v).map (·, 0)
  | .setLabels i v => (setLabels a i v).map (·, 0)
  | .arrLabel v => (arrLabel a v).map (·, 0)
  | .arrUnit v => (arrUnit env a v).map (·, 0)
  | .arrData v => (arrData env a v).map (·, 0)
  | .arrExtent s => (arrExtent a s).map (·, 0)
  | .reopen r => .ok ({ a with ro := r }, 0)

/-- the state after a call: unchanged when the call was refused -/
def next (env : Env α) (a : Arr α) (op : Op α) : Arr α :=
  match step env a op with
  | .ok (a', _) => a'
  | .error _ => a

/-- a history -/
def run (env : Env α) (a : Arr α) (ops : List (Op α)) : Arr α := ops.foldl (next env) a

end step

/-! ### what the getters return -/

/-- every getter of a descriptor, by kind (`Dimension::as…Dimension` + the typed getters) -/
inductive View (α : Type)
  | sampled (interval : α) (offset : Option α) (unit label : Option String)
  | range (alias : Bool) (ticks : List α) (unit label : Option String)
  | set (labels : List String) (label : Option String)
  | frame (name : String) (col : Option Nat) (label : Except Err String) (unit : Except Err String)
deriving Repr, DecidableEq

/-- DataFrameDimensionHDF5::label(none): the column's name, or the frame's name when no column was given -/
def frameLabel (env : Env α) (col : Option Nat) : Except Err String :=
  match col with
  | none => .ok env.frameName
  | some i => match env.cols[i]? with | some c => .ok c.1 | none => .error .outOfBounds

/-- DataFrameDimensionHDF5::unit(none) -/
def frameUnit (env : Env α) (col : Option Nat) : Except Err String :=
  match col with
  | none => .error .outOfBounds
  | some i => match env.cols[i]? with | some c => .ok c.2 | none => .error .outOfBounds

/-- the typed getters on the group `g` of array `a`; an alias reads the array (`redirectGroup`) -/
def view (env : Env α) (a : Arr α) (g : Grp α) : View α :=
  match g.d.body with
  | .sampled si off => .sampled si off g.d.unit g.d.label
  | .range t => .range false t g.d.unit g.d.label
  | .alias => .range true a.data a.unit a.label
  | .set l => .set (l.getD []) g.d.label
  | .frame c => .frame env.frameName c (frameLabel env c) (frameUnit env c)

/-- `getDimension(i)`: none = empty handle; else the index the handle reports and its getters -/
def getDimension (env : Env α) (a : Arr α) (i : Nat) : Option (Nat × View α) :=
  (a.lookup i).map fun g => (i, view env a g)

/-- `dimensions()`: `getDimension(i+1)` for i < count, empty handles skipped; the indices they report -/
def dimensionIndices (a : Arr α) : List Nat :=
  (List.range a.count).filterMap fun i => (a.lookup (i + 1)).map fun _ => i + 1

end Nix.DimDesc
