import NixModel.Dump
/-
  C12 — model of entity ids.

  * the text form of a UUID as `boost::uuids::to_string` prints the 16 bytes `boost::uuids::basic_random_generator::operator()`
    returns (8-4-4-4-12 lower-case hex), after `set_uuid_random_vv` has stamped the variant (byte 8: `& 0xBF | 0x80`) and the version
    (byte 6: `& 0x4F | 0x40`) — `util::createId` (src/util/util.cpp);
  * an id source as a parameter: a pseudo-random generator is a state machine, its stream a function of its seed;
  * a file's population of ids: every creating constructor takes the next id of the source and writes it once
    (EntityHDF5(file, group, id, time), PropertyHDF5, FileHDF5::createHeader); nothing but `File::forceId` rewrites one.
-/
namespace Nix.Ids

abbrev Byte := Fin 256

def hexDigit (n : Nat) : Char :=
  if n < 10 then Char.ofNat ('0'.toNat + n) else Char.ofNat ('a'.toNat + (n - 10))

def byteHex (b : Byte) : List Char := [hexDigit (b.val / 16), hexDigit (b.val % 16)]

def hexOf (bs : List Byte) : List Char := bs.flatMap byteHex

/-- `boost::uuids::to_string`: a dash after bytes 4, 6, 8 and 10 -/
def uuidChars (bs : List Byte) : List Char :=
  hexOf (bs.take 4) ++ '-' :: hexOf ((bs.drop 4).take 2) ++ '-' :: hexOf ((bs.drop 6).take 2) ++ '-' :: hexOf ((bs.drop 8).take 2) ++
    '-' :: hexOf (bs.drop 10)

/-- version: `*(u.begin() + 6) &= 0x4F; |= 0x40` -/
def stampVersion (b : Byte) : Byte := Fin.ofNat 256 ((b.val &&& 0x4F) ||| 0x40)
/-- variant: `*(u.begin() + 8) &= 0xBF; |= 0x80` -/
def stampVariant (b : Byte) : Byte := Fin.ofNat 256 ((b.val &&& 0xBF) ||| 0x80)

/-- `detail::set_uuid_random_vv` -/
def stamp (bs : List Byte) : List Byte :=
  (bs.set 6 (stampVersion (bs.getD 6 0))).set 8 (stampVariant (bs.getD 8 0))

/-- the 16 bytes of a 128-bit value, byte `k` = bits `8k … 8k+7` -/
def bytesOf (v : BitVec 128) : List Byte :=
  (List.range 16).map fun k => Fin.ofNat 256 (v.toNat >>> (8 * k))

/-- the id `createId` returns when its generator draws the 128 random bits `v` -/
def uuidText (v : BitVec 128) : String := String.ofList (uuidChars (stamp (bytesOf v)))

/-- well-formed random UUID: 8-4-4-4-12 lower-case hex (the predicate every dump is judged with), version nibble 4, variant 10xx -/
def wellFormedV4 (s : String) : Bool :=
  Dump.wellFormedUUID s && s.toList[14]? == some '4' &&
  (match s.toList[19]? with
   | some c => c == '8' || c == '9' || c == 'a' || c == 'b'
   | none => false)

/-! ### reading an id back (used by the driver: the implementation's id must be in the image of `uuidText`) -/

def hexVal (c : Char) : Option Nat :=
  if '0' ≤ c ∧ c ≤ '9' then some (c.toNat - '0'.toNat)
  else if 'a' ≤ c ∧ c ≤ 'f' then some (c.toNat - 'a'.toNat + 10)
  else none

def parseBytes : List Char → Option (List Byte)
  | [] => some []
  | '-' :: rest => parseBytes rest
  | a :: b :: rest => do
    let x ← hexVal a; let y ← hexVal b; let r ← parseBytes rest
    pure (Fin.ofNat 256 (x * 16 + y) :: r)
  | [_] => none

/-- does the text read back as 16 bytes that print as the same text and carry the stamps? -/
def inImageOfUuidText (s : String) : Bool :=
  match parseBytes s.toList with
  | some bs => bs.length == 16 && String.ofList (uuidChars (stamp bs)) == s
  | none => false

/-! ### id sources -/

/-- a pseudo-random id generator: a state machine; `util::createId` holds one per process (a static mt19937 feeding a boost uuid
    generator), seeded once -/
structure Gen (State Seed : Type) where
  init : Seed → State
  next : State → State × BitVec 128

/-- the generator's state after `n` draws -/
def Gen.stateAt {State Seed : Type} (g : Gen State Seed) (seed : Seed) : Nat → State
  | 0 => g.init seed
  | n + 1 => (g.next (g.stateAt seed n)).1

/-- the `n`-th id a process that seeded with `seed` creates -/
def Gen.draw {State Seed : Type} (g : Gen State Seed) (seed : Seed) (n : Nat) : String :=
  uuidText (g.next (g.stateAt seed n)).2

/-! ### the population of ids in a file -/

/-- entities are told apart by a key that is never reused (their position in the creation history) -/
structure Ent where
  key : Nat
  name : String
  id : String
deriving DecidableEq, Repr

structure File where
  fileId : String
  ents : List Ent
  nextKey : Nat
  drawn : Nat                 -- ids taken from the source so far (in this and earlier sessions)
deriving Repr

inductive Op
  | create (name : String)            -- any create* entry point
  | delete (key : Nat)
  | modify (key : Nat) (newName : String)   -- any setter (type, definition, links, data …): never touches `entity_id`
  | reopen                            -- close + open: nothing is rewritten
  | forceId                           -- File::forceId
deriving Repr

/-- one step; `src n` is the `n`-th id the source hands out.  A create on a name that exists is refused by the front-end before any
    backend call (so it does not re-run a creating constructor on the existing group). -/
def step (src : Nat → String) (f : File) : Op → File
  | .create name =>
    if f.ents.any (·.name == name) then f
    else { f with ents := f.ents ++ [{ key := f.nextKey, name := name, id := src f.drawn }], nextKey := f.nextKey + 1, drawn := f.drawn + 1 }
  | .delete k => { f with ents := f.ents.filter (·.key != k) }
  | .modify k n => { f with ents := f.ents.map fun e => if e.key == k then { e with name := n } else e }
  | .reopen => f
  | .forceId => { f with fileId := src f.drawn, drawn := f.drawn + 1 }

def run (src : Nat → String) (f : File) (ops : List Op) : File := ops.foldl (step src) f

/-- every id in the file: the file's own and the entities' -/
def File.allIds (f : File) : List String := f.fileId :: f.ents.map (·.id)

def File.idOf (f : File) (k : Nat) : Option String := (f.ents.find? (·.key == k)).map (·.id)

/-- a fresh file: `createHeader` takes the first id -/
def newFile (src : Nat → String) : File := { fileId := src 0, ents := [], nextKey := 0, drawn := 1 }

end Nix.Ids
