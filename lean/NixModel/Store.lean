import NixModel.Err
/-
  The abstract HDF5 store (DESIGN.md §2.3(3)) and the H5Group primitives nix uses
  (backend/hdf5/h5x/H5Group.cpp, LocID.cpp).

  * an object is a group or a dataset, has attributes and — for groups — an ORDERED list of hard links
    (order = creation order, what H5_INDEX_CRT_ORDER exposes);
  * ObjId = position in `objs`; objects are never removed, only unlinked (an open hid_t keeps an unlinked
    object addressable);
  * small datasets that are only ever reached through their group by a fixed name ("units", "position",
    "extent", "data") are kept as attributes of the group under the key `ds:<name>`;
  * attribute values are protocol tokens (hex strings etc.); only entity NAMES are decoded, because they
    become link names.
-/
namespace Nix.St

abbrev ObjId := Nat

structure Obj where
  isGroup : Bool := true
  attrs : List (String × String) := []
  links : List (String × ObjId) := []
deriving Repr, DecidableEq, Inhabited

structure Store where
  objs : List Obj
deriving Repr, DecidableEq, Inhabited

/-- replace or append a key -/
def setKV (l : List (String × String)) (k v : String) : List (String × String) :=
  if l.any (·.1 == k) then l.map fun p => if p.1 == k then (k, v) else p else l ++ [(k, v)]

def delK (l : List (String × String)) (k : String) : List (String × String) := l.filter (·.1 != k)

namespace Store

def obj? (s : Store) (o : ObjId) : Option Obj := s.objs[o]?

def attr? (s : Store) (o : ObjId) (k : String) : Option String :=
  match s.obj? o with
  | some ob => ob.attrs.lookup k
  | none => none

def hasAttr (s : Store) (o : ObjId) (k : String) : Bool := (s.attr? o k).isSome

def linksOf (s : Store) (o : ObjId) : List (String × ObjId) :=
  match s.obj? o with
  | some ob => ob.links
  | none => []

def child? (s : Store) (g : ObjId) (n : String) : Option ObjId := (s.linksOf g).lookup n

def isGroupObj (s : Store) (o : ObjId) : Bool :=
  match s.obj? o with
  | some ob => ob.isGroup
  | none => false

/-- H5Group::hasObject: the empty name is answered with false, not an exception -/
def hasObject (s : Store) (g : ObjId) (n : String) : Bool := !n.isEmpty && (s.child? g n).isSome

def hasGroup (s : Store) (g : ObjId) (n : String) : Bool :=
  !n.isEmpty && match s.child? g n with
    | some t => s.isGroupObj t
    | none => false

def hasData (s : Store) (g : ObjId) (n : String) : Bool :=
  !n.isEmpty && match s.child? g n with
    | some t => !s.isGroupObj t
    | none => false

def objectCount (s : Store) (g : ObjId) : Nat := (s.linksOf g).length

def modifyObj (s : Store) (o : ObjId) (f : Obj → Obj) : Store := { objs := s.objs.modify o f }

def setAttr (s : Store) (o : ObjId) (k v : String) : Store :=
  s.modifyObj o fun ob => { ob with attrs := setKV ob.attrs k v }

def removeAttr (s : Store) (o : ObjId) (k : String) : Store :=
  s.modifyObj o fun ob => { ob with attrs := delK ob.attrs k }

/-- a new, unlinked object -/
def alloc (s : Store) (ob : Obj) : Store × ObjId := ({ objs := s.objs ++ [ob] }, s.objs.length)

/-- H5Lcreate_hard: append a link (callers make sure the name is free) -/
def addLink (s : Store) (g : ObjId) (n : String) (t : ObjId) : Store :=
  s.modifyObj g fun ob => { ob with links := ob.links ++ [(n, t)] }

/-- H5Gunlink / H5Ldelete of one name in one group -/
def unlink (s : Store) (g : ObjId) (n : String) : Store :=
  s.modifyObj g fun ob => { ob with links := ob.links.filter (·.1 != n) }

/-- H5Group::removeGroup -/
def removeGroup (s : Store) (g : ObjId) (n : String) : Store := if s.hasGroup g n then s.unlink g n else s

/-- H5Group::removeData -/
def removeData (s : Store) (g : ObjId) (n : String) : Store := if s.hasData g n then s.unlink g n else s

/-- H5Group::removeAllLinks applied to the object itself: the C++ loop asks HDF5 for "a remaining path" and
    deletes it until there is none — every link to `t`, in every group, goes. -/
def removeAllLinksTo (s : Store) (t : ObjId) : Store :=
  { objs := s.objs.map fun ob => { ob with links := ob.links.filter (·.2 != t) } }

/-- H5Group::removeAllLinks(name) on group `g` -/
def removeAllLinks (s : Store) (g : ObjId) (n : String) : Store × Bool :=
  if s.hasGroup g n then
    match s.child? g n with
    | some t => (s.removeAllLinksTo t, true)
    | none => (s, false)
  else (s, false)

/-- H5Group::openGroup(name, create = true): opens the group of that name or creates it -/
def openGroupCreate (s : Store) (g : ObjId) (n : String) : Store × ObjId :=
  if s.hasGroup g n then
    match s.child? g n with
    | some t => (s, t)
    | none => (s, g)      -- unreachable: hasGroup implies child? = some
  else
    let (s1, t) := s.alloc { isGroup := true }
    (s1.addLink g n t, t)

/-- optGroup(create = false) -/
def optGroup (s : Store) (g : ObjId) (n : String) : Option ObjId :=
  if s.hasGroup g n then s.child? g n else none

/-- number of hard links to an object (H5Oget_info rc); isValidEntity = referenceCount > 0 -/
def refCount (s : Store) (t : ObjId) : Nat :=
  (s.objs.map fun ob => (ob.links.filter (·.2 == t)).length).sum

/-- H5Group::objectName(index) -/
def objectName? (s : Store) (g : ObjId) (i : Nat) : Option String := ((s.linksOf g)[i]?).map (·.1)

/-- H5Group::findGroupByAttribute: first direct sub-group (in index order) whose attribute has the value -/
def findGroupByAttribute (s : Store) (g : ObjId) (attr value : String) : Option ObjId :=
  ((s.linksOf g).find? fun l => s.isGroupObj l.2 && s.attr? l.2 attr == some value).map (·.2)

/-- H5Group::findDataByAttribute (properties) -/
def findDataByAttribute (s : Store) (g : ObjId) (attr value : String) : Option ObjId :=
  ((s.linksOf g).find? fun l => !s.isGroupObj l.2 && s.attr? l.2 attr == some value).map (·.2)

end Store

/-- util::looksLikeUUID: "we don't want a complete check, just a glance" (byte length 36, dashes at 8 13 18 23) -/
def looksLikeUUID (v : String) : Bool :=
  let b := v.toUTF8.toList
  b.length == 36 && b[8]? == some 45 && b[13]? == some 45 && b[18]? == some 45 && b[23]? == some 45

/-- util::nameCheck -/
def nameCheck (n : String) : Bool := !(n.toList.contains '/')

namespace Store

/-- H5Group::findGroupByNameOrAttribute: a link of that name wins; otherwise, for strings that look like a
    UUID, the first sub-group whose attribute equals it. (`openGroup(value, false)` on a non-group would throw;
    the containers this is used on hold groups only.) -/
def findGroupByNameOrAttribute (s : Store) (g : ObjId) (attr value : String) : Option ObjId :=
  if s.hasObject g value then s.child? g value
  else if looksLikeUUID value then s.findGroupByAttribute g attr value
  else none

def findDataByNameOrAttribute (s : Store) (g : ObjId) (attr value : String) : Option ObjId :=
  if s.hasObject g value then s.child? g value
  else if looksLikeUUID value then s.findDataByAttribute g attr value
  else none

end Store
end Nix.St
