import NixModel.Version
import NixModel.Err
/-
  C09 — model of opening a file: `File::open` (src/File.cpp) and the constructor `FileHDF5::FileHDF5`
  (backend/hdf5/FileHDF5.cpp), statement by statement:

    File::open      ReadOnly on a path where nothing exists            → std::runtime_error
    constructor     `fileExists` false ⇒ mode := Overwrite;  map_file_mode;  is_create;
                    H5Fcreate(TRUNC) | H5Fopen(RDONLY | RDWR);  openRoot;
                    createHeader | checkHeader(mode, !Force);
                    root.openGroup("metadata");  root.openGroup("data");  setCreatedAt;  setUpdatedAt

  and of a session on the opened file as a program over HDF5 calls (`Prog`): reads answer from the store, writes are refused
  by a file opened with H5F_ACC_RDONLY, an exception ends the call.

  What is at the path is abstract (`Disk`): nothing, a directory, an empty file, bytes that are no HDF5 file, or an HDF5 file
  with the root-group facts the constructor looks at plus an opaque content `C` (everything below /data and /metadata).
  External choices (the clock, `util::createId()`) are parameters (`Env`).
-/
namespace Nix.Modes
open Nix

/-- one root attribute as `LocID::hasAttr` / `LocID::getAttr<T>` experience it -/
inductive Attr (α : Type)
  | missing
  | unreadable (e : Err)      -- present, but reading it into the C++ type throws (wrong storage class / shape)
  | value (v : α)
deriving DecidableEq, Repr

/-- the root group of an HDF5 file, as far as the constructor looks -/
structure Root where
  format : Attr String
  version : Attr (List Int)
  id : Attr String
  hasMetadata : Bool
  hasData : Bool
  createdAt : Option Nat
  updatedAt : Option Nat
deriving DecidableEq, Repr

/-- the root group of a file HDF5 has just created -/
def emptyRoot : Root :=
  { format := .missing, version := .missing, id := .missing, hasMetadata := false, hasData := false, createdAt := none, updatedAt := none }

/-- what is at the path -/
inductive Disk (C : Type)
  | missing
  | dir                           -- a directory
  | empty                         -- a zero-byte file
  | junk                          -- bytes that are not an HDF5 file (also: a truncated HDF5 file)
  | h5 (root : Root) (content : C)
deriving DecidableEq, Repr

/-- `bfs::exists(path)` in `File::open` and `fileExists` (an `ifstream` can be opened) in the constructor.  They differ only for
    paths the process may not read, which `Disk` does not distinguish. -/
def Disk.present {C : Type} : Disk C → Bool
  | .missing => false
  | _ => true

/-- external choices -/
structure Env where
  now : Nat
  freshId : String
deriving Repr

/-- the opened file -/
structure Session (C : Type) where
  mode : FileMode                -- `FileHDF5::mode`, what `fileMode()` answers
  writable : Bool                -- the HDF5 access flag is not H5F_ACC_RDONLY
  root : Root
  content : C
  version : FormatVersion        -- `file_format_version`, what `version()` answers
deriving DecidableEq, Repr

structure OpenOut (C : Type) where
  result : Except Err (Session C)
  disk : Disk C                  -- what is at the path once the call has returned (for an open session: what its close will leave)
deriving DecidableEq

/-! ### the header gate with attribute read failures -/

/-- the version test of `checkHeader`: `canWrite` for ReadWrite, `canRead` otherwise -/
def accepts (lib : FormatVersion) (mode : FileMode) (fv : FormatVersion) : Bool :=
  if mode == .readWrite then lib.canWrite fv else lib.canRead fv

/-- `FileHDF5::checkHeader` up to its last `if`: the value of `check` and of `file_format_version`; an attribute that cannot be read
    throws out of the function. -/
def gate (lib : FormatVersion) (r : Root) (mode : FileMode) : Except Err (Bool × FormatVersion) :=
  match r.format with
  | .unreadable e => .error e
  | .missing => .ok (false, lib)
  | .value s =>
    if s == Gen.fileFormat then
      match r.version with
      | .missing => .ok (false, lib)
      | .unreadable e => .error e
      | .value vv =>
        match FormatVersion.ofList? vv with
        | none => .error .stdRuntime                       -- FormatVersion(const std::vector<int>&) throws
        | some fv =>
          let c := accepts lib mode fv
          if c && fv.ge idGateVersion then
            match r.id with
            | .missing => .ok (false, fv)
            | .unreadable e => .error e
            | .value _ => .ok (true, fv)
          else .ok (c, fv)
    else .ok (false, lib)

/-- `checkHeader(mode, throw_error := !force)` as the constructor uses it: the version to report, or the exception -/
def headerCheck (lib : FormatVersion) (r : Root) (mode : FileMode) (force : Bool) : Except Err FormatVersion :=
  match gate lib r mode with
  | .error e => .error e
  | .ok (check, fv) => if !check && !force then .error .invalidFile else .ok fv

/-! ### the rest of the constructor: root groups and time stamps -/

/-- one "make sure it is there" step on the root group: nothing to do when present, a write otherwise — which a read-only file
    refuses.  The state is the root as left so far and the pending exception. -/
def ensure (writable : Bool) (present : Root → Bool) (add : Root → Root) (s : Root × Option Err) : Root × Option Err :=
  match s.2 with
  | some _ => s
  | none => if present s.1 then s else if writable then (add s.1, none) else (s.1, some .h5Error)

/-- `metadata = root.openGroup("metadata"); data = root.openGroup("data"); setCreatedAt(); setUpdatedAt();` -/
def rootSteps (writable : Bool) (now : Nat) (r : Root) : Root × Option Err :=
  ensure writable (fun r => r.updatedAt.isSome) (fun r => { r with updatedAt := some now }) <|
  ensure writable (fun r => r.createdAt.isSome) (fun r => { r with createdAt := some now }) <|
  ensure writable (fun r => r.hasData) (fun r => { r with hasData := true }) <|
  ensure writable (fun r => r.hasMetadata) (fun r => { r with hasMetadata := true }) (r, none)

/-- the constructor from `openRoot()` on, for a file that was opened (not created) -/
def proceed {C : Type} (env : Env) (mode : FileMode) (fv : FormatVersion) (r : Root) (c : C) : OpenOut C :=
  let w := mode != .readOnly
  match rootSteps w env.now r with
  | (r', some e) => ⟨.error e, .h5 r' c⟩
  | (r', none) => ⟨.ok { mode := mode, writable := w, root := r', content := c, version := fv }, .h5 r' c⟩

/-- `createHeader()` on the root of a fresh file -/
def createHeader (lib : FormatVersion) (env : Env) (r : Root) : Root :=
  { r with format := .value Gen.fileFormat, version := .value [lib.x, lib.y, lib.z], id := .value env.freshId }

/-- `File::open(name, mode, "hdf5", compression, flags)`; `empty` is the content of a file without entities.
    (The compression default is stored in the object and consulted when arrays are created; it plays no part here.) -/
def openFile {C : Type} (empty : C) (lib : FormatVersion) (env : Env) (d : Disk C) (mode : FileMode) (force : Bool) : OpenOut C :=
  -- File::open
  if mode == .readOnly && !d.present then ⟨.error .stdRuntime, d⟩ else
  -- FileHDF5::FileHDF5
  let mode' := if !d.present then .overwrite else mode
  let isCreate := !d.present || mode' == .overwrite
  if isCreate then
    match d with
    | .dir => ⟨.error .h5Error, d⟩                       -- H5Fcreate fails
    | _ =>
      -- H5Fcreate(H5F_ACC_TRUNC) leaves a fresh HDF5 file; createHeader; root groups; time stamps
      match rootSteps true env.now (createHeader lib env emptyRoot) with
      | (r', some e) => ⟨.error e, .h5 r' empty⟩
      | (r', none) => ⟨.ok { mode := mode', writable := true, root := r', content := empty, version := lib }, .h5 r' empty⟩
  else
    match d with
    | .missing | .dir | .junk => ⟨.error .h5Error, d⟩   -- H5Fopen fails
    | .empty =>
      -- HDF5 initialises a zero-byte file opened with H5F_ACC_RDWR; with H5F_ACC_RDONLY it fails
      if mode' == .readOnly then ⟨.error .h5Error, d⟩ else
      match headerCheck lib emptyRoot mode' force with
      | .error e => ⟨.error e, .h5 emptyRoot empty⟩
      | .ok fv => proceed env mode' fv emptyRoot empty
    | .h5 r c =>
      match headerCheck lib r mode' force with
      | .error e => ⟨.error e, .h5 r c⟩
      | .ok fv => proceed env mode' fv r c

/-! ### a session as programs over HDF5 calls -/

/-- the calls a nix entry point issues: `W` the calls that would modify the file, `R` the ones that only read, `A` the answers -/
structure Prim (σ W R A : Type) where
  apply : W → σ → Except Err σ          -- a modifying call on a writable file (it may fail for its own reasons)
  ask : R → σ → A

/-- an entry point: front-end checks (`fail`), reads, modifying calls, in program order; an exception ends it -/
inductive Prog (W R A β : Type)
  | ret (b : β)
  | fail (e : Err)
  | read (r : R) (k : A → Prog W R A β)
  | write (w : W) (k : Prog W R A β)

/-- run an entry point on a file opened writable or read-only: result and the store as left -/
def run {σ W R A β : Type} (P : Prim σ W R A) (writable : Bool) : Prog W R A β → σ → Except Err β × σ
  | .ret b, s => (.ok b, s)
  | .fail e, s => (.error e, s)
  | .read r k, s => run P writable (k (P.ask r s)) s
  | .write w k, s =>
    if writable then
      match P.apply w s with
      | .ok s' => run P writable k s'
      | .error e => (.error e, s)
    else (.error .h5Error, s)               -- HDF5 refuses the call on a file opened with H5F_ACC_RDONLY

/-! ### the File object's own entry points over a concrete store -/

/-- a block or root section as the File level sees it -/
structure Ent where
  name : String
  id : String
  type : String
  createdAt : Nat
  updatedAt : Nat
  subsections : Nat := 0          -- direct child sections (deleteSection removes them first)
deriving DecidableEq, Repr

structure FileStore where
  root : Root
  blocks : List Ent             -- links of /data in creation order
  sections : List Ent           -- links of /metadata in creation order
deriving DecidableEq, Repr

inductive Where | data | metadata
deriving DecidableEq, Repr

def FileStore.group (s : FileStore) : Where → List Ent
  | .data => s.blocks
  | .metadata => s.sections

def FileStore.setGroup (s : FileStore) (g : Where) (l : List Ent) : FileStore :=
  match g with
  | .data => { s with blocks := l }
  | .metadata => { s with sections := l }

/-- `util::looksLikeUUID` -/
def looksLikeUUID (s : String) : Bool :=
  let cs := s.toList
  cs.length == 36 && cs[8]? == some '-' && cs[13]? == some '-' && cs[18]? == some '-' && cs[23]? == some '-'

/-- `H5Group::findGroupByNameOrAttribute("entity_id", key)`: the link of that name, else (for UUID-shaped keys) the first group
    whose `entity_id` equals the key -/
def findByNameOrId (l : List Ent) (key : String) : Option Ent :=
  match l.find? (·.name == key) with
  | some e => some e
  | none => if looksLikeUUID key then l.find? (·.id == key) else none

inductive FW
  | createGroup (g : Where) (name : String)                       -- H5Gcreate2 through openGroup(name, true)
  | setEntAttr (g : Where) (name : String) (attr : String) (v : String)
  | setEntTime (g : Where) (name : String) (created : Bool) (t : Nat)
  | removeAllLinks (g : Where) (name : String)
  | deleteSubsection (name : String)                              -- one child of a root section
  | setRootId (v : String)
  | setRootTime (created : Bool) (t : Nat)

inductive FR
  | find (g : Where) (key : String)
  | rootHas (created : Bool)

inductive FA
  | ent (e : Option Ent)
  | flag (b : Bool)

def updEnt (l : List Ent) (name : String) (f : Ent → Ent) : List Ent :=
  l.map fun e => if e.name == name then f e else e

def filePrim : Prim FileStore FW FR FA where
  ask
    | .find g key, s => .ent (findByNameOrId (s.group g) key)
    | .rootHas true, s => .flag s.root.createdAt.isSome
    | .rootHas false, s => .flag s.root.updatedAt.isSome
  apply
    | .createGroup g name, s =>
      if (s.group g).any (·.name == name) then .error .h5Error
      else .ok (s.setGroup g (s.group g ++ [{ name := name, id := "", type := "", createdAt := 0, updatedAt := 0 }]))
    | .setEntAttr g name attr v, s =>
      .ok (s.setGroup g (updEnt (s.group g) name fun e =>
        if attr == "entity_id" then { e with id := v } else if attr == "type" then { e with type := v } else e))
    | .setEntTime g name created t, s =>
      .ok (s.setGroup g (updEnt (s.group g) name fun e => if created then { e with createdAt := t } else { e with updatedAt := t }))
    | .removeAllLinks g name, s => .ok (s.setGroup g ((s.group g).filter (·.name != name)))
    | .deleteSubsection name, s => .ok { s with sections := updEnt s.sections name fun e => { e with subsections := e.subsections - 1 } }
    | .setRootId v, s => .ok { s with root := { s.root with id := .value v } }
    | .setRootTime true t, s => .ok { s with root := { s.root with createdAt := some t } }
    | .setRootTime false t, s => .ok { s with root := { s.root with updatedAt := some t } }

abbrev FProg := Prog FW FR FA

/-- `util::checkEntityName`: empty → EmptyString, a `/` → InvalidName -/
def nameCheck (name : String) : Option Err :=
  if name.isEmpty then some .emptyString else if name.toList.contains '/' then some .invalidName else none

/-- `File::createBlock(name, type)` (`g = data`) and `File::createSection(name, type)` (`g = metadata`):
    front-end checks, `createId`, `openGroup(name, true)`, then the creating constructors
    EntityHDF5 (entity_id, setUpdatedAt, forceCreatedAt) and NamedEntityHDF5 (type + forceUpdatedAt, name + forceUpdatedAt). -/
def createEntity (g : Where) (env : Env) (name type : String) : FProg String :=
  match nameCheck name with
  | some e => .fail e
  | none =>
    if type.isEmpty then .fail .emptyString else
    .read (.find g name) fun a =>
      match a with
      | .ent (some _) => .fail .duplicateName
      | _ =>
        .write (.createGroup g name) <|
        .write (.setEntAttr g name "entity_id" env.freshId) <|
        .write (.setEntTime g name false env.now) <|          -- setUpdatedAt: the attribute is missing on a new group
        .write (.setEntTime g name true env.now) <|           -- forceCreatedAt
        .write (.setEntAttr g name "type" type) <|
        .write (.setEntTime g name false env.now) <|
        .write (.setEntAttr g name "name" name) <|
        .write (.setEntTime g name false env.now) <|
        .ret env.freshId

/-- the `for (child : section.sections()) section.deleteSection(child.id())` loop of `FileHDF5::deleteSection` -/
def deleteSubsections (name : String) : Nat → FProg Bool → FProg Bool
  | 0, k => k
  | n + 1, k => .write (.deleteSubsection name) (deleteSubsections name n k)

/-- `File::deleteBlock(name_or_id)` / `File::deleteSection(name_or_id)` -/
def deleteEntity (g : Where) (key : String) : FProg Bool :=
  .read (.find g key) fun a =>
    match a with
    | .ent (some e) =>
      match g with
      | .data => .write (.removeAllLinks g e.name) (.ret true)
      | .metadata => deleteSubsections e.name e.subsections (.write (.removeAllLinks g e.name) (.ret true))
    | _ => .ret false

/-- `File::forceId()`: new id, then `setUpdatedAt()` (which writes only when the attribute is missing) -/
def forceId (env : Env) : FProg Unit :=
  .write (.setRootId env.freshId) <|
  .read (.rootHas false) fun a =>
    match a with
    | .flag true => .ret ()
    | _ => .write (.setRootTime false env.now) (.ret ())

def forceUpdatedAt (env : Env) : FProg Unit := .write (.setRootTime false env.now) (.ret ())
def forceCreatedAt (t : Nat) : FProg Unit := .write (.setRootTime true t) (.ret ())

end Nix.Modes
