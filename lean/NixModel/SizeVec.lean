/-
  Size vectors (include/nix/NDSize.hpp, `NDSizeBase<ndsize_t>`: element-wise arithmetic and comparisons over uint64), the
  position tests built on them (src/util/dataAccess.cpp positionInData / positionAndExtentInData) and the element access of the
  NDArray buffer class (include/nix/NDArray.hpp, src/NDArray.cpp) — the bounds-checked layer C16 rests on.
-/
namespace Nix.SizeVec

/-- ndsize_t arithmetic wraps -/
def W : Nat := 18446744073709551616

inductive Res
  | vec (l : List Nat)
  | num (n : Nat)
  | bool (b : Bool)
  | err (cls : String)
deriving Repr, DecidableEq

def zipOp (f : Nat → Nat → Nat) (a b : List Nat) : Res :=
  if a.length != b.length then .err "StdOutOfRange" else .vec (List.zipWith (fun x y => f x y % W) a b)

def allRel (r : Nat → Nat → Bool) (a b : List Nat) : Bool := (List.zipWith r a b).all id

/-- element-wise division (after fix 1727e00 a zero divisor is refused; before, it was an integer division by zero) -/
def divv (a b : List Nat) : Res :=
  if a.length != b.length then .err "StdOutOfRange"
  else if b.any (· == 0) then .err "StdInvalidArgument"
  else .vec (List.zipWith (· / ·) a b)

/-- `operator[]` -/
def idx (a : List Nat) (i : Nat) : Res :=
  match a[i]? with
  | some v => .num v
  | none => .err "StdOutOfRange"

def dot (a b : List Nat) : Res :=
  if a.length != b.length then .err "StdOutOfRange" else .num ((List.zipWith (· * ·) a b).foldl (fun s x => (s + x) % W) 0)

def cmpAll (neg : Bool) (r : Nat → Nat → Bool) (a b : List Nat) : Res :=
  if a.length != b.length then .err "IncompatibleDimensions" else .bool (neg != allRel r a b)

/-- one binary operation of the size-vector class; `none` = not an operation -/
def eval (op : String) (a b : List Nat) : Option Res :=
  if op == "+" || op == "+=" then some (zipOp (· + ·) a b)
  else if op == "-" then some (zipOp (fun x y => x + W - y) a b)
  else if op == "*" then some (zipOp (· * ·) a b)
  else if op == "/" then some (divv a b)
  else if op == "dot" then some (dot a b)
  else if op == "lt" then some (cmpAll false (fun x y => decide (x < y)) a b)
  else if op == "le" then some (cmpAll false (fun x y => decide (x ≤ y)) a b)
  else if op == "gt" then some (cmpAll true (fun x y => decide (x ≤ y)) a b)
  else if op == "ge" then some (cmpAll true (fun x y => decide (x < y)) a b)
  else if op == "eq" then some (.bool (a == b))
  else if op == "idx" then some (idx a (b.headD 0))
  else if op == "nelms" then some (.num (a.foldl (fun p x => p * x % W) 1))
  else none

/-- util::positionInData -/
def positionInData (shape pos : List Nat) : Bool :=
  shape.length == pos.length && allRel (fun p s => decide (p < s)) pos shape

/-- util::positionAndExtentInData: the last element of the block, `position + count - 1`, must lie in the data -/
def positionAndExtentInData (shape pos count : List Nat) : Res :=
  match zipOp (· + ·) pos count with
  | .vec s => .bool (positionInData shape (s.map fun x => (x + W - 1) % W))
  | r => r

-- ---------------------------------------------------------------------------------------------------------
-- NDArray

/-- row-major strides of a shape (NDArray::calc_strides) -/
def strides : List Nat → List Nat
  | [] => []
  | _ :: rest => (rest.foldl (· * ·) 1) :: strides rest

def nelms (shape : List Nat) : Nat := shape.foldl (· * ·) 1

/-- NDArray::get / set through a flat element index (after fix fe3454d): refused unless the element lies in the storage -/
def flatAccess (shape : List Nat) (i : Nat) : Res :=
  if i < nelms shape then .num i else .err "OutOfBounds"

/-- bytes of one element of a `DataType` as NDArray stores it (data_type_to_size) -/
def dtypeSize (dt : String) : Nat :=
  if dt == "Bool" || dt == "Int8" || dt == "UInt8" then 1
  else if dt == "Int16" || dt == "UInt16" then 2
  else if dt == "Int32" || dt == "UInt32" || dt == "Float" then 4
  else 8

/-- NDArray::get<T> / set<T> with an element type of `tsize` bytes on storage of `nelms shape` elements of `esize` bytes each:
    the bound is the storage size in units of T (`dstore.size() / sizeof(T)`), the bytes touched are [i*tsize, (i+1)*tsize) -/
def flatAccessAs (shape : List Nat) (esize tsize i : Nat) : Res :=
  if i < nelms shape * esize / tsize then .num i else .err "OutOfBounds"

/-- NDArray::get / set through a multi-index: `sub2index` = strides · sub (ranks must agree), then the flat access -/
def subAccess (shape sub : List Nat) : Res :=
  if shape.length != sub.length then .err "StdOutOfRange"
  else flatAccess shape ((List.zipWith (fun x y => x * y % W) (strides shape) sub).foldl (fun s x => (s + x) % W) 0)

end Nix.SizeVec
