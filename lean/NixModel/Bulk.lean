import NixModel.Entities
/-
  The bulk setters of the multi-valued links — `Tag / MultiTag::references(vector)`, `EntityWithSources::sources(vector)`,
  `Group::dataArrays / dataFrames / tags / multiTags(vector)` — as the C++ composes them from the single-link entry points (after
  the fixes 45f7e5e, b20dbdf, 7b1994f): the vector is looked at first (an uninitialised entity, an entity that is not in the block:
  refused, nothing has happened yet), then every old link is removed, then the new ones are added in the order of the vector, an
  entity named twice once.  `rel` = ref | src | mA | mD | mT | mM.
-/
namespace Nix.St
open Nix

def bulkContainer (rel : String) : String :=
  if rel == "ref" then "references" else if rel == "src" then "sources" else groupContainer (rel.drop 1).toString

/-- one element of the vector: refused, skipped, or one more entity to link (unless it is in the list already) -/
def bulkLook (s : Store) (rel : String) (h : Handle) (l : List ObjId) (t : Option Handle) : Except Err (List ObjId) :=
  match t with
  | none => .error .uninitializedEntity
  | some t =>
    let add := if l.any (fun o => idOf s o == idOf s t.obj) then l else l ++ [t.obj]
    if rel == "ref" then (if (blkFindKey s h.blk "A" (idOf s t.obj)).isNone then .error .stdRuntime else .ok add)
    -- a source that is not (a direct child) of the block is skipped without a word
    else if rel == "src" then (if (blkFindHandle s h.blk "O" t).isNone then .ok l else .ok add)
    else (if (blkFind s h.blk (rel.drop 1).toString (nameOf s t.obj) (idOf s t.obj)).isNone then .error .stdRuntime else .ok add)

/-- first pass: the entities to link, or the first refusal -/
def bulkValidate (s : Store) (rel : String) (h : Handle) : List ObjId → List (Option Handle) → Except Err (List ObjId)
  | l, [] => .ok l
  | l, t :: ts => match bulkLook s rel h l t with
    | .error e => .error e
    | .ok l' => bulkValidate s rel h l' ts

/-- every link of the container goes -/
def clearLinks (c : ObjId) : Store → List String → Store
  | s, [] => s
  | s, n :: ns => clearLinks c (s.removeGroup c n) ns

def bulkClear (s : Store) (rel : String) (h : Handle) : Store :=
  match s.optGroup h.obj (bulkContainer rel) with
  | some c => clearLinks c s ((s.linksOf c).map (·.1))
  | none => s

def bulkAddOne (s : Store) (rel : String) (h : Handle) (o : ObjId) : Res Unit :=
  if rel == "ref" then addReference s h.obj h.blk (idOf s o)
  else if rel == "src" then addSource s h.obj h.blk (idOf s o)
  else addMember s h.obj h.blk (rel.drop 1).toString (nameOf s o) (idOf s o)

def bulkAdd (rel : String) (h : Handle) : Store → List ObjId → Res Unit
  | s, [] => (s, .ok ())
  | s, o :: os => match bulkAddOne s rel h o with
    | (s', .ok ()) => bulkAdd rel h s' os
    | (s', .error e) => (s', .error e)

def setLinks (s : Store) (rel : String) (h : Handle) (targets : List (Option Handle)) : Res Unit :=
  match bulkValidate s rel h [] targets with
  | .error e => (s, .error e)
  | .ok objs => bulkAdd rel h (bulkClear s rel h) objs

end Nix.St
