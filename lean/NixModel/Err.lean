namespace Nix
/-- exception classes as the harness canonicalises them (DESIGN.md §2.3(5)) -/
inductive Err
  | outOfBounds | invalidRank | uninitializedEntity | emptyString | duplicateName | invalidName | invalidFile
  | unsortedTicks | invalidUnit | incompatibleDimensions | invalidDimension | consistencyError | missingAttr
  | h5Error | stdOutOfRange | stdInvalidArgument | stdRuntime | other
deriving DecidableEq, Repr

def Err.name : Err → String
  | .outOfBounds => "OutOfBounds" | .invalidRank => "InvalidRank" | .uninitializedEntity => "UninitializedEntity"
  | .emptyString => "EmptyString" | .duplicateName => "DuplicateName" | .invalidName => "InvalidName"
  | .invalidFile => "InvalidFile" | .unsortedTicks => "UnsortedTicks" | .invalidUnit => "InvalidUnit"
  | .incompatibleDimensions => "IncompatibleDimensions" | .invalidDimension => "InvalidDimension"
  | .consistencyError => "ConsistencyError" | .missingAttr => "MissingAttr" | .h5Error => "H5Error"
  | .stdOutOfRange => "StdOutOfRange" | .stdInvalidArgument => "StdInvalidArgument" | .stdRuntime => "StdRuntime"
  | .other => "Other"
end Nix

instance {ε α : Type} [DecidableEq ε] [DecidableEq α] : DecidableEq (Except ε α) := fun a b =>
  match a, b with
  | .ok x, .ok y => if h : x = y then isTrue (by rw [h]) else isFalse (by intro e; cases e; exact h rfl)
  | .error x, .error y => if h : x = y then isTrue (by rw [h]) else isFalse (by intro e; cases e; exact h rfl)
  | .ok _, .error _ => isFalse (by intro e; cases e)
  | .error _, .ok _ => isFalse (by intro e; cases e)
