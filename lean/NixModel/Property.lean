import NixModel.Err
import NixModel.Gen.Tables
/-
  Metadata properties (C14): `Property` front-end (src/Property.cpp, include/nix/Property.hpp),
  `PropertyHDF5` (backend/hdf5/PropertyHDF5.cpp) and the three `createProperty` overloads
  (src/Section.cpp, backend/hdf5/SectionHDF5.cpp), in the statement order of the C++.

  A property is a 1-d chunked dataset of the value type plus the attributes unit / uncertainty / definition.
  Values are abstract tokens `V` (one token type for all seven value types: the type tag travels in the
  `Variant`), doubles (`uncertainty`) are abstract tokens `D` — nothing is assumed about either.
  An operation returns the state AFTER the call and the exception it raised, if any: the C++ can throw after
  it has changed something, and the model must be able to say so.
-/
namespace Nix.PV

/-- `nix::DataType` as far as properties can tell the values apart -/
inductive DType
  | nothing | bool | int32 | uint32 | int64 | uint64 | double | string
  | other (tag : Nat)   -- has a file representation but no Variant alternative (Int8, Int16, UInt8, UInt16, Float, Opaque)
  | char       -- no file representation (`data_type_to_h5_filetype` throws)
deriving DecidableEq, Repr

/-- `data_type_to_h5_filetype` does not throw -/
def DType.hasFileType : DType → Bool
  | .nothing => false
  | .char => false
  | _ => true

/-- the seven types a value can have (the cases of the `switch`es in PropertyHDF5.cpp) -/
def DType.isValueType : DType → Bool
  | .bool | .int32 | .uint32 | .int64 | .uint64 | .double | .string => true
  | _ => false

/-- what `Variant::type()` can be: one of the seven, or Nothing (default-constructed) -/
def DType.isVariantType (t : DType) : Bool := t.isValueType || t == .nothing

/-- `nix::Variant`: type tag + payload -/
structure Variant (V : Type) where
  ty : DType
  val : V
deriving DecidableEq, Repr

/-- the dataset of one property and its attributes -/
structure PropSt (V D : Type) where
  dtype : DType                      -- element type of the dataset, fixed at creation
  cells : List V                     -- dataset content; the extent is `cells.length`
  unit : Option String := none
  unc : Option D := none
  defn : Option String := none

section
variable {V D : Type}
-- what HDF5 fills newly exposed elements with: the type's zero, "" for strings
variable (zero : DType → V)

/-- `DataSet::setExtent({n})` on the 1-d dataset: the first n elements survive, new ones are fill values -/
def PropSt.setExtent (p : PropSt V D) (n : Nat) : PropSt V D :=
  { p with cells := p.cells.take n ++ List.replicate (n - p.cells.length) (zero p.dtype) }

/-- `PropertyHDF5::deleteValues` (also `values(none)`) -/
def PropSt.deleteValues (p : PropSt V D) : PropSt V D := p.setExtent zero 0

/-- `Variant::get<T>()`: `check_argument_type` -/
def Variant.getAs (dt : DType) (v : Variant V) : Except Err V :=
  if v.ty = dt then .ok v.val else .error .stdInvalidArgument

/-- `do_write_value<T>`: transform every Variant with `get<T>` (can throw), then write the whole extent -/
def PropSt.writeAll (p : PropSt V D) (dt : DType) (vs : List (Variant V)) : PropSt V D × Option Err :=
  match vs.mapM (Variant.getAs dt) with
  | .ok vals => ({ p with cells := vals }, none)
  | .error e => (p, some e)

/-- `PropertyHDF5::values(const std::vector<Variant> &)` -/
def PropSt.assign (p : PropSt V D) (vs : List (Variant V)) : PropSt V D × Option Err :=
  match vs with
  | [] => (p.deleteValues zero, none)
  | v0 :: _ =>
    if v0.ty ≠ p.dtype then (p, some .stdInvalidArgument) else             -- dt != data_type_from_h5(dset.dataType())
    if vs.any (fun v => v.ty ≠ v0.ty) then (p, some .stdInvalidArgument) else  -- the loop over all values
    let p1 := p.setExtent zero vs.length                                      -- dset.setExtent
    if v0.ty.isValueType then p1.writeAll v0.ty vs else (p1, none)            -- switch (values[0].type())
end

section
variable {V D : Type}

/-- `PropertyHDF5::values()` (file format ≥ 1.1.1) -/
def PropSt.values (p : PropSt V D) : List (Variant V) :=
  if p.cells.length < 1 then [] else
  if p.dtype.isValueType then p.cells.map (Variant.mk p.dtype) else []

def PropSt.valueCount (p : PropSt V D) : Nat := p.cells.length

/-- `util::deblankString`: removes blanks and tabs (`c > 0 && isblank(c)`; bytes ≥ 0x80 are kept) -/
def deblank (s : String) : String := String.ofList (s.toList.filter fun c => !(c == ' ' || c == '\t'))

/-- `Property::unit(const std::string &)` -/
def PropSt.setUnit (p : PropSt V D) (u : String) : PropSt V D :=
  let d := deblank u
  if d.isEmpty then { p with unit := none } else { p with unit := some d }

/-- `Property::definition(const std::string &)` -/
def PropSt.setDefinition (p : PropSt V D) (s : String) : PropSt V D × Option Err :=
  if s.isEmpty then (p, some .emptyString) else ({ p with defn := some s }, none)

/-! ### the section's property container -/

structure SecSt (V D : Type) where
  props : List (String × PropSt V D) := []    -- in creation order
  writable : Bool := true
  grp : Bool := false                          -- the "properties" group exists

def SecSt.find (s : SecSt V D) (name : String) : Option (PropSt V D) := s.props.lookup name

def SecSt.put (s : SecSt V D) (name : String) (p : PropSt V D) : SecSt V D :=
  { s with props := s.props.map fun np => if np.1 == name then (np.1, p) else np }

/-- `util::checkEntityName` -/
def checkName (name : String) : Option Err :=
  if name.isEmpty then some .emptyString else
  if name.toList.contains '/' then some .invalidName else none

inductive Op (V D : Type)
  | createDtype (name : String) (dt : DType)                -- createProperty(name, DataType)
  | createValues (name : String) (vs : List (Variant V))    -- createProperty(name, vector<Variant>)
  | createValue (name : String) (v : Variant V)             -- createProperty(name, Variant)
  | assign (name : String) (vs : List (Variant V))          -- Property::values(vector<Variant>)
  | clear (name : String)                                   -- deleteValues() / values(none)
  | setUnit (name : String) (u : Option String)
  | setUnc (name : String) (d : Option D)
  | setDef (name : String) (s : Option String)
  | delete (name : String)                                  -- Section::deleteProperty(name)
  | reopen (writable : Bool)                                -- close the file, open it again
end

section
variable {V D : Type} (zero : DType → V)

/-- `SectionHDF5::createProperty(name, dtype, shape)`: `property_group(true)`, then `createData` -/
def SecSt.newDataset (s : SecSt V D) (name : String) (dt : DType) (n : Nat) : SecSt V D × Option Err :=
  if !s.writable && !s.grp then (s, some .h5Error) else       -- the group cannot be created in a read-only file
  if !dt.hasFileType then ({ s with grp := true }, some .stdInvalidArgument) else  -- data_type_to_h5_filetype(dtype)
  if !s.writable then ({ s with grp := true }, some .h5Error) else                 -- H5Dcreate
  ({ s with grp := true, props := s.props ++ [(name, { dtype := dt, cells := List.replicate n (zero dt) })] }, none)

/-- run a mutator of one property; a call through an empty handle raises UninitializedEntity -/
def SecSt.onProp (s : SecSt V D) (name : String) (f : PropSt V D → PropSt V D × Option Err) : SecSt V D × Option Err :=
  match s.find name with
  | none => (s, some .uninitializedEntity)
  | some p => let r := f p; (s.put name r.1, r.2)

/-- the front-end checks of the three `Section::createProperty` overloads: `checkEntityName`, then `hasProperty` -/
def SecSt.createGuard (s : SecSt V D) (name : String) : Option Err :=
  match checkName name with
  | some e => some e
  | none => if (s.find name).isSome then some .duplicateName else none

/-- `SectionHDF5::createProperty(name, value(s))`: make the data set, then `p->values(…)` -/
def SecSt.createWith (s : SecSt V D) (name : String) (dt : DType) (n : Nat) (vs : List (Variant V)) : SecSt V D × Option Err :=
  match s.newDataset zero name dt n with
  | (s1, some e) => (s1, some e)
  | (s1, none) => s1.onProp name fun p => p.assign zero vs

/-- one call of the public API on the section / one of its properties -/
def step (s : SecSt V D) : Op V D → SecSt V D × Option Err
  | .createDtype name dt =>
    match s.createGuard name with
    | some e => (s, some e)
    | none => s.newDataset zero name dt Nix.Gen.defaultPropertySize
  | .createValues name vs =>
    match vs with
    | [] => (s, some .stdRuntime)
    | v0 :: _ =>
      match s.createGuard name with
      | some e => (s, some e)
      | none =>
        -- SectionHDF5::createProperty(name, values): every value must have the type of the first
        if vs.any (fun v => v.ty ≠ v0.ty) then (s, some .stdInvalidArgument) else
        s.createWith zero name v0.ty vs.length vs
  | .createValue name v =>
    match s.createGuard name with
    | some e => (s, some e)
    | none => s.createWith zero name v.ty Nix.Gen.defaultPropertySize [v]
  | .assign name vs =>
    s.onProp name fun p =>
      if s.writable then p.assign zero vs else
      -- read-only file: the type checks still come first, then H5Dset_extent fails
      match vs with
      | [] => (p, some .h5Error)
      | v0 :: _ =>
        if v0.ty ≠ p.dtype then (p, some .stdInvalidArgument) else
        if vs.any (fun v => v.ty ≠ v0.ty) then (p, some .stdInvalidArgument) else (p, some .h5Error)
  | .clear name =>
    s.onProp name fun p => if s.writable then (p.deleteValues zero, none) else (p, some .h5Error)
  | .setUnit name u =>
    s.onProp name fun p =>
      if !s.writable then (p, some .h5Error) else
      match u with
      | some u => (p.setUnit u, none)
      | none => ({ p with unit := none }, none)
  | .setUnc name d =>
    s.onProp name fun p => if !s.writable then (p, some .h5Error) else ({ p with unc := d }, none)
  | .setDef name d =>
    s.onProp name fun p =>
      match d with
      | some t => if t.isEmpty then (p, some .emptyString) else if !s.writable then (p, some .h5Error) else p.setDefinition t
      | none => if !s.writable then (p, some .h5Error) else ({ p with defn := none }, none)
  | .delete name =>
    match s.find name with
    | none => (s, none)                                        -- returns false
    | some _ => if !s.writable then (s, some .h5Error) else
      ({ s with props := s.props.filter fun np => np.1 != name }, none)
  | .reopen w => ({ s with writable := w }, none)

def run (s : SecSt V D) (ops : List (Op V D)) : SecSt V D := ops.foldl (fun s op => (step zero s op).1) s
end

end Nix.PV
