import NixModel.Entities
/-
  One inductive type for every mutating entry point of the store model and one `apply`: so that "for every operation"
  can be said in one theorem statement.  (The driver dispatches trace lines to the same functions.)
-/
namespace Nix.St

inductive Op
  | createBlock (name type id created : String)
  | createSection (parent : Option ObjId) (name type id created : String)
  | createSubSource (parent : ObjId) (name type id created : String)
  | createGroup (blk : ObjId) (name type id created : String)
  | createSource (blk : ObjId) (name type id created : String)
  | createDataArray (blk : ObjId) (name type id created dtype shape : String)
  | createDataFrame (blk : ObjId) (name type id created : String) (colNames colTypes : List String) (cols : String)
  | createTag (blk : ObjId) (name type id created position : String)
  | createMultiTag (blk : ObjId) (name type id created : String) (positions : Option Handle)
  | createProperty (sec : ObjId) (name id created dtype : String)
  | createFeature (tag blk : ObjId) (id created linkType : String) (data : Option Handle)
  | setSectionLink (holder : ObjId) (field id : String)          -- metadata / link
  | unsetLink (holder : ObjId) (field : String)
  | setArrayLink (holder blk : ObjId) (field key : String)        -- positions / feature data
  | setExtents (mt blk : ObjId) (key : String)
  | addReference (tag blk : ObjId) (key : String)
  | addSource (holder blk : ObjId) (id : String)
  | addMember (grp blk : ObjId) (kind iname iid : String)
  | setNonEmpty (o : ObjId) (k v : String)                        -- type, definition, label, repository …
  | unsetAttr (o : ObjId) (k : String)
  | setAttr (o : ObjId) (k v : String)                            -- position, extent, units, link type (validated by the front end)
  | deleteBlock (key : String)
  | deleteSection (parent : Option ObjId) (key : String)
  | deleteSubSource (parent : ObjId) (key : String)
  | deleteBlockSource (blk : ObjId) (key : String)
  | removeEntity (blk : ObjId) (kind iname iid : String)
  | deleteProperty (sec : ObjId) (key : String)
  | removeReference (tag blk : ObjId) (key : String)
  | removeSource (holder : ObjId) (id : String)
  | removeMember (grp : ObjId) (kind iname iid : String)

/-- the result of an op, reduced to what the properties speak about: refused with an exception, or carried out -/
def unitRes {α : Type} (r : Res α) : Store × Except Err Unit :=
  match r with
  | (s, .error e) => (s, .error e)
  | (s, .ok _) => (s, .ok ())

def okRes (r : Store × Bool) : Store × Except Err Unit := (r.1, .ok ())

def Op.apply (s : Store) : Op → Store × Except Err Unit
  | .createBlock n t i c => unitRes (St.createBlock s n t i c)
  | .createSection p n t i c => unitRes (createSectionIn s p n t i c)
  | .createSubSource p n t i c => unitRes (createSourceIn s p n t i c)
  | .createGroup b n t i c => unitRes (St.createGroup s b n t i c)
  | .createSource b n t i c => unitRes (St.createSource s b n t i c)
  | .createDataArray b n t i c dt sh => unitRes (St.createDataArray s b n t i c dt sh)
  | .createDataFrame b n t i c ns ts cols => unitRes (St.createDataFrame s b n t i c ns ts cols)
  | .createTag b n t i c pos => unitRes (St.createTag s b n t i c pos)
  | .createMultiTag b n t i c ph => unitRes (St.createMultiTag s b n t i c ph)
  | .createProperty sec n i c dt => unitRes (St.createProperty s sec n i c dt)
  | .createFeature tag b i c lt dh => unitRes (St.createFeature s tag b i c lt dh)
  | .setSectionLink h f id => St.setSectionLink s h f id
  | .unsetLink h f => St.unsetLink s h f
  | .setArrayLink h b f k => St.setArrayLink s h b f k
  | .setExtents m b k => St.setExtents s m b k
  | .addReference t b k => St.addReference s t b k
  | .addSource h b id => St.addSource s h b id
  | .addMember g b k n i => St.addMember s g b k n i
  | .setNonEmpty o k v => St.setNonEmpty s o k v
  | .unsetAttr o k => St.unsetAttr s o k
  | .setAttr o k v => (s.setAttr o k v, .ok ())
  | .deleteBlock k => okRes (St.deleteBlock s k)
  | .deleteSection p k => okRes (St.deleteSection s p k)
  | .deleteSubSource p k => okRes (St.deleteSubSource s p k)
  | .deleteBlockSource b k => okRes (St.deleteBlockSource s b k)
  | .removeEntity b k n i => okRes (St.removeEntity s b k n i)
  | .deleteProperty sec k => okRes (St.deleteProperty s sec k)
  | .removeReference t b k => okRes (St.removeReference s t b k)
  | .removeSource h id => okRes (St.removeSource s h id)
  | .removeMember g k n i => okRes (St.removeMember s g k n i)

/-- a history -/
def run (s : Store) (ops : List Op) : Store := ops.foldl (fun s op => (op.apply s).1) s

end Nix.St
