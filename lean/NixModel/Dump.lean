import NixModel.Proto
/-
  The canonical dump of everything the public getters expose (DESIGN.md Appendix B), as printed by the
  harness op `dump`, parsed into records.  The store-level property relations (C02 C03 C04 C08 C12 C20)
  are functions of dumps.
-/
namespace Nix

structure Rec where
  kind : String          -- F B S P O A D T M G
  path : String          -- e.g. "b0/a1"; parents precede children, siblings in index order
  id : String
  name : String          -- hex token
  type : String          -- hex token
  created : String
  fields : List (String × String)
deriving Repr, BEq, DecidableEq

abbrev Dump := List Rec

def Rec.field (r : Rec) (k : String) : String := ((r.fields.find? (·.1 == k)).map (·.2)).getD ""

namespace Dump
open Nix.Proto

def parseRec (toks : List String) : Option Rec :=
  match toks with
  | "E" :: kind :: path :: id :: name :: type :: created :: rest =>
    let fields := rest.filterMap fun t =>
      match t.splitOn "=" with
      | k :: v :: more => some (k, "=".intercalate (v :: more))
      | _ => none
    some { kind := kind, path := (parseStr path).getD path, id := id, name := name, type := type, created := created, fields := fields }
  | "E" :: kind :: path :: rest =>      -- a record whose getter threw: "E kind path !Class"
    some { kind := kind, path := (parseStr path).getD path, id := " ".intercalate rest, name := "", type := "", created := "", fields := [] }
  | _ => none

/-- split the tokens of a dump answer (`ok n | rec | rec …`) into records -/
def parse (impl : List String) : Option Dump :=
  match impl with
  | "ok" :: _ :: rest =>
    let groups := rest.foldr (fun t acc => if t == "|" then [] :: acc else match acc with | [] => [[t]] | h :: r => (t :: h) :: r) [[]]
    (groups.filter (· ≠ [])).mapM parseRec
  | _ => none


/-- ids mentioned in a field value: list entries, `a:b:c` triples and bare ids -/
def idsIn (v : String) : List String :=
  let inner := if v.startsWith "[" then ((Proto.parseList v).getD []) else [v]
  inner.flatMap fun e => (e.splitOn ":").filter fun s => s.length == 36

def isHex (c : Char) : Bool := ('0' ≤ c && c ≤ '9') || ('a' ≤ c && c ≤ 'f')

/-- 8-4-4-4-12 lower-case hex -/
def wellFormedUUID (s : String) : Bool :=
  let cs := s.toList
  cs.length == 36 && (List.range 36).all fun i =>
    match cs[i]? with
    | some c => if i == 8 || i == 13 || i == 18 || i == 23 then c == '-' else isHex c
    | none => false

/-- the parent path ("b0/a1" ↦ "b0", "b0" ↦ "") -/
def parentPath (p : String) : String :=
  match (p.splitOn "/").reverse with
  | _ :: rest => "/".intercalate rest.reverse
  | [] => ""

def children (d : Dump) (r : Rec) (kind : String) : List Rec :=
  d.filter fun c => c.kind == kind && parentPath c.path == r.path && c.path != r.path

/-- all records strictly below r -/
def descendants (d : Dump) (r : Rec) : List Rec :=
  d.filter fun c => c.path != r.path && (c.path.startsWith (r.path ++ "/"))

end Dump
end Nix
