import NixModel.Index
import NixModel.Units
import NixModel.Err
/-
  Model of region retrieval in src/util/dataAccess.cpp:
  positionToIndex (scalar and vector, with unit scaling), maximumExtents, getOffsetAndCount for
  Tag and MultiTag, positionAndExtentInData, fillPositionsExtentsAndUnits, dataSlice, and the
  DataView constructor checks.  Inputs are what the C++ reads from the file (positions, extents,
  units, dimension descriptors, data shape); outputs are offset/count vectors or the exception
  class.  Statement order follows the C++ (as of the current tree).
-/
namespace Nix
open Scalar

/-- what a dimension descriptor contributes to retrieval -/
inductive DimDesc (α : Type)
  | sampled (si off : α) (unit : Option String)
  | range (ticks : List α) (unit : Option String)
  | set (labels : Nat)
  | frame (rows : Nat) (unit : String)     -- data-frame dimension: row count, unit of its column ("" = none)

variable {α : Type} [Scalar α]

def fuelDefault : Nat := 2 ^ 62

/-- `x * scaling` where `scaling` is 1.0 unless units had to be converted (`x * 1.0 == x` in IEEE) -/
def applyScale (k : Option α) (x : α) : α :=
  match k with
  | none => x
  | some f => mul x f

/-- `util::getSIScaling(unit, dimUnit)` as a value of type α; `none` = it threw -/
def siScaling (unit dimUnit : String) : Option α :=
  match Units.siScalingExp Units.libTable unit.toList dimUnit.toList with
  | .ok k => some (pow10 k)
  | .error _ => none

/-- `getDimensionUnit` -/
def DimDesc.unitOrNone : DimDesc α → String
  | .sampled _ _ u => u.getD "none"
  | .range _ u => u.getD "none"
  | .set _ => "none"
  | .frame _ u => if u.isEmpty then "none" else u

/-- `scalePositions` for one start/end/unit entry: the scaling factor, or the exception -/
def scaleFor (unit dimUnit : String) : Except Err (Option α) :=
  if unit != "none" && dimUnit != "none" then
    match siScaling (α := α) unit dimUnit with
    | some f => .ok (some f)
    | none => .error .incompatibleDimensions
  else .ok none

/-- unit handling of the VECTOR overloads of positionToIndex (scalePositions): the factor applied to start and end -/
def DimDesc.scale (d : DimDesc α) (unit : String) : Except Err (Option α) :=
  match d with
  | .sampled _ _ du => scaleFor unit (du.getD "none")
  | .range _ du => scaleFor unit (du.getD "none")
  | .set _ => .ok none
  | .frame _ _ => .ok none

/-- unit handling of the SCALAR overloads of positionToIndex (they differ from the vector ones) -/
def DimDesc.scaleScalar (d : DimDesc α) (unit : String) : Except Err (Option α) :=
  match d with
  | .sampled _ _ du =>
    if du.isNone && unit != "none" then .error .incompatibleDimensions else
    match du with
    | some dunit =>
      if unit != "none" then
        match siScaling (α := α) unit dunit with
        | some f => .ok (some f)
        | none => .error .incompatibleDimensions
      else .ok none
    | none => .ok none
  | .range _ du =>
    if unit != "none" then
      match siScaling (α := α) unit (du.getD "none") with
      | some f => .ok (some f)
      | none => .error .incompatibleDimensions
    else .ok none
  | .set _ => .ok none
  | .frame _ _ => .ok none

/-- `dimension.indexOf(position, match)` -/
def DimDesc.index (d : DimDesc α) (x : α) (m : PositionMatch) : Option Nat :=
  match d with
  | .sampled si off _ => getSampledIndex fuelDefault x off si m
  | .range ticks _ => getIndex x ticks m
  | .set n => getCountIndex x n m
  | .frame n _ => getCountIndex x n m

/-- `dimension.indexOf(start, end, match)` -/
def DimDesc.pair (d : DimDesc α) (s e : α) (rm : RangeMatch) : Option (Nat × Nat) :=
  match d with
  | .sampled si off _ => sampledPair fuelDefault off si s e rm
  | .range ticks _ => rangePair ticks s e rm
  | .set n => countPair n s e rm
  | .frame n _ => countPair n s e rm

/-- scalar `positionToIndex(position, unit, match, dimension)` -/
def posToIndex (d : DimDesc α) (p : α) (unit : String) (m : PositionMatch) : Except Err (Option Nat) :=
  match d.scaleScalar unit with
  | .ok k => .ok (d.index (applyScale k p) m)
  | .error x => .error x

/-- vector `positionToIndex({s}, {e}, {unit}, match, dimension)[0]` -/
def rangeToIndex (d : DimDesc α) (s e : α) (unit : String) (rm : RangeMatch) : Except Err (Option (Nat × Nat)) :=
  match d.scale unit with
  | .ok k => .ok (d.pair (applyScale k s) (applyScale k e) rm)
  | .error x => .error x

/-- `getMaxExtent(dim, max_index)`: (first coordinate, last coordinate); `tickAt` may throw -/
def maxExtent (d : DimDesc α) (maxIndex : Nat) : Except Err (α × α) :=
  match d with
  | .sampled si off _ => .ok (posAt si off 0, posAt si off maxIndex)
  | .range ticks _ =>
    match ticks[0]?, ticks[maxIndex]? with
    | some a, some b => .ok (a, b)
    | _, _ => .error .outOfBounds
  | .set _ => .ok (zero, ofNat maxIndex)
  | .frame _ _ => .ok (zero, ofNat maxIndex)

/-- one iteration of the per-dimension loop of `getOffsetAndCount(Tag …)`:
    `endPos` is `position + extent` for a dimension the tag specifies and the last coordinate for a
    padded one; `extentIsZero` is the test `extent[i] != 0.` -/
def dimOffsetCount (d : DimDesc α) (pos endPos : α) (extentIsZero : Bool) (unit : String) (rm : RangeMatch) :
    Except Err (Nat × Nat) :=
  match rangeToIndex d pos endPos unit rm with
  | .error x => .error x
  | .ok (some (i, j)) => .ok (i, 1 + (j - i))
  | .ok none =>
    match posToIndex d pos unit .greaterOrEqual with
    | .error x => .error x
    | .ok ofst =>
      match ofst with
      | some o => if !extentIsZero then .error .outOfBounds else .ok (o, 1)
      | none => .error .outOfBounds

/-- sequential `for` loop over a list with early exit on the first exception -/
def mapExcept {β γ ε} (f : β → Except ε γ) : List β → Except ε (List γ)
  | [] => .ok []
  | x :: xs =>
    match f x with
    | .error e => .error e
    | .ok y =>
      match mapExcept f xs with
      | .error e => .error e
      | .ok ys => .ok (y :: ys)

structure TagIn (α : Type) where
  position : List α
  extent : List α
  units : List String
  dims : List (DimDesc α)
  shape : List Nat
  rm : RangeMatch

/-- pad / truncate a list to length n with a generator for the missing entries -/
def padTo {β} (n : Nat) (l : List β) (gen : Nat → β) : List β :=
  (List.range n).map fun i => match l[i]? with | some x => x | none => gen i

def TagIn.noExtent (t : TagIn α) : Bool := t.extent.length == 0
/-- `if (extent.size() == 0) match = RangeMatch::Inclusive` -/
def TagIn.effRm (t : TagIn α) : RangeMatch := if t.noExtent then .inclusive else t.rm
/-- number of leading dimensions the tag specifies -/
def TagIn.specified (t : TagIn α) : Nat := min t.position.length t.dims.length
/-- the unit used for dimension i: the tag's, "none" when the tag has no units at all, the dimension's own when the list is short -/
def TagIn.unitAt (t : TagIn α) (i : Nat) (d : DimDesc α) : String :=
  let units0 : List String := if t.units.length == 0 then List.replicate t.dims.length "none" else t.units
  match units0[i]? with | some u => u | none => d.unitOrNone
/-- the extent entry of dimension i (0.0 when the tag has no extent) -/
def TagIn.extentAt (t : TagIn α) (i : Nat) : α := if t.noExtent then zero else (t.extent[i]?).getD zero

/-- one iteration of the loop of `getOffsetAndCount(Tag …)` -/
def TagIn.cell (t : TagIn α) (maxExt : List (α × α)) (i : Nat) : Except Err (Nat × Nat) :=
  match t.dims[i]? with
  | none => .error .stdOutOfRange
  | some d =>
    if i < t.specified then
      match t.position[i]? with
      | some p => dimOffsetCount d p (add p (t.extentAt i)) (beq (t.extentAt i) zero) (t.unitAt i d) t.effRm
      | none => .error .stdOutOfRange
    else
      match maxExt[i]? with
      | some (first, last) => dimOffsetCount d first last (beq (sub last first) zero) (t.unitAt i d) t.effRm
      | none => .error .stdOutOfRange

/-- `maximumExtents(array)`: evaluated only when padding is needed; it can throw -/
def TagIn.maxExt (t : TagIn α) : Except Err (List (α × α)) :=
  if t.position.length < t.dims.length then
    mapExcept (fun i =>
      match t.dims[i]?, t.shape[i]? with
      | some d, some n => maxExtent d (n - 1)
      | _, _ => .error .stdOutOfRange) (List.range t.dims.length)
  else .ok []

/-- `getOffsetAndCount(const Tag &, const DataArray &, offset, count, match)` -/
def tagOffsetCount (t : TagIn α) : Except Err (List Nat × List Nat) :=
  if t.extent.length > 0 && t.extent.length != t.position.length then .error .incompatibleDimensions else
  match t.maxExt with
  | .error x => .error x
  | .ok maxExt =>
    match mapExcept (t.cell maxExt) (List.range t.dims.length) with
    | .error x => .error x
    | .ok cells => .ok (cells.map (·.1), cells.map (·.2))

/-- `positionAndExtentInData(data, position, count)` (position + count - 1 < shape, same rank) -/
def positionAndExtentInData (shape offset count : List Nat) : Bool :=
  shape.length == offset.length && offset.length == count.length &&
  (List.range shape.length).all fun i =>
    match shape[i]?, offset[i]?, count[i]? with
    | some n, some o, some c => o + c - 1 < n
    | _, _, _ => false

/-- the `DataView(array, count, offset)` constructor checks -/
def dataViewCheck (shape offset count : List Nat) : Except Err Unit :=
  if offset.length != shape.length then .error .incompatibleDimensions
  else if count.length != shape.length then .error .incompatibleDimensions
  else if (List.range shape.length).any fun i =>
      match shape[i]?, offset[i]?, count[i]? with
      | some n, some o, some c => o + c > n
      | _, _, _ => true
    then .error .outOfBounds
  else .ok ()

/-- `taggedData(tag, array, match)`: the region as (offset, count) or the exception -/
def tagRegion (t : TagIn α) : Except Err (List Nat × List Nat) :=
  match tagOffsetCount t with
  | .error x => .error x
  | .ok (off, cnt) =>
    if !positionAndExtentInData t.shape off cnt then .error .outOfBounds else
    match dataViewCheck t.shape off cnt with
    | .error x => .error x
    | .ok () => .ok (off, cnt)

/-! ### MultiTag -/

structure MTagIn (α : Type) where
  positions : List (List α)          -- the rows of the positions array (row-major)
  posRank : Nat                      -- rank of the positions array (1 or 2)
  extents : Option (List (List α))   -- rows of the extents array, if any
  units : List String
  dims : List (DimDesc α)
  shape : List Nat
  rm : RangeMatch

/-- one (position index, dimension) cell of the assembly loop of `getOffsetAndCount(MultiTag …)` -/
def mtagDim (d : DimDesc α) (pos endPos : α) (unit : String) (rm : RangeMatch) : Except Err (Nat × Nat) :=
  match rangeToIndex d pos endPos unit rm with
  | .error x => .error x
  | .ok (some (i, j)) => .ok (i, 1 + (j - i))
  | .ok none =>
    if beq endPos pos then
      match posToIndex d endPos unit .greaterOrEqual with
      | .error x => .error x
      | .ok (some o) => .ok (o, 1)
      | .ok none => .error .outOfBounds
    else .error .outOfBounds

def maximumExtents (dims : List (DimDesc α)) (shape : List Nat) : Except Err (List (α × α)) :=
  mapExcept (fun i =>
    match dims[i]?, shape[i]? with
    | some d, some n => maxExtent d (n - 1)
    | _, _ => .error .stdOutOfRange) (List.range dims.length)

/-- `units` padded with "none" up to the number of dimensions -/
def MTagIn.unitsPadded (t : MTagIn α) : List String :=
  t.units ++ List.replicate (t.dims.length - t.units.length) "none"

/-- the row read from positions / extents for one index: the whole row for n-d data, one entry for 1-d data -/
def MTagIn.rowOf (t : MTagIn α) (rows : List (List α)) (idx : Nat) : List α :=
  match rows[idx]? with
  | some r => if t.dims.length > 1 then r else r.take 1
  | none => []

def MTagIn.posRow (t : MTagIn α) (idx : Nat) : List α := t.rowOf t.positions idx
def MTagIn.extRow (t : MTagIn α) (idx : Nat) : List α :=
  match t.extents with
  | some ex => t.rowOf ex idx
  | none => (t.posRow idx).map fun _ => zero

/-- one (requested index, dimension) cell of the assembly loop -/
def MTagIn.cell (t : MTagIn α) (maxExt : List (α × α)) (idx i : Nat) : Except Err (Nat × Nat) :=
  match t.dims[i]?, t.unitsPadded[i]? with
  | some d, some u =>
    if i < min (t.posRow idx).length t.dims.length then
      match (t.posRow idx)[i]?, (t.extRow idx)[i]? with
      | some p, some e => mtagDim d p (add p e) u t.rm
      | _, _ => .error .stdOutOfRange
    else
      match maxExt[i]? with
      | some (first, last) => mtagDim d first last u t.rm
      | none => .error .stdOutOfRange
  | _, _ => .error .stdOutOfRange

/-- offsets and counts for one requested position index -/
def MTagIn.row (t : MTagIn α) (maxExt : List (α × α)) (idx : Nat) : Except Err (List Nat × List Nat) :=
  match mapExcept (t.cell maxExt idx) (List.range t.dims.length) with
  | .error x => .error x
  | .ok cells => .ok (cells.map (·.1), cells.map (·.2))

/-- `maximumExtents(array)` (skipped for an array without dimension descriptors) -/
def MTagIn.maxExt0 (t : MTagIn α) : Except Err (List (α × α)) :=
  if t.dims.length > 0 then maximumExtents t.dims t.shape else .ok []
/-- `max_index >= positions.dataExtent()[0] || (extents && max_index >= extents.dataExtent()[0])` -/
def MTagIn.indexBad (t : MTagIn α) (maxIndex : Nat) : Bool :=
  maxIndex ≥ t.positions.length || (match t.extents with | some ex => maxIndex ≥ ex.length | none => false)
/-- `position_size[dim_index]` with dim_index = 1 for multi-dimensional data throws for 1-d positions -/
def MTagIn.rankBad (t : MTagIn α) : Bool := t.dims.length > 1 && t.posRank < 2
/-- vector positionToIndex per dimension: only unit errors can arise there -/
def MTagIn.unitCheck (t : MTagIn α) : Except Err (List (Option α)) :=
  mapExcept (fun i =>
    match t.dims[i]?, t.unitsPadded[i]? with
    | some d, some u => d.scale u
    | _, _ => .error .stdOutOfRange) (List.range t.dims.length)

/-- everything `getOffsetAndCount(MultiTag …)` checks or computes before the assembly loop -/
def MTagIn.prepare (t : MTagIn α) (maxIndex : Nat) : Except Err (List (α × α)) :=
  match t.maxExt0 with
  | .error x => .error x
  | .ok maxExt =>
    if t.indexBad maxIndex then .error .outOfBounds else
    if t.rankBad then .error .stdOutOfRange else
    match t.unitCheck with
    | .error x => .error x
    | .ok _ => .ok maxExt

/-- `getOffsetAndCount(const MultiTag &, const DataArray &, indices, offsets, counts, match)` -/
def mtagOffsetCount (t : MTagIn α) (indices : List Nat) : Except Err (List (List Nat × List Nat)) :=
  if indices.isEmpty then
    -- nothing is requested (all positions of a multi-tag that has none): the C++ returns before it looks at an index
    match t.maxExt0 with
    | .error x => .error x
    | .ok _ => .ok []
  else
  match t.prepare (indices.foldl max 0) with
  | .error x => .error x
  | .ok maxExt => mapExcept (t.row maxExt) indices

/-- `taggedData(MultiTag, indices, array, match)`: one region per index -/
def mtagRegions (t : MTagIn α) (indices : List Nat) : Except Err (List (List Nat × List Nat)) :=
  let indices := if indices.isEmpty then List.range t.positions.length else indices
  match mtagOffsetCount t indices with
  | .error x => .error x
  | .ok regs =>
    mapExcept (fun (r : List Nat × List Nat) =>
      if !positionAndExtentInData t.shape r.1 r.2 then .error .outOfBounds else
      match dataViewCheck t.shape r.1 r.2 with
      | .error x => .error x
      | .ok () => .ok r) regs

/-! ### features -/

inductive LinkType | tagged | untagged | indexed
deriving DecidableEq, Repr

/-- whole array as a view -/
def wholeRegion (shape : List Nat) : List Nat × List Nat := (shape.map fun _ => 0, shape)

/-- `featureData(Tag, Feature, match)`: the feature array replaces the referenced array -/
def tagFeatureRegion (t : TagIn α) (lt : LinkType) (fdims : List (DimDesc α)) (fshape : List Nat) :
    Except Err (List Nat × List Nat) :=
  match lt with
  | .tagged => tagRegion { t with dims := fdims, shape := fshape }
  | _ => .ok (wholeRegion fshape)

/-- `featureData(MultiTag, indices, Feature, match)` -/
def mtagFeatureRegions (t : MTagIn α) (indices : List Nat) (lt : LinkType) (fdims : List (DimDesc α)) (fshape : List Nat) :
    Except Err (List (List Nat × List Nat)) :=
  let indices := if indices.isEmpty then List.range t.positions.length else indices
  match lt with
  | .tagged => mtagRegions { t with dims := fdims, shape := fshape } indices
  | _ =>
    if indices.isEmpty then .ok [] else      -- all positions of a multi-tag that has none: no views
    if indices.foldl max 0 ≥ t.positions.length then .error .outOfBounds else
    match lt with
    | .indexed =>
      mapExcept (fun idx =>
        let off := (List.range fshape.length).map fun i => if i == 0 then idx else 0
        let cnt := (List.range fshape.length).map fun i => if i == 0 then 1 else (fshape[i]?).getD 0
        if !positionAndExtentInData fshape off cnt then .error .outOfBounds else
        match dataViewCheck fshape off cnt with
        | .error x => .error x
        | .ok () => .ok (off, cnt)) indices
    | _ => .ok (indices.map fun _ => wholeRegion fshape)

/-! ### dataSlice -/

structure SliceIn (α : Type) where
  starts : List α
  ends : List α
  units : List String
  dims : List (DimDesc α)
  shape : List Nat
  rm : RangeMatch

def sliceDim (d : DimDesc α) (s e : α) (unit : String) (rm : RangeMatch) : Except Err (Nat × Nat) :=
  if e < s then .error .stdInvalidArgument else
  match rangeToIndex d s e unit rm with
  | .error x => .error x
  | .ok (some (i, j)) => .ok (i, 1 + (j - i))
  | .ok none =>
    match posToIndex d s unit .greaterOrEqual with
    | .error x => .error x
    | .ok ofst =>
      match ofst with
      | some o => if !(beq e s) then .error .outOfBounds else .ok (o, 1)
      | none => .error .outOfBounds

/-- `fillPositionsExtentsAndUnits` for dimension i: the default start / end (range ticks may be missing) -/
def fillStart (d : DimDesc α) : Except Err α :=
  match d with
  | .sampled _ off _ => .ok off                      -- `sd.offset() ? *sd.offset() : 0.0`
  | .range ticks _ => match ticks[0]? with | some a => .ok a | none => .error .outOfBounds
  | .set _ => .ok zero
  | .frame _ _ => .ok zero
def fillEnd (d : DimDesc α) (n : Nat) : Except Err α :=
  match d with
  | .sampled si off _ => .ok (posAt si off (n - 1))   -- `sd[shape[i]-1]`
  | .range ticks _ => match ticks[n - 1]? with | some b => .ok b | none => .error .outOfBounds
  | .set _ => .ok (ofNat (n - 1))
  | .frame _ _ => .ok (ofNat (n - 1))

def SliceIn.needFill (t : SliceIn α) : Bool :=
  t.starts.length < t.dims.length || t.ends.length < t.dims.length || t.units.length < t.dims.length

/-- what the loop of `dataSlice` works with in dimension i after `fillPositionsExtentsAndUnits`:
    (descriptor, start, end, unit, match).  Defaults are computed only when some vector is short, and only
    where an entry is missing; a filled-in end is matched inclusively. -/
def SliceIn.arg (t : SliceIn α) (i : Nat) : Except Err (DimDesc α × α × α × String × RangeMatch) :=
  match t.dims[i]? with
  | none => .error .stdOutOfRange
  | some d =>
    let unit := match t.units[i]? with | some u => u | none => d.unitOrNone
    let n := (t.shape[i]?).getD 0
    let sR : Except Err α := match t.starts[i]? with
      | some s => .ok s
      | none => if t.needFill then fillStart d else .error .stdOutOfRange
    match sR with
    | .error x => .error x
    | .ok s =>
      let eR : Except Err α := match t.ends[i]? with
        | some e => .ok e
        | none => if t.needFill then fillEnd d n else .error .stdOutOfRange
      match eR with
      | .error x => .error x
      | .ok e =>
        let rm := if (t.ends[i]?).isSome then t.rm else RangeMatch.inclusive
        -- a filled-in start / end is in the dimension's unit, the given one in the caller's: for sampled and range
        -- dimensions the given one is brought into the dimension's unit when the two units are scalable
        let du := d.unitOrNone
        let halfGiven := (t.starts[i]?).isSome != (t.ends[i]?).isSome && (t.units[i]?).isSome
        let scalableKind := match d with | .sampled .. => true | .range .. => true | _ => false
        -- neither bound given: both are filled in from the dimension and are in ITS unit, whatever unit was given (fix of D56)
        let noneGiven := (t.starts[i]?).isNone && (t.ends[i]?).isNone && (t.units[i]?).isSome
        if noneGiven && scalableKind then .ok (d, s, e, du, rm) else
        if halfGiven && scalableKind && unit != "none" && du != "none" && unit != du then
          match siScaling (α := α) unit du with
          | some f =>
            if (t.starts[i]?).isSome then .ok (d, mul s f, e, du, rm) else .ok (d, s, mul e f, du, rm)
          | none => .ok (d, s, e, unit, rm)
        else .ok (d, s, e, unit, rm)

/-- `util::dataSlice(array, start, end, units, match)` -/
def sliceRegion (t : SliceIn α) : Except Err (List Nat × List Nat) :=
  let dimCount := t.dims.length
  if t.starts.length > dimCount || t.ends.length > dimCount || t.units.length > dimCount then .error .stdInvalidArgument else
  match mapExcept t.arg (List.range dimCount) with
  | .error x => .error x
  | .ok cells =>
    match mapExcept (fun (c : DimDesc α × α × α × String × RangeMatch) => sliceDim c.1 c.2.1 c.2.2.1 c.2.2.2.1 c.2.2.2.2) cells with
    | .error x => .error x
    | .ok ocs =>
      let off := ocs.map (·.1); let cnt := ocs.map (·.2)
      if !positionAndExtentInData t.shape off cnt then .error .outOfBounds else
      match dataViewCheck t.shape off cnt with
      | .error x => .error x
      | .ok () => .ok (off, cnt)

end Nix
