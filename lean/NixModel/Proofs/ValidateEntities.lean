import NixModel.Proofs.ValidateLemmas
/-
  Helper lemmas for C19: for every validate(…) overload, "no error" / "no warning" / "whom the messages are attributed to"
  against the specification-level breach lists of Spec/C19.lean; where the entities of a file sit.
-/
set_option linter.unusedSectionVars false
namespace Nix.C19
open Nix Nix.Validate

variable {α : Type} [Scalar α]

theorem when_eq_nil {β : Type} (c : Bool) (b : β) : when c b = [] ↔ c = false := by cases c <;> simp [when]
theorem mem_when {β : Type} (c : Bool) (b x : β) : x ∈ when c b ↔ c = true ∧ x = b := by cases c <;> simp [when]
theorem notEmptyS_def : notEmptyS = fun s => !s.isEmpty := rfl

theorem entity_noErr (id : String) (created : Got Int) :
    NoErr (validateEntity id created) ↔ entityBreaches id created = [] := by
  simp [validateEntity, entityBreaches, when_eq_nil, notEmptyS]

theorem named_noErr (n : Named) : NoErr (validateNamed n) ↔ namedBreaches n = [] := by
  simp [validateNamed, namedBreaches, entity_noErr, when_eq_nil, notEmptyS_def]
  grind


theorem entity_allId (id : String) (created : Got Int) : AllId id (validateEntity id created) := by
  simp [validateEntity]
theorem named_allId (n : Named) : AllId n.id (validateNamed n) := by
  simp [validateNamed, entity_allId]
theorem entity_noWarn (id : String) (created : Got Int) : NoWarn (validateEntity id created) := by
  simp [validateEntity]
theorem named_noWarn (n : Named) : NoWarn (validateNamed n) := by
  simp [validateNamed, entity_noWarn]

-- ---- dimension descriptors --------------------------------------------------------------------------------------
theorem unitBreach_false_iff (u : Got (Option String)) (pred : String → Bool) :
    unitBreach u pred = false ↔ (u.passes Option.isSome = true → u.passes (optUnit pred) = true) := by
  cases u with
  | threw => simp [unitBreach, Got.passes]
  | val o => cases o <;> simp [unitBreach, Got.passes, optUnit]

theorem dim_noErr (d : DimDesc α) : NoErr (validateDim d) ↔ dimBreaches d = [] := by
  unfold validateDim dimBreaches
  cases hk : d.kind with
  | range ticks unit =>
    simp [validateRange, when_eq_nil, isSorted_eq_not_unsorted, unitBreach_false_iff]
    grind
  | sampled si off unit =>
    simp [validateSampled, when_eq_nil, unitBreach_false_iff]
    grind
  | set n =>
    simp [validateSet, when_eq_nil]
    grind
  | frame n cu => simp

theorem dim_allId (d : DimDesc α) : AllId dimId (validateDim d) := by
  unfold validateDim
  cases d.kind <;> simp [validateRange, validateSampled, validateSet]

theorem dim_noWarn (d : DimDesc α) : NoWarn (validateDim d) ↔ dimSoft d = [] := by
  unfold validateDim dimSoft
  cases hk : d.kind with
  | range ticks unit => simp [validateRange]
  | sampled si off unit => simp [validateSampled, when_eq_nil, isSet]
  | set n => simp [validateSet]
  | frame n cu => simp


-- ---- features and properties ------------------------------------------------------------------------------------
theorem feature_noErr (f : FeatureDesc) : NoErr (validateFeature f) ↔ featureBreaches f = [] := by
  simp [validateFeature, featureBreaches, entity_noErr, when_eq_nil, isSet]
  grind
theorem feature_allId (f : FeatureDesc) : AllId f.id (validateFeature f) := by
  simp [validateFeature, entity_allId]
theorem feature_noWarn (f : FeatureDesc) : NoWarn (validateFeature f) := by
  simp [validateFeature, entity_noWarn]

theorem prop_noErr (p : PropDesc) : NoErr (validateProp p) ↔ propBreaches p = [] := by
  simp [validateProp, propBreaches, entity_noErr, when_eq_nil, notEmptyS, unitBreach_false_iff]
  grind
theorem prop_allId (p : PropDesc) : AllId p.id (validateProp p) := by
  simp [validateProp, entity_allId]
theorem prop_noWarn (p : PropDesc) : NoWarn (validateProp p) ↔ propSoft p = [] := by
  simp [validateProp, propSoft, entity_noWarn, when_eq_nil]

-- ---- tags and multi-tags ----------------------------------------------------------------------------------------
theorem tag_noErr (t : TagDesc) : NoErr (validateTag t) ↔ tagBreaches t = [] := by
  simp only [validateTag, tagBreaches, noErr_concat, noErr_validator, named_noErr, List.append_eq_nil_iff, when_eq_nil]
  cases hr : t.refs with
  | threw => simp [Got.passes, isSet]; grind
  | val rs => simp [Got.passes, isSet, tagUnitsMatchRefsUnits_eq]; grind
theorem tag_allId (t : TagDesc) : AllId t.ent.id (validateTag t) := by
  simp [validateTag, named_allId]
theorem tag_noWarn (t : TagDesc) : NoWarn (validateTag t) := by
  simp [validateTag, named_noWarn]


-- ---- data arrays ------------------------------------------------------------------------------------------------
theorem dimSizeBreach_nil_iff (shape : List Nat) (d : DimDesc α) :
    dimSizeBreach shape d = [] ↔
      mism probeTicks shape d = false ∧ mism probeLabels shape d = false ∧ mism probeRows shape d = false := by
  unfold dimSizeBreach mism probeTicks probeLabels probeRows
  cases hl : dataLen shape d with
  | none => cases d.kind <;> simp
  | some n => cases d.kind <;> simp [when_eq_nil] <;> omega

theorem mism_ticks_iff (shape : List Nat) (d : DimDesc α) :
    mism probeTicks shape d = true ↔ Breach.ticks ∈ dimSizeBreach shape d := by
  unfold dimSizeBreach mism probeTicks
  cases hl : dataLen shape d with
  | none => cases d.kind <;> simp
  | some n => cases d.kind <;> simp [mem_when]
theorem mism_labels_iff (shape : List Nat) (d : DimDesc α) :
    mism probeLabels shape d = true ↔ Breach.labels ∈ dimSizeBreach shape d := by
  unfold dimSizeBreach mism probeLabels
  cases hl : dataLen shape d with
  | none => cases d.kind <;> simp
  | some n => cases d.kind <;> simp [mem_when] <;> omega
theorem mism_rows_iff (shape : List Nat) (d : DimDesc α) :
    mism probeRows shape d = true ↔ Breach.rows ∈ dimSizeBreach shape d := by
  unfold dimSizeBreach mism probeRows
  cases hl : dataLen shape d with
  | none => cases d.kind <;> simp
  | some n => cases d.kind <;> simp [mem_when]

/-- no false alarm on an array: an array without breach gets no error -/
theorem array_noErr_of_conform (a : ArrayDesc α) (h : arrayBreaches a = []) : NoErr (validateArray a) := by
  simp only [arrayBreaches, List.append_eq_nil_iff, when_eq_nil, flatMap_eq_nil_iff', dimSizeBreach_nil_iff] at h
  obtain ⟨⟨⟨hn, hdt⟩, hrk⟩, hsz⟩ := h
  have h1 := dimsLoop_true probeTicks a.shape a.dims (fun d hd => (hsz d hd).1)
  have h2 := dimsLoop_true probeLabels a.shape a.dims (fun d hd => (hsz d hd).2.1)
  have h3 := dimsLoop_true probeRows a.shape a.dims (fun d hd => (hsz d hd).2.2)
  simp only [validateArray, noErr_concat, noErr_validator, named_noErr, hn, and_true]
  simp [dimTicksMatchData, dimLabelsMatchData, dimDataFrameTicksMatchData, h1, h2, h3]
  simp [isSet] at hdt
  simp at hrk
  refine ⟨hdt, ?_⟩
  cases hc : a.dimCount with
  | threw => simp [hc, Got.passes] at hrk
  | val n =>
    simp only [hc, Got.passes, beq_iff_eq] at hrk ⊢
    exact hrk.symm


/-- every breach of an array is flagged: an array the validator has no error for has no breach
    (for descriptions the getters can produce: `arrayWF`) -/
theorem array_conform_of_noErr (a : ArrayDesc α) (hwf : arrayWF a = true) (h : NoErr (validateArray a)) :
    arrayBreaches a = [] := by
  simp only [validateArray, noErr_concat, noErr_validator, named_noErr] at h
  obtain ⟨hv, hn⟩ := h
  simp only [List.mem_cons, List.not_mem_nil, or_false, forall_eq_or_imp, forall_eq, noErr_must, noErr_could,
    noErr_should, Bool.not_eq_true'] at hv
  obtain ⟨⟨hdt, _⟩, ⟨hrk, hfun⟩, _⟩ := hv
  -- dimensionCount() = rank, hence (well-formedness) as many descriptors as data dimensions, each index within range
  simp only [arrayWF, Bool.and_eq_true, List.all_eq_true, decide_eq_true_eq] at hwf
  obtain ⟨hcnt, hidx⟩ := hwf
  have hlen : a.dims.length = a.shape.length := by
    cases hc : a.dimCount with
    | threw => simp [hc, Got.passes] at hrk
    | val n =>
      simp only [hc, Got.passes, beq_iff_eq] at hrk hcnt
      omega
  have hin : ∀ d ∈ a.dims, 1 ≤ d.index ∧ d.index ≤ a.shape.length := fun d hd => by
    have := hidx d hd; omega
  have hsz : ∀ d ∈ a.dims, dimSizeBreach a.shape d = [] := by
    intro d hd
    have hne : a.dims.isEmpty = false := by cases hdm : a.dims with
      | nil => simp [hdm] at hd
      | cons _ _ => rfl
    have hf := hfun (by simp [hne])
    simp only [noErr_must, dimTicksMatchData, dimLabelsMatchData, dimDataFrameTicksMatchData] at hf
    obtain ⟨⟨h1, _⟩, ⟨h2, _⟩, ⟨h3, _⟩⟩ := hf
    rw [dimSizeBreach_nil_iff]
    refine ⟨?_, ?_, ?_⟩
    · cases hm : mism probeTicks a.shape d with
      | false => rfl
      | true => rw [dimsLoop_false probeTicks a.shape a.dims hin ⟨d, hd, hm⟩] at h1; cases h1
    · cases hm : mism probeLabels a.shape d with
      | false => rfl
      | true => rw [dimsLoop_false probeLabels a.shape a.dims hin ⟨d, hd, hm⟩] at h2; cases h2
    · cases hm : mism probeRows a.shape d with
      | false => rfl
      | true => rw [dimsLoop_false probeRows a.shape a.dims hin ⟨d, hd, hm⟩] at h3; cases h3
  simp only [arrayBreaches, List.append_eq_nil_iff, when_eq_nil, flatMap_eq_nil_iff']
  refine ⟨⟨⟨hn, ?_⟩, ?_⟩, hsz⟩
  · simp [isSet, hdt]
  · cases hc : a.dimCount with
    | threw => simp [hc, Got.passes] at hrk
    | val n =>
      simp only [hc, Got.passes, beq_iff_eq] at hrk ⊢
      simp [hrk]

theorem array_allId (a : ArrayDesc α) : AllId a.ent.id (validateArray a) := by
  simp [validateArray, named_allId]

theorem array_noWarn (a : ArrayDesc α) : NoWarn (validateArray a) ↔ arraySoft a = [] := by
  simp only [validateArray, arraySoft, noWarn_concat, named_noWarn, and_true, List.append_eq_nil_iff, when_eq_nil]
  simp [isSet, unitBreach_false_iff]
  grind


-- ---- every entity ---------------------------------------------------------------------------------------------------
def entWF : Ent α → Bool
  | .array a => arrayWF a
  | _ => true

theorem ent_sound (e : Ent α) (h : e.breaches = []) : NoErr (entValidate e) := by
  cases e with
  | named n => exact (named_noErr n).mpr h
  | array a => exact array_noErr_of_conform a h
  | dim d => exact (dim_noErr d).mpr h
  | tag t => exact (tag_noErr t).mpr h
  | feature f => exact (feature_noErr f).mpr h
  | prop p => exact (prop_noErr p).mpr h

theorem ent_complete (e : Ent α) (hwf : entWF e = true) (h : NoErr (entValidate e)) : e.breaches = [] := by
  cases e with
  | named n => exact (named_noErr n).mp h
  | array a => exact array_conform_of_noErr a hwf h
  | dim d => exact (dim_noErr d).mp h
  | tag t => exact (tag_noErr t).mp h
  | feature f => exact (feature_noErr f).mp h
  | prop p => exact (prop_noErr p).mp h

theorem ent_allId (e : Ent α) : AllId e.msgId (entValidate e) := by
  cases e with
  | named n => exact named_allId n
  | array a => exact array_allId a
  | dim d => exact dim_allId d
  | tag t => exact tag_allId t
  | feature f => exact feature_allId f
  | prop p => exact prop_allId p

theorem ent_noWarn (e : Ent α) : NoWarn (entValidate e) ↔ e.soft = [] := by
  cases e with
  | named n => simp [entValidate, Ent.soft, named_noWarn]
  | array a => exact array_noWarn a
  | dim d => exact dim_noWarn d
  | tag t => simp [entValidate, Ent.soft, tag_noWarn]
  | feature f => simp [entValidate, Ent.soft, feature_noWarn]
  | prop p => exact prop_noWarn p

-- ---- where entities sit ----------------------------------------------------------------------------------------------
theorem mem_entities_block {d : FileDesc α} {b : BlockDesc α} (hb : b ∈ d.blocks) : Ent.named b.ent ∈ entities d := by
  simp only [entities, List.mem_append, List.mem_flatMap]
  exact Or.inl ⟨b, hb, by simp [blockEnts]⟩
theorem mem_entities_array {d : FileDesc α} {b : BlockDesc α} {a : ArrayDesc α} (hb : b ∈ d.blocks) (ha : a ∈ b.arrays) :
    Ent.array a ∈ entities d := by
  simp only [entities, List.mem_append, List.mem_flatMap]
  exact Or.inl ⟨b, hb, by simp only [blockEnts, List.mem_cons, List.mem_append, List.mem_flatMap]; exact Or.inr (Or.inl (Or.inl (Or.inl ⟨a, ha, by simp [arrayEnts]⟩)))⟩
theorem mem_entities_dim {d : FileDesc α} {b : BlockDesc α} {a : ArrayDesc α} {x : DimDesc α} (hb : b ∈ d.blocks) (ha : a ∈ b.arrays)
    (hx : x ∈ a.dims) : Ent.dim x ∈ entities d := by
  simp only [entities, List.mem_append, List.mem_flatMap]
  exact Or.inl ⟨b, hb, by simp only [blockEnts, List.mem_cons, List.mem_append, List.mem_flatMap]; exact Or.inr (Or.inl (Or.inl (Or.inl ⟨a, ha, by simp [arrayEnts, hx]⟩)))⟩
theorem mem_entities_mtag {d : FileDesc α} {b : BlockDesc α} {t : TagDesc} (hb : b ∈ d.blocks) (ht : t ∈ b.mtags) :
    Ent.tag t ∈ entities d := by
  simp only [entities, List.mem_append, List.mem_flatMap]
  exact Or.inl ⟨b, hb, by simp only [blockEnts, List.mem_cons, List.mem_append, List.mem_flatMap]; exact Or.inr (Or.inl (Or.inl (Or.inr ⟨t, ht, by simp [tagEnts]⟩)))⟩
theorem mem_entities_tag {d : FileDesc α} {b : BlockDesc α} {t : TagDesc} (hb : b ∈ d.blocks) (ht : t ∈ b.tags) :
    Ent.tag t ∈ entities d := by
  simp only [entities, List.mem_append, List.mem_flatMap]
  exact Or.inl ⟨b, hb, by simp only [blockEnts, List.mem_cons, List.mem_append, List.mem_flatMap]; exact Or.inr (Or.inl (Or.inr ⟨t, ht, by simp [tagEnts]⟩))⟩
theorem mem_entities_feature {d : FileDesc α} {b : BlockDesc α} {t : TagDesc} {f : FeatureDesc} (hb : b ∈ d.blocks)
    (ht : t ∈ b.tags ∨ t ∈ b.mtags) (hf : f ∈ t.features) : Ent.feature f ∈ entities d := by
  simp only [entities, List.mem_append, List.mem_flatMap]
  refine Or.inl ⟨b, hb, ?_⟩
  simp only [blockEnts, List.mem_cons, List.mem_append, List.mem_flatMap]
  rcases ht with ht | ht
  · exact Or.inr (Or.inl (Or.inr ⟨t, ht, by simp [tagEnts, hf]⟩))
  · exact Or.inr (Or.inl (Or.inl (Or.inr ⟨t, ht, by simp [tagEnts, hf]⟩)))
theorem mem_entities_source {d : FileDesc α} {b : BlockDesc α} {s : Named} (hb : b ∈ d.blocks) (hs : s ∈ b.sources) :
    Ent.named s ∈ entities d := by
  simp only [entities, List.mem_append, List.mem_flatMap]
  exact Or.inl ⟨b, hb, by simp only [blockEnts, List.mem_cons, List.mem_append, List.mem_map]; exact Or.inr (Or.inr ⟨s, hs, rfl⟩)⟩
theorem mem_entities_section {d : FileDesc α} {s : SectionDesc} (hs : s ∈ d.sections) : Ent.named s.ent ∈ entities d := by
  simp only [entities, List.mem_append, List.mem_flatMap]
  exact Or.inr ⟨s, hs, by simp [sectionEnts]⟩
theorem mem_entities_prop {d : FileDesc α} {s : SectionDesc} {p : PropDesc} (hs : s ∈ d.sections) (hp : p ∈ s.props) :
    Ent.prop p ∈ entities d := by
  simp only [entities, List.mem_append, List.mem_flatMap]
  exact Or.inr ⟨s, hs, by simp [sectionEnts, hp]⟩

theorem entWF_of_mem {d : FileDesc α} (hwf : WF d = true) {e : Ent α} (he : e ∈ entities d) : entWF e = true := by
  cases e with
  | array a =>
    simp only [WF, List.all_eq_true] at hwf
    simp only [entities, List.mem_append, List.mem_flatMap] at he
    rcases he with ⟨b, hb, hm⟩ | ⟨s, _, hm⟩
    · simp only [blockEnts, List.mem_cons, List.mem_append, List.mem_flatMap, List.mem_map, reduceCtorEq, false_or] at hm
      rcases hm with ((⟨a', ha', hm⟩ | ⟨t, _, hm⟩) | ⟨t, _, hm⟩) | ⟨s, _, hm⟩
      · simp only [arrayEnts, List.mem_cons, List.mem_map, Ent.array.injEq, reduceCtorEq, and_false, exists_false, or_false] at hm
        subst hm
        exact hwf b hb a ha'
      · simp [tagEnts] at hm
      · simp [tagEnts] at hm
      · cases hm
    · simp [sectionEnts] at hm
  | named _ => rfl
  | dim _ => rfl
  | tag _ => rfl
  | feature _ => rfl
  | prop _ => rfl


-- ---- counting ---------------------------------------------------------------------------------------------------------
theorem one_le_countP_of_all {β : Type} (l : List β) (p : β → Bool) (hne : l ≠ []) (h : ∀ x ∈ l, p x = true) :
    1 ≤ l.countP p := by
  cases l with
  | nil => exact absurd rfl hne
  | cons x xs => simp [List.countP_cons, h x (by simp)]

theorem countP_le_countP_flatMap {β γ : Type} (l : List β) (f : β → List γ) (q : β → Bool) (p : γ → Bool)
    (h : ∀ x ∈ l, q x = true → 1 ≤ (f x).countP p) : l.countP q ≤ (l.flatMap f).countP p := by
  induction l with
  | nil => simp
  | cons x xs ih =>
    have ih' := ih (fun y hy => h y (by simp [hy]))
    simp only [List.flatMap_cons, List.countP_append, List.countP_cons]
    by_cases hq : q x = true
    · have := h x (by simp) hq
      simp only [hq, if_true]; omega
    · simp only [hq]; simp; omega

end Nix.C19
