import NixModel.Spec.C13
/-
  Helper lemmas for Props/C13.lean: lists of named groups whose names are consecutive.
-/
set_option linter.unusedSectionVars false
set_option linter.unusedSimpArgs false
set_option linter.unusedVariables false
namespace Nix.C13
open Nix Nix.DimDesc

variable {α : Type}

/-- the link names are exactly 1..n, in creation order -/
def GapFree (a : Arr α) : Prop := a.names = List.range' 1 a.count

theorem findName_name {i : Nat} {g : Grp α} : ∀ {l : List (Grp α)}, findName i l = some g → g.name = i ∧ g ∈ l
  | [], h => by simp [findName] at h
  | x :: rest, h => by
    unfold findName at h
    split at h
    · next hx => cases h; exact ⟨hx, List.mem_cons_self⟩
    · have := findName_name h; exact ⟨this.1, List.mem_cons_of_mem _ this.2⟩

/-- lookup by name in a group whose names are k, k+1, … is positional -/
theorem findName_range' (i : Nat) : ∀ (l : List (Grp α)) (k : Nat), l.map (·.name) = List.range' k l.length →
    findName i l = if k ≤ i then l[i - k]? else none
  | [], k, _ => by simp [findName]
  | g :: rest, k, h => by
    simp only [List.map_cons, List.length_cons, List.range'_succ, List.cons.injEq] at h
    unfold findName
    by_cases hg : g.name = i
    · simp [hg, ← h.1]
    · have ih := findName_range' i rest (k + 1) h.2
      rw [if_neg hg, ih]
      by_cases hk : k ≤ i
      · have hk1 : k + 1 ≤ i := by omega
        have : i - k = (i - (k + 1)) + 1 := by omega
        simp [hk, hk1, this]
      · have hk1 : ¬ k + 1 ≤ i := by omega
        simp [hk, hk1]

theorem lookup_gapfree {a : Arr α} (h : GapFree a) (i : Nat) : a.lookup i = if 1 ≤ i then a.dims[i - 1]? else none :=
  findName_range' i a.dims 1 h

theorem name_lt_of_range' {l : List (Grp α)} {k : Nat} (h : l.map (·.name) = List.range' k l.length) {g : Grp α} (hg : g ∈ l) :
    k ≤ g.name ∧ g.name < k + l.length := by
  have : g.name ∈ l.map (·.name) := List.mem_map_of_mem hg
  rw [h, List.mem_range'_1] at this
  exact this

/-- removing a name that is not there -/
theorem filter_ne_of_range' {l : List (Grp α)} {k m : Nat} (h : l.map (·.name) = List.range' k l.length)
    (hm : m < k ∨ k + l.length ≤ m) : l.filter (fun g => g.name ≠ m) = l := by
  rw [List.filter_eq_self]
  intro g hg
  have := name_lt_of_range' h hg
  simp only [ne_eq, decide_not, Bool.not_eq_eq_eq_not, Bool.not_true, decide_eq_false_iff_not]
  omega

theorem updName_names (i : Nat) (f : Desc α → Desc α) : ∀ l : List (Grp α), (updName i f l).map (·.name) = l.map (·.name)
  | [] => rfl
  | g :: rest => by
    unfold updName
    split
    · simp
    · simp [updName_names i f rest]

theorem updName_length (i : Nat) (f : Desc α → Desc α) (l : List (Grp α)) : (updName i f l).length = l.length := by
  have := congrArg List.length (updName_names i f l)
  simpa using this

/-- updating the group named `i` is updating position `i - k` -/
theorem updName_range' (i : Nat) (f : Desc α → Desc α) : ∀ (l : List (Grp α)) (k : Nat), l.map (·.name) = List.range' k l.length →
    (updName i f l).map (·.d) = if k ≤ i then (l.map (·.d)).modify (i - k) f else l.map (·.d)
  | [], k, _ => by simp [updName]
  | g :: rest, k, h => by
    simp only [List.map_cons, List.length_cons, List.range'_succ, List.cons.injEq] at h
    unfold updName
    by_cases hg : g.name = i
    · have : k ≤ i := by omega
      have h0 : i - k = 0 := by omega
      simp [hg, this, h0]
    · have ih := updName_range' i f rest (k + 1) h.2
      rw [if_neg hg]
      simp only [List.map_cons, ih]
      by_cases hk : k ≤ i
      · have hk1 : k + 1 ≤ i := by omega
        have : i - k = (i - (k + 1)) + 1 := by omega
        simp [hk, hk1, this]
      · have hk1 : ¬ k + 1 ≤ i := by omega
        simp [hk, hk1]

/-- the deletion loop removes exactly the names 1..n -/
theorem deleteLoop_eq : ∀ (n : Nat) (l : List (Grp α)), deleteLoop n l = l.filter (fun g => g.name = 0 ∨ n < g.name)
  | 0, l => by
    simp only [deleteLoop]
    rw [eq_comm, List.filter_eq_self]
    intro g _; simp; omega
  | n + 1, l => by
    simp only [deleteLoop]
    rw [deleteLoop_eq n, List.filter_filter]
    congr 1
    funext g
    simp only [ne_eq, decide_not, Bool.and_eq_true, decide_eq_true_eq, Bool.not_eq_eq_eq_not, Bool.not_true,
      decide_eq_false_iff_not, Bool.decide_or]
    by_cases h0 : g.name = 0 <;> by_cases h1 : n < g.name <;> by_cases h2 : n + 1 < g.name <;> by_cases h3 : g.name = n + 1 <;>
      simp_all <;> omega

theorem deleteLoop_gapfree {l : List (Grp α)} (h : l.map (·.name) = List.range' 1 l.length) : deleteLoop l.length l = [] := by
  rw [deleteLoop_eq, List.filter_eq_nil_iff]
  intro g hg
  have := name_lt_of_range' h hg
  simp; omega


/-- the link names are 1..n in SOME order (what the backend primitive guarantees for an arbitrary index argument) -/
def GapFreeSet (a : Arr α) : Prop := a.names.Perm (List.range' 1 a.count)

theorem names_createGroup (l : List (Grp α)) (idx : Nat) (d : Desc α) :
    ((l.filter (fun g : Grp α => g.name ≠ idx)) ++ [(⟨idx, d⟩ : Grp α)]).map (·.name) =
      ((l.map (·.name)).filter (fun n => n != idx)) ++ [idx] := by
  simp [List.filter_map, Function.comp_def]
  congr 1


end Nix.C13
