import NixModel.Step
import NixModel.Proofs.StoreBasics
import NixModel.Proofs.SysInv
/-
  The schema of a nix file, as an invariant of the store model.

  Every object has a ROLE (root, the two top groups, an entity of some kind, a container of entities created in it, the
  `properties` container of a section, a container of links to entities that live elsewhere, a property data set) and every link
  conforms to the schema: `childRole (role of the holder) (link name) = some (role of the target)`.  `WT s ρ` says that, plus:
  targets exist, an object is a data set iff its role is `prop`, and non-empty link names are pairwise distinct in every object
  (what HDF5 enforces — so the model's `addLink`, which appends blindly, is never asked for a name that is taken: nix never
  requests a duplicate link and never mistakes a data set for a group).

  Roles are ghost state: a function `ρ : ObjId → Role` that the theorems carry along a history (`Op.roleAfter`,
  Proofs/RolesOps.lean); the store itself does not contain them.
-/
namespace Nix.St
open Store

inductive Kind | B | S | O | A | D | T | M | G | F
deriving DecidableEq, Repr

inductive Role
  | root | topMeta | topData
  | ent (k : Kind)
  | cont (k : Kind)      -- name-keyed container: its children are the entities of kind k created in it
  | pcont                -- the `properties` container of a section
  | lcont (k : Kind)     -- id-keyed container of links to entities of kind k that live elsewhere
  | prop                 -- a property (a data set)
deriving DecidableEq, Repr

/-- the schema: the role a link of that name must lead to -/
def childRole : Role → String → Option Role
  | .root, n => if n == "metadata" then some .topMeta else if n == "data" then some .topData else none
  | .topMeta, _ => some (.ent .S)
  | .topData, _ => some (.ent .B)
  | .ent .B, n =>
    if n == "data_arrays" then some (.cont .A) else if n == "data_frames" then some (.cont .D)
    else if n == "tags" then some (.cont .T) else if n == "multi_tags" then some (.cont .M)
    else if n == "groups" then some (.cont .G) else if n == "sources" then some (.cont .O)
    else if n == "metadata" then some (.ent .S) else none
  | .ent .S, n =>
    if n == "sections" then some (.cont .S) else if n == "properties" then some .pcont
    else if n == "link" then some (.ent .S) else none
  | .ent .O, n => if n == "sources" then some (.cont .O) else if n == "metadata" then some (.ent .S) else none
  | .ent .A, n => if n == "sources" then some (.lcont .O) else if n == "metadata" then some (.ent .S) else none
  | .ent .D, n => if n == "sources" then some (.lcont .O) else if n == "metadata" then some (.ent .S) else none
  | .ent .T, n =>
    if n == "references" then some (.lcont .A) else if n == "features" then some (.cont .F)
    else if n == "sources" then some (.lcont .O) else if n == "metadata" then some (.ent .S) else none
  | .ent .M, n =>
    if n == "references" then some (.lcont .A) else if n == "features" then some (.cont .F)
    else if n == "sources" then some (.lcont .O) else if n == "metadata" then some (.ent .S)
    else if n == "positions" then some (.ent .A) else if n == "extents" then some (.ent .A) else none
  | .ent .G, n =>
    if n == "data_arrays" then some (.lcont .A) else if n == "data_frame" then some (.lcont .D)
    else if n == "tags" then some (.lcont .T) else if n == "multi_tags" then some (.lcont .M)
    else if n == "sources" then some (.lcont .O) else if n == "metadata" then some (.ent .S) else none
  | .ent .F, n => if n == "data" then some (.ent .A) else none
  | .cont k, _ => some (.ent k)
  | .pcont, _ => some .prop
  | .lcont k, _ => some (.ent k)
  | .prop, _ => none

/-- only the `properties` container holds data sets -/
theorem childRole_prop {r : Role} {n : String} (h : childRole r n = some .prop) : r = .pcont := by
  cases r with
  | ent k => cases k <;> simp only [childRole] at h <;> repeat' split at h
             all_goals simp at h
  | root => simp only [childRole] at h; repeat' split at h
            all_goals simp at h
  | _ => simp_all [childRole]

/-- the kind behind the kind token of Block-level entry points (`blockContainer`) -/
def bKind (k : String) : Kind :=
  if k == "A" then .A else if k == "D" then .D else if k == "T" then .T else if k == "M" then .M else if k == "G" then .G else .O

/-- the kind behind the kind token of Group-level entry points (`groupContainer`) -/
def gKind (k : String) : Kind := if k == "A" then .A else if k == "D" then .D else if k == "T" then .T else .M

theorem childRole_blockContainer (k : String) : childRole (.ent .B) (blockContainer k) = some (.cont (bKind k)) := by
  unfold blockContainer bKind
  repeat' split
  all_goals simp [childRole]

theorem childRole_groupContainer (k : String) : childRole (.ent .G) (groupContainer k) = some (.lcont (gKind k)) := by
  unfold groupContainer gKind
  repeat' split
  all_goals simp [childRole]

/-- containment links — everything except the cross links from one entity to another (metadata, link, positions, extents,
    data) and the member links of the id-keyed link containers: the target of a containment link is created under its holder -/
def contains (r r' : Role) : Bool :=
  match r' with
  | .ent _ => (match r with | .cont _ => true | .topMeta => true | .topData => true | _ => false)
  | _ => true

/-- non-empty link names are pairwise distinct -/
def UniqNames (l : List (String × ObjId)) : Prop := l.Pairwise fun a b => a.1 ≠ b.1 ∨ a.1.isEmpty = true

structure WT (s : Store) (ρ : ObjId → Role) : Prop where
  len : 3 ≤ s.objs.length
  r0 : ρ 0 = .root
  r1 : ρ 1 = .topMeta
  r2 : ρ 2 = .topData
  link : ∀ o l, l ∈ s.linksOf o → l.2 < s.objs.length ∧ childRole (ρ o) l.1 = some (ρ l.2)
  grp : ∀ o, o < s.objs.length → s.isGroupObj o = decide (ρ o ≠ .prop)
  uniq : ∀ o, UniqNames (s.linksOf o)
  /-- what is contained is younger than what contains it: the containment links form a forest (no section or source is its own
      descendant), whatever the cross links do -/
  mono : ∀ o l, l ∈ s.linksOf o → contains (ρ o) (ρ l.2) = true → o < l.2

def upd (ρ : ObjId → Role) (x : ObjId) (r : Role) : ObjId → Role := fun y => if y = x then r else ρ y

/-- the roles of the objects that existed are kept -/
def Agree (s : Store) (ρ ρ' : ObjId → Role) : Prop := ∀ o, o < s.objs.length → ρ' o = ρ o

theorem Agree.refl (s : Store) (ρ : ObjId → Role) : Agree s ρ ρ := fun _ _ => rfl

theorem Agree.trans {s s' : Store} {ρ ρ' ρ'' : ObjId → Role} (h1 : Agree s ρ ρ') (h2 : Agree s' ρ' ρ'')
    (hl : s.objs.length ≤ s'.objs.length) : Agree s ρ ρ'' :=
  fun o ho => by rw [h2 o (Nat.lt_of_lt_of_le ho hl), h1 o ho]

theorem newFile_wt (id created format version : String) :
    WT (newFile id created format version) (fun o => if o = 0 then .root else if o = 1 then .topMeta else .topData) := by
  refine ⟨by simp [newFile], rfl, rfl, rfl, ?_, ?_, ?_, ?_⟩
  · intro o l hl
    simp only [newFile, linksOf, obj?] at hl
    match o with
    | 0 =>
      simp at hl
      rcases hl with rfl | rfl <;> simp [childRole, metadataGrp, dataGrp, newFile]
    | 1 => simp at hl
    | 2 => simp at hl
    | (n + 3) => simp at hl
  rotate_left 2
  · intro o l hl _
    simp only [newFile, linksOf, obj?] at hl
    match o with
    | 0 =>
      simp at hl
      rcases hl with rfl | rfl <;> simp [metadataGrp, dataGrp]
    | 1 => simp at hl
    | 2 => simp at hl
    | (n + 3) => simp at hl
  · intro o ho
    simp only [newFile, List.length_cons, List.length_nil] at ho
    match o, ho with
    | 0, _ => simp [newFile, isGroupObj, obj?]
    | 1, _ => simp [newFile, isGroupObj, obj?]
    | 2, _ => simp [newFile, isGroupObj, obj?]
  · intro o
    simp only [newFile, linksOf, obj?]
    match o with
    | 0 => simp [UniqNames]
    | 1 => simp [UniqNames]
    | 2 => simp [UniqNames]
    | (n + 3) => simp [UniqNames]

-- ---------------------------------------------------------------------------------------------------------
-- primitives

/-- attributes play no part in the schema -/
theorem WT.modifyAttrs {s : Store} {ρ : ObjId → Role} (h : WT s ρ) (o : ObjId) (f : List (String × String) → List (String × String)) :
    WT (s.modifyObj o fun ob => { ob with attrs := f ob.attrs }) ρ := by
  have hobj : ∀ o', ((s.modifyObj o fun ob => { ob with attrs := f ob.attrs }).obj? o').map (fun ob => (ob.isGroup, ob.links)) =
      (s.obj? o').map (fun ob => (ob.isGroup, ob.links)) := by
    intro o'
    simp only [obj?_modifyObj]
    by_cases hh : o = o'
    · simp only [hh, if_true]; cases s.obj? o' <;> simp
    · simp [hh]
  have hlinks : ∀ o', (s.modifyObj o fun ob => { ob with attrs := f ob.attrs }).linksOf o' = s.linksOf o' := by
    intro o'
    have := hobj o'
    simp only [linksOf]
    cases h1 : (s.modifyObj o fun ob => { ob with attrs := f ob.attrs }).obj? o' <;> cases h2 : s.obj? o' <;> simp_all
  have hgrp : ∀ o', (s.modifyObj o fun ob => { ob with attrs := f ob.attrs }).isGroupObj o' = s.isGroupObj o' := by
    intro o'
    have := hobj o'
    simp only [isGroupObj]
    cases h1 : (s.modifyObj o fun ob => { ob with attrs := f ob.attrs }).obj? o' <;> cases h2 : s.obj? o' <;> simp_all
  refine ⟨by rw [length_modifyObj]; exact h.len, h.r0, h.r1, h.r2, ?_, ?_, ?_, ?_⟩
  · intro o' l hl; rw [hlinks] at hl; rw [length_modifyObj]; exact h.link o' l hl
  · intro o' ho'; rw [length_modifyObj] at ho'; rw [hgrp]; exact h.grp o' ho'
  · intro o'; rw [hlinks]; exact h.uniq o'
  · intro o' l hl; rw [hlinks] at hl; exact h.mono o' l hl

theorem WT.setAttr {s : Store} {ρ : ObjId → Role} (h : WT s ρ) (o : ObjId) (k v : String) : WT (s.setAttr o k v) ρ :=
  h.modifyAttrs o fun a => setKV a k v

theorem WT.removeAttr {s : Store} {ρ : ObjId → Role} (h : WT s ρ) (o : ObjId) (k : String) : WT (s.removeAttr o k) ρ :=
  h.modifyAttrs o fun a => delK a k

theorem UniqNames.sublist {l l' : List (String × ObjId)} (h : UniqNames l) (hs : l'.Sublist l) : UniqNames l' :=
  List.Pairwise.sublist hs h

/-- dropping links (in one object or in all) keeps the schema -/
theorem WT.filterLinks {s s' : Store} {ρ : ObjId → Role} (h : WT s ρ) (hlen : s'.objs.length = s.objs.length)
    (hg : ∀ o, s'.isGroupObj o = s.isGroupObj o) (hl : ∀ o, (s'.linksOf o).Sublist (s.linksOf o)) : WT s' ρ := by
  refine ⟨by rw [hlen]; exact h.len, h.r0, h.r1, h.r2, ?_, ?_, ?_, ?_⟩
  · intro o l hlm; rw [hlen]; exact h.link o l ((hl o).subset hlm)
  · intro o ho; rw [hlen] at ho; rw [hg]; exact h.grp o ho
  · intro o; exact (h.uniq o).sublist (hl o)
  · intro o l hlm; exact h.mono o l ((hl o).subset hlm)

theorem WT.unlink {s : Store} {ρ : ObjId → Role} (h : WT s ρ) (g : ObjId) (n : String) : WT (s.unlink g n) ρ := by
  refine h.filterLinks (by simp [Store.unlink, length_modifyObj]) ?_ ?_
  · intro o
    simp only [isGroupObj, Store.unlink, obj?_modifyObj]
    by_cases hh : g = o
    · simp only [hh, if_true]; cases s.obj? o <;> simp
    · simp [hh]
  · intro o
    simp only [linksOf, Store.unlink, obj?_modifyObj]
    by_cases hh : g = o
    · simp only [hh, if_true]
      cases s.obj? o with
      | none => simp
      | some ob => simp only [Option.map_some]; exact List.filter_sublist
    · simp only [hh, if_false]; exact List.Sublist.refl _

theorem WT.removeGroup {s : Store} {ρ : ObjId → Role} (h : WT s ρ) (g : ObjId) (n : String) : WT (s.removeGroup g n) ρ := by
  unfold Store.removeGroup; split
  · exact h.unlink g n
  · exact h

theorem WT.removeData {s : Store} {ρ : ObjId → Role} (h : WT s ρ) (g : ObjId) (n : String) : WT (s.removeData g n) ρ := by
  unfold Store.removeData; split
  · exact h.unlink g n
  · exact h

theorem WT.removeAllLinksTo {s : Store} {ρ : ObjId → Role} (h : WT s ρ) (t : ObjId) : WT (s.removeAllLinksTo t) ρ := by
  have hobj : ∀ o, (s.removeAllLinksTo t).obj? o = (s.obj? o).map fun ob => { ob with links := ob.links.filter (·.2 != t) } := by
    intro o; simp [Store.removeAllLinksTo, obj?]
  refine h.filterLinks (by simp [Store.removeAllLinksTo]) ?_ ?_
  · intro o; simp only [isGroupObj, hobj]; cases s.obj? o <;> simp
  · intro o
    simp only [linksOf, hobj]
    cases s.obj? o with
    | none => simp
    | some ob => simp only [Option.map_some]; exact List.filter_sublist

theorem WT.removeAllLinks {s : Store} {ρ : ObjId → Role} (h : WT s ρ) (g : ObjId) (n : String) : WT (s.removeAllLinks g n).1 ρ := by
  unfold Store.removeAllLinks
  split
  · cases s.child? g n with
    | none => exact h
    | some t => exact h.removeAllLinksTo t
  · exact h

theorem lookup_none_iff {l : List (String × ObjId)} {n : String} : l.lookup n = none ↔ ∀ a ∈ l, a.1 ≠ n := by
  induction l with
  | nil => simp
  | cons a l ih =>
    obtain ⟨k, v⟩ := a
    by_cases h : n = k
    · subst h; simp [List.lookup]
    · have hb : (n == k) = false := by simpa using h
      simp only [List.lookup, hb, List.mem_cons, forall_eq_or_imp, ih]
      constructor
      · intro hh; exact ⟨fun e => h e.symm, hh⟩
      · intro hh; exact hh.2

/-- appending a link whose name is free (or empty) keeps the names distinct -/
theorem UniqNames.append {l : List (String × ObjId)} (h : UniqNames l) (n : String) (t : ObjId)
    (hfree : l.lookup n = none ∨ n.isEmpty = true) : UniqNames (l ++ [(n, t)]) := by
  unfold UniqNames at *
  rw [List.pairwise_append]
  refine ⟨h, by simp, ?_⟩
  intro a ha b hb
  simp only [List.mem_singleton] at hb; subst hb
  simp only
  cases hfree with
  | inl hf => exact .inl (lookup_none_iff.mp hf a ha)
  | inr he =>
    by_cases hx : a.1 = n
    · right; rw [hx]; exact he
    · exact .inl hx

/-- H5Lcreate_hard of an existing object under a free name, schema-conform -/
theorem WT.addLink {s : Store} {ρ : ObjId → Role} (h : WT s ρ) (g : ObjId) (n : String) (t : ObjId)
    (ht : t < s.objs.length) (hr : childRole (ρ g) n = some (ρ t))
    (hfree : s.child? g n = none ∨ n.isEmpty = true) (hm : contains (ρ g) (ρ t) = true → g < t) : WT (s.addLink g n t) ρ := by
  have hlinks : ∀ o, (s.addLink g n t).linksOf o = if g = o ∧ (s.obj? o).isSome then s.linksOf o ++ [(n, t)] else s.linksOf o := by
    intro o
    simp only [linksOf, Store.addLink, obj?_modifyObj]
    by_cases hh : g = o
    · simp only [hh, if_true, true_and]; cases s.obj? o <;> simp
    · simp [hh]
  refine ⟨by rw [length_addLink]; exact h.len, h.r0, h.r1, h.r2, ?_, ?_, ?_, ?_⟩
  · intro o l hl
    rw [length_addLink]
    rw [hlinks] at hl
    split at hl
    · rename_i hc
      simp only [List.mem_append, List.mem_singleton] at hl
      cases hl with
      | inl h1 => exact h.link o l h1
      | inr h1 => subst h1; rw [← hc.1]; exact ⟨ht, hr⟩
    · exact h.link o l hl
  · intro o ho
    rw [length_addLink] at ho
    have : (s.addLink g n t).isGroupObj o = s.isGroupObj o := by
      simp only [isGroupObj, Store.addLink, obj?_modifyObj]
      by_cases hh : g = o
      · simp only [hh, if_true]; cases s.obj? o <;> simp
      · simp [hh]
    rw [this]; exact h.grp o ho
  · intro o
    rw [hlinks]
    split
    · rename_i hc
      refine (h.uniq o).append n t ?_
      rw [← hc.1]; exact hfree
    · exact h.uniq o
  · intro o l hl
    rw [hlinks] at hl
    split at hl
    · rename_i hc
      simp only [List.mem_append, List.mem_singleton] at hl
      cases hl with
      | inl h1 => exact h.mono o l h1
      | inr h1 => subst h1; rw [← hc.1]; exact hm
    · exact h.mono o l hl

/-- H5Gcreate / H5Dcreate of a new object under a free name, schema-conform: the new object takes the role the schema asks for -/
theorem WT.allocLink {s : Store} {ρ : ObjId → Role} (h : WT s ρ) (g : ObjId) (n : String) (ob : Obj) (r : Role)
    (hg : g < s.objs.length) (hob : ob.links = []) (hkind : ob.isGroup = decide (r ≠ .prop))
    (hr : childRole (ρ g) n = some r) (hfree : s.child? g n = none ∨ n.isEmpty = true) :
    WT ((s.alloc ob).1.addLink g n (s.alloc ob).2) (upd ρ s.objs.length r) := by
  have hagree : ∀ o, o < s.objs.length → upd ρ s.objs.length r o = ρ o := by
    intro o ho; simp [upd, Nat.ne_of_lt ho]
  -- first the allocation alone
  have h1 : WT (s.alloc ob).1 (upd ρ s.objs.length r) := by
    refine ⟨by rw [length_alloc]; have := h.len; omega, ?_, ?_, ?_, ?_, ?_, ?_, ?_⟩
    · rw [hagree 0 (by have := h.len; unfold ObjId at *; omega)]; exact h.r0
    · rw [hagree 1 (by have := h.len; unfold ObjId at *; omega)]; exact h.r1
    · rw [hagree 2 (by have := h.len; unfold ObjId at *; omega)]; exact h.r2
    · intro o l hl
      by_cases ho : o < s.objs.length
      · simp only [linksOf, obj?_alloc_old s ob o ho] at hl
        have := h.link o l hl
        rw [length_alloc, hagree o ho, hagree l.2 this.1]
        exact ⟨Nat.lt_succ_of_lt this.1, this.2⟩
      · by_cases he : o = s.objs.length
        · subst he
          have := obj?_alloc_new s ob
          simp only [alloc_snd] at this
          simp [linksOf, this, hob] at hl
        · have : (s.alloc ob).1.objs.length ≤ o := by rw [length_alloc]; unfold ObjId at *; omega
          simp [linksOf, obj?_none_of_ge this] at hl
    · intro o ho
      rw [length_alloc] at ho
      by_cases ho' : o < s.objs.length
      · simp only [isGroupObj, obj?_alloc_old s ob o ho', hagree o ho']
        exact h.grp o ho'
      · have he : o = s.objs.length := by unfold ObjId at *; omega
        subst he
        have := obj?_alloc_new s ob
        simp only [alloc_snd] at this
        simp [isGroupObj, this, upd, hkind]
    · intro o
      by_cases ho : o < s.objs.length
      · simp only [linksOf, obj?_alloc_old s ob o ho]; exact h.uniq o
      · by_cases he : o = s.objs.length
        · subst he
          have := obj?_alloc_new s ob
          simp only [alloc_snd] at this
          simp [linksOf, this, hob, UniqNames]
        · have : (s.alloc ob).1.objs.length ≤ o := by rw [length_alloc]; unfold ObjId at *; omega
          simp [linksOf, obj?_none_of_ge this, UniqNames]
    · intro o l hl
      by_cases ho : o < s.objs.length
      · simp only [linksOf, obj?_alloc_old s ob o ho] at hl
        have hlt := (h.link o l hl).1
        rw [hagree o ho, hagree l.2 hlt]
        exact h.mono o l hl
      · by_cases he : o = s.objs.length
        · subst he
          have := obj?_alloc_new s ob
          simp only [alloc_snd] at this
          simp [linksOf, this, hob] at hl
        · have : (s.alloc ob).1.objs.length ≤ o := by rw [length_alloc]; unfold ObjId at *; omega
          simp [linksOf, obj?_none_of_ge this] at hl
  -- then the link
  refine h1.addLink g n (s.alloc ob).2 (by rw [alloc_snd, length_alloc]; exact Nat.lt_succ_self _) ?_ ?_ (fun _ => by rw [alloc_snd]; exact hg)
  · rw [hagree g hg, alloc_snd]; simp [upd, hr]
  · simp only [child?, linksOf, obj?_alloc_old s ob g hg]
    exact hfree

end Nix.St
