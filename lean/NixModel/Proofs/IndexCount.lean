import NixModel.Proofs.IndexSampled
/-
  The set / data-frame kernel: coordinates are the integers `(double) i`.
  `LawfulRounding` lists exactly what is used about `floor`, `ceil`, `round`, `(double)n` and
  `static_cast<ndsize_t>` — true of IEEE doubles below 2^53 (±0 identified) and of the exact
  instances `Int`, `Rat`.
-/
open Std
set_option linter.unusedSectionVars false
set_option linter.unusedSimpArgs false
namespace Nix.C07
open Nix Scalar

class LawfulRounding (α : Type) [Scalar α] : Prop where
  ofNat_zero : (ofNat 0 : α) = zero
  ofNat_strictMono : ∀ i j : Nat, i < j → (ofNat i : α) < ofNat j
  toNat_ofNat : ∀ k : Nat, toNat (ofNat k : α) = k
  /-- for p ≥ 0: floor p is the integer n with n ≤ p < n+1 -/
  floor_spec : ∀ p : α, ¬ p < zero → ofNat (toNat (floor p)) = floor p ∧ floor p ≤ p ∧ p < ofNat (toNat (floor p) + 1)
  /-- a ceiling below zero only arises from a position below zero -/
  ceil_neg : ∀ p : α, ceil p < zero → p < zero
  /-- otherwise ceil p is the integer n with n-1 < p ≤ n (p may be slightly negative: then n = 0) -/
  ceil_spec : ∀ p : α, ¬ ceil p < zero → ofNat (toNat (ceil p)) = ceil p ∧ p ≤ ceil p ∧
      (1 ≤ toNat (ceil p) → ofNat (toNat (ceil p) - 1) < p)
  /-- round p == p exactly when p is one of the integer coordinates, and then it is that one -/
  round_spec : ∀ p : α, ¬ p < zero → (beq (round p) p = true ↔ ∃ k : Nat, ofNat k = p) ∧
      (beq (round p) p = true → ofNat (toNat (round p)) = p)

variable {α : Type} [Scalar α] [IsLinearOrder α] [LawfulOrderLT α] [LawfulScalarEq α] [LawfulRounding α]

theorem countAxis_coord (n i : Nat) : (countAxis (α := α) n).coord i = ofNat i := rfl
theorem countAxis_valid (n i : Nat) : (countAxis (α := α) n).valid i ↔ (n = 0 ∨ i < n) := by
  unfold countAxis Axis.valid
  by_cases h : n = 0 <;> simp [h]
theorem countAxis_len (n : Nat) : (countAxis (α := α) n).len = if n = 0 then none else some n := rfl

theorem countAxis_strictMono (n : Nat) : (countAxis (α := α) n).StrictMono := by
  intro i j _ hij; exact LawfulRounding.ofNat_strictMono i j hij

theorem ofNat_le {i j : Nat} (h : i ≤ j) : (ofNat i : α) ≤ ofNat j := by
  rcases Nat.lt_or_eq_of_le h with h | h
  · have := LawfulRounding.ofNat_strictMono (α := α) i j h; grind
  · subst h; grind

theorem ofNat_lt_iff {i j : Nat} : (ofNat i : α) < ofNat j ↔ i < j := by
  constructor
  · intro h
    apply Nat.lt_of_not_le
    intro hji
    have := ofNat_le (α := α) hji
    grind
  · exact LawfulRounding.ofNat_strictMono i j

theorem toNat_zero : toNat (zero : α) = 0 := by
  rw [← LawfulRounding.ofNat_zero (α := α), LawfulRounding.toNat_ofNat]

theorem rawLE_eq (p : α) :
    rawCountIndex p .lessOrEqual = if p < zero then none else some (toNat (floor p)) := by
  unfold rawCountIndex
  by_cases h : p < zero <;> simp [h, PositionMatch.isGreater, PositionMatch.isLess]

/-- before clipping: the rule on the unbounded integer axis -/
theorem raw_rel (p : α) (m : PositionMatch) :
    relIndex (countAxis 0) m p (rawCountIndex p m) (rawCountIndex p .lessOrEqual) = true := by
  have hv : ∀ i, (countAxis (α := α) 0).valid i := by intro i; simp [countAxis_valid]
  have hc := countAxis_coord (α := α) 0
  have hlen : (countAxis (α := α) 0).len = none := rfl
  have hbt := beq_true_iff (α := α)
  have hz := LawfulRounding.ofNat_zero (α := α)
  have hlt := @ofNat_lt_iff α _ _ _ _ _
  have htz := toNat_zero (α := α)
  rw [rawLE_eq]
  by_cases hneg : p < zero
  · have hcn := LawfulRounding.ceil_neg p
    have hcs := LawfulRounding.ceil_spec p
    cases m <;> simp only [rawCountIndex, hneg, PositionMatch.isGreater, PositionMatch.isLess, decide_true, Bool.not_true, Bool.not_false,
        Bool.and_true, Bool.and_false, if_true, if_false, Bool.false_eq_true, relIndex, hc, hlen, hv, Bool.true_and, beq_self_eq_true,
        reduceCtorEq, beq_iff_eq, Bool.false_and, Bool.true_or, Bool.or_true]
    · rw [hz]; simp [hneg]
    · rw [hz]; simp; grind
    · by_cases hcz : ceil p < zero
      · have : ¬ (zero = p) := by grind
        simp [hcz, hbt, this, htz, hz, hneg]
      · obtain ⟨h1, h2, h3⟩ := hcs hcz
        simp only [hcz, if_false]
        by_cases he : beq (ceil p) p = true
        · simp only [he, if_true, relIndex, hv, hc, decide_true, Bool.true_and, Nat.add_sub_cancel]
          have := (hbt _ _).1 he
          have := @hlt (toNat (ceil p)) (toNat (ceil p) + 1)
          simp; grind
        · simp only [he, if_false, relIndex, hv, hc, decide_true, Bool.true_and, Bool.false_eq_true]
          have : ¬ ceil p = p := fun e => he ((hbt _ _).2 e)
          simp; grind
    · by_cases hcz : ceil p < zero
      · simp [hcz, htz, hz, hneg, relIndex, hv, hc]; grind
      · obtain ⟨h1, h2, h3⟩ := hcs hcz
        simp only [hcz, if_false, relIndex, hv, hc, decide_true, Bool.true_and]
        simp; grind
    · rw [hz]; simp [hneg]
  · have hfs := LawfulRounding.floor_spec p hneg
    have hcn := LawfulRounding.ceil_neg p
    have hcs := LawfulRounding.ceil_spec p
    have hrs := LawfulRounding.round_spec p hneg
    have hcz : ¬ ceil p < zero := fun h => hneg (hcn h)
    obtain ⟨c1, c2, c3⟩ := hcs hcz
    obtain ⟨f1, f2, f3⟩ := hfs
    obtain ⟨r1, r2⟩ := hrs
    cases m <;> simp only [rawCountIndex, hneg, hcz, PositionMatch.isGreater, PositionMatch.isLess, decide_true, Bool.not_true, Bool.not_false,
        Bool.and_true, Bool.and_false, if_true, if_false, Bool.false_eq_true, hc, hlen, hv, Bool.true_and, beq_self_eq_true,
        reduceCtorEq, beq_iff_eq, Bool.false_and, Bool.true_or, Bool.or_true, decide_false]
    · -- equal
      by_cases he : beq (round p) p = true
      · simp only [he, if_true, relIndex, hv, hc, decide_true, Bool.true_and]
        rw [r2 he]; exact (hbt _ _).2 rfl
      · simp only [he, if_false, relIndex, hv, hc, decide_true, Bool.true_and, Bool.false_eq_true]
        have hno : ¬ ∃ k : Nat, ofNat k = p := fun h => he (r1.2 h)
        have : ¬ ofNat (toNat (floor p)) = p := fun h => hno ⟨_, h⟩
        simp; grind
    · -- less
      by_cases he : beq (floor p) p = true
      · have hfp := (hbt _ _).1 he
        simp only [he, if_true]
        split
        · simp only [relIndex, hv, hc, decide_true, Bool.true_and]
          have := @hlt (toNat (floor p) - 1) (toNat (floor p))
          have : toNat (floor p) - 1 + 1 = toNat (floor p) := by omega
          simp; grind
        · simp only [relIndex, hv, hc, decide_true, Bool.true_and]
          have : toNat (floor p) = 0 := by omega
          simp; grind
      · have : ¬ floor p = p := fun e => he ((hbt _ _).2 e)
        simp only [he, if_false, relIndex, hv, hc, decide_true, Bool.true_and, Bool.false_eq_true]
        simp; grind
    · -- greater
      by_cases he : beq (ceil p) p = true
      · have := (hbt _ _).1 he
        have := @hlt (toNat (ceil p)) (toNat (ceil p) + 1)
        simp only [he, if_true, relIndex, hv, hc, decide_true, Bool.true_and, Nat.add_sub_cancel]
        simp; grind
      · have : ¬ ceil p = p := fun e => he ((hbt _ _).2 e)
        simp only [he, if_false, relIndex, hv, hc, decide_true, Bool.true_and, Bool.false_eq_true]
        simp; grind
    · -- greaterOrEqual
      simp only [relIndex, hv, hc, decide_true, Bool.true_and]
      simp; grind
    · -- lessOrEqual
      simp only [relIndex, hv, hc, decide_true, Bool.true_and]
      simp; grind

/-- clipping turns the rule on the unbounded integer axis into the rule on the axis bounded by
    the number of labels / rows -/
theorem clip_spec (count : Nat) (m : PositionMatch) (p : α) (r : Option Nat)
    (h : IsIndex (countAxis 0) m p r) : IsIndex (countAxis count) m p (clipIndex count m r) := by
  have hv0 : ∀ i, (countAxis (α := α) 0).valid i := by intro i; simp [countAxis_valid]
  have hv := countAxis_valid (α := α) count
  have hc := countAxis_coord (α := α) count
  have hc0 := countAxis_coord (α := α) 0
  have hlt := @ofNat_lt_iff α _ _ _ _ _
  have hle : ∀ {i j : Nat}, i ≤ j → (ofNat i : α) ≤ ofNat j := fun h => ofNat_le h
  by_cases hcount : count = 0
  · subst hcount
    cases r <;> simpa [clipIndex] using h
  have hpos : 0 < count := Nat.pos_of_ne_zero hcount
  cases r with
  | none =>
    cases m <;> simp only [clipIndex, IsIndex, hc, hc0] at h ⊢ <;> intro j _ <;> exact h j (hv0 j)
  | some i =>
    by_cases hi : i > count - 1
    · have hcl : clipIndex count m (some i) = if m.isLess then some (count - 1) else none := by
        simp [clipIndex, hpos, hi]
      rw [hcl]
      have hvc : (countAxis (α := α) count).valid (count - 1) := (hv _).2 (Or.inr (by omega))
      cases m <;> simp only [PositionMatch.isLess, if_true, if_false, Bool.false_eq_true, IsIndex, hc, hc0] at h ⊢
      · -- equal: clipped to none
        intro j hj
        have hj' : j < count := by have := (hv j).1 hj; omega
        obtain ⟨_, he⟩ := h
        intro hje
        have : (ofNat j : α) < ofNat i := hlt.2 (by omega)
        grind
      · -- less: clipped to count-1
        obtain ⟨_, h1, h2⟩ := h
        refine ⟨hvc, ?_, ?_⟩
        · have : (ofNat (count - 1) : α) ≤ ofNat i := hle (by omega)
          grind
        · intro j hj _; have := (hv j).1 hj; omega
      · -- greater: none
        obtain ⟨_, h1, h2⟩ := h
        intro j hj hpj
        have := h2 j (hv0 j) hpj
        have := (hv j).1 hj
        omega
      · -- greaterOrEqual: none
        obtain ⟨_, h1, h2⟩ := h
        intro j hj hpj
        have := h2 j (hv0 j) hpj
        have := (hv j).1 hj
        omega
      · -- lessOrEqual
        obtain ⟨_, h1, h2⟩ := h
        refine ⟨hvc, ?_, ?_⟩
        · have : (ofNat (count - 1) : α) ≤ ofNat i := hle (by omega)
          grind
        · intro j hj _; have := (hv j).1 hj; omega
    · have hcl : clipIndex count m (some i) = some i := by simp [clipIndex, hi]
      rw [hcl]
      have hvi : (countAxis (α := α) count).valid i := (hv _).2 (Or.inr (by omega))
      cases m <;> simp only [IsIndex, hc, hc0] at h ⊢
      · exact ⟨hvi, h.2⟩
      · exact ⟨hvi, h.2.1, fun j _ hj => h.2.2 j (hv0 j) hj⟩
      · exact ⟨hvi, h.2.1, fun j _ hj => h.2.2 j (hv0 j) hj⟩
      · exact ⟨hvi, h.2.1, fun j _ hj => h.2.2 j (hv0 j) hj⟩
      · exact ⟨hvi, h.2.1, fun j _ hj => h.2.2 j (hv0 j) hj⟩

/-- below 2^64 the repaired kernel is the raw index, clipped -/
theorem getCountIndex_of_lt (p : α) (count : Nat) (m : PositionMatch) (hp : p < ofNat indexLimit) :
    getCountIndex p count m = clipIndex count m (rawCountIndex p m) := by
  unfold getCountIndex
  by_cases h1 : (p < zero && !m.isGreater) = true
  · rw [if_pos h1]
    have : rawCountIndex p m = none := by unfold rawCountIndex; rw [if_pos h1]
    rw [this]; rfl
  · rw [if_neg h1]
    have : (!(decide (p < ofNat indexLimit))) = false := by simp [hp]
    rw [this]; rfl

theorem count_index_spec' (p : α) (count : Nat) (m : PositionMatch) (hp : p < ofNat indexLimit) :
    IsIndex (countAxis count) m p (getCountIndex p count m) := by
  rw [getCountIndex_of_lt p count m hp]
  exact clip_spec count m p _ (relIndex_sound _ (countAxis_strictMono 0) m p _ _ (raw_rel p m))

/-- at and beyond 2^64 (and for a position that is not a number): the last index for Less / LessOrEqual on a bounded dimension, else none -/
theorem count_index_beyond (p : α) (count : Nat) (m : PositionMatch) (hp : ¬ p < ofNat indexLimit) (h0 : ¬ p < zero) :
    getCountIndex p count m = if beq p p && decide (0 < count) && m.isLess then some (count - 1) else none := by
  unfold getCountIndex
  have h1 : (p < zero && !m.isGreater) = false := by simp [h0]
  have h2 : (!(decide (p < ofNat indexLimit))) = true := by simp [hp]
  simp only [h1, h2]; rfl

end Nix.C07
