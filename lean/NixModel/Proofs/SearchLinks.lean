import NixModel.Proofs.SearchBfs
/-
  Helper lemmas for C20: parent uniqueness from id distinctness, the downstream loop, the property copy loop.
-/
set_option autoImplicit false
set_option linter.unusedSimpArgs false
namespace Nix.C20
open Nix.Search Nix.Search.Tree

variable {α : Type}

/-! ### every node except the roots is a child of exactly one node -/

/-- the children of all nodes are exactly the nodes below the roots (as multisets) -/
theorem children_of_nodes_perm (n : Nat) : ∀ (ts : List (Tree α)), heightL ts ≤ n →
    ((nodesL ts).flatMap children).Perm (nodesL (ts.flatMap children)) := by
  induction n with
  | zero =>
    intro ts h
    rw [heightL_eq_zero (by omega : heightL ts = 0)]
    simp [nodesL]
  | succ n ih =>
    intro ts h
    have hstep := nodesL_perm_step ts
    have h1 : ((nodesL ts).flatMap children).Perm ((ts ++ nodesL (ts.flatMap children)).flatMap children) :=
      List.Perm.flatMap_right _ hstep
    rw [List.flatMap_append] at h1
    have h2 := ih (ts.flatMap children) (by rw [heightL_children]; omega)
    exact (h1.trans (List.Perm.append_left _ h2)).trans (nodesL_perm_step (ts.flatMap children)).symm

theorem nodup_flatMap_inj {β γ δ : Type} (g : β → List γ) (k : γ → δ) :
    ∀ (l : List β), ((l.flatMap g).map k).Nodup → ∀ p ∈ l, ∀ q ∈ l, ∀ c ∈ g p, ∀ c' ∈ g q, k c = k c' → p = q := by
  intro l
  induction l with
  | nil => intro _ p hp; cases hp
  | cons x xs ih =>
    intro hnd p hp q hq c hc c' hc' hk
    rw [List.flatMap_cons, List.map_append, List.nodup_append] at hnd
    obtain ⟨_, hxs, hdis⟩ := hnd
    have inl : ∀ {y : β} {e : γ}, y ∈ xs → e ∈ g y → k e ∈ (xs.flatMap g).map k := by
      intro y e hy he
      exact List.mem_map.2 ⟨e, List.mem_flatMap.2 ⟨y, hy, he⟩, rfl⟩
    rcases List.mem_cons.1 hp with rfl | hp'
    · rcases List.mem_cons.1 hq with rfl | hq'
      · rfl
      · exact absurd hk (hdis _ (List.mem_map.2 ⟨c, hc, rfl⟩) _ (inl hq' hc'))
    · rcases List.mem_cons.1 hq with rfl | hq'
      · exact absurd hk.symm (hdis _ (List.mem_map.2 ⟨c', hc', rfl⟩) _ (inl hp' hc))
      · exact ih hxs p hp' q hq' c hc c' hc' hk

/-- with pairwise distinct keys, two nodes that both have a child with the same key are the same node -/
theorem parent_unique {δ : Type} (k : Tree α → δ) (ts : List (Tree α)) (hnd : ((nodesL ts).map k).Nodup)
    {p q c c' : Tree α} (hp : p ∈ nodesL ts) (hq : q ∈ nodesL ts) (hc : c ∈ p.children) (hc' : c' ∈ q.children)
    (hk : k c = k c') : p = q := by
  have hperm := children_of_nodes_perm (heightL ts) ts (Nat.le_refl _)
  have hsub : ((nodesL (ts.flatMap children)).map k).Nodup := by
    have h := (nodesL_perm_step ts).map k
    have := (h.nodup_iff).1 hnd
    rw [List.map_append, List.nodup_append] at this
    exact this.2.1
  have hnd' : (((nodesL ts).flatMap children).map k).Nodup := ((hperm.map k).nodup_iff).2 hsub
  exact nodup_flatMap_inj children k (nodesL ts) hnd' p hp q hq c hc c' hc' hk

/-- with pairwise distinct keys, a root is nobody's child -/
theorem root_not_child {δ : Type} (k : Tree α → δ) (ts : List (Tree α)) (hnd : ((nodesL ts).map k).Nodup)
    {r p c : Tree α} (hr : r ∈ ts) (hp : p ∈ nodesL ts) (hc : c ∈ p.children) : k c ≠ k r := by
  have hperm := children_of_nodes_perm (heightL ts) ts (Nat.le_refl _)
  have h := (nodesL_perm_step ts).map k
  have hn := (h.nodup_iff).1 hnd
  rw [List.map_append, List.nodup_append] at hn
  have hcmem : c ∈ nodesL (ts.flatMap children) := hperm.mem_iff.1 (List.mem_flatMap.2 ⟨p, hp, hc⟩)
  intro e
  exact hn.2.2 _ (List.mem_map.2 ⟨r, hr, rfl⟩) _ (List.mem_map.2 ⟨c, hcmem, rfl⟩) e.symm

/-! ### the downstream loop -/

theorem findSections_levels (f : Tree α → Bool) (maxd : Nat) (t : Tree α) :
    findSections f maxd t = (levels maxd t.children).filter f := by
  unfold findSections
  cases maxd with
  | zero => simp [levels, bfsQ_nil]
  | succ m =>
    simp only [Nat.zero_lt_succ, if_true]
    rw [bfsQ_eq_levels f (m + 1) m 1 t.children (by omega)]

theorem downLoop_eq (f : Tree α → Bool) (t : Tree α) : ∀ (k e : Nat), (levels e t.children).filter f = [] →
    downLoop f t k (e + 1) = firstHit f k (level e t.children) := by
  intro k
  induction k with
  | zero => intro e _; rfl
  | succ k ih =>
    intro e he
    simp only [downLoop, firstHit]
    rw [findSections_levels, levels_succ_right, List.filter_append, he, List.nil_append]
    by_cases hempty : ((level e t.children).filter f).isEmpty
    · simp only [hempty, if_true]
      rw [ih (e + 1), level_succ_right]
      rw [levels_succ_right, List.filter_append, he, List.nil_append]
      exact List.isEmpty_iff.1 hempty
    · simp [hempty]

/-! ### the property copy loop -/

theorem copyUnshadowed_eq (linked : List PropInfo) : ∀ (own : List PropInfo),
    (linked.map (·.name)).Nodup →
    copyUnshadowed own linked = own ++ linked.filter (fun p => !own.any (fun o => p.name == o.name)) := by
  induction linked with
  | nil => intro own _; simp [copyUnshadowed]
  | cons p ps ih =>
    intro own hnd
    rw [List.map_cons, List.nodup_cons] at hnd
    obtain ⟨hp, hps⟩ := hnd
    have hfold : copyUnshadowed own (p :: ps)
        = copyUnshadowed (if own.any (fun o => p.name == o.name) then own else own ++ [p]) ps := by
      simp [copyUnshadowed]
    rw [hfold]
    by_cases hs : own.any (fun o => p.name == o.name)
    · simp only [hs, if_true]
      rw [ih own hps, List.filter_cons]
      simp [hs]
    · simp only [hs, Bool.false_eq_true, if_false]
      rw [ih (own ++ [p]) hps, List.filter_cons]
      simp only [hs, Bool.not_false, if_true, Bool.false_eq_true, if_false]
      rw [List.append_assoc]
      congr 1
      simp only [List.singleton_append]
      congr 1
      apply List.filter_congr
      intro q hq
      have hne : (q.name == p.name) = false := by
        have : q.name ≠ p.name := fun e => hp (List.mem_map.2 ⟨q, hq, e⟩)
        simpa using this
      simp [List.any_append, hne]

end Nix.C20

namespace Nix.C20
open Nix.Search Nix.Search.Tree
variable {α : Type}

/-- `Section::tree_depth()` is the height of what hangs under the section -/
theorem treeDepthL_eq_heightL (n : Nat) : ∀ (ts : List (Tree α)), sizeL ts ≤ n → treeDepthL ts = heightL ts := by
  induction n with
  | zero =>
    intro ts h
    cases ts with
    | nil => rfl
    | cons t ts => have := size_eq t; simp [sizeL] at h; omega
  | succ n ih =>
    intro ts h
    cases ts with
    | nil => rfl
    | cons t ts =>
      have hs : sizeL (t :: ts) = size t + sizeL ts := by simp [sizeL]
      have h1 : treeDepthL t.children = heightL t.children := ih _ (by have := size_eq t; omega)
      have h2 : treeDepthL ts = heightL ts := ih _ (by have := size_eq t; omega)
      have h3 : treeDepth t = treeDepthL t.children := by cases t; simp [treeDepth, children]
      simp only [treeDepthL, heightL, height_eq, h3, h1, h2]
      omega

theorem treeDepth_eq (t : Tree α) : treeDepth t = heightL t.children := by
  have h3 : treeDepth t = treeDepthL t.children := by cases t; simp [treeDepth, children]
  rw [h3, treeDepthL_eq_heightL _ _ (Nat.le_refl _)]

/-- nothing found in `k` generations means nothing accepted in the first `k` generations -/
theorem firstHit_nil (f : Tree α → Bool) : ∀ (k : Nat) (ts : List (Tree α)), firstHit f k ts = [] → (levels k ts).filter f = [] := by
  intro k
  induction k with
  | zero => intro ts _; rfl
  | succ k ih =>
    intro ts h
    simp only [firstHit] at h
    by_cases he : (ts.filter f).isEmpty
    · simp only [he, if_true] at h
      rw [levels, List.filter_append, ih _ h, List.isEmpty_iff.1 he]
      rfl
    · simp only [he, Bool.false_eq_true, if_false] at h
      rw [h] at he
      exact absurd rfl he

end Nix.C20
