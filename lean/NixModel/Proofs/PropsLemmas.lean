import NixModel.Property
/-
  Helper lemmas for Props/C14.lean: association-list lookups behind `SecSt.find`, `put`, creation and deletion.
-/
set_option linter.unusedSectionVars false
set_option linter.unusedSimpArgs false
namespace Nix.PV

variable {β : Type}

theorem lookup_cons_ne {n k : String} (b : β) (l : List (String × β)) (h : n ≠ k) :
    List.lookup n ((k, b) :: l) = List.lookup n l := by
  rw [List.lookup_cons]
  have : (n == k) = false := by simp [h]
  rw [this]

theorem lookup_cons_eq (n : String) (b : β) (l : List (String × β)) : List.lookup n ((n, b) :: l) = some b :=
  List.lookup_cons_self

/-- `put`'s element update -/
def upd (name : String) (p : β) (np : String × β) : String × β := if np.1 == name then (np.1, p) else np

theorem upd_eq (name : String) (p b : β) : upd name p (name, b) = (name, p) := by simp [upd]
theorem upd_ne (name k : String) (p b : β) (h : k ≠ name) : upd name p (k, b) = (k, b) := by simp [upd, h]

theorem lookup_put (name : String) (p : β) (n : String) : ∀ (l : List (String × β)),
    (l.map (upd name p)).lookup n = if n = name then (l.lookup name).map (fun _ => p) else l.lookup n
  | [] => by simp [List.lookup]
  | (k, b) :: l => by
    have ih := lookup_put name p n l
    rw [List.map_cons]
    by_cases hk : k = name
    · subst hk
      rw [upd_eq]
      by_cases hn : n = k
      · subst hn; rw [lookup_cons_eq, if_pos rfl, lookup_cons_eq]; rfl
      · rw [lookup_cons_ne _ _ hn, ih, if_neg hn, if_neg hn, lookup_cons_ne _ _ hn]
    · rw [upd_ne _ _ _ _ hk]
      by_cases hn : n = name
      · subst hn
        have hnk : n ≠ k := fun h => hk h.symm
        rw [lookup_cons_ne _ _ hnk, ih, if_pos rfl, if_pos rfl, lookup_cons_ne _ _ hnk]
      · rw [if_neg hn]
        rw [if_neg hn] at ih
        by_cases hnk : n = k
        · subst hnk; rw [lookup_cons_eq, lookup_cons_eq]
        · rw [lookup_cons_ne _ _ hnk, lookup_cons_ne _ _ hnk, ih]

theorem lookup_append_single (name : String) (p : β) (n : String) : ∀ (l : List (String × β)),
    (l ++ [(name, p)]).lookup n = match l.lookup n with
      | some q => some q
      | none => if n = name then some p else none
  | [] => by
    by_cases h : n = name
    · subst h; rw [List.nil_append, lookup_cons_eq]; simp [List.lookup]
    · rw [List.nil_append, lookup_cons_ne _ _ h]; simp [List.lookup, h]
  | (k, b) :: l => by
    have ih := lookup_append_single name p n l
    rw [List.cons_append]
    by_cases hnk : n = k
    · subst hnk; rw [lookup_cons_eq, lookup_cons_eq]
    · rw [lookup_cons_ne _ _ hnk, lookup_cons_ne _ _ hnk, ih]

theorem lookup_filter_ne (name : String) (n : String) : ∀ (l : List (String × β)),
    (l.filter fun np => np.1 != name).lookup n = if n = name then none else l.lookup n
  | [] => by simp [List.lookup]
  | (k, b) :: l => by
    have ih := lookup_filter_ne name n l
    by_cases hk : k = name
    · subst hk
      have : (((k, b) :: l).filter fun np => np.1 != k) = l.filter fun np => np.1 != k := by simp [List.filter]
      rw [this, ih]
      by_cases hn : n = k
      · rw [if_pos hn, if_pos hn]
      · rw [if_neg hn, if_neg hn, lookup_cons_ne _ _ hn]
    · have : (((k, b) :: l).filter fun np => np.1 != name) = (k, b) :: l.filter fun np => np.1 != name := by
        have hb : (k != name) = true := by simp [hk]
        rw [List.filter_cons, if_pos (by simpa using hk)]
      rw [this]
      by_cases hnk : n = k
      · subst hnk
        rw [lookup_cons_eq, if_neg hk, lookup_cons_eq]
      · rw [lookup_cons_ne _ _ hnk, ih, lookup_cons_ne _ _ hnk]

variable {V D : Type}

theorem find_put (s : SecSt V D) (name : String) (p : PropSt V D) (n : String) :
    (s.put name p).find n = if n = name then (s.find name).map (fun _ => p) else s.find n := by
  unfold SecSt.put SecSt.find
  exact lookup_put name p n s.props

theorem put_writable (s : SecSt V D) (name : String) (p : PropSt V D) : (s.put name p).writable = s.writable := rfl

theorem onProp_find (s : SecSt V D) (name : String) (f : PropSt V D → PropSt V D × Option Err) (n : String) :
    (s.onProp name f).1.find n = if n = name then (s.find name).map (fun p => (f p).1) else s.find n := by
  unfold SecSt.onProp
  cases h : s.find name with
  | none => by_cases hn : n = name <;> simp [hn, h]
  | some p => simp only [find_put, h, Option.map_some]

theorem onProp_err (s : SecSt V D) (name : String) (f : PropSt V D → PropSt V D × Option Err) :
    (s.onProp name f).2 = match s.find name with | none => some .uninitializedEntity | some p => (f p).2 := by
  unfold SecSt.onProp
  cases h : s.find name <;> simp

theorem onProp_writable (s : SecSt V D) (name : String) (f : PropSt V D → PropSt V D × Option Err) :
    (s.onProp name f).1.writable = s.writable := by
  unfold SecSt.onProp
  cases h : s.find name <;> simp [put_writable]

end Nix.PV
