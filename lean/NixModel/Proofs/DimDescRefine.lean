import NixModel.Proofs.DimDescLemmas
/-
  Helper lemmas for Props/C13.lean: one refinement lemma per call of the API (`Refines`), assembled in `step_refines`.
-/
set_option linter.unusedSectionVars false
set_option linter.unusedSimpArgs false
set_option linter.unusedVariables false
namespace Nix.C13
open Nix Nix.DimDesc
variable {α : Type} [Scalar α]

theorem createGroup_next {a : Arr α} (h : GapFree a) (d : Desc α) :
    a.createGroup (a.count + 1) d = .ok { a with dims := a.dims ++ [⟨a.count + 1, d⟩] } := by
  unfold Arr.createGroup
  have hf : a.dims.filter (fun g => g.name ≠ a.count + 1) = a.dims :=
    filter_ne_of_range' (k := 1) h (by right; simp [Arr.count]; omega)
  rw [if_neg (by omega), hf]

theorem gapfree_append {a : Arr α} (h : GapFree a) (d : Desc α) :
    GapFree { a with dims := a.dims ++ [⟨a.count + 1, d⟩] } := by
  unfold GapFree Arr.names Arr.count at *
  simp only [List.map_append, List.map_cons, List.map_nil, List.length_append, List.length_cons, List.length_nil]
  rw [h, List.range'_1_concat]
  congr 1; simp; omega

theorem toShadow_append (a : Arr α) (d : Desc α) :
    toShadow { a with dims := a.dims ++ [⟨a.count + 1, d⟩] } = { toShadow a with dims := (toShadow a).dims ++ [d] } := by
  simp [toShadow]

theorem get_toShadow {a : Arr α} (h : GapFree a) (i : Nat) : (toShadow a).get i = (a.lookup i).map (·.d) := by
  rw [lookup_gapfree h]
  unfold Shadow.get toShadow
  by_cases hi : i = 0
  · simp [hi]
  · have : 1 ≤ i := by omega
    simp [hi, this]

theorem gapfree_setDesc {a : Arr α} (h : GapFree a) (i : Nat) (f : Desc α → Desc α) : GapFree (setDesc a i f) := by
  unfold GapFree Arr.names Arr.count setDesc at *
  simp only [updName_names, updName_length]
  exact h

theorem toShadow_setDesc {a : Arr α} (h : GapFree a) (i : Nat) (f : Desc α → Desc α) :
    toShadow (setDesc a i f) = { toShadow a with dims := modifyAt i f (toShadow a).dims } := by
  unfold toShadow setDesc modifyAt
  simp only [updName_range' i f a.dims 1 h]
  by_cases hi : i = 0
  · simp [hi]
  · have : 1 ≤ i := by omega
    simp [hi, this]

/-- what the refinement says about one call -/
def Refines (env : Env α) (a : Arr α) (op : Op α) : Prop :=
  match step env a op with
  | .ok (a', _) => accepts env (toShadow a) op = true ∧ toShadow a' = (toShadow a).apply env op ∧ GapFree a'
  | .error _ => accepts env (toShadow a) op = false

theorem refines_ro (env : Env α) {a : Arr α} (h : GapFree a) (hro : a.ro = true) (op : Op α) : Refines env a op := by
  unfold Refines
  cases op <;> simp [step, hro, accepts, toShadow, Shadow.apply] <;> exact h

theorem refines_appendSet (env : Env α) {a : Arr α} (h : GapFree a) (hro : a.ro = false) (l : List String) :
    Refines env a (.appendSet l) := by
  unfold Refines
  simp only [step, hro, appendSet, createGroup_next h, Except.map]
  refine ⟨by simp [accepts, illegal, toShadow, hro], ?_, gapfree_append h _⟩
  simp [toShadow, Shadow.apply, hro]

theorem refines_appendRange (env : Env α) {a : Arr α} (h : GapFree a) (hro : a.ro = false) (t : List α) (l u : String) :
    Refines env a (.appendRange t l u) := by
  unfold Refines
  simp only [step, hro, appendRange]
  by_cases h1 : t.isEmpty = true
  · simp [h1, Except.map, accepts, illegal]
  by_cases h2 : ascending t = true
  · by_cases h3 : (!u.isEmpty && !env.isSI u) = true
    · simp [h1, h2, h3, Except.map, accepts, illegal]
    · simp only [h1, h2, h3, createGroup_next h, Except.map]
      refine ⟨by simp [accepts, illegal, toShadow, hro, h1, h2, h3], ?_, gapfree_append h _⟩
      simp [toShadow, Shadow.apply, hro]
  · simp [h1, h2, Except.map, accepts, illegal]


theorem refines_appendSampled (env : Env α) {a : Arr α} (h : GapFree a) (hro : a.ro = false) (si : α) (l u : String) (o : α) :
    Refines env a (.appendSampled si l u o) := by
  unfold Refines
  simp only [step, hro, appendSampled]
  by_cases h2 : positive si = true
  · by_cases h3 : (!u.isEmpty && !env.isSI u) = true
    · simp [h2, h3, Except.map, accepts, illegal]
    · simp only [h2, h3, createGroup_next h, Except.map]
      refine ⟨by simp [accepts, illegal, toShadow, hro, h2, h3], ?_, gapfree_append h _⟩
      simp [toShadow, Shadow.apply, hro]
  · simp [h2, Except.map, accepts, illegal]

theorem gapfree_empty {a : Arr α} (h0 : a.count = 0) : GapFree a := by
  unfold GapFree Arr.names; unfold Arr.count at h0
  have : a.dims = [] := List.eq_nil_of_length_eq_zero h0
  simp [this, Arr.count]

theorem refines_appendAlias (env : Env α) {a : Arr α} (h : GapFree a) (hro : a.ro = false) :
    Refines env a .appendAlias := by
  unfold Refines
  simp only [step, hro, appendAlias]
  by_cases h1 : a.rank > 1
  · simp [h1, Except.map, accepts, illegal, toShadow]
  by_cases h2 : a.numeric = true
  · by_cases h3 : a.count > 0
    · have : a.dims ≠ [] := by intro e; simp [Arr.count, e] at h3
      simp [h1, h2, h3, Except.map, accepts, illegal, toShadow, this]
    · have h0 : a.count = 0 := by omega
      have hd : a.dims = [] := List.eq_nil_of_length_eq_zero h0
      have hc := createGroup_next h (d := ({ body := .alias } : Desc α))
      rw [h0] at hc
      cases hu : a.unit with
      | none =>
        simp only [h1, h2, h3, hu, hc, Except.map]
        refine ⟨by simp [accepts, illegal, toShadow, hro, h1, hd, h2, hu], ?_, ?_⟩
        · simp [toShadow, Shadow.apply, hro, hd, h2, hu]
        · have := gapfree_append h ({ body := .alias } : Desc α); rw [h0] at this; exact this
      | some u =>
        by_cases h4 : (env.isSI u || env.isCompound u) = true
        · simp only [h1, h2, h3, hu, hc, h4, Except.map]
          refine ⟨by simp [accepts, illegal, toShadow, hro, h1, hd, h2, hu]; simp at h4; rcases h4 with h4 | h4 <;> simp [h4], ?_, ?_⟩
          · simp [toShadow, Shadow.apply, hro, hd, h2, hu]
          · have := gapfree_append h ({ body := .alias } : Desc α); rw [h0] at this; exact this
        · simp [h1, h2, h3, hu, h4, Except.map, accepts, illegal, toShadow]
  · simp [h1, h2, Except.map, accepts, illegal, toShadow]


theorem refines_appendFrame (env : Env α) {a : Arr α} (h : GapFree a) (hro : a.ro = false) (f : FrameArg) (c : ColArg) :
    Refines env a (.appendFrame f c) := by
  unfold Refines
  simp only [step, hro, appendFrame]
  cases f <;> cases c <;> simp [Except.map, accepts, illegal]
  case own.idx i =>
    by_cases hi : env.cols.length ≤ i
    · simp [hi]
    · simp only [hi, createGroup_next h, if_false]
      exact ⟨⟨by simp [toShadow, hro], by omega⟩, by simp [toShadow, Shadow.apply, hro, resolveCol], gapfree_append h _⟩
  case own.name n =>
    cases hc : colIndex n env.cols with
    | none => simp
    | some i =>
      simp only [createGroup_next h]
      exact ⟨⟨by simp [toShadow, hro], by simp⟩, by simp [toShadow, Shadow.apply, hro, resolveCol, hc], gapfree_append h _⟩
  case own.whole =>
    simp only [createGroup_next h]
    exact ⟨by simp [toShadow, hro], by simp [toShadow, Shadow.apply, hro, resolveCol], gapfree_append h _⟩
  case foreign.idx i => by_cases hi : env.foreignCols.length ≤ i <;> simp [hi]
  case foreign.name n => cases colIndex n env.foreignCols <;> simp

theorem refines_deleteDims (env : Env α) {a : Arr α} (h : GapFree a) (hro : a.ro = false) :
    Refines env a .deleteDims := by
  unfold Refines
  have hd : deleteLoop a.count a.dims = [] := deleteLoop_gapfree h
  simp only [step, hro, hd]
  refine ⟨by simp [accepts, illegal, toShadow, hro], by simp [toShadow, Shadow.apply, hro], ?_⟩
  exact gapfree_empty (by simp [Arr.count])


theorem refines_setLabel (env : Env α) {a : Arr α} (h : GapFree a) (hro : a.ro = false) (i : Nat) (v : Option String) :
    Refines env a (.setLabel i v) := by
  unfold Refines
  have hg := get_toShadow h i
  simp only [step, hro, setLabel, withDim]
  cases hl : a.lookup i with
  | none => simp [hl] at hg; simp [Except.map, accepts, illegal, hg]
  | some g =>
    simp [hl] at hg
    have hS : (toShadow a).ro = false := by simp [toShadow, hro]
    rcases v with _ | s
    · cases hb : g.d.body <;> simp [Except.map, accepts, illegal, hg, hb, hS] <;>
        first
        | exact ⟨by rw [toShadow_setDesc h]; simp [Shadow.apply, hg, isAlias, hb], gapfree_setDesc h _ _⟩
        | exact ⟨by simp only [Shadow.apply, hg, isAlias, hb]; simp [toShadow, hro], h⟩
    · by_cases hs : s = ""
      · cases hb : g.d.body <;> simp [Except.map, accepts, illegal, hg, hb, hs]
      · cases hb : g.d.body <;> simp [Except.map, accepts, illegal, hg, hb, hs, hS] <;>
          first
          | exact ⟨by rw [toShadow_setDesc h]; simp [Shadow.apply, hg, isAlias, hb], gapfree_setDesc h _ _⟩
          | exact ⟨by simp only [Shadow.apply, hg, isAlias, hb]; simp [toShadow, hro], h⟩


theorem refines_setUnit (env : Env α) {a : Arr α} (h : GapFree a) (hro : a.ro = false) (i : Nat) (v : Option String) :
    Refines env a (.setUnit i v) := by
  unfold Refines
  have hg := get_toShadow h i
  simp only [step, hro, setUnit, withDim]
  cases hl : a.lookup i with
  | none => simp [hl] at hg; simp [Except.map, accepts, illegal, hg]
  | some g =>
    simp [hl] at hg
    have hS : (toShadow a).ro = false := by simp [toShadow, hro]
    rcases v with _ | s
    · cases hb : g.d.body <;> simp [Except.map, accepts, illegal, hg, hb, hS] <;>
        first
        | exact ⟨by rw [toShadow_setDesc h]; simp [Shadow.apply, hg, isAlias, hb], gapfree_setDesc h _ _⟩
        | exact ⟨by simp only [Shadow.apply, hg, isAlias, hb]; simp [toShadow, hro], h⟩
    · by_cases hs : s = ""
      · cases hb : g.d.body <;> simp [Except.map, accepts, illegal, hg, hb, hs]
      · by_cases hu : env.isSI s = true
        · cases hb : g.d.body <;> simp [Except.map, accepts, illegal, hg, hb, hs, hS, hu] <;>
            first
            | exact ⟨by rw [toShadow_setDesc h]; simp [Shadow.apply, hg, isAlias, hb], gapfree_setDesc h _ _⟩
            | exact ⟨by simp only [Shadow.apply, hg, isAlias, hb]; simp [toShadow, hro], h⟩
        · cases hb : g.d.body <;> simp [Except.map, accepts, illegal, hg, hb, hs, hu]

theorem modify_congr {β : Type} (f f' : β → β) (d : β) (hf : f d = f' d) : ∀ (l : List β) (n : Nat), l[n]? = some d →
    l.modify n f = l.modify n f'
  | [], _, h => by simp at h
  | x :: rest, 0, h => by simp at h; simp [h, hf]
  | x :: rest, n + 1, h => by simp at h; simp [modify_congr f f' d hf rest n h]

theorem modifyAt_congr {s : Shadow α} {i : Nat} {d : Desc α} (f f' : Desc α → Desc α) (hget : s.get i = some d) (hf : f d = f' d) :
    modifyAt i f s.dims = modifyAt i f' s.dims := by
  unfold Shadow.get at hget
  unfold modifyAt
  by_cases hi : i = 0
  · simp [hi]
  · simp only [hi, if_false] at hget ⊢
    exact modify_congr f f' d hf _ _ hget

theorem refines_setInterval (env : Env α) {a : Arr α} (h : GapFree a) (hro : a.ro = false) (i : Nat) (v : α) :
    Refines env a (.setInterval i v) := by
  unfold Refines
  have hg := get_toShadow h i
  simp only [step, hro, setInterval, withDim]
  cases hl : a.lookup i with
  | none => simp [hl] at hg; simp [Except.map, accepts, illegal, hg]
  | some g =>
    simp [hl] at hg
    have hS : (toShadow a).ro = false := by simp [toShadow, hro]
    by_cases hp : positive v = true
    · cases hb : g.d.body <;> simp [Except.map, accepts, illegal, hg, hb, hS, hp]
      exact ⟨by rw [toShadow_setDesc h]; simp only [Shadow.apply]; congr 1; exact modifyAt_congr _ _ hg (by simp [hb]), gapfree_setDesc h _ _⟩
    · cases hb : g.d.body <;> simp [Except.map, accepts, illegal, hg, hb, hp]


theorem refines_setOffset (env : Env α) {a : Arr α} (h : GapFree a) (hro : a.ro = false) (i : Nat) (v : Option α) :
    Refines env a (.setOffset i v) := by
  unfold Refines
  have hg := get_toShadow h i
  simp only [step, hro, setOffset, withDim]
  cases hl : a.lookup i with
  | none => simp [hl] at hg; simp [Except.map, accepts, illegal, hg]
  | some g =>
    simp [hl] at hg
    have hS : (toShadow a).ro = false := by simp [toShadow, hro]
    cases hb : g.d.body <;> simp [Except.map, accepts, illegal, hg, hb, hS]
    exact ⟨by rw [toShadow_setDesc h]; simp only [Shadow.apply]; congr 1; exact modifyAt_congr _ _ hg (by simp [hb]), gapfree_setDesc h _ _⟩

theorem refines_setLabels (env : Env α) {a : Arr α} (h : GapFree a) (hro : a.ro = false) (i : Nat) (v : Option (List String)) :
    Refines env a (.setLabels i v) := by
  unfold Refines
  have hg := get_toShadow h i
  simp only [step, hro, setLabels, withDim]
  cases hl : a.lookup i with
  | none => simp [hl] at hg; simp [Except.map, accepts, illegal, hg]
  | some g =>
    simp [hl] at hg
    have hS : (toShadow a).ro = false := by simp [toShadow, hro]
    cases hb : g.d.body <;> simp [Except.map, accepts, illegal, hg, hb, hS]
    exact ⟨by rw [toShadow_setDesc h]; simp [Shadow.apply], gapfree_setDesc h _ _⟩

theorem refines_setTicks (env : Env α) {a : Arr α} (h : GapFree a) (hro : a.ro = false) (i : Nat) (v : List α) :
    Refines env a (.setTicks i v) := by
  unfold Refines
  have hg := get_toShadow h i
  simp only [step, hro, setTicks, withDim]
  cases hl : a.lookup i with
  | none => simp [hl] at hg; simp [Except.map, accepts, illegal, hg]
  | some g =>
    simp [hl] at hg
    have hS : (toShadow a).ro = false := by simp [toShadow, hro]
    by_cases hp : ascending v = true
    · cases hb : g.d.body <;> simp [Except.map, accepts, illegal, hg, hb, hS, hp] <;>
        first
        | exact ⟨by rw [toShadow_setDesc h]; simp [Shadow.apply, hg, isAlias, hb], gapfree_setDesc h _ _⟩
        | exact ⟨by simp only [Shadow.apply, hg, isAlias, hb]; simp [toShadow, hro], h⟩
    · cases hb : g.d.body <;> simp [Except.map, accepts, illegal, hg, hb, hp]

theorem refines_arrLabel (env : Env α) {a : Arr α} (h : GapFree a) (hro : a.ro = false) (v : Option String) :
    Refines env a (.arrLabel v) := by
  unfold Refines
  simp only [step, hro, arrLabel]
  rcases v with _ | s
  · simp [Except.map, accepts, illegal]; exact ⟨by simp [toShadow, hro], by simp [toShadow, Shadow.apply, hro], h⟩
  · by_cases hs : s = ""
    · simp [Except.map, accepts, illegal, hs]
    · simp [Except.map, accepts, illegal, hs]; exact ⟨by simp [toShadow, hro], by simp [toShadow, Shadow.apply, hro], h⟩

theorem refines_arrData (env : Env α) {a : Arr α} (h : GapFree a) (hro : a.ro = false) (v : List α) :
    Refines env a (.arrData v) := by
  unfold Refines
  simp only [step, hro, arrData]
  by_cases h1 : a.rank = 1
  · by_cases h2 : a.numeric = true
    · simp [Except.map, accepts, illegal, h1, h2, toShadow, hro, Shadow.apply]; exact h
    · simp [Except.map, accepts, illegal, h1, h2, toShadow]
  · simp [Except.map, accepts, illegal, h1, toShadow]

theorem refines_arrExtent (env : Env α) {a : Arr α} (h : GapFree a) (hro : a.ro = false) (sh : List Nat) :
    Refines env a (.arrExtent sh) := by
  unfold Refines
  simp only [step, hro, arrExtent]
  by_cases h1 : sh.length = a.rank
  · match sh with
    | [] => simp at h1; simp [Except.map, accepts, illegal, ← h1, toShadow, hro, Shadow.apply]; exact h
    | [n] => simp at h1; simp [Except.map, accepts, illegal, ← h1, toShadow, hro, Shadow.apply]; exact h
    | _ :: _ :: _ => simp at h1; simp [Except.map, accepts, illegal, ← h1, toShadow, hro, Shadow.apply]; exact h
  · simp [Except.map, accepts, illegal, h1, toShadow]

theorem refines_reopen (env : Env α) {a : Arr α} (h : GapFree a) (r : Bool) : Refines env a (.reopen r) := by
  unfold Refines
  simp [step, accepts, toShadow, Shadow.apply]; exact h


theorem soleAlias_toShadow {a : Arr α} (h : GapFree a) :
    soleAlias a = soleAliasS (toShadow a).dims := by
  unfold soleAlias soleAliasS
  rw [lookup_gapfree h]
  unfold toShadow Arr.count
  match hd : a.dims with
  | [] => simp
  | [g] => simp [isAlias]; cases g.d.body <;> simp
  | _ :: _ :: _ => simp

theorem refines_arrUnit (env : Env α) {a : Arr α} (h : GapFree a) (hro : a.ro = false) (v : Option String) :
    Refines env a (.arrUnit v) := by
  unfold Refines
  simp only [step, hro, arrUnit]
  rcases v with _ | s
  · simp [Except.map, accepts, illegal]; exact ⟨by simp [toShadow, hro], by simp [toShadow, Shadow.apply, hro], h⟩
  · have hsa := soleAlias_toShadow h
    by_cases hs : (deblank s).isEmpty = true
    · simp [Except.map, accepts, illegal, hs]
    · by_cases hu : (soleAlias a && !(env.isSI (deblank s) || env.isCompound (deblank s))) = true
      · simp only [hs, hu]
        rw [hsa] at hu
        simp [Except.map, accepts, illegal, hs, hu]
        intro _; simpa using hu
      · simp only [hs, hu]
        rw [hsa] at hu
        simp [Except.map, accepts, illegal, hs]
        refine ⟨⟨by simp [toShadow, hro], ?_⟩, by simp [toShadow, Shadow.apply, hro], h⟩
        simp at hu; cases hx : soleAliasS (toShadow a).dims <;> simp_all
        cases hy : env.isSI (deblank s) <;> simp_all

/-- **refinement, one call**: the C++-ordered, name-keyed model accepts exactly the calls the specification accepts, an accepted
    call has exactly the specified effect on the descriptors seen by position, and the names stay 1..n -/
theorem step_refines (env : Env α) {a : Arr α} (h : GapFree a) (op : Op α) : Refines env a op := by
  by_cases hro : a.ro = true
  · exact refines_ro env h hro op
  · have hro : a.ro = false := by simpa using hro
    cases op with
    | appendSet l => exact refines_appendSet env h hro l
    | appendRange t l u => exact refines_appendRange env h hro t l u
    | appendSampled si l u o => exact refines_appendSampled env h hro si l u o
    | appendAlias => exact refines_appendAlias env h hro
    | appendFrame f c => exact refines_appendFrame env h hro f c
    | deleteDims => exact refines_deleteDims env h hro
    | setLabel i v => exact refines_setLabel env h hro i v
    | setUnit i v => exact refines_setUnit env h hro i v
    | setInterval i v => exact refines_setInterval env h hro i v
    | setOffset i v => exact refines_setOffset env h hro i v
    | setTicks i v => exact refines_setTicks env h hro i v
    | setLabels i v => exact refines_setLabels env h hro i v
    | arrLabel v => exact refines_arrLabel env h hro v
    | arrUnit v => exact refines_arrUnit env h hro v
    | arrData v => exact refines_arrData env h hro v
    | arrExtent s => exact refines_arrExtent env h hro s
    | reopen r => exact refines_reopen env h r

end Nix.C13
