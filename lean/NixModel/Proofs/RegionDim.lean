import NixModel.Spec.C05
import NixModel.Props.C07
/-
  From start/end index pairs to regions, and the per-dimension step of retrieval.
-/
open Std
set_option linter.unusedSectionVars false
set_option linter.unusedSimpArgs false
namespace Nix.C05
open Nix Scalar Nix.C07

variable {α : Type} [Scalar α] [IsLinearOrder α] [LawfulOrderLT α] [LawfulScalarEq α]

/-- a valid start/end pair (i, j) denotes exactly the indices whose coordinates lie in the interval -/
theorem pair_region (a : Axis α) (hm : a.StrictMono) (rm : RangeMatch) (s e : α) (i j : Nat)
    (h : IsPair a rm s e (some (i, j))) (k : Nat) : (i ≤ k ∧ k ≤ j) ↔ inRegion a rm s e k := by
  simp only [IsPair] at h
  obtain ⟨hes, hi, hj, hij⟩ := h
  simp only [IsIndex] at hi
  obtain ⟨hvi, hsi, hmin⟩ := hi
  cases rm with
  | inclusive =>
    simp only [RangeMatch.endMatch, IsIndex] at hj
    obtain ⟨hvj, hje, hmax⟩ := hj
    simp only [inRegion]
    constructor
    · rintro ⟨h1, h2⟩
      have hvk := a.valid_of_le hvj h2
      have c1 := a.mono_le hm hvk h1
      have c2 := a.mono_le hm hvj h2
      exact ⟨hvk, by grind, by grind⟩
    · rintro ⟨hvk, h1, h2⟩
      exact ⟨hmin k hvk h1, hmax k hvk h2⟩
  | exclusive =>
    simp only [RangeMatch.endMatch, IsIndex] at hj
    obtain ⟨hvj, hje, hmax⟩ := hj
    simp only [inRegion]
    constructor
    · rintro ⟨h1, h2⟩
      have hvk := a.valid_of_le hvj h2
      have c1 := a.mono_le hm hvk h1
      have c2 := a.mono_le hm hvj h2
      exact ⟨hvk, by grind, by grind⟩
    · rintro ⟨hvk, h1, h2⟩
      exact ⟨hmin k hvk h1, hmax k hvk h2⟩

/-- no valid pair ⇒ the interval contains no coordinate -/
theorem pair_none_empty (a : Axis α) (hm : a.StrictMono) (rm : RangeMatch) (s e : α)
    (h : IsPair a rm s e none) (k : Nat) : ¬ inRegion a rm s e k := by
  simp only [IsPair] at h
  intro hk
  simp only [inRegion] at hk
  obtain ⟨hvk, h1, h2⟩ := hk
  rcases h with h | h | h | ⟨i, j, hi, hj, hji⟩
  · cases rm <;> simp only at h2 <;> grind
  · simp only [IsIndex] at h; exact h k hvk h1
  · cases rm <;> simp only [RangeMatch.endMatch, IsIndex] at h h2 <;> exact h k hvk h2
  · simp only [IsIndex] at hi
    have hik := hi.2.2 k hvk h1
    cases rm <;> simp only [RangeMatch.endMatch, IsIndex] at hj h2
    · have := hj.2.2 k hvk h2; omega
    · have := hj.2.2 k hvk h2; omega

/-- the index the point rule designates -/
theorem ge_index_first (a : Axis α) (hm : a.StrictMono) (s : α) (o : Nat)
    (h : IsIndex a .greaterOrEqual s (some o)) : isFirstAtOrAfter a s o := by
  simp only [IsIndex] at h
  obtain ⟨hv, hs, hmin⟩ := h
  refine ⟨hv, hs, ?_⟩
  intro j hj hsj
  have := hmin j (a.valid_of_le hv (by omega)) hsj
  omega

/-! ### well-formed descriptors and the kernels they dispatch to -/

variable [LawfulRounding α]

/-- what the property assumes of a descriptor: strictly increasing coordinates -/
def DimWF : DimDesc α → Prop
  | .sampled si off _ => StrictMonoN (posAt si off) ∧ posAt si off 0 = off ∧ zero < si ∧ isFinite off = true
  | .range ticks _ => Sorted ticks
  | .set _ => True
  | .frame _ _ => True

/-- positions the kernels are specified for — sampled: finite, below coordinate number `fuelDefault` (2^62), index estimate below 2^53;
    set / data frame: below 2^64 (beyond it no index type holds the answer: `count_index_beyond`) -/
def InScope : DimDesc α → α → Prop
  | .sampled si off _, x => isFinite x = true ∧ x < posAt si off fuelDefault ∧ floor (div (sub x off) si) < ofNat 9007199254740992
  | .set _, x => x < ofNat indexLimit
  | .frame _ _, x => x < ofNat indexLimit
  | _, _ => True

theorem axisOf_strictMono (d : DimDesc α) (h : DimWF d) : (axisOf d).StrictMono := by
  cases d with
  | sampled si off u => exact sampledAxis_strictMono si off h.1
  | range ticks u => exact rangeAxis_strictMono ticks h
  | set n => exact countAxis_strictMono n
  | frame n u => exact countAxis_strictMono n

theorem scaleScalar_err (d : DimDesc α) (unit : String) (x : Err) (h : d.scaleScalar unit = .error x) :
    x = .incompatibleDimensions := by
  unfold DimDesc.scaleScalar at h
  cases d <;> simp only at h
  · split at h
    · cases h; rfl
    · split at h
      · split at h
        · split at h <;> cases h; rfl
        · cases h
      · cases h
  · split at h
    · split at h <;> cases h; rfl
    · cases h
  · cases h
  · cases h

theorem index_spec (d : DimDesc α) (h : DimWF d) (x : α) (hx : InScope d x) (m : PositionMatch) :
    IsIndex (axisOf d) m x (d.index x m) := by
  cases d with
  | sampled si off u =>
    obtain ⟨h1, h2, h3, h4⟩ := h
    exact sampled_index_spec fuelDefault x off si m h1 h2 h3 hx.1 h4 hx.2.1 hx.2.2
  | range ticks u => exact range_index_spec ticks h x m
  | set n => exact count_index_spec x n m hx
  | frame n u => exact count_index_spec x n m hx

theorem pair_spec (d : DimDesc α) (h : DimWF d) (s e : α) (hs : InScope d s) (he : InScope d e) (rm : RangeMatch) :
    IsPair (axisOf d) rm s e (d.pair s e rm) := by
  cases d with
  | sampled si off u =>
    obtain ⟨h1, h2, h3, h4⟩ := h
    exact sampled_pair_spec fuelDefault off si s e rm h1 h2 h3 hs.1 he.1 h4 hs.2.1 he.2.1 hs.2.2 he.2.2
  | range ticks u => exact range_pair_spec ticks h s e rm
  | set n => exact count_pair_spec n s e rm hs he
  | frame n u => exact count_pair_spec n s e rm hs he

/-- The per-dimension step of Tag retrieval (`dimOffsetCount`): with `s`, `e` the start and end as
    converted to the dimension's unit and `p` the start as the scalar overload converts it,
    a successful step returns either exactly the indices whose coordinates lie in the interval, or —
    only when the extent is zero and the interval holds no coordinate — the first index at or after `p`;
    an OutOfBounds step means the interval holds no coordinate (and, for a zero extent, that no index lies
    at or after `p`). -/
theorem dimOffsetCount_spec (d : DimDesc α) (hd : DimWF d) (pos endPos : α) (z : Bool) (unit : String) (rm : RangeMatch)
    (k : Option α) (hk : d.scale unit = .ok k)
    (hs : InScope d (applyScale k pos)) (he : InScope d (applyScale k endPos))
    (hp : ∀ k', d.scaleScalar unit = .ok k' → InScope d (applyScale k' pos)) :
    match dimOffsetCount d pos endPos z unit rm with
    | .ok (o, c) =>
        (∀ i, (o ≤ i ∧ i < o + c) ↔ inRegion (axisOf d) rm (applyScale k pos) (applyScale k endPos) i) ∨
        (z = true ∧ c = 1 ∧ (∀ i, ¬ inRegion (axisOf d) rm (applyScale k pos) (applyScale k endPos) i) ∧
          ∃ k', d.scaleScalar unit = .ok k' ∧ isFirstAtOrAfter (axisOf d) (applyScale k' pos) o)
    | .error .outOfBounds =>
        (∀ i, ¬ inRegion (axisOf d) rm (applyScale k pos) (applyScale k endPos) i) ∧
        (z = false ∨ ∃ k', d.scaleScalar unit = .ok k' ∧ ∀ i, (axisOf d).valid i → ¬ applyScale k' pos ≤ (axisOf d).coord i)
    | .error _ => True := by
  have hm := axisOf_strictMono d hd
  have hpair := pair_spec d hd _ _ hs he rm
  unfold dimOffsetCount rangeToIndex
  rw [hk]
  simp only []
  cases hpr : d.pair (applyScale k pos) (applyScale k endPos) rm with
  | some ij =>
    obtain ⟨i, j⟩ := ij
    rw [hpr] at hpair
    simp only []
    left
    intro x
    have hij : i ≤ j := by simp only [IsPair] at hpair; exact hpair.2.2.2
    rw [← pair_region (axisOf d) hm rm _ _ i j hpair x]
    omega
  | none =>
    rw [hpr] at hpair
    have hempty := pair_none_empty (axisOf d) hm rm _ _ hpair
    simp only []
    unfold posToIndex
    cases hsc : d.scaleScalar unit with
    | error x =>
      have := scaleScalar_err d unit x hsc
      subst this
      simp only []
    | ok k' =>
      simp only []
      have hidx := index_spec d hd _ (hp k' hsc) .greaterOrEqual
      cases hi : d.index (applyScale k' pos) .greaterOrEqual with
      | none =>
        rw [hi] at hidx
        simp only []
        refine ⟨hempty, Or.inr ⟨k', rfl, ?_⟩⟩
        simpa [IsIndex] using hidx
      | some o =>
        rw [hi] at hidx
        simp only []
        cases z with
        | false => simp only [Bool.not_false, if_true]; exact ⟨hempty, Or.inl (by first | rfl | trivial)⟩
        | true =>
          simp only [Bool.not_true, Bool.false_eq_true, if_false]
          right
          exact ⟨by first | rfl | trivial, by first | rfl | trivial, hempty, k', by first | rfl | trivial, ge_index_first (axisOf d) hm _ o hidx⟩

/-- MultiTag: a (position index, dimension) cell obeys the same rule as the Tag step, with "zero extent"
    read as end == start -/
theorem mtagDim_spec (d : DimDesc α) (hd : DimWF d) (pos endPos : α) (unit : String) (rm : RangeMatch)
    (k : Option α) (hk : d.scale unit = .ok k)
    (hs : InScope d (applyScale k pos)) (he : InScope d (applyScale k endPos))
    (hp : ∀ k', d.scaleScalar unit = .ok k' → InScope d (applyScale k' pos)) :
    match mtagDim d pos endPos unit rm with
    | .ok (o, c) =>
        (∀ i, (o ≤ i ∧ i < o + c) ↔ inRegion (axisOf d) rm (applyScale k pos) (applyScale k endPos) i) ∨
        (endPos = pos ∧ c = 1 ∧ (∀ i, ¬ inRegion (axisOf d) rm (applyScale k pos) (applyScale k endPos) i) ∧
          ∃ k', d.scaleScalar unit = .ok k' ∧ isFirstAtOrAfter (axisOf d) (applyScale k' pos) o)
    | .error .outOfBounds => ∀ i, ¬ inRegion (axisOf d) rm (applyScale k pos) (applyScale k endPos) i
    | .error _ => True := by
  by_cases hb : beq endPos pos = true
  · have heq : endPos = pos := (LawfulScalarEq.beq_iff _ _).1 hb
    have hspec := dimOffsetCount_spec d hd pos endPos true unit rm k hk hs he hp
    have hm : mtagDim d pos endPos unit rm = dimOffsetCount d pos endPos true unit rm := by
      unfold mtagDim dimOffsetCount
      cases rangeToIndex d pos endPos unit rm with
      | error x => rfl
      | ok r =>
        cases r with
        | some ij => rfl
        | none =>
          simp only [hb, if_true, Bool.not_true, Bool.false_eq_true, if_false]
          subst heq
          cases posToIndex d endPos unit .greaterOrEqual with
          | error x => rfl
          | ok o => cases o <;> rfl
    rw [hm]
    cases hr : dimOffsetCount d pos endPos true unit rm with
    | ok oc =>
      rw [hr] at hspec
      obtain ⟨o, c⟩ := oc
      simp only [] at hspec ⊢
      rcases hspec with h | ⟨_, h2, h3, h4⟩
      · exact Or.inl h
      · exact Or.inr ⟨heq, h2, h3, h4⟩
    | error x =>
      rw [hr] at hspec
      cases x <;> simp only [] at hspec ⊢
      exact hspec.1
  · have hb' : beq endPos pos = false := by simpa using hb
    have hm := axisOf_strictMono d hd
    have hpair := pair_spec d hd _ _ hs he rm
    unfold mtagDim rangeToIndex
    rw [hk]
    simp only []
    cases hpr : d.pair (applyScale k pos) (applyScale k endPos) rm with
    | some ij =>
      obtain ⟨i, j⟩ := ij
      rw [hpr] at hpair
      simp only []
      left
      intro x
      have hij : i ≤ j := by simp only [IsPair] at hpair; exact hpair.2.2.2
      rw [← pair_region (axisOf d) hm rm _ _ i j hpair x]
      omega
    | none =>
      rw [hpr] at hpair
      simp only [hb', Bool.false_eq_true, if_false]
      exact pair_none_empty (axisOf d) hm rm _ _ hpair

/-- dataSlice: the per-dimension step is the Tag step guarded by start ≤ end, with "point" read as end == start -/
theorem sliceDim_eq (d : DimDesc α) (s e : α) (unit : String) (rm : RangeMatch) :
    sliceDim d s e unit rm = if e < s then .error .stdInvalidArgument else dimOffsetCount d s e (beq e s) unit rm := by
  unfold sliceDim dimOffsetCount
  by_cases h : e < s
  · simp [h]
  · simp only [h, if_false]

end Nix.C05
