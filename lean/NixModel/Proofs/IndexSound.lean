import NixModel.Spec.C07
/-
  The neighbour-local evaluator `relIndex` is sound for the property's quantified rule `IsIndex`
  on every strictly increasing axis.  (Helper lemmas for Props/C07.)
-/
open Std
set_option linter.unusedSectionVars false
namespace Nix.C07
open Nix Scalar

variable {α : Type} [Scalar α] [IsLinearOrder α] [LawfulOrderLT α] [LawfulScalarEq α]

theorem Axis.valid_of_le (a : Axis α) {i j : Nat} (h : a.valid j) (hij : i ≤ j) : a.valid i := by
  unfold Axis.valid at *
  split <;> simp_all <;> omega

theorem Axis.mono_le (a : Axis α) (hm : a.StrictMono) {i j : Nat} (hj : a.valid j) (hij : i ≤ j) :
    a.coord i ≤ a.coord j := by
  rcases Nat.lt_or_eq_of_le hij with h | h
  · have := hm i j hj h; grind
  · subst h; grind

theorem Axis.lt_of_coord_lt (a : Axis α) (hm : a.StrictMono) {i j : Nat} (hi : a.valid i)
    (h : a.coord i < a.coord j) : i < j := by
  apply Nat.lt_of_not_le
  intro hji
  have := a.mono_le hm hi hji
  grind

theorem relIndex_sound (a : Axis α) (hm : a.StrictMono) (m : PositionMatch) (p : α) (r hint : Option Nat)
    (h : relIndex a m p r hint = true) : IsIndex a m p r := by
  cases m <;> cases r <;> simp only [relIndex, IsIndex, Bool.and_eq_true, Bool.or_eq_true, decide_eq_true_eq,
    Bool.not_eq_true', decide_eq_false_iff_not, beq_iff_eq] at h ⊢
  -- equal / none
  · intro j hj heq
    rcases h with (h | h) | h
    · exact h (a.valid_of_le hj (Nat.zero_le j))
    · have := a.mono_le hm hj (Nat.zero_le j); grind
    · cases hint with
      | none => simp at h
      | some k =>
        simp only [Bool.and_eq_true, Bool.or_eq_true, decide_eq_true_eq, Bool.not_eq_true',
          decide_eq_false_iff_not] at h
        obtain ⟨⟨hk, hlt⟩, hnext⟩ := h
        by_cases hjk : j ≤ k
        · have := a.mono_le hm hk hjk; grind
        · have hk1 : a.valid (k+1) := a.valid_of_le hj (by omega)
          have := a.mono_le hm hj (show k + 1 ≤ j by omega)
          rcases hnext with h' | h'
          · exact h' hk1
          · grind
  -- equal / some
  · obtain ⟨hv, he⟩ := h
    exact ⟨hv, (LawfulScalarEq.beq_iff _ _).1 he⟩
  -- less / none
  · intro j hj hlt
    rcases h with h | h
    · exact h (a.valid_of_le hj (Nat.zero_le j))
    · have := a.mono_le hm hj (Nat.zero_le j); grind
  -- less / some
  · rename_i i
    obtain ⟨⟨hv, hlt⟩, hnext⟩ := h
    refine ⟨hv, hlt, ?_⟩
    intro j hj hjp
    apply Nat.le_of_not_lt
    intro hij
    have hv1 : a.valid (i+1) := a.valid_of_le hj (by omega)
    have := a.mono_le hm hj (show i + 1 ≤ j by omega)
    rcases hnext with h' | h'
    · exact h' hv1
    · grind
  -- greater / none
  · intro j hj hlt
    cases hl : a.len with
    | none => simp [hl] at h
    | some n =>
      simp only [hl, Bool.or_eq_true, beq_iff_eq, decide_eq_true_eq] at h
      have hjn : j < n := by simpa [Axis.valid, hl] using hj
      rcases h with h | h
      · omega
      · have hv : a.valid (n-1) := by simp [Axis.valid, hl]; omega
        have := a.mono_le hm hv (show j ≤ n - 1 by omega)
        grind
  -- greater / some
  · rename_i i
    obtain ⟨⟨hv, hlt⟩, hprev⟩ := h
    refine ⟨hv, hlt, ?_⟩
    intro j hj hjp
    apply Nat.le_of_not_lt
    intro hji
    rcases hprev with h' | h'
    · omega
    · have := a.mono_le hm (a.valid_of_le hv (Nat.sub_le i 1)) (show j ≤ i - 1 by omega)
      grind
  -- greaterOrEqual / none
  · intro j hj hle
    cases hl : a.len with
    | none => simp [hl] at h
    | some n =>
      simp only [hl, Bool.or_eq_true, beq_iff_eq, decide_eq_true_eq] at h
      have hjn : j < n := by simpa [Axis.valid, hl] using hj
      rcases h with h | h
      · omega
      · have hv : a.valid (n-1) := by simp [Axis.valid, hl]; omega
        have := a.mono_le hm hv (show j ≤ n - 1 by omega)
        grind
  -- greaterOrEqual / some
  · rename_i i
    obtain ⟨⟨hv, hle⟩, hprev⟩ := h
    refine ⟨hv, hle, ?_⟩
    intro j hj hjp
    apply Nat.le_of_not_lt
    intro hji
    rcases hprev with h' | h'
    · omega
    · have := a.mono_le hm (a.valid_of_le hv (Nat.sub_le i 1)) (show j ≤ i - 1 by omega)
      grind
  -- lessOrEqual / none
  · intro j hj hle
    rcases h with h | h
    · exact h (a.valid_of_le hj (Nat.zero_le j))
    · have := a.mono_le hm hj (Nat.zero_le j); grind
  -- lessOrEqual / some
  · rename_i i
    obtain ⟨⟨hv, hle⟩, hnext⟩ := h
    refine ⟨hv, hle, ?_⟩
    intro j hj hjp
    apply Nat.le_of_not_lt
    intro hij
    have hv1 : a.valid (i+1) := a.valid_of_le hj (by omega)
    have := a.mono_le hm hj (show i + 1 ≤ j by omega)
    rcases hnext with h' | h'
    · exact h' hv1
    · grind

end Nix.C07
