import NixModel.Spec.C19
/-
  Helper lemmas for C19: the Result algebra, what each combinator contributes, the check functors of
  checks.cpp against their loop-free specifications.
-/
set_option linter.unusedSectionVars false
set_option linter.unusedVariables false
namespace Nix.Validate
open Nix Nix.C19

@[simp] theorem concat_errors (a b : Result) : (a.concat b).errors = a.errors ++ b.errors := rfl
@[simp] theorem concat_warnings (a b : Result) : (a.concat b).warnings = a.warnings ++ b.warnings := rfl
@[simp] theorem empty_errors : Result.empty.errors = [] := rfl
@[simp] theorem empty_warnings : Result.empty.warnings = [] := rfl

theorem foldl_concat_errors (l : List Result) (r : Result) :
    (l.foldl Result.concat r).errors = r.errors ++ l.flatMap (·.errors) := by
  induction l generalizing r with
  | nil => simp
  | cons x xs ih => simp [List.foldl_cons, ih, List.append_assoc]

theorem foldl_concat_warnings (l : List Result) (r : Result) :
    (l.foldl Result.concat r).warnings = r.warnings ++ l.flatMap (·.warnings) := by
  induction l generalizing r with
  | nil => simp
  | cons x xs ih => simp [List.foldl_cons, ih, List.append_assoc]

theorem validator_errors (l : List Result) : (validator l).errors = l.flatMap (·.errors) := by
  simp [validator, foldl_concat_errors]
theorem validator_warnings (l : List Result) : (validator l).warnings = l.flatMap (·.warnings) := by
  simp [validator, foldl_concat_warnings]

theorem must_errors (p : Bool) (id : String) (c : Cls) (subs : List Result) :
    (must p id c subs).errors = if p then subs.flatMap (·.errors) else [⟨id, c⟩] := by
  cases p <;> simp [must, validator_errors]
theorem must_warnings (p : Bool) (id : String) (c : Cls) (subs : List Result) :
    (must p id c subs).warnings = if p then subs.flatMap (·.warnings) else [] := by
  cases p <;> simp [must, validator_warnings]
theorem should_errors (p : Bool) (id : String) (c : Cls) (subs : List Result) :
    (should p id c subs).errors = if p then subs.flatMap (·.errors) else [] := by
  cases p <;> simp [should, validator_errors]
theorem should_warnings (p : Bool) (id : String) (c : Cls) (subs : List Result) :
    (should p id c subs).warnings = if p then subs.flatMap (·.warnings) else [⟨id, c⟩] := by
  cases p <;> simp [should, validator_warnings]
theorem could_errors (p : Bool) (subs : List Result) :
    (could p subs).errors = if p then subs.flatMap (·.errors) else [] := by
  cases p <;> simp [could, validator_errors]
theorem could_warnings (p : Bool) (subs : List Result) :
    (could p subs).warnings = if p then subs.flatMap (·.warnings) else [] := by
  cases p <;> simp [could, validator_warnings]

/-- a loop `for x in l: result.concat(f(x))`, seen through a projection that distributes over concat -/
theorem foldl_walk {β : Type} (π : Result → List Msg) (hπ : ∀ a b, π (a.concat b) = π a ++ π b)
    (g : Result → β → Result) (h : β → List Msg) (hg : ∀ r x, π (g r x) = π r ++ h x) (l : List β) (r : Result) :
    π (l.foldl g r) = π r ++ l.flatMap h := by
  induction l generalizing r with
  | nil => simp
  | cons x xs ih => simp [List.foldl_cons, ih, hg, List.append_assoc]


variable {α : Type} [Scalar α]

-- ---- std::is_sorted ---------------------------------------------------------------------------------------------
theorem isSortedFrom_eq (p : α) (l : List α) :
    isSortedFrom p l = !((p :: l).zip l).any (fun q => decide (q.2 < q.1)) := by
  induction l generalizing p with
  | nil => simp [isSortedFrom]
  | cons x xs ih =>
    simp only [isSortedFrom, List.zip_cons_cons, List.any_cons]
    by_cases h : x < p
    · simp [h]
    · simp [h, ih]

/-- `std::is_sorted` answers false exactly when some element is smaller than its predecessor -/
theorem isSorted_eq_not_unsorted (l : List α) : isSorted l = !unsorted l := by
  cases l with
  | nil => simp [isSorted, unsorted]
  | cons x xs => simp [isSorted, unsorted, isSortedFrom_eq]

-- ---- the three `dim…MatchData` loops ------------------------------------------------------------------------------
/-- loop-free reading of one iteration: the descriptor is of the probed type, describes an existing data dimension,
    and its length mismatches -/
def mism (probe : DimDesc α → Option (Nat → Bool)) (shape : List Nat) (d : DimDesc α) : Bool :=
  match probe d, dataLen shape d with
  | some f, some n => f n
  | _, _ => false

theorem dimsLoop_true (probe : DimDesc α → Option (Nat → Bool)) (shape : List Nat) (dims : List (DimDesc α))
    (h : ∀ d ∈ dims, mism probe shape d = false) : dimsLoop probe shape dims = true := by
  induction dims with
  | nil => rfl
  | cons d ds ih =>
    have hd := h d (by simp)
    have ih' := ih (fun x hx => h x (by simp [hx]))
    unfold dimsLoop
    cases hp : probe d with
    | none => simpa using ih'
    | some f =>
      simp only
      by_cases h0 : d.index = 0
      · simp [h0]
      · simp only [h0, if_false]
        cases hs : shape[d.index - 1]? with
        | none => rfl
        | some n =>
          have : f n = false := by simpa [mism, hp, dataLen, h0, hs] using hd
          simp [this, ih']

theorem dimsLoop_false (probe : DimDesc α → Option (Nat → Bool)) (shape : List Nat) (dims : List (DimDesc α))
    (hin : ∀ d ∈ dims, 1 ≤ d.index ∧ d.index ≤ shape.length)
    (h : ∃ d ∈ dims, mism probe shape d = true) : dimsLoop probe shape dims = false := by
  induction dims with
  | nil => simp at h
  | cons d ds ih =>
    have hd := hin d (by simp)
    unfold dimsLoop
    cases hp : probe d with
    | none =>
      simp only
      apply ih (fun x hx => hin x (by simp [hx]))
      obtain ⟨x, hx, hm⟩ := h
      rcases List.mem_cons.mp hx with rfl | hx'
      · simp [mism, hp] at hm
      · exact ⟨x, hx', hm⟩
    | some f =>
      simp only
      have h0 : d.index ≠ 0 := by omega
      simp only [h0, if_false]
      have hlt : d.index - 1 < shape.length := by omega
      have hs : shape[d.index - 1]? = some shape[d.index - 1] := List.getElem?_eq_getElem hlt
      rw [hs]
      simp only
      by_cases hf : f shape[d.index - 1] = true
      · simp [hf]
      · simp only [hf]
        apply ih (fun x hx => hin x (by simp [hx]))
        obtain ⟨x, hx, hm⟩ := h
        rcases List.mem_cons.mp hx with rfl | hx'
        · exfalso; apply hf; simpa [mism, hp, dataLen, h0, hs] using hm
        · exact ⟨x, hx', hm⟩


-- ---- tagUnitsMatchRefsUnits ---------------------------------------------------------------------------------------
/-- the `else` branch of the inner loop is a tautology -/
theorem beyond_dims_taut (tu : String) : (!tu.isEmpty || tu != "none") = true := by
  by_cases h : tu = "none"
  · subst h; decide
  · simp [h]

theorem unitsLoop_eq (du : List String) (us : List String) (i : Nat) (m : Bool) :
    unitsLoop du us i m = (m && !((us.zip (du.drop i)).any fun p => pairBreach p.1 p.2)) := by
  induction us generalizing i m with
  | nil => simp [unitsLoop]
  | cons tu rest ih =>
    unfold unitsLoop
    cases hd : du[i]? with
    | none =>
      have hlen : du.length ≤ i := by
        rcases Nat.lt_or_ge i du.length with hlt | hge
        · rw [List.getElem?_eq_getElem hlt] at hd; cases hd
        · exact hge
      have h1 : du.drop i = [] := List.drop_eq_nil_of_le hlen
      have h2 : du.drop (i + 1) = [] := List.drop_eq_nil_of_le (by omega)
      simp only [beyond_dims_taut, Bool.and_true]
      rw [ih, h1, h2]
      simp
    | some d =>
      have hlt : i < du.length := by
        rcases Nat.lt_or_ge i du.length with hlt | hge
        · exact hlt
        · rw [List.getElem?_eq_none hge] at hd; cases hd
      have hdrop : du.drop i = d :: du.drop (i + 1) := by
        rw [List.drop_eq_getElem_cons hlt]
        rw [List.getElem?_eq_getElem hlt] at hd
        cases hd; rfl
      simp only
      rw [ih, hdrop]
      simp only [List.zip_cons_cons, List.any_cons, pairBreach]
      by_cases c1 : d = "none" <;> by_cases c2 : tu.isEmpty = true <;> by_cases c3 : tu = "none" <;>
        cases m <;> cases hs : isScalable tu d <;> simp [c1, c2, c3, hs]

theorem refsLoop_eq (units : List String) (refs : List (List String)) (m : Bool) :
    refsLoop units refs m = (m && !refs.any (refBreach units)) := by
  induction refs generalizing m with
  | nil => simp [refsLoop]
  | cons ref rest ih =>
    unfold refsLoop
    simp only [unitsLoop_eq, List.drop_zero, List.any_cons]
    have hrb : ((units.zip ref).any fun p => pairBreach p.1 p.2) = refBreach units ref := rfl
    rw [hrb]
    cases m <;> cases hb : refBreach units ref <;> simp [ih]

/-- the check functor answers false exactly when some unit of the tag, at its own position, is not convertible to the
    unit of the same dimension of some referenced array -/
theorem tagUnitsMatchRefsUnits_eq (units : List String) (refs : List (List String)) :
    tagUnitsMatchRefsUnits units refs = !refs.any (refBreach units) := by
  simp [tagUnitsMatchRefsUnits, refsLoop_eq]


-- ---- File::validate = the per-entity results of every entity, in walk order ------------------------------------------
/-- the `validate(…)` overload the walk applies to an entity -/
def entValidate : Ent α → Result
  | .named n => validateNamed n
  | .array a => validateArray a
  | .dim d => validateDim d
  | .tag t => validateTag t
  | .feature f => validateFeature f
  | .prop p => validateProp p

section walk
variable (π : Result → List Msg) (hπ : ∀ a b : Result, π (a.concat b) = π a ++ π b)
include hπ

theorem walkTag_proj (r : Result) (t : TagDesc) :
    π (walkTag r t) = π r ++ (tagEnts (α := α) t).flatMap (fun e => π (entValidate e)) := by
  unfold walkTag
  rw [foldl_walk π hπ (fun r f => r.concat (validateFeature f)) (fun f => π (validateFeature f)) (fun r x => hπ _ _)]
  simp [hπ, tagEnts, entValidate, List.flatMap_map, List.append_assoc]

theorem walkArray_proj (r : Result) (a : ArrayDesc α) :
    π (walkArray r a) = π r ++ (arrayEnts a).flatMap (fun e => π (entValidate e)) := by
  unfold walkArray
  rw [foldl_walk π hπ (fun r d => r.concat (validateDim d)) (fun d => π (validateDim d)) (fun r x => hπ _ _)]
  simp [hπ, arrayEnts, entValidate, List.flatMap_map, List.append_assoc]

theorem walkBlock_proj (r : Result) (b : BlockDesc α) :
    π (walkBlock r b) = π r ++ (blockEnts b).flatMap (fun e => π (entValidate e)) := by
  unfold walkBlock
  simp only []
  rw [foldl_walk π hπ (fun r s => r.concat (validateNamed s)) (fun s => π (validateNamed s)) (fun r x => hπ _ _),
      foldl_walk π hπ walkTag _ (walkTag_proj (α := α) π hπ),
      foldl_walk π hπ walkTag _ (walkTag_proj (α := α) π hπ),
      foldl_walk π hπ walkArray _ (walkArray_proj π hπ)]
  simp [hπ, blockEnts, entValidate, List.flatMap_map, List.flatMap_append, List.append_assoc, List.flatMap_assoc]

theorem walkSection_proj (r : Result) (s : SectionDesc) :
    π (walkSection r s) = π r ++ (sectionEnts (α := α) s).flatMap (fun e => π (entValidate e)) := by
  unfold walkSection
  rw [foldl_walk π hπ (fun r p => r.concat (validateProp p)) (fun p => π (validateProp p)) (fun r x => hπ _ _)]
  simp [hπ, sectionEnts, entValidate, List.flatMap_map, List.append_assoc]

theorem validateFile_proj (hε : π Result.empty = []) (d : FileDesc α) :
    π (validateFile d) = (entities d).flatMap (fun e => π (entValidate e)) := by
  unfold validateFile
  simp only []
  rw [foldl_walk π hπ walkSection _ (walkSection_proj (α := α) π hπ),
      foldl_walk π hπ walkBlock _ (walkBlock_proj π hπ)]
  simp [hε, entities, List.flatMap_append, List.flatMap_assoc]

end walk

/-- the errors `File::validate` reports are the errors of the per-entity validations, for every entity of the file -/
theorem validateFile_errors (d : FileDesc α) :
    (validateFile d).errors = (entities d).flatMap (fun e => (entValidate e).errors) :=
  validateFile_proj (·.errors) concat_errors rfl d

theorem validateFile_warnings (d : FileDesc α) :
    (validateFile d).warnings = (entities d).flatMap (fun e => (entValidate e).warnings) :=
  validateFile_proj (·.warnings) concat_warnings rfl d


-- ---- three views of a Result, each compositional over the combinators ---------------------------------------------
def NoErr (r : Result) : Prop := r.errors = []
def NoWarn (r : Result) : Prop := r.warnings = []
/-- every message is attributed to `s` -/
def AllId (s : String) (r : Result) : Prop := (∀ m ∈ r.errors, m.id = s) ∧ (∀ m ∈ r.warnings, m.id = s)

theorem flatMap_eq_nil_iff' {β γ : Type} (l : List β) (f : β → List γ) : l.flatMap f = [] ↔ ∀ x ∈ l, f x = [] := by
  induction l with
  | nil => simp
  | cons x xs ih => simp [List.flatMap_cons, ih]

@[simp] theorem noErr_empty : NoErr Result.empty := rfl
@[simp] theorem noWarn_empty : NoWarn Result.empty := rfl
@[simp] theorem allId_empty (s : String) : AllId s Result.empty := by simp [AllId]

@[simp] theorem noErr_concat (a b : Result) : NoErr (a.concat b) ↔ NoErr a ∧ NoErr b := by simp [NoErr]
@[simp] theorem noWarn_concat (a b : Result) : NoWarn (a.concat b) ↔ NoWarn a ∧ NoWarn b := by simp [NoWarn]
@[simp] theorem allId_concat (s : String) (a b : Result) : AllId s (a.concat b) ↔ AllId s a ∧ AllId s b := by
  simp only [AllId, concat_errors, concat_warnings, List.mem_append]
  constructor
  · rintro ⟨h1, h2⟩; exact ⟨⟨fun m hm => h1 m (Or.inl hm), fun m hm => h2 m (Or.inl hm)⟩, ⟨fun m hm => h1 m (Or.inr hm), fun m hm => h2 m (Or.inr hm)⟩⟩
  · rintro ⟨⟨h1, h2⟩, ⟨h3, h4⟩⟩; exact ⟨fun m hm => hm.elim (h1 m) (h3 m), fun m hm => hm.elim (h2 m) (h4 m)⟩

@[simp] theorem noErr_validator (l : List Result) : NoErr (validator l) ↔ ∀ r ∈ l, NoErr r := by
  simp [NoErr, validator_errors, flatMap_eq_nil_iff']
@[simp] theorem noWarn_validator (l : List Result) : NoWarn (validator l) ↔ ∀ r ∈ l, NoWarn r := by
  simp [NoWarn, validator_warnings, flatMap_eq_nil_iff']
@[simp] theorem allId_validator (s : String) (l : List Result) : AllId s (validator l) ↔ ∀ r ∈ l, AllId s r := by
  simp only [AllId, validator_errors, validator_warnings, List.mem_flatMap]
  constructor
  · rintro ⟨h1, h2⟩ r hr; exact ⟨fun m hm => h1 m ⟨r, hr, hm⟩, fun m hm => h2 m ⟨r, hr, hm⟩⟩
  · intro h; exact ⟨fun m ⟨r, hr, hm⟩ => (h r hr).1 m hm, fun m ⟨r, hr, hm⟩ => (h r hr).2 m hm⟩

@[simp] theorem noErr_must (p : Bool) (s : String) (c : Cls) (subs : List Result) :
    NoErr (must p s c subs) ↔ p = true ∧ ∀ r ∈ subs, NoErr r := by
  cases p <;> simp [must, NoErr, validator_errors, flatMap_eq_nil_iff']
@[simp] theorem noWarn_must (p : Bool) (s : String) (c : Cls) (subs : List Result) :
    NoWarn (must p s c subs) ↔ (p = true → ∀ r ∈ subs, NoWarn r) := by
  cases p <;> simp [must, NoWarn, validator_warnings, flatMap_eq_nil_iff']
@[simp] theorem allId_must (p : Bool) (s : String) (c : Cls) (subs : List Result) :
    AllId s (must p s c subs) ↔ (p = true → ∀ r ∈ subs, AllId s r) := by
  cases p
  · simp [must, AllId]
  · simp [must]

@[simp] theorem noErr_should (p : Bool) (s : String) (c : Cls) (subs : List Result) :
    NoErr (should p s c subs) ↔ (p = true → ∀ r ∈ subs, NoErr r) := by
  cases p <;> simp [should, NoErr, validator_errors, flatMap_eq_nil_iff']
@[simp] theorem noWarn_should (p : Bool) (s : String) (c : Cls) (subs : List Result) :
    NoWarn (should p s c subs) ↔ p = true ∧ ∀ r ∈ subs, NoWarn r := by
  cases p <;> simp [should, NoWarn, validator_warnings, flatMap_eq_nil_iff']
@[simp] theorem allId_should (p : Bool) (s : String) (c : Cls) (subs : List Result) :
    AllId s (should p s c subs) ↔ (p = true → ∀ r ∈ subs, AllId s r) := by
  cases p
  · simp [should, AllId]
  · simp [should]

@[simp] theorem noErr_could (p : Bool) (subs : List Result) :
    NoErr (could p subs) ↔ (p = true → ∀ r ∈ subs, NoErr r) := by
  cases p <;> simp [could]
@[simp] theorem noWarn_could (p : Bool) (subs : List Result) :
    NoWarn (could p subs) ↔ (p = true → ∀ r ∈ subs, NoWarn r) := by
  cases p <;> simp [could]
@[simp] theorem allId_could (s : String) (p : Bool) (subs : List Result) :
    AllId s (could p subs) ↔ (p = true → ∀ r ∈ subs, AllId s r) := by
  cases p <;> simp [could]

end Nix.Validate
