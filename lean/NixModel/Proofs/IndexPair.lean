import NixModel.Proofs.IndexCount
/-
  Uniqueness of the index the rule designates, round trip of coordinates, start/end pairs.
-/
open Std
set_option linter.unusedSectionVars false
namespace Nix.C07
open Nix Scalar

variable {α : Type} [Scalar α] [IsLinearOrder α] [LawfulOrderLT α] [LawfulScalarEq α]

theorem IsIndex_unique (a : Axis α) (hm : a.StrictMono) (m : PositionMatch) (p : α) (r r' : Option Nat)
    (h : IsIndex a m p r) (h' : IsIndex a m p r') : r = r' := by
  cases m <;> cases r <;> cases r' <;> simp only [IsIndex] at h h' <;> try rfl
  all_goals first
    | (exfalso; obtain ⟨hv, hc⟩ := h'; exact h _ hv hc)
    | (exfalso; obtain ⟨hv, hc⟩ := h; exact h' _ hv hc)
    | (exfalso; obtain ⟨hv, hc, _⟩ := h'; exact h _ hv hc)
    | (exfalso; obtain ⟨hv, hc, _⟩ := h; exact h' _ hv hc)
    | skip
  · -- equal
    rename_i i j
    obtain ⟨hi, hci⟩ := h; obtain ⟨hj, hcj⟩ := h'
    congr 1
    apply Nat.le_antisymm
    · apply Nat.le_of_not_lt; intro hlt; have := hm j i hi hlt; grind
    · apply Nat.le_of_not_lt; intro hlt; have := hm i j hj hlt; grind
  all_goals
    rename_i i j
    obtain ⟨hi, hci, hmi⟩ := h; obtain ⟨hj, hcj, hmj⟩ := h'
    congr 1
    have := hmi j hj hcj
    have := hmj i hi hci
    omega

/-- the coordinate of sample i converts back to i (i-1 for Less, i+1 for Greater) -/
theorem coord_roundtrip (a : Axis α) (hm : a.StrictMono) (i : Nat) (hi : a.valid i) :
    IsIndex a .greaterOrEqual (a.coord i) (some i) ∧ IsIndex a .lessOrEqual (a.coord i) (some i) ∧
    IsIndex a .equal (a.coord i) (some i) ∧
    IsIndex a .less (a.coord i) (if i = 0 then none else some (i - 1)) ∧
    IsIndex a .greater (a.coord i) (if a.valid (i + 1) then some (i + 1) else none) := by
  refine ⟨⟨hi, Std.le_refl _, ?_⟩, ⟨hi, Std.le_refl _, ?_⟩, ⟨hi, rfl⟩, ?_, ?_⟩
  · intro j hj hle
    apply Nat.le_of_not_lt; intro hlt
    have := hm j i hi hlt; grind
  · intro j hj hle
    apply Nat.le_of_not_lt; intro hlt
    have := hm i j hj hlt; grind
  · by_cases h0 : i = 0
    · simp only [h0, if_true, IsIndex]
      intro j hj hlt
      subst h0
      have := a.mono_le hm hj (Nat.zero_le j); grind
    · simp only [h0, if_false, IsIndex]
      refine ⟨a.valid_of_le hi (Nat.sub_le i 1), hm (i - 1) i hi (by omega), ?_⟩
      intro j hj hlt
      have := a.lt_of_coord_lt hm hj hlt
      omega
  · by_cases hv : a.valid (i + 1)
    · rw [if_pos hv]; simp only [IsIndex]
      refine ⟨hv, hm i (i + 1) hv (by omega), ?_⟩
      intro j hj hlt
      have := a.lt_of_coord_lt hm hi hlt
      omega
    · rw [if_neg hv]; simp only [IsIndex]
      intro j hj hlt
      have := a.lt_of_coord_lt hm hi hlt
      exact hv (a.valid_of_le hj (by omega))

/-- the pair shape needs the kernel's rule at the two positions it is asked for only -/
theorem pairOf_spec_at (a : Axis α) (kernel : α → PositionMatch → Option Nat) (s e : α) (rm : RangeMatch)
    (h1 : IsIndex a .greaterOrEqual s (kernel s .greaterOrEqual)) (h2 : IsIndex a rm.endMatch e (kernel e rm.endMatch)) :
    IsPair a rm s e (pairOf kernel s e rm) := by
  unfold pairOf
  by_cases hes : e < s
  · simp [hes, IsPair]
  · simp only [hes, if_false]
    cases hs : kernel s .greaterOrEqual with
    | none => rw [hs] at h1; simp only [IsPair]; exact Or.inr (Or.inl h1)
    | some si =>
      cases he : kernel e rm.endMatch with
      | none => rw [he] at h2; simp only [IsPair]; exact Or.inr (Or.inr (Or.inl h2))
      | some ei =>
        rw [hs] at h1; rw [he] at h2
        by_cases hle : si ≤ ei
        · show IsPair a rm s e (if si ≤ ei then some (si, ei) else none)
          rw [if_pos hle]; simp only [IsPair]; exact ⟨hes, h1, h2, hle⟩
        · show IsPair a rm s e (if si ≤ ei then some (si, ei) else none)
          rw [if_neg hle]; simp only [IsPair]
          exact Or.inr (Or.inr (Or.inr ⟨si, ei, h1, h2, by omega⟩))

theorem pairOf_spec (a : Axis α) (kernel : α → PositionMatch → Option Nat)
    (hk : ∀ p m, IsIndex a m p (kernel p m)) (s e : α) (rm : RangeMatch) :
    IsPair a rm s e (pairOf kernel s e rm) :=
  pairOf_spec_at a kernel s e rm (hk s .greaterOrEqual) (hk e rm.endMatch)

theorem rangePair_eq_pairOf (ticks : List α) (s e : α) (rm : RangeMatch) :
    rangePair ticks s e rm = pairOf (fun p m => getIndex p ticks m) s e rm := by
  unfold rangePair pairOf
  split
  · rfl
  · simp only []
    cases getIndex s ticks .greaterOrEqual <;> cases getIndex e ticks rm.endMatch <;> rfl

end Nix.C07
