import NixModel.Spec.C18
/-
  Helper lemmas for Props/C18: alternation search on strings that continue with a separator
  character which occurs in no alternative.
-/
namespace Nix.Units

theorem isPrefixOf_append_sep (a u rest : Str) (sep : Char) (h : sep ∉ a) :
    a.isPrefixOf (u ++ sep :: rest) = a.isPrefixOf u := by
  induction a generalizing u with
  | nil => simp
  | cons c cs ih =>
    cases u with
    | nil =>
      simp only [List.nil_append, List.isPrefixOf]
      have : c ≠ sep := by intro e; apply h; simp [e]
      simp [this]
    | cons d ds =>
      simp only [List.cons_append, List.isPrefixOf]
      rw [ih ds (by intro hm; apply h; simp [hm])]

theorem drop_append_of_isPrefixOf (a u tail : Str) (h : a.isPrefixOf u = true) :
    (u ++ tail).drop a.length = u.drop a.length ++ tail := by
  have hl : a.length ≤ u.length := by
    have := List.isPrefixOf_iff_prefix.mp h
    exact this.length_le
  rw [List.drop_append_of_le_length hl]

theorem firstAlt_append_sep (alts : List Str) (u rest : Str) (sep : Char) (h : ∀ a ∈ alts, sep ∉ a) :
    firstAlt alts (u ++ sep :: rest) = (firstAlt alts u).map (fun mr => (mr.1, mr.2 ++ sep :: rest)) := by
  induction alts with
  | nil => simp [firstAlt]
  | cons a as ih =>
    simp only [firstAlt]
    rw [isPrefixOf_append_sep a u rest sep (h a (by simp))]
    by_cases hp : a.isPrefixOf u = true
    · simp [hp, drop_append_of_isPrefixOf a u (sep :: rest) hp]
    · simp only [hp]
      exact ih (fun a' ha' => h a' (by simp [ha']))

theorem searchAlt_of_firstAlt (alts : List Str) (s : Str) (r : Str × Str) (h : firstAlt alts s = some r) :
    searchAlt alts s = some r := by
  cases s with
  | nil => simpa [searchAlt] using h
  | cons c cs => simp [searchAlt, h]

/-- a POWER match starts with `^` -/
theorem matchPower_head (s : Str) (h : matchPower s = true) : ∃ t, s = '^' :: t := by
  cases s with
  | nil => simp [matchPower] at h
  | cons c cs =>
    by_cases hc : c = '^'
    · exact ⟨cs, by rw [hc]⟩
    · unfold matchPower at h
      split at h
      · rename_i heq; cases heq; exact absurd rfl hc
      · cases h

theorem matchPower_append_false (x tail : Str) (hx : x ≠ []) (hc : '^' ∉ x) : matchPower (x ++ tail) = false := by
  cases hm : matchPower (x ++ tail) with
  | false => rfl
  | true =>
    obtain ⟨t, ht⟩ := matchPower_head _ hm
    cases x with
    | nil => exact absurd rfl hx
    | cons c cs =>
      simp only [List.cons_append, List.cons.injEq] at ht
      exact absurd (by rw [ht.1]; simp) hc

end Nix.Units
