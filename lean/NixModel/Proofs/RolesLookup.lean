import NixModel.Proofs.Roles
/-
  Lookups respect the schema (what they hand back has the role the schema gives it), and the create-on-demand step
  `openGroupCreate` keeps `WT` with the new object in the role the schema asks for.
-/
namespace Nix.St
open Store

theorem WT.child {s : Store} {ρ : ObjId → Role} (h : WT s ρ) {g : ObjId} {n : String} {x : ObjId} (hc : s.child? g n = some x) :
    x < s.objs.length ∧ childRole (ρ g) n = some (ρ x) :=
  h.link g (n, x) (mem_of_lookup hc)

theorem WT.optGroup {s : Store} {ρ : ObjId → Role} (h : WT s ρ) {g : ObjId} {n : String} {x : ObjId} (hc : s.optGroup g n = some x) :
    x < s.objs.length ∧ childRole (ρ g) n = some (ρ x) := by
  unfold Store.optGroup at hc
  split at hc
  · exact h.child hc
  · simp at hc

/-- a name under which the schema wants a group and that carries no group is free -/
theorem WT.free_of_not_hasGroup {s : Store} {ρ : ObjId → Role} (h : WT s ρ) {g : ObjId} {n : String} {r : Role}
    (hr : childRole (ρ g) n = some r) (hr' : r ≠ .prop) (hh : s.hasGroup g n = false) :
    s.child? g n = none ∨ n.isEmpty = true := by
  cases hn : n.isEmpty with
  | true => exact .inr rfl
  | false =>
    left
    cases hc : s.child? g n with
    | none => rfl
    | some t =>
      exfalso
      have ⟨ht, hrt⟩ := h.child hc
      rw [hr] at hrt
      have hrt' : ρ t = r := (Option.some.inj hrt).symm
      have hgt := h.grp t ht
      rw [hrt'] at hgt
      simp [hasGroup, hn, hc, hgt, hr'] at hh

theorem upd_self (ρ : ObjId → Role) (x : ObjId) : upd ρ x (ρ x) = ρ := by
  funext y; simp only [upd]; split
  · rename_i h; rw [h]
  · rfl

/-- H5Group::openGroup(name, create = true) under a schema-conform name -/
theorem WT.openGroupCreate {s : Store} {ρ : ObjId → Role} (h : WT s ρ) (g : ObjId) (n : String) (r : Role)
    (hg : g < s.objs.length) (hr : childRole (ρ g) n = some r) (hr' : r ≠ .prop) :
    WT (s.openGroupCreate g n).1 (upd ρ (s.openGroupCreate g n).2 r) ∧
    Agree s ρ (upd ρ (s.openGroupCreate g n).2 r) ∧
    s.objs.length ≤ (s.openGroupCreate g n).1.objs.length ∧
    (s.openGroupCreate g n).2 < (s.openGroupCreate g n).1.objs.length ∧
    upd ρ (s.openGroupCreate g n).2 r (s.openGroupCreate g n).2 = r := by
  by_cases hh : s.hasGroup g n = true
  · obtain ⟨_, x, hx, _⟩ := hasGroup_child s g n hh
    have hs : (s.openGroupCreate g n).1 = s := openGroupCreate_existing s g n hh
    have hx2 : (s.openGroupCreate g n).2 = x := by unfold Store.openGroupCreate; simp [hh, hx]
    have ⟨hxl, hxr⟩ := h.child hx
    rw [hr] at hxr
    have hρ : ρ x = r := (Option.some.inj hxr).symm
    rw [hs, hx2, ← hρ, upd_self]
    exact ⟨h, Agree.refl s ρ, Nat.le_refl _, hxl, rfl⟩
  · have hh' : s.hasGroup g n = false := by simpa using hh
    have hfree := h.free_of_not_hasGroup hr hr' hh'
    have heq : s.openGroupCreate g n = ((s.alloc { isGroup := true }).1.addLink g n (s.alloc { isGroup := true }).2, (s.alloc { isGroup := true }).2) := by
      unfold Store.openGroupCreate; simp [hh']
    rw [heq]
    simp only [alloc_snd]
    refine ⟨h.allocLink g n { isGroup := true } r hg rfl (by simp [hr']) hr hfree, ?_, ?_, ?_, ?_⟩
    · intro o ho; simp [upd, Nat.ne_of_lt ho]
    · rw [length_addLink, length_alloc]; exact Nat.le_succ _
    · rw [length_addLink, length_alloc]; exact Nat.lt_succ_self _
    · simp [upd]

/-- the role of what a name-independent holder (container, top group) links to -/
theorem WT.findGroupByAttribute {s : Store} {ρ : ObjId → Role} (h : WT s ρ) {g : ObjId} {a v : String} {x : ObjId}
    (hx : s.findGroupByAttribute g a v = some x) : x < s.objs.length ∧ ∃ n, childRole (ρ g) n = some (ρ x) := by
  unfold Store.findGroupByAttribute at hx
  cases hf : (s.linksOf g).find? (fun l => s.isGroupObj l.2 && s.attr? l.2 a == some v) with
  | none => simp [hf] at hx
  | some l =>
    simp [hf] at hx; subst hx
    have := h.link g l (List.mem_of_find?_eq_some hf)
    exact ⟨this.1, l.1, this.2⟩

theorem WT.findDataByAttribute {s : Store} {ρ : ObjId → Role} (h : WT s ρ) {g : ObjId} {a v : String} {x : ObjId}
    (hx : s.findDataByAttribute g a v = some x) : x < s.objs.length ∧ ∃ n, childRole (ρ g) n = some (ρ x) := by
  unfold Store.findDataByAttribute at hx
  cases hf : (s.linksOf g).find? (fun l => !s.isGroupObj l.2 && s.attr? l.2 a == some v) with
  | none => simp [hf] at hx
  | some l =>
    simp [hf] at hx; subst hx
    have := h.link g l (List.mem_of_find?_eq_some hf)
    exact ⟨this.1, l.1, this.2⟩

theorem WT.findGroup {s : Store} {ρ : ObjId → Role} (h : WT s ρ) {g : ObjId} {a v : String} {x : ObjId}
    (hx : s.findGroupByNameOrAttribute g a v = some x) : x < s.objs.length ∧ ∃ n, childRole (ρ g) n = some (ρ x) := by
  unfold Store.findGroupByNameOrAttribute at hx
  split at hx
  · exact ⟨(h.child hx).1, v, (h.child hx).2⟩
  · split at hx
    · exact h.findGroupByAttribute hx
    · simp at hx

theorem WT.findData {s : Store} {ρ : ObjId → Role} (h : WT s ρ) {g : ObjId} {a v : String} {x : ObjId}
    (hx : s.findDataByNameOrAttribute g a v = some x) : x < s.objs.length ∧ ∃ n, childRole (ρ g) n = some (ρ x) := by
  unfold Store.findDataByNameOrAttribute at hx
  split at hx
  · exact ⟨(h.child hx).1, v, (h.child hx).2⟩
  · split at hx
    · exact h.findDataByAttribute hx
    · simp at hx

/-- BlockHDF5::findEntityGroup hands back an entity of the kind asked for -/
theorem WT.blkFind {s : Store} {ρ : ObjId → Role} (h : WT s ρ) {b : ObjId} {k n i : String} {x : ObjId} (hb : ρ b = .ent .B)
    (hx : blkFind s b k n i = some x) : x < s.objs.length ∧ ρ x = .ent (bKind k) := by
  unfold St.blkFind at hx
  cases hp : s.optGroup b (blockContainer k) with
  | none => simp [hp] at hx
  | some p =>
    have ⟨_, hpr⟩ := h.optGroup hp
    rw [hb, childRole_blockContainer] at hpr
    have hρp : ρ p = .cont (bKind k) := (Option.some.inj hpr).symm
    simp only [hp] at hx
    split at hx
    · simp at hx
    · split at hx
      · rename_i o hg
        have ho : o < s.objs.length ∧ ρ o = .ent (bKind k) := by
          have key : ∀ {y}, (y < s.objs.length ∧ ∃ n', childRole (ρ p) n' = some (ρ y)) → y < s.objs.length ∧ ρ y = .ent (bKind k) := by
            intro y hy
            obtain ⟨hy1, n', hy2⟩ := hy
            rw [hρp] at hy2
            simp only [childRole] at hy2
            exact ⟨hy1, (Option.some.inj hy2).symm⟩
          repeat' split at hg
          all_goals first
            | exact key ⟨(h.child hg).1, _, (h.child hg).2⟩
            | exact key (h.findGroupByAttribute hg)
            | simp at hg
        split at hx
        · simp at hx
        · simp at hx; subst hx; exact ho
      · simp at hx

theorem WT.blkFindKey {s : Store} {ρ : ObjId → Role} (h : WT s ρ) {b : ObjId} {k key : String} {x : ObjId} (hb : ρ b = .ent .B)
    (hx : blkFindKey s b k key = some x) : x < s.objs.length ∧ ρ x = .ent (bKind k) := by
  unfold St.blkFindKey at hx
  exact h.blkFind hb hx

theorem levelOrder_role {s : Store} {ρ : ObjId → Role} (h : WT s ρ) (cname : String) (k : Kind)
    (hc : childRole (.ent k) cname = some (.cont k)) (fuel : Nat) (roots : List ObjId)
    (hr : ∀ r ∈ roots, r < s.objs.length ∧ ρ r = .ent k) :
    ∀ x ∈ levelOrder cname fuel s roots, x < s.objs.length ∧ ρ x = .ent k := by
  induction fuel generalizing roots with
  | zero => intro x hx; simp [levelOrder] at hx
  | succ fuel ih =>
    intro x hx
    unfold levelOrder at hx
    split at hx
    · simp at hx
    · simp only [List.mem_append] at hx
      cases hx with
      | inl h1 => exact hr x h1
      | inr h2 =>
        refine ih _ ?_ x h2
        intro r hrm
        simp only [List.mem_flatMap] at hrm
        obtain ⟨r0, hr0, hin⟩ := hrm
        cases hcc : s.optGroup r0 cname with
        | none => simp [hcc] at hin
        | some c =>
          simp only [hcc, List.mem_map] at hin
          obtain ⟨l, hl, rfl⟩ := hin
          have ⟨_, hcr⟩ := h.optGroup hcc
          rw [(hr r0 hr0).2, hc] at hcr
          have hρc : ρ c = .cont k := (Option.some.inj hcr).symm
          have := h.link c l hl
          rw [hρc] at this
          simp only [childRole] at this
          exact ⟨this.1, (Option.some.inj this.2).symm⟩

theorem WT.findSectionById {s : Store} {ρ : ObjId → Role} (h : WT s ρ) {id : String} {x : ObjId}
    (hx : findSectionById s id = some x) : x < s.objs.length ∧ ρ x = .ent .S := by
  unfold St.findSectionById allSections at hx
  refine levelOrder_role h "sections" .S (by simp [childRole]) _ _ ?_ x (List.mem_of_find?_eq_some hx)
  intro r hr
  simp only [List.mem_map] at hr
  obtain ⟨l, hl, rfl⟩ := hr
  have := h.link metadataGrp l hl
  rw [show ρ metadataGrp = .topMeta from h.r1] at this
  simp only [childRole] at this
  exact ⟨this.1, (Option.some.inj this.2).symm⟩

theorem WT.findSourceById {s : Store} {ρ : ObjId → Role} (h : WT s ρ) {b : ObjId} {id : String} {x : ObjId} (hb : ρ b = .ent .B)
    (hx : findSourceById s b id = some x) : x < s.objs.length ∧ ρ x = .ent .O := by
  unfold St.findSourceById allSources at hx
  cases hc : s.optGroup b "sources" with
  | none => simp [hc] at hx
  | some c =>
    simp only [hc] at hx
    have ⟨_, hcr⟩ := h.optGroup hc
    rw [hb] at hcr
    simp only [childRole] at hcr
    have hρc : ρ c = .cont .O := by simpa using hcr.symm
    refine levelOrder_role h "sources" .O (by simp [childRole]) _ _ ?_ x (List.mem_of_find?_eq_some hx)
    intro r hr
    simp only [List.mem_map] at hr
    obtain ⟨l, hl, rfl⟩ := hr
    have := h.link c l hl
    rw [hρc] at this
    simp only [childRole] at this
    exact ⟨this.1, (Option.some.inj this.2).symm⟩

end Nix.St
