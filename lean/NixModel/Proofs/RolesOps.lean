import NixModel.Proofs.RolesLookup
/-
  Every entry point of the store model keeps the schema invariant `WT`, with the roles of the objects it may create given by
  `Op.roleAfter`; the guard `Op.kinded` says that the object arguments have the role the C++ type of the front-end object
  guarantees (a `Block` wraps a block group, …).
-/
namespace Nix.St
open Store

def Role.isEnt : Role → Bool
  | .ent _ => true
  | _ => false

theorem Role.isEnt_iff {r : Role} (h : r.isEnt = true) : ∃ k, r = .ent k := by
  cases r <;> simp [Role.isEnt] at h
  exact ⟨_, rfl⟩

/-- `WT` does not look at the roles of objects that do not exist -/
theorem WT.congr {s : Store} {ρ ρ' : ObjId → Role} (h : WT s ρ) (ha : Agree s ρ ρ') : WT s ρ' := by
  have h3 := h.len
  refine ⟨h.len, ?_, ?_, ?_, ?_, ?_, h.uniq, ?_⟩
  · rw [ha 0 (by unfold ObjId at *; omega)]; exact h.r0
  · rw [ha 1 (by unfold ObjId at *; omega)]; exact h.r1
  · rw [ha 2 (by unfold ObjId at *; omega)]; exact h.r2
  · intro o l hl
    have hlt : o < s.objs.length := by
      cases hx : s.obj? o with
      | none => simp [linksOf, hx] at hl
      | some x => exact obj?_lt hx
    have := h.link o l hl
    rw [ha o hlt, ha l.2 this.1]; exact this
  · intro o ho; rw [ha o ho]; exact h.grp o ho
  · intro o l hl
    have hlt : o < s.objs.length := by
      cases hx : s.obj? o with
      | none => simp [linksOf, hx] at hl
      | some x => exact obj?_lt hx
    rw [ha o hlt, ha l.2 (h.link o l hl).1]; exact h.mono o l hl

theorem WT.initNamed {s : Store} {ρ : ObjId → Role} (h : WT s ρ) (g : ObjId) (id type name created : String) :
    WT (initNamed s g id type name created).1 ρ := by
  unfold St.initNamed
  have a := (h.setAttr g "entity_id" id).setAttr g "created_at" created
  simp only
  split
  · exact a
  · split
    · exact a.setAttr g "type" type
    · exact (a.setAttr g "type" type).setAttr g "name" name

theorem lookup_filter_ne (l : List (String × ObjId)) (n : String) : (l.filter (·.1 != n)).lookup n = none := by
  rw [lookup_none_iff]
  intro a ha
  have := (List.mem_filter.mp ha).2
  simpa using this

/-- replace-link setters: drop the group link of that name, then link the (schema-conform) target -/
theorem WT.replaceLink {s : Store} {ρ : ObjId → Role} (h : WT s ρ) (g : ObjId) (f : String) (t : ObjId)
    (ht : t < s.objs.length) (hr : childRole (ρ g) f = some (ρ t)) (hnp : ρ t ≠ .prop) (hx : contains (ρ g) (ρ t) = false) :
    WT ((s.removeGroup g f).addLink g f t) ρ := by
  have h1 := h.removeGroup g f
  have hlen : (s.removeGroup g f).objs.length = s.objs.length := by
    unfold Store.removeGroup; split <;> simp [Store.unlink, length_modifyObj]
  refine h1.addLink g f t (by rw [hlen]; exact ht) hr ?_ (fun hc => by rw [hx] at hc; cases hc)
  by_cases hh : s.hasGroup g f = true
  · left
    simp only [Store.removeGroup, hh, if_true, child?, linksOf, Store.unlink, obj?_modifyObj, if_true]
    cases s.obj? g with
    | none => simp
    | some ob => simp only [Option.map_some]; exact lookup_filter_ne _ _
  · have hh' : s.hasGroup g f = false := by simpa using hh
    simp only [Store.removeGroup, hh', Bool.false_eq_true, if_false]
    exact h.free_of_not_hasGroup hr hnp hh'

/-- the two-level creation pattern: container on demand under `par`, then the entity group in it -/
theorem create2_wt {s : Store} {ρ : ObjId → Role} (h : WT s ρ) (par : ObjId) (cn n : String) (rc re : Role)
    (hpar : par < s.objs.length) (hrc : childRole (ρ par) cn = some rc) (hrc' : rc ≠ .prop)
    (hre : ∀ m, childRole rc m = some re) (hre' : re ≠ .prop) :
    WT ((s.openGroupCreate par cn).1.openGroupCreate (s.openGroupCreate par cn).2 n).1
      (upd (upd ρ (s.openGroupCreate par cn).2 rc) ((s.openGroupCreate par cn).1.openGroupCreate (s.openGroupCreate par cn).2 n).2 re) ∧
    WT (s.openGroupCreate par cn).1 (upd ρ (s.openGroupCreate par cn).2 rc) ∧
    Agree s ρ (upd (upd ρ (s.openGroupCreate par cn).2 rc) ((s.openGroupCreate par cn).1.openGroupCreate (s.openGroupCreate par cn).2 n).2 re) ∧
    Agree s ρ (upd ρ (s.openGroupCreate par cn).2 rc) := by
  obtain ⟨w1, a1, l1, x1, r1⟩ := h.openGroupCreate par cn rc hpar hrc hrc'
  obtain ⟨w2, a2, l2, x2, r2⟩ := w1.openGroupCreate (s.openGroupCreate par cn).2 n re x1 (by rw [r1]; exact hre n) hre'
  exact ⟨w2, w1, a1.trans a2 l1, a1⟩

-- ---------------------------------------------------------------------------------------------------------
-- the roles after each entry point

def Op.roleAfter (s : Store) (ρ : ObjId → Role) : Op → (ObjId → Role)
  | .createBlock n .. => upd ρ (s.openGroupCreate dataGrp n).2 (.ent .B)
  | .createSection none n .. => upd ρ (s.openGroupCreate metadataGrp n).2 (.ent .S)
  | .createSection (some p) n .. =>
    upd (upd ρ (s.openGroupCreate p "sections").2 (.cont .S)) ((s.openGroupCreate p "sections").1.openGroupCreate (s.openGroupCreate p "sections").2 n).2 (.ent .S)
  | .createSubSource p n .. =>
    upd (upd ρ (s.openGroupCreate p "sources").2 (.cont .O)) ((s.openGroupCreate p "sources").1.openGroupCreate (s.openGroupCreate p "sources").2 n).2 (.ent .O)
  | .createGroup b n .. =>
    upd (upd ρ (s.openGroupCreate b "groups").2 (.cont .G)) ((s.openGroupCreate b "groups").1.openGroupCreate (s.openGroupCreate b "groups").2 n).2 (.ent .G)
  | .createSource b n .. =>
    upd (upd ρ (s.openGroupCreate b "sources").2 (.cont .O)) ((s.openGroupCreate b "sources").1.openGroupCreate (s.openGroupCreate b "sources").2 n).2 (.ent .O)
  | .createDataArray b n .. =>
    upd (upd ρ (s.openGroupCreate b "data_arrays").2 (.cont .A)) ((s.openGroupCreate b "data_arrays").1.openGroupCreate (s.openGroupCreate b "data_arrays").2 n).2 (.ent .A)
  | .createDataFrame b n .. =>
    upd (upd ρ (s.openGroupCreate b "data_frames").2 (.cont .D)) ((s.openGroupCreate b "data_frames").1.openGroupCreate (s.openGroupCreate b "data_frames").2 n).2 (.ent .D)
  | .createTag b n .. =>
    upd (upd ρ (s.openGroupCreate b "tags").2 (.cont .T)) ((s.openGroupCreate b "tags").1.openGroupCreate (s.openGroupCreate b "tags").2 n).2 (.ent .T)
  | .createMultiTag b n .. =>
    upd (upd ρ (s.openGroupCreate b "multi_tags").2 (.cont .M)) ((s.openGroupCreate b "multi_tags").1.openGroupCreate (s.openGroupCreate b "multi_tags").2 n).2 (.ent .M)
  | .createProperty sec .. => upd (upd ρ (s.openGroupCreate sec "properties").2 .pcont) (s.openGroupCreate sec "properties").1.objs.length .prop
  | .createFeature tag _ i .. =>
    upd (upd ρ (s.openGroupCreate tag "features").2 (.cont .F)) ((s.openGroupCreate tag "features").1.openGroupCreate (s.openGroupCreate tag "features").2 i).2 (.ent .F)
  | .addReference tag .. => upd ρ (s.openGroupCreate tag "references").2 (.lcont .A)
  | .addSource holder _ id => if id.isEmpty then ρ else upd ρ (s.openGroupCreate holder "sources").2 (.lcont .O)
  | .addMember grp _ k .. => upd ρ (s.openGroupCreate grp (groupContainer k)).2 (.lcont (gKind k))
  | _ => ρ

/-- the object arguments have the role their C++ front-end type guarantees -/
def Op.kinded (s : Store) (ρ : ObjId → Role) : Op → Prop
  | .createSection p .. => ∀ x, p = some x → x < s.objs.length ∧ ρ x = .ent .S
  | .createSubSource p .. => p < s.objs.length ∧ ρ p = .ent .O
  | .createGroup b .. => b < s.objs.length ∧ ρ b = .ent .B
  | .createSource b .. => b < s.objs.length ∧ ρ b = .ent .B
  | .createDataArray b .. => b < s.objs.length ∧ ρ b = .ent .B
  | .createDataFrame b .. => b < s.objs.length ∧ ρ b = .ent .B
  | .createTag b .. => b < s.objs.length ∧ ρ b = .ent .B
  | .createMultiTag b .. => b < s.objs.length ∧ ρ b = .ent .B
  | .createProperty sec .. => sec < s.objs.length ∧ ρ sec = .ent .S
  | .createFeature tag b .. => tag < s.objs.length ∧ (ρ tag = .ent .T ∨ ρ tag = .ent .M) ∧ b < s.objs.length ∧ ρ b = .ent .B
  | .setSectionLink holder f _ => (ρ holder).isEnt = true ∧ childRole (ρ holder) f = some (.ent .S)
  | .setArrayLink holder b f _ => (ρ holder).isEnt = true ∧ childRole (ρ holder) f = some (.ent .A) ∧ ρ b = .ent .B
  | .setExtents mt b _ => (ρ mt).isEnt = true ∧ childRole (ρ mt) "extents" = some (.ent .A) ∧ ρ b = .ent .B
  | .addReference tag b _ => tag < s.objs.length ∧ childRole (ρ tag) "references" = some (.lcont .A) ∧ b < s.objs.length ∧ ρ b = .ent .B
  | .addSource holder b _ => holder < s.objs.length ∧ childRole (ρ holder) "sources" = some (.lcont .O) ∧ b < s.objs.length ∧ ρ b = .ent .B
  | .addMember grp b k .. => grp < s.objs.length ∧ ρ grp = .ent .G ∧ b < s.objs.length ∧ ρ b = .ent .B ∧ bKind k = gKind k
  | _ => True

end Nix.St
