import NixModel.Search
import NixModel.Spec.C20
/-
  Helper lemmas for C20: the queue search with depth counters lists the level order; level order vs. all nodes.
-/
set_option autoImplicit false
namespace Nix.C20
open Nix.Search Nix.Search.Tree

variable {α : Type}

theorem flatMap_congr' {β γ : Type} {l : List β} {g h : β → List γ} (H : ∀ x ∈ l, g x = h x) : l.flatMap g = l.flatMap h := by
  induction l with
  | nil => rfl
  | cons x xs ih =>
    rw [List.flatMap_cons, List.flatMap_cons, H x (List.mem_cons_self), ih fun y hy => H y (List.mem_cons_of_mem _ hy)]

/-! ### the queue loop -/

theorem bfsQ_nil (f : Tree α → Bool) (maxd : Nat) : bfsQ f maxd [] = [] := by simp [bfsQ]

theorem bfsQ_cons (f : Tree α → Bool) (maxd : Nat) (t : Tree α) (d : Nat) (q : List (Tree α × Nat)) :
    bfsQ f maxd ((t, d) :: q)
      = (if f t then [t] else []) ++ bfsQ f maxd (q ++ (if d < maxd then t.children.map (·, d + 1) else [])) := by
  rw [bfsQ]
  by_cases h : f t <;> simp [h]

/-- Lemma A: consuming the rest of generation `d` appends its children behind what is already queued of generation `d+1` -/
theorem bfsQ_level (f : Tree α → Bool) (maxd d : Nat) (cur nxt : List (Tree α)) :
    bfsQ f maxd (tag d cur ++ tag (d + 1) nxt)
      = cur.filter f ++ bfsQ f maxd (tag (d + 1) (nxt ++ (if d < maxd then cur.flatMap children else []))) := by
  induction cur generalizing nxt with
  | nil => simp [tag]
  | cons t ts ih =>
    simp only [tag, List.map_cons, List.cons_append, bfsQ_cons]
    by_cases h : d < maxd
    · simp only [h, if_true]
      have := ih (nxt ++ t.children)
      simp only [tag, h, if_true, List.map_append, List.append_assoc] at this
      simp only [List.append_assoc, List.flatMap_cons, List.map_append]
      rw [this]
      by_cases hf : f t <;> simp [hf]
    · simp only [h, if_false, List.append_nil]
      have := ih nxt
      simp only [tag, h, if_false, List.append_nil] at this
      rw [this]
      by_cases hf : f t <;> simp [hf]

theorem levels_nil (n : Nat) : levels n ([] : List (Tree α)) = [] := by
  induction n with
  | zero => rfl
  | succ n ih => simp [levels, ih]

/-- Lemma B: a queue holding exactly generation `d` yields the level order of the remaining generations -/
theorem bfsQ_eq_levels (f : Tree α → Bool) (maxd : Nat) (k : Nat) : ∀ (d : Nat) (ts : List (Tree α)), d + k = maxd →
    bfsQ f maxd (tag d ts) = (levels (k + 1) ts).filter f := by
  induction k with
  | zero =>
    intro d ts hd
    have h : ¬ d < maxd := by omega
    have := bfsQ_level f maxd d ts []
    simp only [tag, List.map_nil, List.append_nil, h, if_false, bfsQ_nil] at this
    simp [levels, tag, this]
  | succ k ih =>
    intro d ts hd
    have h : d < maxd := by omega
    have := bfsQ_level f maxd d ts []
    simp only [tag, List.map_nil, List.append_nil, h, if_true, List.nil_append] at this
    have ih' := ih (d + 1) (ts.flatMap children) (by omega)
    simp only [tag] at ih'
    simp only [tag, this, ih']
    simp [levels]

/-! ### generations -/

theorem level_nil (k : Nat) : level k ([] : List (Tree α)) = [] := by
  induction k with
  | zero => rfl
  | succ k ih => simp [level, ih]

theorem level_succ_right (k : Nat) (ts : List (Tree α)) : level (k + 1) ts = (level k ts).flatMap children := by
  induction k generalizing ts with
  | zero => rfl
  | succ k ih => rw [level, ih]; rfl

theorem levels_succ_right (n : Nat) (ts : List (Tree α)) : levels (n + 1) ts = levels n ts ++ level n ts := by
  induction n generalizing ts with
  | zero => simp [levels, level]
  | succ n ih =>
    rw [levels, ih]
    simp [levels, level]

theorem levels_one (ts : List (Tree α)) : levels 1 ts = ts := by simp [levels]

/-! ### all nodes -/

theorem nodes_eq (t : Tree α) : nodes t = t :: nodesL t.children := by cases t; simp [nodes, children]

theorem nodesL_cons (t : Tree α) (ts : List (Tree α)) : nodesL (t :: ts) = t :: (nodesL t.children ++ nodesL ts) := by
  simp [nodesL, nodes_eq]

theorem nodesL_append (a b : List (Tree α)) : nodesL (a ++ b) = nodesL a ++ nodesL b := by
  induction a with
  | nil => simp [nodesL]
  | cons t ts ih => simp [nodesL, ih]

theorem mem_nodesL_self {t : Tree α} {ts : List (Tree α)} (h : t ∈ ts) : t ∈ nodesL ts := by
  induction ts with
  | nil => cases h
  | cons x xs ih =>
    rw [nodesL_cons]
    cases h with
    | head => simp
    | tail _ h' => simp [ih h']

/-- all nodes = the roots plus all nodes of the forest of their children (as multisets) -/
theorem nodesL_perm_step (ts : List (Tree α)) : (nodesL ts).Perm (ts ++ nodesL (ts.flatMap children)) := by
  induction ts with
  | nil => simp [nodesL]
  | cons t ts ih =>
    rw [nodesL_cons, List.flatMap_cons, nodesL_append]
    simp only [List.cons_append]
    refine List.Perm.cons _ ?_
    -- A ++ N ts ~ ts ++ (A ++ N')
    have h1 : (nodesL t.children ++ nodesL ts).Perm (nodesL t.children ++ (ts ++ nodesL (ts.flatMap children))) :=
      List.Perm.append_left _ ih
    refine h1.trans ?_
    rw [← List.append_assoc, ← List.append_assoc]
    exact List.Perm.append_right _ List.perm_append_comm

/-- the first `n` generations and everything below generation `n` make up all nodes -/
theorem levels_level_perm (n : Nat) (ts : List (Tree α)) :
    (levels n ts ++ nodesL (level n ts)).Perm (nodesL ts) := by
  induction n generalizing ts with
  | zero => simp [levels, level]
  | succ n ih =>
    rw [levels, level, List.append_assoc]
    exact (List.Perm.append_left ts (ih (ts.flatMap children))).trans (nodesL_perm_step ts).symm

theorem mem_levels {n : Nat} {ts : List (Tree α)} {x : Tree α} (h : x ∈ levels n ts) : x ∈ nodesL ts :=
  (levels_level_perm n ts).mem_iff.1 (List.mem_append_left _ h)

/-! ### height -/

theorem height_pos (t : Tree α) : 1 ≤ height t := by cases t; simp [height]

theorem height_eq (t : Tree α) : height t = 1 + heightL t.children := by cases t; simp [height, children]

theorem heightL_append (a b : List (Tree α)) : heightL (a ++ b) = max (heightL a) (heightL b) := by
  induction a with
  | nil => simp [heightL]
  | cons t ts ih => simp [heightL, ih, Nat.max_assoc]

theorem heightL_eq_zero {ts : List (Tree α)} (h : heightL ts = 0) : ts = [] := by
  cases ts with
  | nil => rfl
  | cons t ts => have := height_pos t; simp [heightL] at h; omega

theorem heightL_children (ts : List (Tree α)) : heightL (ts.flatMap children) = heightL ts - 1 := by
  induction ts with
  | nil => simp [heightL]
  | cons t ts ih =>
    rw [List.flatMap_cons, heightL_append, ih]
    simp only [heightL, height_eq]
    omega

theorem level_eq_nil_of_height {n : Nat} {ts : List (Tree α)} (h : heightL ts ≤ n) : level n ts = [] := by
  induction n generalizing ts with
  | zero => rw [heightL_eq_zero (by omega : heightL ts = 0)]; rfl
  | succ n ih =>
    rw [level]
    apply ih
    rw [heightL_children]; omega

/-- with at least as many generations as the forest is high, the level order lists every node (each once) -/
theorem levels_perm_nodes {n : Nat} {ts : List (Tree α)} (h : heightL ts ≤ n) : (levels n ts).Perm (nodesL ts) := by
  have := levels_level_perm n ts
  rw [level_eq_nil_of_height h] at this
  simpa [nodesL] using this

/-! ### level order of a concatenated forest -/

theorem levels_append_perm (n : Nat) (a b : List (Tree α)) : (levels n (a ++ b)).Perm (levels n a ++ levels n b) := by
  induction n generalizing a b with
  | zero => simp [levels]
  | succ n ih =>
    simp only [levels, List.flatMap_append]
    have h := ih (a.flatMap children) (b.flatMap children)
    -- a ++ b ++ L(a'++b') ~ a ++ La' ++ (b ++ Lb')
    refine (List.Perm.append_left (a ++ b) h).trans ?_
    simp only [List.append_assoc]
    refine List.Perm.append_left a ?_
    rw [← List.append_assoc, ← List.append_assoc]
    exact List.Perm.append_right _ List.perm_append_comm

/-- searching root by root visits the same nodes as searching the whole forest level by level -/
theorem levels_perRoot_perm (n : Nat) (roots : List (Tree α)) :
    (roots.flatMap fun r => levels n [r]).Perm (levels n roots) := by
  induction roots with
  | nil => simp [levels_nil]
  | cons r rs ih =>
    rw [List.flatMap_cons]
    have : r :: rs = [r] ++ rs := rfl
    rw [this]
    exact (List.Perm.append_left _ ih).trans (levels_append_perm n [r] rs).symm

/-- generations beyond the height are empty: a larger depth limit lists nothing more -/
theorem levels_beyond_height {d d' : Nat} {ts : List (Tree α)} (h : heightL ts ≤ d) (h' : d ≤ d') :
    levels d' ts = levels d ts := by
  obtain ⟨k, rfl⟩ : ∃ k, d' = d + k := ⟨d' - d, by omega⟩
  clear h'
  induction k with
  | zero => rfl
  | succ k ih =>
    rw [← Nat.add_assoc, levels_succ_right, level_eq_nil_of_height (by omega : heightL ts ≤ d + k)]
    simpa using ih

theorem height_le_heightL {r : Tree α} {roots : List (Tree α)} (h : r ∈ roots) : height r ≤ heightL roots := by
  induction roots with
  | nil => cases h
  | cons x xs ih =>
    simp only [heightL]
    cases h with
    | head => omega
    | tail _ h' => have := ih h'; omega

end Nix.C20
