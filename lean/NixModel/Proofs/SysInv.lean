import NixModel.Step
import NixModel.Proofs.StoreBasics
/-
  The system invariant of a nix file in the store model: the root object (index 0) is a group that holds exactly the two links
  `metadata → 1`, `data → 2` and the creation time, 1 and 2 are groups, and no link other than the root's two reaches the objects
  0, 1, 2 — every entity object (everything a handle of the API can refer to) has an index ≥ 3.

  `Sys` holds for a new file and is preserved by every primitive whose target is not the root and whose link targets are entity
  objects.  `NixModel/Proofs/SysOps.lean` lifts this to every entry point of the store model (`Op.apply`), `Props/C02.lean` uses it
  to free the reopen theorems from their hypothesis: they hold after EVERY history.
-/
namespace Nix.St
open Store

structure Sys (s : Store) : Prop where
  len : 3 ≤ s.objs.length
  root : ∃ ob, s.obj? 0 = some ob ∧ ob.isGroup = true ∧ ob.links = [("metadata", metadataGrp), ("data", dataGrp)] ∧
    (ob.attrs.lookup "created_at").isSome = true
  g1 : s.isGroupObj 1 = true
  g2 : s.isGroupObj 2 = true
  low : ∀ o, o ≠ 0 → ∀ l ∈ s.linksOf o, 3 ≤ l.2

theorem newFile_sys (id created format version : String) : Sys (newFile id created format version) := by
  refine ⟨by simp [newFile], ⟨_, rfl, rfl, rfl, by simp [List.lookup]⟩, by simp [newFile, isGroupObj, obj?],
    by simp [newFile, isGroupObj, obj?], ?_⟩
  intro o ho l hl
  simp only [newFile, linksOf, obj?] at hl
  match o, ho with
  | 1, _ => simp at hl
  | 2, _ => simp at hl
  | (n + 3), _ => simp at hl

/-- the frame rule: a store whose root is the old root, which is not shorter, keeps groups groups and keeps links high, is `Sys` -/
theorem Sys.of_frame {s s' : Store} (h : Sys s) (h0 : s'.obj? 0 = s.obj? 0) (hlen : s.objs.length ≤ s'.objs.length)
    (hg : ∀ o, s.isGroupObj o = true → s'.isGroupObj o = true)
    (hlow : ∀ o, o ≠ 0 → ∀ l ∈ s'.linksOf o, 3 ≤ l.2) : Sys s' :=
  ⟨Nat.le_trans h.len hlen, by rw [h0]; exact h.root, hg 1 h.g1, hg 2 h.g2, hlow⟩

theorem Sys.modifyObj {s : Store} (h : Sys s) (g : ObjId) (f : Obj → Obj) (hg : g ≠ 0)
    (hf : ∀ ob, (f ob).isGroup = ob.isGroup)
    (hl : ∀ ob, (∀ l ∈ ob.links, 3 ≤ l.2) → ∀ l ∈ (f ob).links, 3 ≤ l.2) : Sys (s.modifyObj g f) := by
  refine h.of_frame ?_ (by simp [length_modifyObj]) ?_ ?_
  · simp [obj?_modifyObj, hg]
  · intro o ho
    simp only [isGroupObj, obj?_modifyObj] at ho ⊢
    by_cases hgo : g = o
    · simp only [hgo, if_true]
      cases hob : s.obj? o with
      | none => simp [hob] at ho
      | some ob => simp [hob, hf] at ho ⊢; exact ho
    · simp only [hgo, if_false]; exact ho
  · intro o ho l hlm
    simp only [linksOf, obj?_modifyObj] at hlm
    by_cases hgo : g = o
    · simp only [hgo, if_true] at hlm
      cases hob : s.obj? o with
      | none => simp [hob] at hlm
      | some ob =>
        simp only [hob, Option.map_some] at hlm
        refine hl ob ?_ l hlm
        intro l' hl'
        exact h.low o ho l' (by simp [linksOf, hob, hl'])
    · simp only [hgo, if_false] at hlm
      exact h.low o ho l hlm

theorem Sys.setAttr {s : Store} (h : Sys s) (o : ObjId) (k v : String) (ho : o ≠ 0) : Sys (s.setAttr o k v) :=
  h.modifyObj o _ ho (fun _ => rfl) (fun _ hx => hx)

theorem Sys.removeAttr {s : Store} (h : Sys s) (o : ObjId) (k : String) (ho : o ≠ 0) : Sys (s.removeAttr o k) :=
  h.modifyObj o _ ho (fun _ => rfl) (fun _ hx => hx)

theorem Sys.addLink {s : Store} (h : Sys s) (g : ObjId) (n : String) (t : ObjId) (hg : g ≠ 0) (ht : 3 ≤ t) : Sys (s.addLink g n t) :=
  h.modifyObj g _ hg (fun _ => rfl) (fun _ hx l hl => by
    simp only [List.mem_append, List.mem_singleton] at hl
    cases hl with
    | inl h' => exact hx l h'
    | inr h' => subst h'; exact ht)

theorem Sys.unlink {s : Store} (h : Sys s) (g : ObjId) (n : String) (hg : g ≠ 0) : Sys (s.unlink g n) :=
  h.modifyObj g _ hg (fun _ => rfl) (fun ob hx l hl => hx l (List.mem_filter.mp hl).1)

theorem Sys.removeGroup {s : Store} (h : Sys s) (g : ObjId) (n : String) (hg : g ≠ 0) : Sys (s.removeGroup g n) := by
  unfold Store.removeGroup; split
  · exact h.unlink g n hg
  · exact h

theorem Sys.removeData {s : Store} (h : Sys s) (g : ObjId) (n : String) (hg : g ≠ 0) : Sys (s.removeData g n) := by
  unfold Store.removeData; split
  · exact h.unlink g n hg
  · exact h

theorem Sys.alloc {s : Store} (h : Sys s) (ob : Obj) (hob : ob.links = []) : Sys (s.alloc ob).1 ∧ 3 ≤ (s.alloc ob).2 := by
  refine ⟨h.of_frame ?_ (by simp [length_alloc]) ?_ ?_, h.len⟩
  · exact obj?_alloc_old s ob 0 (Nat.lt_of_lt_of_le (by decide) h.len)
  · intro o ho
    have hlt : o < s.objs.length := by
      simp only [isGroupObj] at ho
      cases hx : s.obj? o with
      | none => simp [hx] at ho
      | some x => exact obj?_lt hx
    simp only [isGroupObj, obj?_alloc_old s ob o hlt] at ho ⊢; exact ho
  · intro o ho l hl
    by_cases hlt : o < s.objs.length
    · simp only [linksOf, obj?_alloc_old s ob o hlt] at hl
      exact h.low o ho l hl
    · have : o = (s.alloc ob).2 ∨ (s.alloc ob).1.objs.length ≤ o := by
        simp only [alloc_snd, length_alloc]
        rcases Nat.lt_or_ge o (s.objs.length + 1) with h1 | h1
        · exact .inl (Nat.le_antisymm (Nat.le_of_lt_succ h1) (Nat.le_of_not_lt hlt))
        · exact .inr h1
      cases this with
      | inl he => rw [he] at hl; simp [linksOf, obj?_alloc_new, hob] at hl
      | inr hge => simp [linksOf, obj?_none_of_ge hge] at hl

theorem Sys.removeAllLinksTo {s : Store} (h : Sys s) (t : ObjId) (ht : 3 ≤ t) : Sys (s.removeAllLinksTo t) := by
  have hobj : ∀ o, (s.removeAllLinksTo t).obj? o = (s.obj? o).map fun ob => { ob with links := ob.links.filter (·.2 != t) } := by
    intro o; simp [Store.removeAllLinksTo, obj?]
  refine h.of_frame ?_ (by simp [Store.removeAllLinksTo]) ?_ ?_
  · obtain ⟨ob, h0, _, hl, _⟩ := h.root
    rw [hobj, h0]
    simp only [Option.map_some, Option.some.injEq]
    have : ob.links.filter (·.2 != t) = ob.links := by
      rw [hl]; simp [metadataGrp, dataGrp]; unfold ObjId at *; omega
    rw [this]
  · intro o ho
    simp only [isGroupObj, hobj] at ho ⊢
    cases hx : s.obj? o with
    | none => simp [hx] at ho
    | some x => simp [hx] at ho ⊢; exact ho
  · intro o ho l hl
    simp only [linksOf, hobj] at hl
    cases hx : s.obj? o with
    | none => simp [hx] at hl
    | some x =>
      simp only [hx, Option.map_some] at hl
      exact h.low o ho l (by simp [linksOf, hx, (List.mem_filter.mp hl).1])

theorem mem_of_lookup {l : List (String × ObjId)} {n : String} {x : ObjId} (h : l.lookup n = some x) : (n, x) ∈ l := by
  induction l with
  | nil => simp at h
  | cons a l ih =>
    simp only [List.lookup] at h
    split at h
    · rename_i heq; simp at h; subst h; simp at heq; subst heq; simp
    · exact List.mem_cons_of_mem _ (ih h)

/-- a child of a non-root object is an entity object -/
theorem Sys.child_low {s : Store} (h : Sys s) {g : ObjId} {n : String} {x : ObjId} (hg : g ≠ 0) (hc : s.child? g n = some x) : 3 ≤ x :=
  h.low g hg (n, x) (mem_of_lookup hc)

end Nix.St
