import NixModel.Proofs.RolesHistory
/-
  The recursive delete of sections / sources (`deleteNested`) is written with a fuel argument; the C++ recursion has none.
  In every state that satisfies the schema the containment links form a forest in which a child is younger than its parent
  (`WT.mono`), so the recursion below a container `c` is at most `number of objects - c` deep: with at least that much fuel the
  result does not depend on the fuel (`deleteNested_fuel_indep`) — the model's fuel `fuelOf s` = number of objects + 1 is always
  enough (`deleteSection_fuel_adequate` …), i.e. the recursion of the C++ terminates on every reachable file and the model follows
  it to the end.
-/
namespace Nix.St
open Store

theorem length_removeAllLinks (s : Store) (g : ObjId) (n : String) : (s.removeAllLinks g n).1.objs.length = s.objs.length := by
  unfold Store.removeAllLinks
  split
  · cases s.child? g n with
    | none => rfl
    | some t => simp [Store.removeAllLinksTo]
  · rfl

theorem foldl_length {α : Type} (f : Store → α → Store) (hf : ∀ s a, (f s a).objs.length = s.objs.length) (l : List α) (s : Store) :
    (l.foldl f s).objs.length = s.objs.length := by
  induction l generalizing s with
  | nil => rfl
  | cons a l ih => simp only [List.foldl_cons]; rw [ih, hf]

theorem deleteNested_length (cname : String) (fuel : Nat) : ∀ (s : Store) (c : ObjId) (key : String),
    (deleteNested cname fuel s c key).1.objs.length = s.objs.length := by
  induction fuel with
  | zero => intro s c key; rfl
  | succ fuel ih =>
    intro s c key
    unfold deleteNested
    cases s.findGroupByNameOrAttribute c "entity_id" key with
    | none => rfl
    | some v =>
      simp only
      rw [length_removeAllLinks]
      unfold afterKids
      cases s.optGroup v cname with
      | none => rfl
      | some vc => simp only; exact foldl_length _ (fun s' kid => ih s' vc kid) _ _

theorem findGroup_mem {s : Store} {c : ObjId} {a key : String} {v : ObjId} (h : s.findGroupByNameOrAttribute c a key = some v) :
    ∃ l ∈ s.linksOf c, l.2 = v := by
  unfold Store.findGroupByNameOrAttribute at h
  split at h
  · exact ⟨(key, v), mem_of_lookup h, rfl⟩
  · split at h
    · unfold Store.findGroupByAttribute at h
      cases hf : (s.linksOf c).find? (fun l => s.isGroupObj l.2 && s.attr? l.2 a == some key) with
      | none => simp [hf] at h
      | some l => simp [hf] at h; exact ⟨l, List.mem_of_find?_eq_some hf, h⟩
    · simp at h

theorem optGroup_mem {s : Store} {g : ObjId} {n : String} {x : ObjId} (h : s.optGroup g n = some x) : (n, x) ∈ s.linksOf g := by
  unfold Store.optGroup at h
  split at h
  · exact mem_of_lookup h
  · simp at h

/-- a holder all of whose children are entities of kind k, created in it -/
def EntHolder (r : Role) (k : Kind) : Prop := r = .cont k ∨ (r = .topMeta ∧ k = .S) ∨ (r = .topData ∧ k = .B)

theorem EntHolder.child {r : Role} {k : Kind} (h : EntHolder r k) (n : String) : childRole r n = some (.ent k) := by
  rcases h with h | ⟨h, hk⟩ | ⟨h, hk⟩ <;> subst h <;> (try subst hk) <;> rfl

theorem EntHolder.contains {r : Role} {k : Kind} (h : EntHolder r k) : contains r (.ent k) = true := by
  rcases h with h | ⟨h, _⟩ | ⟨h, _⟩ <;> subst h <;> rfl

theorem foldl_congr_inv {α : Type} (P : Store → Prop) (f g : Store → α → Store) (hP : ∀ s a, P s → P (f s a))
    (hfg : ∀ s a, P s → f s a = g s a) (l : List α) (s : Store) (hs : P s) : l.foldl f s = l.foldl g s := by
  induction l generalizing s with
  | nil => rfl
  | cons a l ih =>
    simp only [List.foldl_cons]
    rw [← hfg s a hs]
    exact ih (f s a) (hP s a hs)

/-- with at least `number of objects - c` fuel the recursive delete below the container `c` does not depend on the fuel -/
theorem deleteNested_fuel_indep {ρ : ObjId → Role} (cname : String) (k : Kind) (hck : childRole (.ent k) cname = some (.cont k)) :
    ∀ (f1 f2 : Nat) (s : Store), WT s ρ → ∀ (c : ObjId) (key : String), EntHolder (ρ c) k → c < s.objs.length →
      s.objs.length - c ≤ f1 → s.objs.length - c ≤ f2 → deleteNested cname f1 s c key = deleteNested cname f2 s c key := by
  intro f1
  induction f1 with
  | zero => intro f2 s _ c key _ hc h1 _; exfalso; unfold ObjId at *; omega
  | succ f1 ih =>
    intro f2 s h c key hE hc h1 h2
    cases f2 with
    | zero => exfalso; unfold ObjId at *; omega
    | succ f2 =>
      unfold deleteNested
      cases hf : s.findGroupByNameOrAttribute c "entity_id" key with
      | none => rfl
      | some v =>
        simp only
        -- the victim is a child of c: an entity of kind k, younger than c
        obtain ⟨l, hl, hlv⟩ := findGroup_mem hf
        have hlink := h.link c l hl
        rw [hE.child l.1] at hlink
        have hρv : ρ v = .ent k := by rw [← hlv]; exact (Option.some.inj hlink.2).symm
        have hcv : c < v := by
          rw [← hlv]; exact h.mono c l hl (by rw [show ρ l.2 = .ent k from by rw [hlv]; exact hρv]; exact hE.contains)
        have hkids : afterKids (deleteNested cname f1) s v cname = afterKids (deleteNested cname f2) s v cname := by
          unfold afterKids
          cases hvc : s.optGroup v cname with
          | none => rfl
          | some vc =>
            simp only
            have hm := optGroup_mem hvc
            have hlk := h.link v (cname, vc) hm
            rw [hρv, hck] at hlk
            have hρvc : ρ vc = .cont k := (Option.some.inj hlk.2).symm
            have hvvc : v < vc := h.mono v (cname, vc) hm (by rw [hρvc]; rfl)
            refine foldl_congr_inv (fun s' => WT s' ρ ∧ s'.objs.length = s.objs.length) _ _ ?_ ?_ _ s ⟨h, rfl⟩
            · intro s' kid hs'
              exact ⟨deleteNested_wt cname f1 hs'.1 vc kid, by rw [deleteNested_length, hs'.2]⟩
            · intro s' kid hs'
              have hlen := hs'.2
              have e := ih f2 s' hs'.1 vc kid (.inl hρvc) (by rw [hlen]; exact hlk.1)
                (by rw [hlen]; unfold ObjId at *; omega) (by rw [hlen]; unfold ObjId at *; omega)
              rw [e]
        rw [hkids]

/-- the fuel the model gives the recursion, `fuelOf s` = number of objects + 1, is enough in every state that satisfies the schema:
    any larger amount gives the same result -/
theorem deleteSection_fuel_adequate {s : Store} {ρ : ObjId → Role} (h : WT s ρ) (p : Option ObjId) (key : String)
    (hp : ∀ x, p = some x → ρ x = .ent .S) (extra : Nat) :
    deleteSection s p key =
      (match p with
       | none => deleteNested "sections" (fuelOf s + extra) s metadataGrp key
       | some p => match s.optGroup p "sections" with
         | some c => deleteNested "sections" (fuelOf s + extra) s c key
         | none => (s, false)) := by
  have hck : childRole (.ent .S) "sections" = some (.cont .S) := rfl
  unfold deleteSection
  cases p with
  | none =>
    simp only
    exact deleteNested_fuel_indep "sections" .S hck _ _ s h metadataGrp key (.inr (.inl ⟨h.r1, rfl⟩))
      (Nat.lt_of_lt_of_le (by decide) h.len) (by unfold fuelOf metadataGrp; omega) (by unfold fuelOf metadataGrp; omega)
  | some p =>
    simp only
    cases hc : s.optGroup p "sections" with
    | none => rfl
    | some c =>
      simp only
      have hlk := h.link p ("sections", c) (optGroup_mem hc)
      rw [hp p rfl] at hlk
      have hρc : ρ c = .cont .S := (Option.some.inj hlk.2).symm
      exact deleteNested_fuel_indep "sections" .S hck _ _ s h c key (.inl hρc) hlk.1
        (by unfold fuelOf; unfold ObjId at *; omega) (by unfold fuelOf; unfold ObjId at *; omega)

theorem deleteSubSource_fuel_adequate {s : Store} {ρ : ObjId → Role} (h : WT s ρ) (p : ObjId) (key : String)
    (hp : ρ p = .ent .O) (extra : Nat) :
    deleteSubSource s p key =
      (match s.optGroup p "sources" with
       | some c => deleteNested "sources" (fuelOf s + extra) s c key
       | none => (s, false)) := by
  have hck : childRole (.ent .O) "sources" = some (.cont .O) := rfl
  unfold deleteSubSource
  cases hc : s.optGroup p "sources" with
  | none => rfl
  | some c =>
    simp only
    have hlk := h.link p ("sources", c) (optGroup_mem hc)
    rw [hp] at hlk
    have hρc : ρ c = .cont .O := (Option.some.inj hlk.2).symm
    exact deleteNested_fuel_indep "sources" .O hck _ _ s h c key (.inl hρc) hlk.1
      (by unfold fuelOf; unfold ObjId at *; omega) (by unfold fuelOf; unfold ObjId at *; omega)

/-- the children loop of a delete whose victim `v` is an entity of kind k: any two sufficient amounts of fuel agree -/
theorem afterKids_fuel_indep {s : Store} {ρ : ObjId → Role} (h : WT s ρ) (cname : String) (k : Kind)
    (hck : childRole (.ent k) cname = some (.cont k)) (v : ObjId) (hρv : ρ v = .ent k) (f1 f2 : Nat)
    (h1 : s.objs.length - v ≤ f1 + 1) (h2 : s.objs.length - v ≤ f2 + 1) :
    afterKids (deleteNested cname f1) s v cname = afterKids (deleteNested cname f2) s v cname := by
  unfold afterKids
  cases hvc : s.optGroup v cname with
  | none => rfl
  | some vc =>
    simp only
    have hm := optGroup_mem hvc
    have hlk := h.link v (cname, vc) hm
    rw [hρv, hck] at hlk
    have hρvc : ρ vc = .cont k := (Option.some.inj hlk.2).symm
    have hvvc : v < vc := h.mono v (cname, vc) hm (by rw [hρvc]; rfl)
    refine foldl_congr_inv (fun s' => WT s' ρ ∧ s'.objs.length = s.objs.length) _ _ ?_ ?_ _ s ⟨h, rfl⟩
    · intro s' kid hs'
      exact ⟨deleteNested_wt cname f1 hs'.1 vc kid, by rw [deleteNested_length, hs'.2]⟩
    · intro s' kid hs'
      have hlen := hs'.2
      rw [deleteNested_fuel_indep cname k hck f1 f2 s' hs'.1 vc kid (.inl hρvc) (by rw [hlen]; exact hlk.1)
        (by rw [hlen]; unfold ObjId at *; omega) (by rw [hlen]; unfold ObjId at *; omega)]

theorem deleteBlockSource_fuel_adequate {s : Store} {ρ : ObjId → Role} (h : WT s ρ) (b : ObjId) (key : String)
    (hb : ρ b = .ent .B) (extra : Nat) :
    deleteBlockSource s b key =
      (match s.optGroup b "sources" with
       | none => (s, false)
       | some c =>
         match blkFindKey s b "O" key with
         | none => (s, false)
         | some v => (afterKids (deleteNested "sources" (fuelOf s + extra)) s v "sources").removeAllLinks c (nameOf s v)) := by
  unfold deleteBlockSource
  cases hc : s.optGroup b "sources" with
  | none => rfl
  | some c =>
    simp only
    cases hf : blkFindKey s b "O" key with
    | none => rfl
    | some v =>
      simp only
      have ⟨_, hρv⟩ := h.blkFindKey hb hf
      have hρv' : ρ v = .ent .O := by rw [hρv]; decide
      rw [afterKids_fuel_indep h "sources" .O rfl v hρv' (fuelOf s) (fuelOf s + extra)
        (by unfold fuelOf; unfold ObjId at *; omega) (by unfold fuelOf; unfold ObjId at *; omega)]

end Nix.St
