import NixModel.Proofs.SysOps
/-
  Every entry point of the store model preserves `Sys`, and so does every history (`run_sys`).
-/
namespace Nix.St
open Store

/-- the tail shared by all creators: NamedEntity constructor on the new group, then hand the group back -/
theorem sys_after_init {s : Store} (h : Sys s) (g : ObjId) (id type name created : String) (hg : 3 ≤ g)
    (r : Res Unit) (hr : initNamed s g id type name created = r) :
    Sys r.1 := hr ▸ h.initNamed g id type name created (ne0_of_low hg)

theorem createBlock_sys {s : Store} (h : Sys s) (n t i c : String) :
    Sys (createBlock s n t i c).1 ∧ ∀ g, (createBlock s n t i c).2 = .ok g → 3 ≤ g := by
  unfold createBlock
  cases hc : checkNameAndType n t with
  | error e' => exact ⟨h, by simp⟩
  | ok u =>
    simp only
    split
    · exact ⟨h, by simp⟩
    · have h1 := h.openGroupCreate dataGrp n (by decide)
      generalize hr : initNamed (s.openGroupCreate dataGrp n).1 (s.openGroupCreate dataGrp n).2 i t n c = r
      have hs := sys_after_init h1.1 _ i t n c h1.2 r hr
      obtain ⟨s1, x⟩ := r
      cases x with
      | error e => exact ⟨hs, by simp⟩
      | ok u => exact ⟨hs, by intro g hg; simp at hg; subst hg; exact h1.2⟩

theorem createSectionIn_sys {s : Store} (h : Sys s) (p : Option ObjId) (n t i c : String) (hp : ∀ x, p = some x → 3 ≤ x) :
    Sys (createSectionIn s p n t i c).1 ∧ ∀ g, (createSectionIn s p n t i c).2 = .ok g → 3 ≤ g := by
  cases p with
  | none =>
    unfold createSectionIn
    cases hc : checkNameAndType n t with
    | error e' => exact ⟨h, by simp⟩
    | ok u =>
      simp only
      have h1 := h.openGroupCreate metadataGrp n (by decide)
      generalize hr : initNamed (s.openGroupCreate metadataGrp n).1 (s.openGroupCreate metadataGrp n).2 i t n c = r
      have hs := sys_after_init h1.1 _ i t n c h1.2 r hr
      obtain ⟨s1, x⟩ := r
      cases x <;> simp only <;> repeat' split
      all_goals
        refine ⟨by first | exact hs | exact h, ?_⟩
        intro g hg
        simp at hg
        try (subst hg; exact h1.2)
  | some p =>
    unfold createSectionIn
    cases hc : checkNameAndType n t with
    | error e' => exact ⟨h, by simp⟩
    | ok u =>
      simp only
      have h0 := h.openGroupCreate p "sections" (ne0_of_low (hp p rfl))
      have h1 := h0.1.openGroupCreate (s.openGroupCreate p "sections").2 n (ne0_of_low h0.2)
      generalize hr : initNamed ((s.openGroupCreate p "sections").1.openGroupCreate (s.openGroupCreate p "sections").2 n).1
        ((s.openGroupCreate p "sections").1.openGroupCreate (s.openGroupCreate p "sections").2 n).2 i t n c = r
      have hs := sys_after_init h1.1 _ i t n c h1.2 r hr
      obtain ⟨s1, x⟩ := r
      cases x <;> simp only <;> repeat' split
      all_goals
        refine ⟨by first | exact hs | exact h, ?_⟩
        intro g hg
        simp at hg
        try (subst hg; exact h1.2)

/-- the two-level creation pattern: container on demand under `par`, then the entity group, then the constructor -/
theorem create2_sys {s : Store} (h : Sys s) (par : ObjId) (cname n t i c : String) (hpar : 3 ≤ par) (r : Res Unit)
    (hr : initNamed ((s.openGroupCreate par cname).1.openGroupCreate (s.openGroupCreate par cname).2 n).1
      ((s.openGroupCreate par cname).1.openGroupCreate (s.openGroupCreate par cname).2 n).2 i t n c = r) :
    Sys r.1 ∧ 3 ≤ ((s.openGroupCreate par cname).1.openGroupCreate (s.openGroupCreate par cname).2 n).2 := by
  have h0 := h.openGroupCreate par cname (ne0_of_low hpar)
  have h1 := h0.1.openGroupCreate (s.openGroupCreate par cname).2 n (ne0_of_low h0.2)
  exact ⟨sys_after_init h1.1 _ i t n c h1.2 r hr, h1.2⟩

theorem createSourceIn_sys {s : Store} (h : Sys s) (p : ObjId) (n t i c : String) (hp : 3 ≤ p) :
    Sys (createSourceIn s p n t i c).1 ∧ ∀ g, (createSourceIn s p n t i c).2 = .ok g → 3 ≤ g := by
  unfold createSourceIn
  cases hc : checkNameAndType n t with
  | error e' => exact ⟨h, by simp⟩
  | ok u =>
    simp only
    generalize hr : initNamed ((s.openGroupCreate p "sources").1.openGroupCreate (s.openGroupCreate p "sources").2 n).1
      ((s.openGroupCreate p "sources").1.openGroupCreate (s.openGroupCreate p "sources").2 n).2 i t n c = r
    have hs := create2_sys h p "sources" n t i c hp r hr
    obtain ⟨s1, x⟩ := r
    cases x <;> simp only <;> repeat' split
    all_goals
      refine ⟨by first | exact hs.1 | exact h, ?_⟩
      intro g hg
      simp at hg
      try (subst hg; exact hs.2)

theorem createInBlock_sys {s : Store} (h : Sys s) (b : ObjId) (k n t i c : String) (hb : 3 ≤ b) :
    Sys (createInBlock s b k n t i c).1 ∧ ∀ g, (createInBlock s b k n t i c).2 = .ok g → 3 ≤ g := by
  unfold createInBlock
  cases hc : checkNameAndType n t with
  | error e' => exact ⟨h, by simp⟩
  | ok u =>
    simp only
    split
    · exact ⟨h, by simp⟩
    · generalize hr : initNamed ((s.openGroupCreate b (blockContainer k)).1.openGroupCreate (s.openGroupCreate b (blockContainer k)).2 n).1
        ((s.openGroupCreate b (blockContainer k)).1.openGroupCreate (s.openGroupCreate b (blockContainer k)).2 n).2 i t n c = r
      have hs := create2_sys h b (blockContainer k) n t i c hb r hr
      obtain ⟨s1, x⟩ := r
      cases x with
      | error e => exact ⟨hs.1, by simp⟩
      | ok u => exact ⟨hs.1, by intro g hg; simp at hg; subst hg; exact hs.2⟩

theorem createDataArray_sys {s : Store} (h : Sys s) (b : ObjId) (n t i c dt sh : String) (hb : 3 ≤ b) :
    Sys (createDataArray s b n t i c dt sh).1 ∧ ∀ g, (createDataArray s b n t i c dt sh).2 = .ok g → 3 ≤ g := by
  unfold createDataArray
  cases hc : checkNameAndType n t with
  | error e' => exact ⟨h, by simp⟩
  | ok u =>
    simp only
    split
    · exact ⟨h, by simp⟩
    · split
      · exact ⟨h, by simp⟩
      · split
        · exact ⟨h, by simp⟩
        · have hcr := createInBlock_sys h b "A" n t i c hb
          generalize createInBlock s b "A" n t i c = r at hcr
          obtain ⟨s1, x⟩ := r
          cases x with
          | error e => exact ⟨hcr.1, by simp⟩
          | ok g =>
            have hg := hcr.2 g rfl
            exact ⟨(hcr.1.setAttr g _ _ (ne0_of_low hg)).setAttr g _ _ (ne0_of_low hg), by intro g' hg'; simp at hg'; subst hg'; exact hg⟩

theorem createDataFrame_sys {s : Store} (h : Sys s) (b : ObjId) (n t i c : String) (ns ts : List String) (cols : String) (hb : 3 ≤ b) :
    Sys (createDataFrame s b n t i c ns ts cols).1 ∧ ∀ g, (createDataFrame s b n t i c ns ts cols).2 = .ok g → 3 ≤ g := by
  unfold createDataFrame
  cases hc : checkNameAndType n t with
  | error e' => exact ⟨h, by simp⟩
  | ok u =>
    simp only
    split
    · exact ⟨h, by simp⟩
    · split
      · exact ⟨h, by simp⟩
      · split
        · exact ⟨h, by simp⟩
        · have hcr := createInBlock_sys h b "D" n t i c hb
          generalize createInBlock s b "D" n t i c = r at hcr
          obtain ⟨s1, x⟩ := r
          cases x with
          | error e => exact ⟨hcr.1, by simp⟩
          | ok g =>
            have hg := hcr.2 g rfl
            exact ⟨hcr.1.setAttr g _ _ (ne0_of_low hg), by intro g' hg'; simp at hg'; subst hg'; exact hg⟩

theorem createTag_sys {s : Store} (h : Sys s) (b : ObjId) (n t i c pos : String) (hb : 3 ≤ b) :
    Sys (createTag s b n t i c pos).1 ∧ ∀ g, (createTag s b n t i c pos).2 = .ok g → 3 ≤ g := by
  unfold createTag
  have hcr := createInBlock_sys h b "T" n t i c hb
  generalize createInBlock s b "T" n t i c = r at hcr
  obtain ⟨s1, x⟩ := r
  cases x with
  | error e => exact ⟨hcr.1, by simp⟩
  | ok g =>
    have hg := hcr.2 g rfl
    exact ⟨hcr.1.setAttr g _ _ (ne0_of_low hg), by intro g' hg'; simp at hg'; subst hg'; exact hg⟩

theorem setArrayLink_sys {s : Store} (h : Sys s) (holder b : ObjId) (f key : String) (hh : 3 ≤ holder) (hb : 3 ≤ b) :
    Sys (setArrayLink s holder b f key).1 := by
  unfold setArrayLink
  cases hf : blkFindKey s b "A" key with
  | none => exact h
  | some a =>
    simp only
    exact (h.removeGroup holder f (ne0_of_low hh)).addLink holder f a (ne0_of_low hh) (h.blkFindKey_low (ne0_of_low hb) hf)

theorem createMultiTag_sys {s : Store} (h : Sys s) (b : ObjId) (n t i c : String) (ph : Option Handle) (hb : 3 ≤ b) :
    Sys (createMultiTag s b n t i c ph).1 ∧ ∀ g, (createMultiTag s b n t i c ph).2 = .ok g → 3 ≤ g := by
  unfold createMultiTag
  cases hc : checkNameAndType n t with
  | error e' => exact ⟨h, by simp⟩
  | ok u =>
    simp only
    split
    · exact ⟨h, by simp⟩
    · cases ph with
      | none => exact ⟨h, by simp⟩
      | some ph =>
        simp only
        split
        · exact ⟨h, by simp⟩
        · split
          · exact ⟨h, by simp⟩
          · have hcr := createInBlock_sys h b "M" n t i c hb
            generalize createInBlock s b "M" n t i c = r at hcr
            obtain ⟨s1, x⟩ := r
            cases x with
            | error e => exact ⟨hcr.1, by simp⟩
            | ok g =>
              have hg := hcr.2 g rfl
              have hl := setArrayLink_sys hcr.1 g b "positions" (idOf s1 ph.obj) hg hb
              simp only
              generalize setArrayLink s1 g b "positions" (idOf s1 ph.obj) = r2 at hl
              obtain ⟨s2, y⟩ := r2
              cases y with
              | error e => exact ⟨hl, by simp⟩
              | ok u => exact ⟨hl, by intro g' hg'; simp at hg'; subst hg'; exact hg⟩

theorem createProperty_sys {s : Store} (h : Sys s) (sec : ObjId) (n i c dt : String) (hsec : 3 ≤ sec) :
    Sys (createProperty s sec n i c dt).1 ∧ ∀ g, (createProperty s sec n i c dt).2 = .ok g → 3 ≤ g := by
  unfold createProperty
  cases hc : checkName n with
  | error e' => exact ⟨h, by simp⟩
  | ok u =>
    simp only
    have h0 := h.openGroupCreate sec "properties" (ne0_of_low hsec)
    have ha := h0.1.alloc { isGroup := false } rfl
    have hd0 := ne0_of_low ha.2
    have hl := ha.1.addLink (s.openGroupCreate sec "properties").2 n _ (ne0_of_low h0.2) ha.2
    have hfin := (((hl.setAttr _ "entity_id" i hd0).setAttr _ "created_at" c hd0).setAttr _ "name" n hd0).setAttr _ "ds:dtype" dt hd0
    repeat' split
    all_goals
      refine ⟨by first | exact hfin | exact h, ?_⟩
      intro g hg
      simp at hg
      try (subst hg; exact ha.2)

theorem createFeature_sys {s : Store} (h : Sys s) (tag b : ObjId) (i c lt : String) (dh : Option Handle) (ht : 3 ≤ tag) (hb : 3 ≤ b) :
    Sys (createFeature s tag b i c lt dh).1 ∧ ∀ g, (createFeature s tag b i c lt dh).2 = .ok g → 3 ≤ g := by
  unfold createFeature
  split
  · exact ⟨h, by simp⟩
  · cases dh with
    | none => exact ⟨h, by simp⟩
    | some dh =>
      simp only
      split
      · exact ⟨h, by simp⟩
      · have h0 := h.openGroupCreate tag "features" (ne0_of_low ht)
        have h1 := h0.1.openGroupCreate (s.openGroupCreate tag "features").2 i (ne0_of_low h0.2)
        have hg0 := ne0_of_low h1.2
        have h2 := ((h1.1.setAttr _ "entity_id" i hg0).setAttr _ "created_at" c hg0).setAttr _ "link_type" lt hg0
        have hl := setArrayLink_sys h2 _ b "data" (idOf s dh.obj) h1.2 hb
        generalize setArrayLink _ _ b "data" (idOf s dh.obj) = r2 at hl
        obtain ⟨s2, y⟩ := r2
        cases y with
        | error e => exact ⟨hl, by simp⟩
        | ok u => exact ⟨hl, by intro g' hg'; simp at hg'; subst hg'; exact h1.2⟩

-- ---------------------------------------------------------------------------------------------------------
-- links and plain fields

theorem setSectionLink_sys {s : Store} (h : Sys s) (holder : ObjId) (f id : String) (hh : 3 ≤ holder) :
    Sys (setSectionLink s holder f id).1 := by
  unfold setSectionLink
  split
  · exact h
  · cases hf : findSectionById s id with
    | none => exact h
    | some t =>
      simp only
      exact (h.removeGroup holder f (ne0_of_low hh)).addLink holder f t (ne0_of_low hh) (h.findSectionById_low hf)

theorem unsetLink_sys {s : Store} (h : Sys s) (holder : ObjId) (f : String) (hh : 3 ≤ holder) : Sys (unsetLink s holder f).1 :=
  h.removeGroup holder f (ne0_of_low hh)

theorem setExtents_sys {s : Store} (h : Sys s) (mt b : ObjId) (key : String) (hm : 3 ≤ mt) (hb : 3 ≤ b) :
    Sys (setExtents s mt b key).1 := by
  unfold setExtents
  cases hf : blkFindKey s b "A" key with
  | none => exact h
  | some a =>
    simp only
    cases hp : s.optGroup mt "positions" with
    | none => exact h
    | some p =>
      simp only
      repeat' split
      all_goals first
        | exact h
        | exact (h.removeGroup mt "extents" (ne0_of_low hm)).addLink mt "extents" a (ne0_of_low hm) (h.blkFindKey_low (ne0_of_low hb) hf)

theorem addReference_sys {s : Store} (h : Sys s) (tag b : ObjId) (key : String) (ht : 3 ≤ tag) (hb : 3 ≤ b) :
    Sys (addReference s tag b key).1 := by
  unfold addReference
  have h0 := h.openGroupCreate tag "references" (ne0_of_low ht)
  simp only
  cases hf : blkFindKey (s.openGroupCreate tag "references").1 b "A" key with
  | none => exact h0.1
  | some a =>
    simp only
    split
    · exact h0.1
    · exact h0.1.addLink _ _ a (ne0_of_low h0.2) (h0.1.blkFindKey_low (ne0_of_low hb) hf)

theorem addSource_sys {s : Store} (h : Sys s) (holder b : ObjId) (id : String) (hh : 3 ≤ holder) (hb : 3 ≤ b) :
    Sys (addSource s holder b id).1 := by
  unfold addSource
  split
  · exact h
  · have h0 := h.openGroupCreate holder "sources" (ne0_of_low hh)
    simp only
    cases hf : findSourceById (s.openGroupCreate holder "sources").1 b id with
    | none => exact h0.1
    | some t =>
      simp only
      split
      · exact h0.1
      · exact h0.1.addLink _ _ t (ne0_of_low h0.2) (h0.1.findSourceById_low (ne0_of_low hb) hf)

theorem addMember_sys {s : Store} (h : Sys s) (grp b : ObjId) (k n i : String) (hg : 3 ≤ grp) (hb : 3 ≤ b) :
    Sys (addMember s grp b k n i).1 := by
  unfold addMember
  have h0 := h.openGroupCreate grp (groupContainer k) (ne0_of_low hg)
  simp only
  cases hf : blkFind (s.openGroupCreate grp (groupContainer k)).1 b k n i with
  | none => exact h0.1
  | some t =>
    simp only
    split
    · exact h0.1
    · exact h0.1.addLink _ _ t (ne0_of_low h0.2) (h0.1.blkFind_low (ne0_of_low hb) hf)

theorem setNonEmpty_sys {s : Store} (h : Sys s) (o : ObjId) (k v : String) (ho : 3 ≤ o) : Sys (setNonEmpty s o k v).1 := by
  unfold setNonEmpty
  split
  · exact h
  · exact h.setAttr o k v (ne0_of_low ho)

theorem unsetAttr_sys {s : Store} (h : Sys s) (o : ObjId) (k : String) (ho : 3 ≤ o) : Sys (unsetAttr s o k).1 :=
  h.removeAttr o k (ne0_of_low ho)

-- ---------------------------------------------------------------------------------------------------------
-- deletes

theorem deleteBlock_sys {s : Store} (h : Sys s) (key : String) : Sys (deleteBlock s key).1 := by
  unfold deleteBlock
  cases hf : s.findGroupByNameOrAttribute dataGrp "entity_id" key with
  | none => exact h
  | some b => exact h.removeAllLinks dataGrp _ (by decide)

theorem foldl_sys {α : Type} (f : Store → α → Store) (hf : ∀ s a, Sys s → Sys (f s a)) (l : List α) {s : Store} (h : Sys s) :
    Sys (l.foldl f s) := by
  induction l generalizing s with
  | nil => exact h
  | cons a l ih => exact ih (hf s a h)

theorem deleteNested_sys (cname : String) (fuel : Nat) : ∀ {s : Store}, Sys s → ∀ (c : ObjId) (key : String), c ≠ 0 →
    Sys (deleteNested cname fuel s c key).1 := by
  induction fuel with
  | zero => intro s h c key _; exact h
  | succ fuel ih =>
    intro s h c key hc
    unfold deleteNested
    cases hf : s.findGroupByNameOrAttribute c "entity_id" key with
    | none => exact h
    | some v =>
      simp only
      have hv := h.findGroup_low hc hf
      have hk : Sys (afterKids (deleteNested cname fuel) s v cname) := by
        unfold afterKids
        cases hvc : s.optGroup v cname with
        | none => exact h
        | some vc =>
          simp only
          exact foldl_sys _ (fun s' kid hs' => ih hs' vc kid (ne0_of_low (h.optGroup_low (ne0_of_low hv) hvc))) _ h
      exact hk.removeAllLinks c _ hc

theorem deleteSection_sys {s : Store} (h : Sys s) (p : Option ObjId) (key : String) (hp : ∀ x, p = some x → 3 ≤ x) :
    Sys (deleteSection s p key).1 := by
  unfold deleteSection
  cases p with
  | none => exact deleteNested_sys "sections" _ h metadataGrp key (by decide)
  | some p =>
    simp only
    cases hc : s.optGroup p "sections" with
    | none => exact h
    | some c => exact deleteNested_sys "sections" _ h c key (ne0_of_low (h.optGroup_low (ne0_of_low (hp p rfl)) hc))

theorem deleteSubSource_sys {s : Store} (h : Sys s) (p : ObjId) (key : String) (hp : 3 ≤ p) : Sys (deleteSubSource s p key).1 := by
  unfold deleteSubSource
  cases hc : s.optGroup p "sources" with
  | none => exact h
  | some c => exact deleteNested_sys "sources" _ h c key (ne0_of_low (h.optGroup_low (ne0_of_low hp) hc))

theorem deleteBlockSource_sys {s : Store} (h : Sys s) (b : ObjId) (key : String) (hb : 3 ≤ b) : Sys (deleteBlockSource s b key).1 := by
  unfold deleteBlockSource
  cases hc : s.optGroup b "sources" with
  | none => exact h
  | some c =>
    simp only
    cases hf : blkFindKey s b "O" key with
    | none => exact h
    | some v =>
      simp only
      have hv := h.blkFindKey_low (ne0_of_low hb) hf
      have hk : Sys (afterKids (deleteNested "sources" (fuelOf s)) s v "sources") := by
        unfold afterKids
        cases hvc : s.optGroup v "sources" with
        | none => exact h
        | some vc =>
          simp only
          exact foldl_sys _ (fun s' kid hs' => deleteNested_sys "sources" _ hs' vc kid
            (ne0_of_low (h.optGroup_low (ne0_of_low hv) hvc))) _ h
      exact hk.removeAllLinks c _ (ne0_of_low (h.optGroup_low (ne0_of_low hb) hc))

theorem removeEntity_sys {s : Store} (h : Sys s) (b : ObjId) (k n i : String) (hb : 3 ≤ b) : Sys (removeEntity s b k n i).1 := by
  unfold removeEntity
  cases hp : s.optGroup b (blockContainer k) with
  | none => exact h
  | some p =>
    cases hf : blkFind s b k n i with
    | none => exact h
    | some e => exact h.removeAllLinks p _ (ne0_of_low (h.optGroup_low (ne0_of_low hb) hp))

theorem deleteProperty_sys {s : Store} (h : Sys s) (sec : ObjId) (key : String) (hs : 3 ≤ sec) : Sys (deleteProperty s sec key).1 := by
  unfold deleteProperty
  cases hc : s.optGroup sec "properties" with
  | none => exact h
  | some c =>
    simp only
    cases hf : s.findDataByNameOrAttribute c "entity_id" key with
    | none => exact h
    | some p => exact h.removeData c _ (ne0_of_low (h.optGroup_low (ne0_of_low hs) hc))

theorem removeReference_sys {s : Store} (h : Sys s) (tag b : ObjId) (key : String) (ht : 3 ≤ tag) : Sys (removeReference s tag b key).1 := by
  unfold removeReference
  cases hc : s.optGroup tag "references" with
  | none => exact h
  | some c =>
    cases hf : getReference s tag b key with
    | none => exact h
    | some a => exact h.removeGroup c _ (ne0_of_low (h.optGroup_low (ne0_of_low ht) hc))

theorem removeSource_sys {s : Store} (h : Sys s) (holder : ObjId) (id : String) (hh : 3 ≤ holder) : Sys (removeSource s holder id).1 := by
  unfold removeSource
  cases hc : s.optGroup holder "sources" with
  | none => exact h
  | some c => exact h.removeGroup c _ (ne0_of_low (h.optGroup_low (ne0_of_low hh) hc))

theorem removeMember_sys {s : Store} (h : Sys s) (grp : ObjId) (k n i : String) (hg : 3 ≤ grp) : Sys (removeMember s grp k n i).1 := by
  unfold removeMember
  cases hp : s.optGroup grp (groupContainer k) with
  | none => exact h
  | some p =>
    cases hf : grpFind s grp k n i with
    | none => exact h
    | some e => exact h.removeGroup p _ (ne0_of_low (h.optGroup_low (ne0_of_low hg) hp))

-- ---------------------------------------------------------------------------------------------------------
-- every entry point, every history

/-- the object arguments of an entry point are entity objects: everything the API hands out (created entities, lookup results —
    see the `… → 3 ≤ g` halves above and the `…_low` lemmas) has an index ≥ 3; 0, 1, 2 are the root and its two groups, which
    no front-end object wraps -/
def Op.entityArgs : Op → Prop
  | .createBlock .. => True
  | .createSection p .. => ∀ x, p = some x → 3 ≤ x
  | .createSubSource p .. => 3 ≤ p
  | .createGroup b .. => 3 ≤ b
  | .createSource b .. => 3 ≤ b
  | .createDataArray b .. => 3 ≤ b
  | .createDataFrame b .. => 3 ≤ b
  | .createTag b .. => 3 ≤ b
  | .createMultiTag b .. => 3 ≤ b
  | .createProperty sec .. => 3 ≤ sec
  | .createFeature tag b .. => 3 ≤ tag ∧ 3 ≤ b
  | .setSectionLink holder .. => 3 ≤ holder
  | .unsetLink holder _ => 3 ≤ holder
  | .setArrayLink holder b .. => 3 ≤ holder ∧ 3 ≤ b
  | .setExtents mt b _ => 3 ≤ mt ∧ 3 ≤ b
  | .addReference tag b _ => 3 ≤ tag ∧ 3 ≤ b
  | .addSource holder b _ => 3 ≤ holder ∧ 3 ≤ b
  | .addMember grp b .. => 3 ≤ grp ∧ 3 ≤ b
  | .setNonEmpty o .. => 3 ≤ o
  | .unsetAttr o _ => 3 ≤ o
  | .setAttr o .. => 3 ≤ o
  | .deleteBlock _ => True
  | .deleteSection p _ => ∀ x, p = some x → 3 ≤ x
  | .deleteSubSource p _ => 3 ≤ p
  | .deleteBlockSource b _ => 3 ≤ b
  | .removeEntity b .. => 3 ≤ b
  | .deleteProperty sec _ => 3 ≤ sec
  | .removeReference tag .. => 3 ≤ tag
  | .removeSource holder _ => 3 ≤ holder
  | .removeMember grp .. => 3 ≤ grp

theorem fst_unitRes {α : Type} (r : Res α) : (unitRes r).1 = r.1 := by
  obtain ⟨s, x⟩ := r; cases x <;> rfl

/-- EVERY entry point of the store model keeps the system invariant -/
theorem apply_sys {s : Store} (h : Sys s) (op : Op) (ha : op.entityArgs) : Sys (op.apply s).1 := by
  cases op with
  | createBlock n t i c => simp only [Op.apply, fst_unitRes]; exact (createBlock_sys h n t i c).1
  | createSection p n t i c => simp only [Op.apply, fst_unitRes]; exact (createSectionIn_sys h p n t i c ha).1
  | createSubSource p n t i c => simp only [Op.apply, fst_unitRes]; exact (createSourceIn_sys h p n t i c ha).1
  | createGroup b n t i c => simp only [Op.apply, fst_unitRes]; exact (createInBlock_sys h b "G" n t i c ha).1
  | createSource b n t i c => simp only [Op.apply, fst_unitRes]; exact (createInBlock_sys h b "O" n t i c ha).1
  | createDataArray b n t i c dt sh => simp only [Op.apply, fst_unitRes]; exact (createDataArray_sys h b n t i c dt sh ha).1
  | createDataFrame b n t i c ns ts cols => simp only [Op.apply, fst_unitRes]; exact (createDataFrame_sys h b n t i c ns ts cols ha).1
  | createTag b n t i c pos => simp only [Op.apply, fst_unitRes]; exact (createTag_sys h b n t i c pos ha).1
  | createMultiTag b n t i c ph => simp only [Op.apply, fst_unitRes]; exact (createMultiTag_sys h b n t i c ph ha).1
  | createProperty sec n i c dt => simp only [Op.apply, fst_unitRes]; exact (createProperty_sys h sec n i c dt ha).1
  | createFeature tag b i c lt dh => simp only [Op.apply, fst_unitRes]; exact (createFeature_sys h tag b i c lt dh ha.1 ha.2).1
  | setSectionLink holder f id => exact setSectionLink_sys h holder f id ha
  | unsetLink holder f => exact unsetLink_sys h holder f ha
  | setArrayLink holder b f k => exact setArrayLink_sys h holder b f k ha.1 ha.2
  | setExtents m b k => exact setExtents_sys h m b k ha.1 ha.2
  | addReference t b k => exact addReference_sys h t b k ha.1 ha.2
  | addSource holder b id => exact addSource_sys h holder b id ha.1 ha.2
  | addMember g b k n i => exact addMember_sys h g b k n i ha.1 ha.2
  | setNonEmpty o k v => exact setNonEmpty_sys h o k v ha
  | unsetAttr o k => exact unsetAttr_sys h o k ha
  | setAttr o k v => exact h.setAttr o k v (ne0_of_low ha)
  | deleteBlock k => exact deleteBlock_sys h k
  | deleteSection p k => exact deleteSection_sys h p k ha
  | deleteSubSource p k => exact deleteSubSource_sys h p k ha
  | deleteBlockSource b k => exact deleteBlockSource_sys h b k ha
  | removeEntity b k n i => exact removeEntity_sys h b k n i ha
  | deleteProperty sec k => exact deleteProperty_sys h sec k ha
  | removeReference t b k => exact removeReference_sys h t b k ha
  | removeSource holder id => exact removeSource_sys h holder id ha
  | removeMember g k n i => exact removeMember_sys h g k n i ha

/-- … and so does every history -/
theorem run_sys {s : Store} (h : Sys s) (ops : List Op) (ha : ∀ op ∈ ops, op.entityArgs) : Sys (run s ops) := by
  induction ops generalizing s with
  | nil => exact h
  | cons op ops ih =>
    simp only [run, List.foldl_cons]
    exact ih (apply_sys h op (ha op (by simp))) (fun o ho => ha o (by simp [ho]))

end Nix.St
