import NixModel.Entities
/-
  Helper lemmas about the abstract store and the entity layer (no property statements here).
-/
namespace Nix.St
open Store

theorem checkName_ok {n : String} (h : checkName n = .ok ()) : n.isEmpty = false ∧ nameCheck n = true := by
  unfold checkName at h
  split at h <;> simp_all

theorem checkNameAndType_ok {n t : String} (h : checkNameAndType n t = .ok ()) :
    n.isEmpty = false ∧ nameCheck n = true ∧ tokEmpty t = false := by
  unfold checkNameAndType at h
  split at h
  · simp at h
  · rename_i hc
    have := checkName_ok hc
    split at h <;> simp_all

/-- the NamedEntity constructor cannot fail after the front-end checks -/
theorem initNamed_ok (s : Store) (g : ObjId) (id type name created : String) (hn : name.isEmpty = false) (ht : tokEmpty type = false) :
    initNamed s g id type name created =
      (((((s.setAttr g "entity_id" id).setAttr g "created_at" created).setAttr g "type" type).setAttr g "name" name), .ok ()) := by
  unfold initNamed; simp [hn, ht]


theorem obj?_modifyObj (s : Store) (o o' : ObjId) (f : Obj → Obj) :
    (s.modifyObj o f).obj? o' = if o = o' then (s.obj? o').map f else s.obj? o' := by
  simp only [modifyObj, obj?, List.getElem?_modify]
  split <;> simp

theorem obj?_alloc_old (s : Store) (ob : Obj) (o : ObjId) (h : o < s.objs.length) : (s.alloc ob).1.obj? o = s.obj? o := by
  simp [alloc, obj?, List.getElem?_append_left h]

theorem obj?_alloc_new (s : Store) (ob : Obj) : (s.alloc ob).1.obj? (s.alloc ob).2 = some ob := by
  simp [alloc, obj?]

theorem alloc_snd (s : Store) (ob : Obj) : (s.alloc ob).2 = s.objs.length := rfl

theorem obj?_lt {s : Store} {o : ObjId} {ob : Obj} (h : s.obj? o = some ob) : o < s.objs.length := by
  unfold obj? at h
  exact (List.getElem?_eq_some_iff.mp h).1

theorem obj?_none_of_ge {s : Store} {o : ObjId} (h : s.objs.length ≤ o) : s.obj? o = none := by
  unfold obj?; exact List.getElem?_eq_none h

/-- opening an existing container changes nothing -/
theorem openGroupCreate_existing (s : Store) (g : ObjId) (n : String) (h : s.hasGroup g n = true) : (s.openGroupCreate g n).1 = s := by
  unfold openGroupCreate
  simp [h]
  split <;> rfl

theorem linksOf_eq (s : Store) (o : ObjId) : s.linksOf o = match s.obj? o with | some ob => ob.links | none => [] := rfl

/-- a container created on demand: the old objects keep their attributes; only `g` gains one link, to a new empty group -/
theorem openGroupCreate_fresh (s : Store) (g : ObjId) (n : String) (h : s.hasGroup g n = false) (hg : g < s.objs.length) :
    let s' := (s.openGroupCreate g n).1
    let c := (s.openGroupCreate g n).2
    c = s.objs.length ∧ s'.linksOf c = [] ∧ s'.isGroupObj c = true ∧
    (∀ o, o ≠ g → o < s.objs.length → s'.obj? o = s.obj? o) ∧
    (∀ ob, s.obj? g = some ob → s'.obj? g = some { ob with links := ob.links ++ [(n, c)] }) := by
  unfold openGroupCreate
  simp only [h]
  simp only [Bool.false_eq_true, ↓reduceIte]
  have hne : g ≠ (s.alloc { isGroup := true }).2 := by rw [alloc_snd]; exact Nat.ne_of_lt hg
  refine ⟨rfl, ?_, ?_, ?_, ?_⟩
  · simp only [addLink, linksOf_eq, obj?_modifyObj]
    simp [hne, obj?_alloc_new]
  · simp only [addLink, isGroupObj, obj?_modifyObj]
    simp [hne, obj?_alloc_new]
  · intro o hne hlt
    simp only [addLink, obj?_modifyObj]
    simp [Ne.symm hne, obj?_alloc_old _ _ _ hlt]
  · intro ob hob
    simp only [addLink, obj?_modifyObj]
    simp [obj?_alloc_old _ _ _ (obj?_lt hob), hob, alloc_snd]



theorem lookup_append_none {l : List (String × ObjId)} {n : String} {c : ObjId} (h : l.lookup n = none) :
    (l ++ [(n, c)]).lookup n = some c := by
  induction l with
  | nil => simp
  | cons x xs ih =>
    obtain ⟨a, b⟩ := x
    simp only [List.cons_append, List.lookup_cons] at h ⊢
    cases hab : n == a with
    | true => simp [hab] at h
    | false => simp only [hab] at h ⊢; exact ih h


end Nix.St
