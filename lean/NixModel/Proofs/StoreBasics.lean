import NixModel.Entities
/-
  Helper lemmas about the abstract store and the entity layer (no property statements here).
-/
namespace Nix.St
open Store

theorem checkName_ok {n : String} (h : checkName n = .ok ()) : n.isEmpty = false ∧ nameCheck n = true := by
  unfold checkName at h
  split at h <;> simp_all

theorem checkNameAndType_ok {n t : String} (h : checkNameAndType n t = .ok ()) :
    n.isEmpty = false ∧ nameCheck n = true ∧ tokEmpty t = false := by
  unfold checkNameAndType at h
  split at h
  · simp at h
  · rename_i hc
    have := checkName_ok hc
    split at h <;> simp_all

/-- the NamedEntity constructor cannot fail after the front-end checks -/
theorem initNamed_ok (s : Store) (g : ObjId) (id type name created : String) (hn : name.isEmpty = false) (ht : tokEmpty type = false) :
    initNamed s g id type name created =
      (((((s.setAttr g "entity_id" id).setAttr g "created_at" created).setAttr g "type" type).setAttr g "name" name), .ok ()) := by
  unfold initNamed; simp [hn, ht]


theorem obj?_modifyObj (s : Store) (o o' : ObjId) (f : Obj → Obj) :
    (s.modifyObj o f).obj? o' = if o = o' then (s.obj? o').map f else s.obj? o' := by
  simp only [modifyObj, obj?, List.getElem?_modify]
  split <;> simp

theorem obj?_alloc_old (s : Store) (ob : Obj) (o : ObjId) (h : o < s.objs.length) : (s.alloc ob).1.obj? o = s.obj? o := by
  simp [alloc, obj?, List.getElem?_append_left h]

theorem obj?_alloc_new (s : Store) (ob : Obj) : (s.alloc ob).1.obj? (s.alloc ob).2 = some ob := by
  simp [alloc, obj?]

theorem alloc_snd (s : Store) (ob : Obj) : (s.alloc ob).2 = s.objs.length := rfl

theorem obj?_lt {s : Store} {o : ObjId} {ob : Obj} (h : s.obj? o = some ob) : o < s.objs.length := by
  unfold obj? at h
  exact (List.getElem?_eq_some_iff.mp h).1

theorem obj?_none_of_ge {s : Store} {o : ObjId} (h : s.objs.length ≤ o) : s.obj? o = none := by
  unfold obj?; exact List.getElem?_eq_none h

/-- opening an existing container changes nothing -/
theorem openGroupCreate_existing (s : Store) (g : ObjId) (n : String) (h : s.hasGroup g n = true) : (s.openGroupCreate g n).1 = s := by
  unfold openGroupCreate
  simp [h]
  split <;> rfl

theorem linksOf_eq (s : Store) (o : ObjId) : s.linksOf o = match s.obj? o with | some ob => ob.links | none => [] := rfl

/-- a container created on demand: the old objects keep their attributes; only `g` gains one link, to a new empty group -/
theorem openGroupCreate_fresh (s : Store) (g : ObjId) (n : String) (h : s.hasGroup g n = false) (hg : g < s.objs.length) :
    let s' := (s.openGroupCreate g n).1
    let c := (s.openGroupCreate g n).2
    c = s.objs.length ∧ s'.linksOf c = [] ∧ s'.isGroupObj c = true ∧
    (∀ o, o ≠ g → o < s.objs.length → s'.obj? o = s.obj? o) ∧
    (∀ ob, s.obj? g = some ob → s'.obj? g = some { ob with links := ob.links ++ [(n, c)] }) := by
  unfold openGroupCreate
  simp only [h]
  simp only [Bool.false_eq_true, ↓reduceIte]
  have hne : g ≠ (s.alloc { isGroup := true }).2 := by rw [alloc_snd]; exact Nat.ne_of_lt hg
  refine ⟨rfl, ?_, ?_, ?_, ?_⟩
  · simp only [addLink, linksOf_eq, obj?_modifyObj]
    simp [hne, obj?_alloc_new]
  · simp only [addLink, isGroupObj, obj?_modifyObj]
    simp [hne, obj?_alloc_new]
  · intro o hne hlt
    simp only [addLink, obj?_modifyObj]
    simp [Ne.symm hne, obj?_alloc_old _ _ _ hlt]
  · intro ob hob
    simp only [addLink, obj?_modifyObj]
    simp [obj?_alloc_old _ _ _ (obj?_lt hob), hob, alloc_snd]



theorem lookup_append_none {l : List (String × ObjId)} {n : String} {c : ObjId} (h : l.lookup n = none) :
    (l ++ [(n, c)]).lookup n = some c := by
  induction l with
  | nil => simp
  | cons x xs ih =>
    obtain ⟨a, b⟩ := x
    simp only [List.cons_append, List.lookup_cons] at h ⊢
    cases hab : n == a with
    | true => simp [hab] at h
    | false => simp only [hab] at h ⊢; exact ih h



theorem attr?_modifyObj_links (s : Store) (g o : ObjId) (f : List (String × ObjId) → List (String × ObjId)) (k : String) :
    (s.modifyObj g fun ob => { ob with links := f ob.links }).attr? o k = s.attr? o k := by
  simp only [attr?, obj?_modifyObj]
  by_cases h : g = o
  · subst h; cases s.obj? g <;> simp
  · simp [h]

theorem attr?_addLink (s : Store) (g : ObjId) (n : String) (t o : ObjId) (k : String) : (s.addLink g n t).attr? o k = s.attr? o k :=
  attr?_modifyObj_links s g o (fun l => l ++ [(n, t)]) k

theorem attr?_alloc_old (s : Store) (ob : Obj) (o : ObjId) (k : String) (h : o < s.objs.length) : (s.alloc ob).1.attr? o k = s.attr? o k := by
  simp only [attr?, obj?_alloc_old s ob o h]

theorem length_alloc (s : Store) (ob : Obj) : (s.alloc ob).1.objs.length = s.objs.length + 1 := by simp [alloc]
theorem length_modifyObj (s : Store) (o : ObjId) (f : Obj → Obj) : (s.modifyObj o f).objs.length = s.objs.length := by simp [modifyObj]
theorem length_setAttr (s : Store) (o : ObjId) (k v : String) : (s.setAttr o k v).objs.length = s.objs.length := length_modifyObj _ _ _
theorem length_addLink (s : Store) (g : ObjId) (n : String) (t : ObjId) : (s.addLink g n t).objs.length = s.objs.length := length_modifyObj _ _ _

theorem attr?_setAttr_other (s : Store) (o' : ObjId) (k' v : String) (o : ObjId) (k : String) (h : o ≠ o') :
    (s.setAttr o' k' v).attr? o k = s.attr? o k := by
  simp only [setAttr, attr?, obj?_modifyObj]
  simp [Ne.symm h]

/-- opening / creating a container group leaves the attributes of every existing object alone and only ever adds objects -/
theorem openGroupCreate_old (s : Store) (g : ObjId) (n : String) :
    s.objs.length ≤ (s.openGroupCreate g n).1.objs.length ∧
    (∀ o k, o < s.objs.length → (s.openGroupCreate g n).1.attr? o k = s.attr? o k) ∧
    (s.hasGroup g n = false → (s.openGroupCreate g n).2 = s.objs.length ∧ (s.openGroupCreate g n).1.objs.length = s.objs.length + 1) := by
  unfold openGroupCreate
  by_cases h : s.hasGroup g n = true
  · simp only [h, if_true]
    split <;> simp
  · simp only [h]
    refine ⟨?_, ?_, ?_⟩
    · simp [length_addLink, length_alloc]
    · intro o k ho
      simp [attr?_addLink, attr?_alloc_old _ _ _ _ ho]
    · intro _
      simp [length_addLink, length_alloc, alloc_snd]

theorem find_none_hasGroup (s : Store) (g : ObjId) (a n : String) (hn : n.isEmpty = false)
    (h : s.findGroupByNameOrAttribute g a n = none) : s.hasGroup g n = false := by
  unfold findGroupByNameOrAttribute at h
  by_cases ho : s.hasObject g n = true
  · simp only [ho, if_true] at h
    simp [hasObject, hn, h] at ho
  · simp only [hasObject, hn] at ho
    cases hc : s.child? g n with
    | none => simp [hasGroup, hc]
    | some x => simp [hc] at ho

theorem hasGroup_child (s : Store) (p : ObjId) (n : String) (hg : s.hasGroup p n = true) :
    n.isEmpty = false ∧ ∃ x, s.child? p n = some x ∧ s.hasObject p n = true := by
  unfold hasGroup at hg
  cases hn : n.isEmpty with
  | true => simp [hn] at hg
  | false =>
    cases hc : s.child? p n with
    | none => simp [hn, hc] at hg
    | some x => exact ⟨rfl, x, rfl, by simp [hasObject, hn, hc]⟩

/-- a lookup by name alone, or by id alone, succeeds when the container has a group under that string -/
theorem blkFind_single_isSome (s : Store) (blk p : ObjId) (kind v : String)
    (hp : s.optGroup blk (blockContainer kind) = some p) (hg : s.hasGroup p v = true) :
    (blkFind s blk kind v "").isSome = true ∧ (blkFind s blk kind "" v).isSome = true := by
  obtain ⟨hn, x, hc, ho⟩ := hasGroup_child s p v hg
  have e1 : ("" : String).isEmpty = true := by decide
  constructor
  · unfold blkFind
    simp [hp, hn, e1, ho, hg, hc]
  · unfold blkFind
    simp [hp, hn, e1, ho, hg, hc]

theorem blkFind_none_hasGroup (s : Store) (blk p : ObjId) (kind n : String)
    (hp : s.optGroup blk (blockContainer kind) = some p) (h : blkFindKey s blk kind n = none) : s.hasGroup p n = false := by
  cases hg : s.hasGroup p n with
  | false => rfl
  | true =>
    obtain ⟨h1, h2⟩ := blkFind_single_isSome s blk p kind n hp hg
    unfold blkFindKey identOfString at h
    by_cases hu : looksLikeUUID n = true
    · simp only [hu, if_true] at h; rw [h] at h2; simp at h2
    · simp only [hu] at h; simp at h; rw [h] at h1; simp at h1


theorem lookup_map_replace_ne (l : List (String × String)) (k v k' : String) (h : k' ≠ k) :
    (l.map fun p => if p.1 == k then (k, v) else p).lookup k' = l.lookup k' := by
  have hk' : (k' == k) = false := by simpa using h
  induction l with
  | nil => rfl
  | cons x xs ih =>
    obtain ⟨a, b⟩ := x
    simp only [List.map_cons]
    cases hx : (a == k) with
    | true =>
      have hxk : a = k := by simpa using hx
      have h2 : (k' == a) = false := by rw [hxk]; exact hk'
      simp only [if_true, List.lookup_cons, hk', h2]
      exact ih
    | false =>
      simp only [Bool.false_eq_true, if_false, List.lookup_cons]
      cases (k' == a)
      · simp only []; exact ih
      · rfl

theorem lookup_setKV_ne (l : List (String × String)) (k v k' : String) (h : k' ≠ k) : (setKV l k v).lookup k' = l.lookup k' := by
  have hk' : (k' == k) = false := by simpa using h
  unfold setKV
  split
  · exact lookup_map_replace_ne l k v k' h
  · rw [List.lookup_append]
    cases l.lookup k' <;> simp [List.lookup_cons, hk']


end Nix.St
