import NixModel.Proofs.SysInv
/-
  `Sys` (Proofs/SysInv.lean) is preserved by every entry point of the store model whose object arguments are entity objects
  (index ≥ 3) — and every object an entry point hands back (created entity, lookup result) is an entity object again, so the
  guard is self-sustaining along a history.
-/
namespace Nix.St
open Store

theorem ne0_of_low {x : ObjId} (h : 3 ≤ x) : x ≠ 0 := by unfold ObjId at *; omega

-- ---------------------------------------------------------------------------------------------------------
-- lookups hand back entity objects

theorem Sys.optGroup_low {s : Store} (h : Sys s) {g : ObjId} {n : String} {x : ObjId} (hg : g ≠ 0)
    (hx : s.optGroup g n = some x) : 3 ≤ x := by
  unfold Store.optGroup at hx
  split at hx
  · exact h.child_low hg hx
  · simp at hx

theorem Sys.findGroupByAttribute_low {s : Store} (h : Sys s) {g : ObjId} {a v : String} {x : ObjId} (hg : g ≠ 0)
    (hx : s.findGroupByAttribute g a v = some x) : 3 ≤ x := by
  unfold Store.findGroupByAttribute at hx
  cases hf : (s.linksOf g).find? (fun l => s.isGroupObj l.2 && s.attr? l.2 a == some v) with
  | none => simp [hf] at hx
  | some l =>
    simp [hf] at hx; subst hx
    exact h.low g hg l (List.mem_of_find?_eq_some hf)

theorem Sys.findDataByAttribute_low {s : Store} (h : Sys s) {g : ObjId} {a v : String} {x : ObjId} (hg : g ≠ 0)
    (hx : s.findDataByAttribute g a v = some x) : 3 ≤ x := by
  unfold Store.findDataByAttribute at hx
  cases hf : (s.linksOf g).find? (fun l => !s.isGroupObj l.2 && s.attr? l.2 a == some v) with
  | none => simp [hf] at hx
  | some l =>
    simp [hf] at hx; subst hx
    exact h.low g hg l (List.mem_of_find?_eq_some hf)

theorem Sys.findGroup_low {s : Store} (h : Sys s) {g : ObjId} {a v : String} {x : ObjId} (hg : g ≠ 0)
    (hx : s.findGroupByNameOrAttribute g a v = some x) : 3 ≤ x := by
  unfold Store.findGroupByNameOrAttribute at hx
  split at hx
  · exact h.child_low hg hx
  · split at hx
    · exact h.findGroupByAttribute_low hg hx
    · simp at hx

theorem Sys.findData_low {s : Store} (h : Sys s) {g : ObjId} {a v : String} {x : ObjId} (hg : g ≠ 0)
    (hx : s.findDataByNameOrAttribute g a v = some x) : 3 ≤ x := by
  unfold Store.findDataByNameOrAttribute at hx
  split at hx
  · exact h.child_low hg hx
  · split at hx
    · exact h.findDataByAttribute_low hg hx
    · simp at hx

theorem Sys.blkFind_low {s : Store} (h : Sys s) {b : ObjId} {k n i : String} {x : ObjId} (hb : b ≠ 0)
    (hx : blkFind s b k n i = some x) : 3 ≤ x := by
  unfold blkFind at hx
  cases hp : s.optGroup b (blockContainer k) with
  | none => simp [hp] at hx
  | some p =>
    have hp3 := h.optGroup_low hb hp
    have hp0 := ne0_of_low hp3
    simp only [hp] at hx
    split at hx
    · simp at hx
    · split at hx
      · rename_i o hg
        have ho : 3 ≤ o := by
          repeat' split at hg
          all_goals first
            | exact h.child_low hp0 hg
            | exact h.findGroupByAttribute_low hp0 hg
            | simp at hg
        split at hx
        · simp at hx
        · simp at hx; subst hx; exact ho
      · simp at hx

theorem Sys.blkFindKey_low {s : Store} (h : Sys s) {b : ObjId} {k key : String} {x : ObjId} (hb : b ≠ 0)
    (hx : blkFindKey s b k key = some x) : 3 ≤ x := by
  unfold blkFindKey at hx
  exact h.blkFind_low hb hx

theorem Sys.grpFind_low {s : Store} (h : Sys s) {g : ObjId} {k n i : String} {x : ObjId} (hg : g ≠ 0)
    (hx : grpFind s g k n i = some x) : 3 ≤ x := by
  unfold grpFind at hx
  cases hp : s.optGroup g (groupContainer k) with
  | none => simp [hp] at hx
  | some p =>
    have hp3 := h.optGroup_low hg hp
    have hp0 := ne0_of_low hp3
    simp only [hp] at hx
    split at hx
    · simp at hx
    · split at hx
      · rename_i o hgo
        have ho : 3 ≤ o := by
          repeat' split at hgo
          all_goals first
            | exact h.child_low hp0 hgo
            | exact h.findGroupByAttribute_low hp0 hgo
            | simp at hgo
        split at hx
        · simp at hx
        · simp at hx; subst hx; exact ho
      · simp at hx

theorem levelOrder_low {s : Store} (h : Sys s) (cname : String) (fuel : Nat) (roots : List ObjId) (hr : ∀ r ∈ roots, 3 ≤ r) :
    ∀ x ∈ levelOrder cname fuel s roots, 3 ≤ x := by
  induction fuel generalizing roots with
  | zero => intro x hx; simp [levelOrder] at hx
  | succ fuel ih =>
    intro x hx
    unfold levelOrder at hx
    split at hx
    · simp at hx
    · simp only [List.mem_append] at hx
      cases hx with
      | inl h1 => exact hr x h1
      | inr h2 =>
        refine ih _ ?_ x h2
        intro r hrm
        simp only [List.mem_flatMap] at hrm
        obtain ⟨r0, hr0, hin⟩ := hrm
        cases hc : s.optGroup r0 cname with
        | none => simp [hc] at hin
        | some c =>
          simp only [hc, List.mem_map] at hin
          obtain ⟨l, hl, rfl⟩ := hin
          exact h.low c (ne0_of_low (h.optGroup_low (ne0_of_low (hr r0 hr0)) hc)) l hl

theorem Sys.findSectionById_low {s : Store} (h : Sys s) {id : String} {x : ObjId} (hx : findSectionById s id = some x) : 3 ≤ x := by
  unfold findSectionById allSections at hx
  refine levelOrder_low h "sections" _ _ ?_ x (List.mem_of_find?_eq_some hx)
  intro r hr
  simp only [List.mem_map] at hr
  obtain ⟨l, hl, rfl⟩ := hr
  exact h.low metadataGrp (by decide) l hl

theorem Sys.findSourceById_low {s : Store} (h : Sys s) {b : ObjId} {id : String} {x : ObjId} (hb : b ≠ 0)
    (hx : findSourceById s b id = some x) : 3 ≤ x := by
  unfold findSourceById allSources at hx
  cases hc : s.optGroup b "sources" with
  | none => simp [hc] at hx
  | some c =>
    simp only [hc] at hx
    refine levelOrder_low h "sources" _ _ ?_ x (List.mem_of_find?_eq_some hx)
    intro r hr
    simp only [List.mem_map] at hr
    obtain ⟨l, hl, rfl⟩ := hr
    exact h.low c (ne0_of_low (h.optGroup_low hb hc)) l hl

-- ---------------------------------------------------------------------------------------------------------
-- composite primitives

theorem Sys.openGroupCreate {s : Store} (h : Sys s) (g : ObjId) (n : String) (hg : g ≠ 0) :
    Sys (s.openGroupCreate g n).1 ∧ 3 ≤ (s.openGroupCreate g n).2 := by
  by_cases hh : s.hasGroup g n = true
  · rw [openGroupCreate_existing s g n hh]
    refine ⟨h, ?_⟩
    obtain ⟨_, x, hx, _⟩ := hasGroup_child s g n hh
    have : (s.openGroupCreate g n).2 = x := by unfold Store.openGroupCreate; simp [hh, hx]
    rw [this]; exact h.child_low hg hx
  · have hh' : s.hasGroup g n = false := by simpa using hh
    have ha := h.alloc { isGroup := true } rfl
    have : s.openGroupCreate g n = ((s.alloc { isGroup := true }).1.addLink g n (s.alloc { isGroup := true }).2, (s.alloc { isGroup := true }).2) := by
      unfold Store.openGroupCreate; simp [hh']
    rw [this]
    exact ⟨ha.1.addLink g n _ hg ha.2, ha.2⟩

theorem Sys.initNamed {s : Store} (h : Sys s) (g : ObjId) (id type name created : String) (hg : g ≠ 0) :
    Sys (initNamed s g id type name created).1 := by
  unfold St.initNamed
  have a := (h.setAttr g "entity_id" id hg).setAttr g "created_at" created hg
  simp only
  split
  · exact a
  · split
    · exact a.setAttr g "type" type hg
    · exact (a.setAttr g "type" type hg).setAttr g "name" name hg

theorem Sys.removeAllLinks {s : Store} (h : Sys s) (g : ObjId) (n : String) (hg : g ≠ 0) : Sys (s.removeAllLinks g n).1 := by
  unfold Store.removeAllLinks
  split
  · cases hc : s.child? g n with
    | none => simp only; exact h
    | some t => simp only; exact h.removeAllLinksTo t (h.child_low hg hc)
  · exact h

end Nix.St
