import NixModel.Proofs.IndexRange
/-
  The sampled kernel: whatever the rounded quotient `est` is, the corrected index is the largest
  `i` with `positionAt(i) ≤ p`.  Only the order laws are used; `+ - * /` are opaque.
-/
open Std
set_option linter.unusedSectionVars false
namespace Nix.C07
open Nix Scalar

variable {α : Type} [Scalar α] [IsLinearOrder α] [LawfulOrderLT α] [LawfulScalarEq α]

def StrictMonoN (x : Nat → α) : Prop := ∀ i j, i < j → x i < x j

theorem StrictMonoN.le {x : Nat → α} (hx : StrictMonoN x) {i j : Nat} (h : i ≤ j) : x i ≤ x j := by
  rcases Nat.lt_or_eq_of_le h with h | h
  · have := hx i j h; grind
  · subst h; grind

theorem corrDown_post (x : Nat → α) (p : α) (est : Nat) (h0 : ¬ p < x 0) : ¬ p < x (corrDown x p est) := by
  induction est with
  | zero => simpa [corrDown] using h0
  | succ g ih =>
    simp only [corrDown]; split
    · exact ih
    · assumption

theorem corrUp_post (x : Nat → α) (hx : StrictMonoN x) (p : α) (fuel g r : Nat) (hg : ¬ p < x g)
    (h : corrUp x p fuel g = some r) : ¬ p < x r ∧ p < x (r + 1) := by
  induction fuel generalizing g with
  | zero => simp [corrUp] at h
  | succ f ih =>
    simp only [corrUp] at h
    split at h
    · rename_i hc
      exact ih (g + 1) (by grind) h
    · rename_i hc
      cases h
      have := hx r (r + 1) (by omega)
      grind

theorem corrUp_terminates (x : Nat → α) (hx : StrictMonoN x) (p : α) (fuel g N : Nat) (hg : ¬ p < x g)
    (hN : p < x N) (hf : N ≤ g + fuel) : ∃ r, corrUp x p fuel g = some r := by
  induction fuel generalizing g with
  | zero =>
    have : x N ≤ x g := hx.le (by omega)
    grind
  | succ f ih =>
    simp only [corrUp]
    split
    · rename_i hc
      exact ih (g + 1) (by grind) (by omega)
    · exact ⟨g, rfl⟩

theorem sampledAxis_valid (si off : α) (i : Nat) : (sampledAxis si off).valid i := by
  simp [sampledAxis, Axis.valid]

theorem sampledAxis_strictMono (si off : α) (hx : StrictMonoN (posAt si off)) : (sampledAxis si off).StrictMono := by
  intro i j _ hij; exact hx i j hij

/-- The corrected sampled kernel obeys the neighbour-local rule, for ANY value of the rounded
    quotient (`floor`, `div`, `sub`, `toNat` are unconstrained). -/
theorem sampled_rel (fuel : Nat) (p off si : α) (m : PositionMatch)
    (hx : StrictMonoN (posAt si off)) (hx0 : posAt si off 0 = off)
    (hsi : zero < si) (hfp : isFinite p = true) (hfo : isFinite off = true)
    (hfuel : p < posAt si off fuel) (hq : floor (div (sub p off) si) < ofNat 9007199254740992) :
    relIndex (sampledAxis si off) m p (getSampledIndex fuel p off si m)
      (getSampledIndex fuel p off si .lessOrEqual) = true := by
  have hv := sampledAxis_valid si off
  have hc : ∀ i, (sampledAxis si off).coord i = posAt si off i := fun _ => rfl
  have hlen : (sampledAxis si off).len = none := rfl
  have hbt := beq_true_iff (α := α)
  unfold getSampledIndex
  by_cases h1 : p < off
  · simp only [h1, if_true]
    cases m <;> simp [relIndex, PositionMatch.isGreater, hv, hc, hx0, h1] <;> grind
  · simp only [h1, if_false, hsi, hfp, hfo, hq, decide_true, Bool.not_true, Bool.or_self, Bool.false_eq_true]
    generalize hest : (if floor (div (sub p off) si) < zero then 0 else toNat (floor (div (sub p off) si))) = est
    have h0 : ¬ p < posAt si off 0 := by rw [hx0]; exact h1
    have hd := corrDown_post (posAt si off) p est h0
    obtain ⟨idx, hidx⟩ := corrUp_terminates (posAt si off) hx p fuel (corrDown (posAt si off) p est) fuel hd hfuel (by omega)
    have hpost := corrUp_post (posAt si off) hx p fuel _ idx hd hidx
    simp only [hidx]
    have hprev : ∀ k, k < idx → posAt si off k < posAt si off idx := fun k hk => hx k idx hk
    cases m <;> simp only [relIndex, hv, hc, hlen, decide_true, Bool.true_and, Bool.not_true, Bool.false_or]
    all_goals (repeat' split) <;> (try simp only [relIndex, hv, hc, hlen, decide_true, Bool.true_and, Bool.not_true, Bool.false_or]) <;> grind

end Nix.C07
