import NixModel.Proofs.RolesOps
import NixModel.Proofs.SysHistory
/-
  `WT` across every entry point (`apply_wt`) and every history (`run_wt`); what follows for every reachable state.
-/
namespace Nix.St
open Store

theorem createBlock_wt {s : Store} {ρ : ObjId → Role} (h : WT s ρ) (n t i c : String) :
    WT (createBlock s n t i c).1 (upd ρ (s.openGroupCreate dataGrp n).2 (.ent .B)) ∧
    Agree s ρ (upd ρ (s.openGroupCreate dataGrp n).2 (.ent .B)) := by
  obtain ⟨w1, a1, _, _, _⟩ := h.openGroupCreate dataGrp n (.ent .B) (Nat.lt_of_lt_of_le (by decide) h.len)
    (by rw [show ρ dataGrp = .topData from h.r2]; rfl) (by simp)
  refine ⟨?_, a1⟩
  unfold createBlock
  cases hc : checkNameAndType n t with
  | error e' => exact h.congr a1
  | ok u =>
    simp only
    generalize hr : initNamed (s.openGroupCreate dataGrp n).1 (s.openGroupCreate dataGrp n).2 i t n c = r
    have hs : WT r.1 _ := hr ▸ w1.initNamed _ i t n c
    obtain ⟨s1, x⟩ := r
    cases x <;> simp only <;> repeat' split
    all_goals first | exact h.congr a1 | exact hs

/-- the common part of the two-level creators: whatever the checks decide, the result is the old store, or the store with the
    container and the entity group, initialised -/
theorem create2_result_wt {s : Store} {ρ : ObjId → Role} (h : WT s ρ) (par : ObjId) (cn n : String) (rc re : Role)
    (hpar : par < s.objs.length) (hrc : childRole (ρ par) cn = some rc) (hrc' : rc ≠ .prop)
    (hre : ∀ m, childRole rc m = some re) (hre' : re ≠ .prop) (id type created : String) :
    WT (initNamed ((s.openGroupCreate par cn).1.openGroupCreate (s.openGroupCreate par cn).2 n).1
        ((s.openGroupCreate par cn).1.openGroupCreate (s.openGroupCreate par cn).2 n).2 id type n created).1
      (upd (upd ρ (s.openGroupCreate par cn).2 rc) ((s.openGroupCreate par cn).1.openGroupCreate (s.openGroupCreate par cn).2 n).2 re) ∧
    WT s (upd (upd ρ (s.openGroupCreate par cn).2 rc) ((s.openGroupCreate par cn).1.openGroupCreate (s.openGroupCreate par cn).2 n).2 re) ∧
    Agree s ρ (upd (upd ρ (s.openGroupCreate par cn).2 rc) ((s.openGroupCreate par cn).1.openGroupCreate (s.openGroupCreate par cn).2 n).2 re) := by
  obtain ⟨w2, _, a2, _⟩ := create2_wt h par cn n rc re hpar hrc hrc' hre hre'
  exact ⟨w2.initNamed _ id type n created, h.congr a2, a2⟩

theorem createSectionIn_wt {s : Store} {ρ : ObjId → Role} (h : WT s ρ) (p : Option ObjId) (n t i c : String)
    (hp : ∀ x, p = some x → x < s.objs.length ∧ ρ x = .ent .S) :
    WT (createSectionIn s p n t i c).1 (Op.roleAfter s ρ (.createSection p n t i c)) ∧
    Agree s ρ (Op.roleAfter s ρ (.createSection p n t i c)) := by
  cases p with
  | none =>
    simp only [Op.roleAfter]
    obtain ⟨w1, a1, _, _, _⟩ := h.openGroupCreate metadataGrp n (.ent .S) (Nat.lt_of_lt_of_le (by decide) h.len)
      (by rw [show ρ metadataGrp = .topMeta from h.r1]; rfl) (by simp)
    refine ⟨?_, a1⟩
    unfold createSectionIn
    cases hc : checkNameAndType n t with
    | error e' => exact h.congr a1
    | ok u =>
      simp only
      generalize hr : initNamed (s.openGroupCreate metadataGrp n).1 (s.openGroupCreate metadataGrp n).2 i t n c = r
      have hs : WT r.1 _ := hr ▸ w1.initNamed _ i t n c
      obtain ⟨s1, x⟩ := r
      cases x <;> simp only <;> repeat' split
      all_goals first | exact h.congr a1 | exact hs
  | some p =>
    simp only [Op.roleAfter]
    have ⟨hpl, hpr⟩ := hp p rfl
    obtain ⟨w, w0, a⟩ := create2_result_wt h p "sections" n (.cont .S) (.ent .S) hpl (by rw [hpr]; simp [childRole]) (by simp)
      (fun _ => rfl) (by simp) i t c
    refine ⟨?_, a⟩
    unfold createSectionIn
    cases hc : checkNameAndType n t with
    | error e' => exact w0
    | ok u =>
      simp only
      generalize hr : initNamed ((s.openGroupCreate p "sections").1.openGroupCreate (s.openGroupCreate p "sections").2 n).1
        ((s.openGroupCreate p "sections").1.openGroupCreate (s.openGroupCreate p "sections").2 n).2 i t n c = r at w
      obtain ⟨s1, x⟩ := r
      cases x <;> simp only <;> repeat' split
      all_goals first | exact w0 | exact w

theorem createSourceIn_wt {s : Store} {ρ : ObjId → Role} (h : WT s ρ) (p : ObjId) (n t i c : String)
    (hp : p < s.objs.length ∧ ρ p = .ent .O) :
    WT (createSourceIn s p n t i c).1 (Op.roleAfter s ρ (.createSubSource p n t i c)) ∧
    Agree s ρ (Op.roleAfter s ρ (.createSubSource p n t i c)) := by
  simp only [Op.roleAfter]
  obtain ⟨w, w0, a⟩ := create2_result_wt h p "sources" n (.cont .O) (.ent .O) hp.1 (by rw [hp.2]; simp [childRole]) (by simp)
    (fun _ => rfl) (by simp) i t c
  refine ⟨?_, a⟩
  unfold createSourceIn
  cases hc : checkNameAndType n t with
  | error e' => exact w0
  | ok u =>
    simp only
    generalize hr : initNamed ((s.openGroupCreate p "sources").1.openGroupCreate (s.openGroupCreate p "sources").2 n).1
      ((s.openGroupCreate p "sources").1.openGroupCreate (s.openGroupCreate p "sources").2 n).2 i t n c = r at w
    obtain ⟨s1, x⟩ := r
    cases x <;> simp only <;> repeat' split
    all_goals first | exact w0 | exact w

/-- the roles after a Block-level creation of kind token `k` -/
def rolesInBlock (s : Store) (ρ : ObjId → Role) (b : ObjId) (k n : String) : ObjId → Role :=
  upd (upd ρ (s.openGroupCreate b (blockContainer k)).2 (.cont (bKind k)))
    ((s.openGroupCreate b (blockContainer k)).1.openGroupCreate (s.openGroupCreate b (blockContainer k)).2 n).2 (.ent (bKind k))

theorem createInBlock_wt {s : Store} {ρ : ObjId → Role} (h : WT s ρ) (b : ObjId) (k n t i c : String)
    (hb : b < s.objs.length ∧ ρ b = .ent .B) :
    WT (createInBlock s b k n t i c).1 (rolesInBlock s ρ b k n) ∧ WT s (rolesInBlock s ρ b k n) ∧ Agree s ρ (rolesInBlock s ρ b k n) ∧
    (∀ g, (createInBlock s b k n t i c).2 = .ok g →
      g < (createInBlock s b k n t i c).1.objs.length ∧ rolesInBlock s ρ b k n g = .ent (bKind k) ∧
      s.objs.length ≤ (createInBlock s b k n t i c).1.objs.length) := by
  unfold rolesInBlock
  obtain ⟨w2, w1, a2, a1⟩ := create2_wt h b (blockContainer k) n (.cont (bKind k)) (.ent (bKind k)) hb.1
    (by rw [hb.2]; exact childRole_blockContainer k) (by simp) (fun _ => rfl) (by simp)
  obtain ⟨_, _, l1, x1, r1⟩ := h.openGroupCreate b (blockContainer k) (.cont (bKind k)) hb.1
    (by rw [hb.2]; exact childRole_blockContainer k) (by simp)
  obtain ⟨_, _, l2, x2, r2⟩ := w1.openGroupCreate (s.openGroupCreate b (blockContainer k)).2 n (.ent (bKind k)) x1 (by rw [r1]; rfl) (by simp)
  have w0 := h.congr a2
  refine ⟨?_, w0, a2, ?_⟩
  · unfold createInBlock
    cases hc : checkNameAndType n t with
    | error e' => exact w0
    | ok u =>
      simp only
      generalize hr : initNamed ((s.openGroupCreate b (blockContainer k)).1.openGroupCreate (s.openGroupCreate b (blockContainer k)).2 n).1
        ((s.openGroupCreate b (blockContainer k)).1.openGroupCreate (s.openGroupCreate b (blockContainer k)).2 n).2 i t n c = r
      have hs : WT r.1 _ := hr ▸ w2.initNamed _ i t n c
      obtain ⟨s1, x⟩ := r
      cases x <;> simp only <;> repeat' split
      all_goals first | exact w0 | exact hs
  · intro g hg
    unfold createInBlock at hg ⊢
    cases hc : checkNameAndType n t with
    | error e' => simp [hc] at hg
    | ok u =>
      have ⟨hn, _, ht⟩ := checkNameAndType_ok hc
      simp only [hc, initNamed_ok _ _ _ _ _ _ hn ht] at hg ⊢
      split at hg
      · simp at hg
      · rename_i hd
        simp only [hd, Bool.false_eq_true, if_false]
        have hg' := Except.ok.inj hg
        subst hg'
        simp only [length_setAttr]
        exact ⟨x2, r2, Nat.le_trans l1 l2⟩

theorem rolesInBlock_A (s : Store) (ρ : ObjId → Role) (b : ObjId) (n t i c dt sh : String) :
    rolesInBlock s ρ b "A" n = Op.roleAfter s ρ (.createDataArray b n t i c dt sh) := by
  have h1 : blockContainer "A" = "data_arrays" := by decide
  have h2 : bKind "A" = .A := by decide
  simp only [rolesInBlock, Op.roleAfter, h1, h2]

theorem rolesInBlock_D (s : Store) (ρ : ObjId → Role) (b : ObjId) (n t i c : String) (ns ts : List String) (cols : String) :
    rolesInBlock s ρ b "D" n = Op.roleAfter s ρ (.createDataFrame b n t i c ns ts cols) := by
  have h1 : blockContainer "D" = "data_frames" := by decide
  have h2 : bKind "D" = .D := by decide
  simp only [rolesInBlock, Op.roleAfter, h1, h2]

theorem rolesInBlock_T (s : Store) (ρ : ObjId → Role) (b : ObjId) (n t i c pos : String) :
    rolesInBlock s ρ b "T" n = Op.roleAfter s ρ (.createTag b n t i c pos) := by
  have h1 : blockContainer "T" = "tags" := by decide
  have h2 : bKind "T" = .T := by decide
  simp only [rolesInBlock, Op.roleAfter, h1, h2]

theorem rolesInBlock_M (s : Store) (ρ : ObjId → Role) (b : ObjId) (n t i c : String) (ph : Option Handle) :
    rolesInBlock s ρ b "M" n = Op.roleAfter s ρ (.createMultiTag b n t i c ph) := by
  have h1 : blockContainer "M" = "multi_tags" := by decide
  have h2 : bKind "M" = .M := by decide
  simp only [rolesInBlock, Op.roleAfter, h1, h2]

theorem rolesInBlock_G (s : Store) (ρ : ObjId → Role) (b : ObjId) (n t i c : String) :
    rolesInBlock s ρ b "G" n = Op.roleAfter s ρ (.createGroup b n t i c) := by
  have h1 : blockContainer "G" = "groups" := by decide
  have h2 : bKind "G" = .G := by decide
  simp only [rolesInBlock, Op.roleAfter, h1, h2]

theorem rolesInBlock_O (s : Store) (ρ : ObjId → Role) (b : ObjId) (n t i c : String) :
    rolesInBlock s ρ b "O" n = Op.roleAfter s ρ (.createSource b n t i c) := by
  have h1 : blockContainer "O" = "sources" := by decide
  have h2 : bKind "O" = .O := by decide
  simp only [rolesInBlock, Op.roleAfter, h1, h2]

theorem createDataArray_wt {s : Store} {ρ : ObjId → Role} (h : WT s ρ) (b : ObjId) (n t i c dt sh : String)
    (hb : b < s.objs.length ∧ ρ b = .ent .B) :
    WT (createDataArray s b n t i c dt sh).1 (rolesInBlock s ρ b "A" n) := by
  obtain ⟨w, w0, _, _⟩ := createInBlock_wt h b "A" n t i c hb
  unfold createDataArray
  generalize createInBlock s b "A" n t i c = r at w
  obtain ⟨s1, x⟩ := r
  cases x <;> simp only <;> repeat' split
  all_goals first | exact w0 | exact w | exact (w.setAttr _ _ _).setAttr _ _ _

theorem createDataFrame_wt {s : Store} {ρ : ObjId → Role} (h : WT s ρ) (b : ObjId) (n t i c : String) (ns ts : List String) (cols : String)
    (hb : b < s.objs.length ∧ ρ b = .ent .B) :
    WT (createDataFrame s b n t i c ns ts cols).1 (rolesInBlock s ρ b "D" n) := by
  obtain ⟨w, w0, _, _⟩ := createInBlock_wt h b "D" n t i c hb
  unfold createDataFrame
  generalize createInBlock s b "D" n t i c = r at w
  obtain ⟨s1, x⟩ := r
  cases x <;> simp only <;> repeat' split
  all_goals first | exact w0 | exact w | exact w.setAttr _ _ _

theorem createTag_wt {s : Store} {ρ : ObjId → Role} (h : WT s ρ) (b : ObjId) (n t i c pos : String)
    (hb : b < s.objs.length ∧ ρ b = .ent .B) :
    WT (createTag s b n t i c pos).1 (rolesInBlock s ρ b "T" n) := by
  obtain ⟨w, w0, _, _⟩ := createInBlock_wt h b "T" n t i c hb
  unfold createTag
  generalize createInBlock s b "T" n t i c = r at w
  obtain ⟨s1, x⟩ := r
  cases x <;> simp only
  all_goals first | exact w | exact w.setAttr _ _ _

theorem contains_ent_ent {ρ : ObjId → Role} {g t : ObjId} (hg : ∃ k, ρ g = .ent k) {k' : Kind} (ht : ρ t = .ent k') :
    contains (ρ g) (ρ t) = false := by
  obtain ⟨k, hk⟩ := hg
  rw [hk, ht]; rfl

theorem setArrayLink_wt {s : Store} {ρ : ObjId → Role} (h : WT s ρ) (holder b : ObjId) (f key : String)
    (he : ∃ k, ρ holder = .ent k) (hf : childRole (ρ holder) f = some (.ent .A)) (hb : ρ b = .ent .B) :
    WT (setArrayLink s holder b f key).1 ρ := by
  unfold setArrayLink
  cases hk : blkFindKey s b "A" key with
  | none => exact h
  | some a =>
    simp only
    have ⟨ha, hra⟩ := h.blkFindKey hb hk
    have hra' : ρ a = .ent .A := by rw [hra]; decide
    exact h.replaceLink holder f a ha (by rw [hra']; exact hf) (by rw [hra']; simp) (contains_ent_ent he hra')

theorem createMultiTag_wt {s : Store} {ρ : ObjId → Role} (h : WT s ρ) (b : ObjId) (n t i c : String) (ph : Option Handle)
    (hb : b < s.objs.length ∧ ρ b = .ent .B) :
    WT (createMultiTag s b n t i c ph).1 (rolesInBlock s ρ b "M" n) := by
  obtain ⟨w, w0, a, hres⟩ := createInBlock_wt h b "M" n t i c hb
  unfold createMultiTag
  cases hc : checkNameAndType n t with
  | error e' => exact w0
  | ok u =>
    simp only
    split
    · exact w0
    · cases ph with
      | none => exact w0
      | some ph =>
        simp only
        split
        · exact w0
        · split
          · exact w0
          · generalize hr : createInBlock s b "M" n t i c = r at w hres
            obtain ⟨s1, x⟩ := r
            cases x with
            | error e => exact w
            | ok g =>
              simp only
              have ⟨hg, hrg, hle⟩ := hres g rfl
              have hbk : bKind "M" = .M := by decide
              have hl := setArrayLink_wt w g b "positions" (idOf s1 ph.obj) ⟨_, hrg⟩
                (by rw [hrg, hbk]; simp [childRole]) (by rw [a b hb.1]; exact hb.2)
              generalize setArrayLink s1 g b "positions" (idOf s1 ph.obj) = r2 at hl
              obtain ⟨s2, y⟩ := r2
              cases y <;> exact hl

theorem createProperty_wt {s : Store} {ρ : ObjId → Role} (h : WT s ρ) (sec : ObjId) (n i c dt : String)
    (hs : sec < s.objs.length ∧ ρ sec = .ent .S) :
    WT (createProperty s sec n i c dt).1 (Op.roleAfter s ρ (.createProperty sec n i c dt)) ∧
    Agree s ρ (Op.roleAfter s ρ (.createProperty sec n i c dt)) := by
  simp only [Op.roleAfter]
  obtain ⟨w1, a1, l1, x1, r1⟩ := h.openGroupCreate sec "properties" .pcont hs.1 (by rw [hs.2]; simp [childRole]) (by simp)
  have a2 : Agree s ρ (upd (upd ρ (s.openGroupCreate sec "properties").2 .pcont) (s.openGroupCreate sec "properties").1.objs.length .prop) := by
    intro o ho
    have : o ≠ (s.openGroupCreate sec "properties").1.objs.length := Nat.ne_of_lt (Nat.lt_of_lt_of_le ho l1)
    simp only [upd, this, if_false]
    exact a1 o ho
  refine ⟨?_, a2⟩
  have w0 := h.congr a2
  unfold createProperty
  cases hc : checkName n with
  | error e' => exact w0
  | ok u =>
    have ⟨hn, _⟩ := checkName_ok hc
    simp only
    -- the final store, given that the name is free in the container
    have fin : (s.openGroupCreate sec "properties").1.child? (s.openGroupCreate sec "properties").2 n = none →
        WT (((((((s.openGroupCreate sec "properties").1.alloc { isGroup := false }).1.addLink (s.openGroupCreate sec "properties").2 n ((s.openGroupCreate sec "properties").1.alloc { isGroup := false }).2).setAttr ((s.openGroupCreate sec "properties").1.alloc { isGroup := false }).2 "entity_id" i).setAttr ((s.openGroupCreate sec "properties").1.alloc { isGroup := false }).2 "created_at" c).setAttr ((s.openGroupCreate sec "properties").1.alloc { isGroup := false }).2 "name" n).setAttr ((s.openGroupCreate sec "properties").1.alloc { isGroup := false }).2 "ds:dtype" dt)
          (upd (upd ρ (s.openGroupCreate sec "properties").2 .pcont) (s.openGroupCreate sec "properties").1.objs.length .prop) := by
      intro hfree
      have := w1.allocLink (s.openGroupCreate sec "properties").2 n { isGroup := false } .prop x1 rfl (by simp)
        (by rw [r1]; rfl) (.inl hfree)
      exact (((this.setAttr _ _ _).setAttr _ _ _).setAttr _ _ _).setAttr _ _ _
    -- the name is free: the duplicate check looked for a data set of that name, and the container holds data sets only
    cases hopt : s.optGroup sec "properties" with
    | none =>
      simp only [Option.isSome_none, Bool.false_eq_true, if_false]
      split
      · exact w0
      · refine fin ?_
        have hh : s.hasGroup sec "properties" = false := by
          cases hg : s.hasGroup sec "properties" with
          | false => rfl
          | true =>
            obtain ⟨_, x, hx, _⟩ := hasGroup_child s sec _ hg
            simp [Store.optGroup, hg, hx] at hopt
        obtain ⟨_, hl, _, _, _⟩ := openGroupCreate_fresh s sec _ hh hs.1
        simp [child?, hl]
    | some c0 =>
      simp only
      have hh : s.hasGroup sec "properties" = true := by
        cases hg : s.hasGroup sec "properties" with
        | true => rfl
        | false => simp [Store.optGroup, hg] at hopt
      have hs1 : (s.openGroupCreate sec "properties").1 = s := openGroupCreate_existing s sec _ hh
      have hc0 : (s.openGroupCreate sec "properties").2 = c0 := by
        obtain ⟨_, x, hx, _⟩ := hasGroup_child s sec _ hh
        have : s.optGroup sec "properties" = some x := by simp [Store.optGroup, hh, hx]
        rw [hopt] at this
        have hxc : c0 = x := Option.some.inj this
        unfold Store.openGroupCreate; simp [hh, hx, hxc]
      by_cases hd : (s.findDataByNameOrAttribute c0 "entity_id" n).isSome = true
      · simp only [hd, if_true]; exact w0
      · have hfree : (s.openGroupCreate sec "properties").1.child? (s.openGroupCreate sec "properties").2 n = none := by
          rw [hs1, hc0]
          cases hch : s.child? c0 n with
          | none => rfl
          | some y =>
            exfalso
            apply hd
            simp [Store.findDataByNameOrAttribute, hasObject, hn, hch]
        simp only [hd]
        repeat' split
        all_goals first | exact w0 | exact fin hfree

theorem createFeature_wt {s : Store} {ρ : ObjId → Role} (h : WT s ρ) (tag b : ObjId) (i c lt : String) (dh : Option Handle)
    (hk : tag < s.objs.length ∧ (ρ tag = .ent .T ∨ ρ tag = .ent .M) ∧ b < s.objs.length ∧ ρ b = .ent .B) :
    WT (createFeature s tag b i c lt dh).1 (Op.roleAfter s ρ (.createFeature tag b i c lt dh)) ∧
    Agree s ρ (Op.roleAfter s ρ (.createFeature tag b i c lt dh)) := by
  simp only [Op.roleAfter]
  have hcr : childRole (ρ tag) "features" = some (.cont .F) := by
    rcases hk.2.1 with h1 | h1 <;> rw [h1] <;> simp [childRole]
  obtain ⟨w2, _, a2, _⟩ := create2_wt h tag "features" i (.cont .F) (.ent .F) hk.1 hcr (by simp) (fun _ => rfl) (by simp)
  obtain ⟨w1, _, l1, x1, r1⟩ := h.openGroupCreate tag "features" (.cont .F) hk.1 hcr (by simp)
  obtain ⟨_, _, _, _, r2⟩ := w1.openGroupCreate (s.openGroupCreate tag "features").2 i (.ent .F) x1 (by rw [r1]; rfl) (by simp)
  have w0 := h.congr a2
  refine ⟨?_, a2⟩
  unfold createFeature
  split
  · exact w0
  · cases dh with
    | none => exact w0
    | some dh =>
      simp only
      split
      · exact w0
      · have w3 := ((w2.setAttr ((s.openGroupCreate tag "features").1.openGroupCreate (s.openGroupCreate tag "features").2 i).2 "entity_id" i).setAttr
          ((s.openGroupCreate tag "features").1.openGroupCreate (s.openGroupCreate tag "features").2 i).2 "created_at" c).setAttr
          ((s.openGroupCreate tag "features").1.openGroupCreate (s.openGroupCreate tag "features").2 i).2 "link_type" lt
        have hl := setArrayLink_wt w3 ((s.openGroupCreate tag "features").1.openGroupCreate (s.openGroupCreate tag "features").2 i).2 b "data" (idOf s dh.obj)
          ⟨_, r2⟩ (by rw [r2]; simp [childRole]) (by rw [a2 b hk.2.2.1]; exact hk.2.2.2)
        generalize setArrayLink _ _ b "data" (idOf s dh.obj) = r at hl
        obtain ⟨s3, y⟩ := r
        cases y <;> exact hl

-- ---------------------------------------------------------------------------------------------------------
-- links

theorem setSectionLink_wt {s : Store} {ρ : ObjId → Role} (h : WT s ρ) (holder : ObjId) (f id : String)
    (hk : (ρ holder).isEnt = true ∧ childRole (ρ holder) f = some (.ent .S)) : WT (setSectionLink s holder f id).1 ρ := by
  unfold setSectionLink
  split
  · exact h
  · cases hf : findSectionById s id with
    | none => exact h
    | some t =>
      simp only
      have ⟨ht, hr⟩ := h.findSectionById hf
      exact h.replaceLink holder f t ht (by rw [hr]; exact hk.2) (by rw [hr]; simp) (contains_ent_ent (Role.isEnt_iff hk.1) hr)

theorem setExtents_wt {s : Store} {ρ : ObjId → Role} (h : WT s ρ) (mt b : ObjId) (key : String)
    (hk : (ρ mt).isEnt = true ∧ childRole (ρ mt) "extents" = some (.ent .A) ∧ ρ b = .ent .B) : WT (setExtents s mt b key).1 ρ := by
  unfold setExtents
  cases hf : blkFindKey s b "A" key with
  | none => exact h
  | some a =>
    simp only
    have ⟨ha, hra⟩ := h.blkFindKey hk.2.2 hf
    have hra' : ρ a = .ent .A := by rw [hra]; decide
    cases hp : s.optGroup mt "positions" with
    | none => exact h
    | some p =>
      simp only
      repeat' split
      all_goals first
        | exact h
        | exact h.replaceLink mt "extents" a ha (by rw [hra']; exact hk.2.1) (by rw [hra']; simp) (contains_ent_ent (Role.isEnt_iff hk.1) hra')

theorem hasObject_false_free {s : Store} {c : ObjId} {id : String} (h : s.hasObject c id = false) :
    s.child? c id = none ∨ id.isEmpty = true := by
  unfold hasObject at h
  cases hid : id.isEmpty with
  | true => exact .inr rfl
  | false =>
    left
    simp [hid] at h
    cases hc : s.child? c id with
    | none => rfl
    | some x => simp [hc] at h

theorem addReference_wt {s : Store} {ρ : ObjId → Role} (h : WT s ρ) (tag b : ObjId) (key : String)
    (hk : tag < s.objs.length ∧ childRole (ρ tag) "references" = some (.lcont .A) ∧ b < s.objs.length ∧ ρ b = .ent .B) :
    WT (addReference s tag b key).1 (Op.roleAfter s ρ (.addReference tag b key)) ∧
    Agree s ρ (Op.roleAfter s ρ (.addReference tag b key)) := by
  simp only [Op.roleAfter]
  obtain ⟨w1, a1, l1, x1, r1⟩ := h.openGroupCreate tag "references" (.lcont .A) hk.1 hk.2.1 (by simp)
  refine ⟨?_, a1⟩
  unfold addReference
  simp only
  cases hf : blkFindKey (s.openGroupCreate tag "references").1 b "A" key with
  | none => exact w1
  | some a =>
    simp only
    have ⟨ha, hra⟩ := w1.blkFindKey (by rw [a1 b hk.2.2.1]; exact hk.2.2.2) hf
    split
    · exact w1
    · rename_i hob
      refine w1.addLink _ _ a ha ?_ (hasObject_false_free (by simpa using hob)) (fun hc => by rw [r1, hra] at hc; cases hc)
      rw [r1, hra]; simp only [childRole]; decide

theorem addSource_wt {s : Store} {ρ : ObjId → Role} (h : WT s ρ) (holder b : ObjId) (id : String)
    (hk : holder < s.objs.length ∧ childRole (ρ holder) "sources" = some (.lcont .O) ∧ b < s.objs.length ∧ ρ b = .ent .B) :
    WT (addSource s holder b id).1 (Op.roleAfter s ρ (.addSource holder b id)) ∧
    Agree s ρ (Op.roleAfter s ρ (.addSource holder b id)) := by
  simp only [Op.roleAfter]
  cases hid : id.isEmpty with
  | true =>
    simp only [if_true]
    refine ⟨?_, Agree.refl s ρ⟩
    unfold addSource; simp only [hid, if_true]; exact h
  | false =>
    simp only [Bool.false_eq_true, if_false]
    obtain ⟨w1, a1, l1, x1, r1⟩ := h.openGroupCreate holder "sources" (.lcont .O) hk.1 hk.2.1 (by simp)
    refine ⟨?_, a1⟩
    unfold addSource
    simp only [hid, Bool.false_eq_true, if_false]
    cases hf : findSourceById (s.openGroupCreate holder "sources").1 b id with
    | none => exact w1
    | some t =>
      simp only
      have ⟨ht, hrt⟩ := w1.findSourceById (by rw [a1 b hk.2.2.1]; exact hk.2.2.2) hf
      split
      · exact w1
      · rename_i hob
        refine w1.addLink _ _ t ht ?_ (hasObject_false_free (by simpa using hob)) (fun hc => by rw [r1, hrt] at hc; cases hc)
        rw [r1, hrt]; simp only [childRole]

theorem addMember_wt {s : Store} {ρ : ObjId → Role} (h : WT s ρ) (grp b : ObjId) (k n i : String)
    (hk : grp < s.objs.length ∧ ρ grp = .ent .G ∧ b < s.objs.length ∧ ρ b = .ent .B ∧ bKind k = gKind k) :
    WT (addMember s grp b k n i).1 (Op.roleAfter s ρ (.addMember grp b k n i)) ∧
    Agree s ρ (Op.roleAfter s ρ (.addMember grp b k n i)) := by
  simp only [Op.roleAfter]
  obtain ⟨w1, a1, l1, x1, r1⟩ := h.openGroupCreate grp (groupContainer k) (.lcont (gKind k)) hk.1
    (by rw [hk.2.1]; exact childRole_groupContainer k) (by simp)
  refine ⟨?_, a1⟩
  unfold addMember
  simp only
  cases hf : blkFind (s.openGroupCreate grp (groupContainer k)).1 b k n i with
  | none => exact w1
  | some t =>
    simp only
    have ⟨ht, hrt⟩ := w1.blkFind (by rw [a1 b hk.2.2.1]; exact hk.2.2.2.1) hf
    split
    · exact w1
    · rename_i hob
      refine w1.addLink _ _ t ht ?_ (hasObject_false_free (by simpa using hob)) (fun hc => by rw [r1, hrt] at hc; cases hc)
      rw [r1, hrt, hk.2.2.2.2]; simp only [childRole]

-- ---------------------------------------------------------------------------------------------------------
-- deletes: dropping links never breaks the schema

theorem foldl_wt {α : Type} {ρ : ObjId → Role} (f : Store → α → Store) (hf : ∀ s a, WT s ρ → WT (f s a) ρ) (l : List α) {s : Store}
    (h : WT s ρ) : WT (l.foldl f s) ρ := by
  induction l generalizing s with
  | nil => exact h
  | cons a l ih => exact ih (hf s a h)

theorem deleteNested_wt {ρ : ObjId → Role} (cname : String) (fuel : Nat) : ∀ {s : Store}, WT s ρ → ∀ (c : ObjId) (key : String),
    WT (deleteNested cname fuel s c key).1 ρ := by
  induction fuel with
  | zero => intro s h c key; exact h
  | succ fuel ih =>
    intro s h c key
    unfold deleteNested
    cases hf : s.findGroupByNameOrAttribute c "entity_id" key with
    | none => exact h
    | some v =>
      simp only
      have hk : WT (afterKids (deleteNested cname fuel) s v cname) ρ := by
        unfold afterKids
        cases hvc : s.optGroup v cname with
        | none => exact h
        | some vc => simp only; exact foldl_wt _ (fun s' kid hs' => ih hs' vc kid) _ h
      exact hk.removeAllLinks c _

theorem delete_wt {s : Store} {ρ : ObjId → Role} (h : WT s ρ) :
    (∀ key, WT (deleteBlock s key).1 ρ) ∧ (∀ p key, WT (deleteSection s p key).1 ρ) ∧ (∀ p key, WT (deleteSubSource s p key).1 ρ) ∧
    (∀ b key, WT (deleteBlockSource s b key).1 ρ) ∧ (∀ b k n i, WT (removeEntity s b k n i).1 ρ) ∧
    (∀ sec key, WT (deleteProperty s sec key).1 ρ) ∧ (∀ t b key, WT (removeReference s t b key).1 ρ) ∧
    (∀ holder id, WT (removeSource s holder id).1 ρ) ∧ (∀ g k n i, WT (removeMember s g k n i).1 ρ) := by
  refine ⟨?_, ?_, ?_, ?_, ?_, ?_, ?_, ?_, ?_⟩
  · intro key; unfold deleteBlock
    cases s.findGroupByNameOrAttribute dataGrp "entity_id" key with
    | none => exact h
    | some b => exact h.removeAllLinks _ _
  · intro p key; unfold deleteSection
    cases p with
    | none => exact deleteNested_wt "sections" _ h _ _
    | some p =>
      simp only
      cases s.optGroup p "sections" with
      | none => exact h
      | some c => exact deleteNested_wt "sections" _ h _ _
  · intro p key; unfold deleteSubSource
    cases s.optGroup p "sources" with
    | none => exact h
    | some c => exact deleteNested_wt "sources" _ h _ _
  · intro b key; unfold deleteBlockSource
    cases s.optGroup b "sources" with
    | none => exact h
    | some c =>
      simp only
      cases blkFindKey s b "O" key with
      | none => exact h
      | some v =>
        simp only
        have hk : WT (afterKids (deleteNested "sources" (fuelOf s)) s v "sources") ρ := by
          unfold afterKids
          cases s.optGroup v "sources" with
          | none => exact h
          | some vc => simp only; exact foldl_wt _ (fun s' kid hs' => deleteNested_wt "sources" _ hs' vc kid) _ h
        exact hk.removeAllLinks c _
  · intro b k n i; unfold removeEntity
    cases s.optGroup b (blockContainer k) with
    | none => exact h
    | some p =>
      cases blkFind s b k n i with
      | none => exact h
      | some e => exact h.removeAllLinks p _
  · intro sec key; unfold deleteProperty
    cases s.optGroup sec "properties" with
    | none => exact h
    | some c =>
      simp only
      cases s.findDataByNameOrAttribute c "entity_id" key with
      | none => exact h
      | some p => exact h.removeData c _
  · intro t b key; unfold removeReference
    cases s.optGroup t "references" with
    | none => exact h
    | some c =>
      cases getReference s t b key with
      | none => exact h
      | some a => exact h.removeGroup c _
  · intro holder id; unfold removeSource
    cases s.optGroup holder "sources" with
    | none => exact h
    | some c => exact h.removeGroup c _
  · intro g k n i; unfold removeMember
    cases s.optGroup g (groupContainer k) with
    | none => exact h
    | some p =>
      cases grpFind s g k n i with
      | none => exact h
      | some e => exact h.removeGroup p _

-- ---------------------------------------------------------------------------------------------------------
-- every entry point, every history

/-- EVERY entry point of the store model keeps the schema, the objects it may create taking the roles of `Op.roleAfter` -/
theorem apply_wt {s : Store} {ρ : ObjId → Role} (h : WT s ρ) (op : Op) (hk : op.kinded s ρ) :
    WT (op.apply s).1 (op.roleAfter s ρ) := by
  have hd := delete_wt h
  cases op with
  | createBlock n t i c => simp only [Op.apply, fst_unitRes]; exact (createBlock_wt h n t i c).1
  | createSection p n t i c => simp only [Op.apply, fst_unitRes]; exact (createSectionIn_wt h p n t i c hk).1
  | createSubSource p n t i c => simp only [Op.apply, fst_unitRes]; exact (createSourceIn_wt h p n t i c hk).1
  | createGroup b n t i c =>
    simp only [Op.apply, fst_unitRes, ← rolesInBlock_G s ρ b n t i c]; exact (createInBlock_wt h b "G" n t i c hk).1
  | createSource b n t i c =>
    simp only [Op.apply, fst_unitRes, ← rolesInBlock_O s ρ b n t i c]; exact (createInBlock_wt h b "O" n t i c hk).1
  | createDataArray b n t i c dt sh =>
    simp only [Op.apply, fst_unitRes, ← rolesInBlock_A s ρ b n t i c dt sh]; exact createDataArray_wt h b n t i c dt sh hk
  | createDataFrame b n t i c ns ts cols =>
    simp only [Op.apply, fst_unitRes, ← rolesInBlock_D s ρ b n t i c ns ts cols]; exact createDataFrame_wt h b n t i c ns ts cols hk
  | createTag b n t i c pos =>
    simp only [Op.apply, fst_unitRes, ← rolesInBlock_T s ρ b n t i c pos]; exact createTag_wt h b n t i c pos hk
  | createMultiTag b n t i c ph =>
    simp only [Op.apply, fst_unitRes, ← rolesInBlock_M s ρ b n t i c ph]; exact createMultiTag_wt h b n t i c ph hk
  | createProperty sec n i c dt => simp only [Op.apply, fst_unitRes]; exact (createProperty_wt h sec n i c dt hk).1
  | createFeature tag b i c lt dh => simp only [Op.apply, fst_unitRes]; exact (createFeature_wt h tag b i c lt dh hk).1
  | setSectionLink holder f id => exact setSectionLink_wt h holder f id hk
  | unsetLink holder f => exact h.removeGroup holder f
  | setArrayLink holder b f k => exact setArrayLink_wt h holder b f k (Role.isEnt_iff hk.1) hk.2.1 hk.2.2
  | setExtents m b k => exact setExtents_wt h m b k hk
  | addReference t b k => exact (addReference_wt h t b k hk).1
  | addSource holder b id => exact (addSource_wt h holder b id hk).1
  | addMember g b k n i => exact (addMember_wt h g b k n i hk).1
  | setNonEmpty o k v => simp only [Op.apply, Op.roleAfter, setNonEmpty]; split; exact h; exact h.setAttr o k v
  | unsetAttr o k => exact h.removeAttr o k
  | setAttr o k v => exact h.setAttr o k v
  | deleteBlock k => exact hd.1 k
  | deleteSection p k => exact hd.2.1 p k
  | deleteSubSource p k => exact hd.2.2.1 p k
  | deleteBlockSource b k => exact hd.2.2.2.1 b k
  | removeEntity b k n i => exact hd.2.2.2.2.1 b k n i
  | deleteProperty sec k => exact hd.2.2.2.2.2.1 sec k
  | removeReference t b k => exact hd.2.2.2.2.2.2.1 t b k
  | removeSource holder id => exact hd.2.2.2.2.2.2.2.1 holder id
  | removeMember g k n i => exact hd.2.2.2.2.2.2.2.2 g k n i

/-- the roles along a history -/
def runRoles (s : Store) (ρ : ObjId → Role) : List Op → (ObjId → Role)
  | [] => ρ
  | op :: ops => runRoles (op.apply s).1 (op.roleAfter s ρ) ops

/-- every call of the history gets objects of the role its C++ signature guarantees -/
def KindedRun (s : Store) (ρ : ObjId → Role) : List Op → Prop
  | [] => True
  | op :: ops => op.kinded s ρ ∧ KindedRun (op.apply s).1 (op.roleAfter s ρ) ops

theorem run_wt {s : Store} {ρ : ObjId → Role} (h : WT s ρ) (ops : List Op) (hk : KindedRun s ρ ops) :
    WT (run s ops) (runRoles s ρ ops) := by
  induction ops generalizing s ρ with
  | nil => exact h
  | cons op ops ih =>
    simp only [run, List.foldl_cons, runRoles]
    exact ih (apply_wt h op hk.1) hk.2

end Nix.St
