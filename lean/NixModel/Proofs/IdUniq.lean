import Lean.Elab.Tactic
import NixModel.Props.C12Ids
import NixModel.Props.C03Inv
/-
  Ids stay pairwise distinct: the global id invariant of the store model.

  `IdUniq s`: two objects of the file that carry the same `entity_id` are one object.  Every entry point either writes no
  `entity_id` at all (`NoNewIds`) or writes the id it was handed onto ONE object (`IdStep`) — shown by unfolding each of the 30
  entry points into the store primitives it is made of (`openGroupCreate`, `alloc`, `setAttr`, `addLink`, `unlink`, …) and
  peeling them off one by one.  Hence: handed an id that is new to the file, every entry point keeps `IdUniq` (`apply_idUniq`),
  and so does every history (`run_idUniq`).  Objects are never removed from the store, so "new to the file" includes the ids
  of deleted entities: an id is never reused.
-/
namespace Nix.St
open Store

/-- ids are unique in the file: two objects that carry the same `entity_id` are one object -/
def IdUniq (s : Store) : Prop :=
  ∀ o1 o2 x, s.attr? o1 "entity_id" = some x → s.attr? o2 "entity_id" = some x → o1 = o2

/-- what a step may do to the id attribute: every id found afterwards was already there on that object, or it is the id `i`
    on the one object `g` -/
def IdStep (s s' : Store) (g : ObjId) (i : String) : Prop :=
  ∀ o x, s'.attr? o "entity_id" = some x → s.attr? o "entity_id" = some x ∨ (o = g ∧ x = i)

theorem IdStep.refl (s : Store) (g : ObjId) (i : String) : IdStep s s g i := fun _ _ h => Or.inl h

theorem attr?_setAttr_some {s : Store} {o' : ObjId} {k' v : String} {o : ObjId} {k x : String}
    (h : (s.setAttr o' k' v).attr? o k = some x) : s.attr? o k = some x ∨ (o = o' ∧ k = k' ∧ x = v) := by
  by_cases ho : o = o'
  · subst ho
    by_cases hk : k = k'
    · subst hk
      right
      refine ⟨rfl, rfl, ?_⟩
      cases hob : s.obj? o with
      | none =>
        simp [Store.setAttr, attr?, obj?_modifyObj, hob] at h
      | some ob =>
        rw [attr?_setAttr_same s o k v (by simp [hob])] at h
        exact (Option.some.inj h).symm
    · left
      simp only [Store.setAttr, attr?, obj?_modifyObj] at h ⊢
      cases hob : s.obj? o with
      | none => simp [hob] at h
      | some ob =>
        simp only [hob, if_true, Option.map_some] at h ⊢
        rwa [lookup_setKV_ne _ _ _ _ hk] at h
  · left
    rwa [attr?_setAttr_other s o' k' v o k ho] at h

theorem IdStep.setAttr_ne {s0 s : Store} {g : ObjId} {i : String} (o : ObjId) (k v : String) (hk : k ≠ "entity_id")
    (h : IdStep s0 s g i) : IdStep s0 (s.setAttr o k v) g i := by
  intro o' x hx
  rcases attr?_setAttr_some hx with h1 | ⟨_, h2, _⟩
  · exact h o' x h1
  · exact absurd h2.symm hk

theorem IdStep.setAttr_eid {s0 s : Store} {g : ObjId} {i : String} (h : IdStep s0 s g i) : IdStep s0 (s.setAttr g "entity_id" i) g i := by
  intro o' x hx
  rcases attr?_setAttr_some hx with h1 | ⟨h2, _, h3⟩
  · exact h o' x h1
  · exact Or.inr ⟨h2, h3⟩

theorem attr?_openGroupCreate (s : Store) (g : ObjId) (n : String) (o : ObjId) (k : String) :
    (s.openGroupCreate g n).1.attr? o k = s.attr? o k := by
  by_cases ho : o < s.objs.length
  · exact (openGroupCreate_old s g n).2.1 o k ho
  · have ho' : s.objs.length ≤ o := Nat.le_of_not_lt ho
    have hn : s.attr? o k = none := by simp [attr?, obj?_none_of_ge ho']
    rw [hn]
    unfold openGroupCreate
    by_cases h : s.hasGroup g n = true
    · simp only [h, if_true]
      split <;> simpa using hn
    · have h' : s.hasGroup g n = false := by simpa using h
      simp only [h', Bool.false_eq_true, if_false]
      rw [attr?_addLink]
      simp only [attr?, obj?, alloc]
      by_cases he : o = s.objs.length
      · subst he; simp
      · have hlen : (s.objs ++ [({ isGroup := true } : Obj)]).length ≤ o := by
          simp only [List.length_append, List.length_cons, List.length_nil]; unfold ObjId at *; omega
        rw [List.getElem?_eq_none hlen]

theorem IdStep.openGroupCreate {s0 s : Store} {g : ObjId} {i : String} (p : ObjId) (n : String)
    (h : IdStep s0 s g i) : IdStep s0 (s.openGroupCreate p n).1 g i := by
  intro o x hx
  rw [attr?_openGroupCreate] at hx
  exact h o x hx

theorem IdStep.addLink {s0 s : Store} {g : ObjId} {i : String} (p : ObjId) (n : String) (t : ObjId)
    (h : IdStep s0 s g i) : IdStep s0 (s.addLink p n t) g i := by
  intro o x hx
  rw [attr?_addLink] at hx
  exact h o x hx

theorem IdStep.initNamed {s0 s : Store} {g : ObjId} {i : String} (type name created : String)
    (h : IdStep s0 s g i) : IdStep s0 (initNamed s g i type name created).1 g i := by
  unfold St.initNamed
  repeat' split
  all_goals (repeat (first
    | exact h
    | apply IdStep.setAttr_eid
    | apply IdStep.setAttr_ne _ _ _ (by decide)))

open Lean Elab Tactic Meta in
/-- after `split` on the result of a step (`heq : step … = (s', r)` with `s'` a new variable): name the store by the projection it
    is, `s' := (step …).1` -/
elab "substores" : tactic => do
  for _ in [0:12] do
    let found ← withMainContext do
      let mut res : Option FVarId := none
      for ldecl in (← getLCtx) do
        if ldecl.isImplementationDetail then continue
        let ty ← instantiateMVars ldecl.type
        match ty.eq? with
        | some (_, _, rhs) =>
          if rhs.isAppOfArity ``Prod.mk 4 && (rhs.getArg! 2).isFVar then res := some ldecl.fvarId
        | none => pure ()
      pure res
    match found with
    | none => break
    | some id =>
      withMainContext do
        let stx ← Term.exprToSyntax (mkFVar id)
        evalTactic (← `(tactic| (have hfst := congrArg Prod.fst $stx; simp only at hfst; first | subst hfst | fail "substores")))

/-- a step that only touches links or removes attributes: every attribute found afterwards was there before -/
theorem IdStep.of_attrs {s0 s s' : Store} {g : ObjId} {i : String} (ha : ∀ o x, s'.attr? o "entity_id" = some x → s.attr? o "entity_id" = some x)
    (h : IdStep s0 s g i) : IdStep s0 s' g i := fun o x hx => h o x (ha o x hx)

theorem IdStep.unlink {s0 s : Store} {g : ObjId} {i : String} (p : ObjId) (n : String)
    (h : IdStep s0 s g i) : IdStep s0 (s.unlink p n) g i :=
  h.of_attrs fun o x hx => by rwa [Store.unlink, attr?_modifyObj_links] at hx

theorem IdStep.removeGroup {s0 s : Store} {g : ObjId} {i : String} (p : ObjId) (n : String)
    (h : IdStep s0 s g i) : IdStep s0 (s.removeGroup p n) g i := by
  unfold Store.removeGroup; split
  · exact h.unlink p n
  · exact h

theorem IdStep.removeData {s0 s : Store} {g : ObjId} {i : String} (p : ObjId) (n : String)
    (h : IdStep s0 s g i) : IdStep s0 (s.removeData p n) g i := by
  unfold Store.removeData; split
  · exact h.unlink p n
  · exact h

theorem IdStep.unlinkAll {s0 s : Store} {g : ObjId} {i : String} (D : List ObjId)
    (h : IdStep s0 s g i) : IdStep s0 (s.unlinkAll D) g i :=
  h.of_attrs fun o x hx => by rwa [(unlinkAll_frame s D o).2.1] at hx

theorem lookup_delK_some {l : List (String × String)} {k' k x : String} (h : (delK l k').lookup k = some x) : l.lookup k = some x := by
  induction l with
  | nil => simp [delK] at h
  | cons a as ih =>
    obtain ⟨a1, a2⟩ := a
    simp only [delK, List.filter_cons] at h
    by_cases ha : (a1 != k') = true
    · simp only [ha, if_true, List.lookup_cons] at h ⊢
      cases hk : (k == a1) with
      | true => simpa [hk] using h
      | false => simp only [hk] at h ⊢; exact ih h
    · have hf : (a1 != k') = false := by simpa using ha
      simp only [hf, Bool.false_eq_true, if_false] at h
      have h' := ih h
      have hak : a1 = k' := by simpa using ha
      simp only [List.lookup_cons]
      cases hk : (k == a1) with
      | true =>
        -- k = a1 = k': the filtered list has no entry under k'
        exfalso
        have hkk : k = k' := by rw [← hak]; simpa using hk
        subst hkk
        have : ∀ (l : List (String × String)), (delK l k).lookup k = none := by
          intro l
          induction l with
          | nil => rfl
          | cons b bs ihb =>
            obtain ⟨b1, b2⟩ := b
            simp only [delK, List.filter_cons]
            by_cases hb : (b1 != k) = true
            · simp only [hb, if_true, List.lookup_cons]
              have : (k == b1) = false := by
                have : b1 ≠ k := by simpa using hb
                simpa using fun e => this e.symm
              simp only [this]; exact ihb
            · simp only [hb]; exact ihb
        rw [show List.filter (fun x => x.1 != k) as = delK as k from rfl, this as] at h
        exact absurd h (by simp)
      | false => exact h'

theorem IdStep.removeAttr {s0 s : Store} {g : ObjId} {i : String} (o' : ObjId) (k' : String)
    (h : IdStep s0 s g i) : IdStep s0 (s.removeAttr o' k') g i :=
  h.of_attrs fun o x hx => by
    simp only [Store.removeAttr, attr?, obj?_modifyObj] at hx ⊢
    by_cases ho : o' = o
    · subst ho
      cases hob : s.obj? o' with
      | none => simp [hob] at hx
      | some ob =>
        simp only [hob, if_true, Option.map_some] at hx ⊢
        exact lookup_delK_some hx
    · simpa [ho] using hx

theorem IdStep.alloc {s0 s : Store} {g : ObjId} {i : String} (ob : Obj) (hob : ob.attrs = [])
    (h : IdStep s0 s g i) : IdStep s0 (s.alloc ob).1 g i :=
  h.of_attrs fun o x hx => by
    by_cases ho : o < s.objs.length
    · rwa [attr?_alloc_old _ _ _ _ ho] at hx
    · exfalso
      simp only [attr?, obj?, Store.alloc] at hx
      by_cases he : o = s.objs.length
      · subst he; simp [hob] at hx
      · have hlen : (s.objs ++ [ob]).length ≤ o := by
          simp only [List.length_append, List.length_cons, List.length_nil]; unfold ObjId at *; omega
        rw [List.getElem?_eq_none hlen] at hx
        exact absurd hx (by simp)

macro "idpeel" : tactic => `(tactic|
  repeat (first
    | exact IdStep.refl _ _ _
    | assumption
    | apply IdStep.setAttr_eid
    | apply IdStep.setAttr_ne _ _ _ (by decide)
    | apply IdStep.openGroupCreate
    | apply IdStep.initNamed
    | apply IdStep.addLink
    | apply IdStep.removeGroup
    | apply IdStep.removeData
    | apply IdStep.removeAttr
    | apply IdStep.unlinkAll
    | apply IdStep.alloc _ rfl))

/-- unfold-and-peel: every branch of the entry point ends in a store built from the primitives -/
macro "idstep" : tactic => `(tactic|
  ((repeat' split) <;> (try substores) <;> (first
    | exact ⟨0, IdStep.refl _ _ _⟩
    | (apply Exists.intro; idpeel))))


theorem setArrayLink_idStep' {s0 s : Store} {g : ObjId} {i : String} (h b : ObjId) (f k : String)
    (hs : IdStep s0 s g i) : IdStep s0 (setArrayLink s h b f k).1 g i := by
  unfold setArrayLink
  repeat' split
  all_goals idpeel

theorem createInBlock_idStep (s : Store) (b : ObjId) (k n t i c : String) : ∃ g, IdStep s (createInBlock s b k n t i c).1 g i := by
  simp only [createInBlock]
  idstep

theorem createBlock_idStep (s : Store) (n t i c : String) : ∃ g, IdStep s (createBlock s n t i c).1 g i := by
  simp only [createBlock]
  idstep

theorem createSectionIn_idStep (s : Store) (p : Option ObjId) (n t i c : String) : ∃ g, IdStep s (createSectionIn s p n t i c).1 g i := by
  simp only [createSectionIn]
  idstep

theorem createSourceIn_idStep (s : Store) (p : ObjId) (n t i c : String) : ∃ g, IdStep s (createSourceIn s p n t i c).1 g i := by
  simp only [createSourceIn]
  idstep

/-- entry points that build on `createInBlock`: the same object, further attributes and links -/
macro "idstep_on" h:ident : tactic => `(tactic|
  ((repeat' split) <;> (try substores) <;> (first
    | exact ⟨0, IdStep.refl _ _ _⟩
    | (apply Exists.intro; idpeel; try exact $h))))

theorem createDataArray_idStep (s : Store) (b : ObjId) (n t i c dt sh : String) : ∃ g, IdStep s (createDataArray s b n t i c dt sh).1 g i := by
  obtain ⟨g, hg⟩ := createInBlock_idStep s b "A" n t i c
  simp only [createDataArray]
  idstep_on hg

theorem createDataFrame_idStep (s : Store) (b : ObjId) (n t i c : String) (ns ts : List String) (cols : String) :
    ∃ g, IdStep s (createDataFrame s b n t i c ns ts cols).1 g i := by
  obtain ⟨g, hg⟩ := createInBlock_idStep s b "D" n t i c
  simp only [createDataFrame]
  idstep_on hg

theorem createTag_idStep (s : Store) (b : ObjId) (n t i c pos : String) : ∃ g, IdStep s (createTag s b n t i c pos).1 g i := by
  obtain ⟨g, hg⟩ := createInBlock_idStep s b "T" n t i c
  simp only [createTag]
  idstep_on hg

theorem createMultiTag_idStep (s : Store) (b : ObjId) (n t i c : String) (ph : Option Handle) : ∃ g, IdStep s (createMultiTag s b n t i c ph).1 g i := by
  obtain ⟨g, hg⟩ := createInBlock_idStep s b "M" n t i c
  simp only [createMultiTag]
  (repeat' split) <;> (try substores) <;> (first
    | exact ⟨0, IdStep.refl _ _ _⟩
    | exact ⟨g, hg⟩
    | exact ⟨g, setArrayLink_idStep' _ _ _ _ hg⟩
    | (apply Exists.intro; idpeel))

theorem createProperty_idStep (s : Store) (sec : ObjId) (n i c dt : String) : ∃ g, IdStep s (createProperty s sec n i c dt).1 g i := by
  simp only [createProperty]
  idstep

theorem createFeature_idStep (s : Store) (tag b : ObjId) (i c lt : String) (dh : Option Handle) : ∃ g, IdStep s (createFeature s tag b i c lt dh).1 g i := by
  simp only [createFeature]
  (repeat' split) <;> (try substores) <;> (first
    | exact ⟨0, IdStep.refl _ _ _⟩
    | (apply Exists.intro; apply setArrayLink_idStep'; idpeel))

-- ---------------------------------------------------------------------------------------------------------
-- entry points that create no entity: no object gains an id

/-- no object carries an id it did not carry before -/
def NoNewIds (s s' : Store) : Prop := ∀ o x, s'.attr? o "entity_id" = some x → s.attr? o "entity_id" = some x

theorem NoNewIds.of_steps {s s' : Store} (h : ∀ g i, IdStep s s' g i) : NoNewIds s s' := by
  intro o x hx
  rcases h (o + 1) x o x hx with a | ⟨e, _⟩
  · exact a
  · exact absurd e (by unfold ObjId at *; omega)

macro "nonew" : tactic => `(tactic|
  (apply NoNewIds.of_steps; intro g i; (repeat' split) <;> (try substores) <;> idpeel))

theorem setSectionLink_noNew (s : Store) (h : ObjId) (f id : String) : NoNewIds s (setSectionLink s h f id).1 := by
  unfold setSectionLink; nonew
theorem setArrayLink_noNew (s : Store) (h b : ObjId) (f k : String) : NoNewIds s (setArrayLink s h b f k).1 := by
  unfold setArrayLink; nonew
theorem setExtents_noNew (s : Store) (m b : ObjId) (k : String) : NoNewIds s (setExtents s m b k).1 := by
  unfold setExtents; nonew
theorem addReference_noNew (s : Store) (t b : ObjId) (k : String) : NoNewIds s (addReference s t b k).1 := by
  simp only [addReference]; nonew
theorem addSource_noNew (s : Store) (h b : ObjId) (id : String) : NoNewIds s (addSource s h b id).1 := by
  simp only [addSource]; nonew
theorem addMember_noNew (s : Store) (g b : ObjId) (k n i : String) : NoNewIds s (addMember s g b k n i).1 := by
  simp only [addMember]; nonew
theorem deleteProperty_noNew (s : Store) (sec : ObjId) (k : String) : NoNewIds s (deleteProperty s sec k).1 := by
  unfold deleteProperty; nonew
theorem removeReference_noNew (s : Store) (t b : ObjId) (k : String) : NoNewIds s (removeReference s t b k).1 := by
  unfold removeReference; nonew
theorem removeSource_noNew (s : Store) (h : ObjId) (id : String) : NoNewIds s (removeSource s h id).1 := by
  unfold removeSource; nonew
theorem removeMember_noNew (s : Store) (g : ObjId) (k n i : String) : NoNewIds s (removeMember s g k n i).1 := by
  unfold removeMember; nonew
theorem unlinkAll_noNew (s : Store) (D : List ObjId) : NoNewIds s (s.unlinkAll D) := by
  apply NoNewIds.of_steps; intro g i; idpeel

/-- the id a creating entry point hands to the new entity (`none`: the entry point creates no entity) -/
def Op.newId : Op → Option String
  | .createBlock _ _ i _ | .createSection _ _ _ i _ | .createSubSource _ _ _ i _ | .createGroup _ _ _ i _ | .createSource _ _ _ i _
  | .createDataArray _ _ _ i _ _ _ | .createDataFrame _ _ _ i _ _ _ _ | .createTag _ _ _ i _ _ | .createMultiTag _ _ _ i _ _
  | .createProperty _ _ i _ _ | .createFeature _ _ i _ _ _ => some i
  | _ => none

/-- what ANY entry point does to the ids in the file: nothing — or, for a creating one, its id on one object -/
theorem apply_idStep (s : Store) (op : Op) (hsafe : op.idSafe s) :
    match op.newId with
    | some i => ∃ g, IdStep s (op.apply s).1 g i
    | none => NoNewIds s (op.apply s).1 := by
  cases op with
  | createBlock n t i c => simp only [Op.newId, Op.apply, unitRes_fst]; exact createBlock_idStep s n t i c
  | createSection p n t i c => simp only [Op.newId, Op.apply, unitRes_fst]; exact createSectionIn_idStep s p n t i c
  | createSubSource p n t i c => simp only [Op.newId, Op.apply, unitRes_fst]; exact createSourceIn_idStep s p n t i c
  | createGroup b n t i c => simp only [Op.newId, Op.apply, unitRes_fst]; exact createInBlock_idStep s b "G" n t i c
  | createSource b n t i c => simp only [Op.newId, Op.apply, unitRes_fst]; exact createInBlock_idStep s b "O" n t i c
  | createDataArray b n t i c dt sh => simp only [Op.newId, Op.apply, unitRes_fst]; exact createDataArray_idStep s b n t i c dt sh
  | createDataFrame b n t i c ns ts cols => simp only [Op.newId, Op.apply, unitRes_fst]; exact createDataFrame_idStep s b n t i c ns ts cols
  | createTag b n t i c pos => simp only [Op.newId, Op.apply, unitRes_fst]; exact createTag_idStep s b n t i c pos
  | createMultiTag b n t i c ph => simp only [Op.newId, Op.apply, unitRes_fst]; exact createMultiTag_idStep s b n t i c ph
  | createProperty sec n i c dt => simp only [Op.newId, Op.apply, unitRes_fst]; exact createProperty_idStep s sec n i c dt
  | createFeature tg b i c lt dh => simp only [Op.newId, Op.apply, unitRes_fst]; exact createFeature_idStep s tg b i c lt dh
  | setSectionLink o f id => exact setSectionLink_noNew s o f id
  | unsetLink o f => simp only [Op.newId, Op.apply, unsetLink]; apply NoNewIds.of_steps; intro g i; idpeel
  | setArrayLink o b f k => exact setArrayLink_noNew s o b f k
  | setExtents m b k => exact setExtents_noNew s m b k
  | addReference t b k => exact addReference_noNew s t b k
  | addSource o b id => exact addSource_noNew s o b id
  | addMember g b k n i => exact addMember_noNew s g b k n i
  | setNonEmpty o k v =>
    simp only [Op.newId, Op.apply, setNonEmpty]
    apply NoNewIds.of_steps; intro g i
    split
    · exact IdStep.refl _ _ _
    · exact IdStep.setAttr_ne _ _ _ hsafe (IdStep.refl _ _ _)
  | unsetAttr o k => simp only [Op.newId, Op.apply, unsetAttr]; apply NoNewIds.of_steps; intro g i; idpeel
  | setAttr o k v =>
    simp only [Op.newId, Op.apply]
    apply NoNewIds.of_steps; intro g i
    exact IdStep.setAttr_ne _ _ _ hsafe (IdStep.refl _ _ _)
  | deleteBlock k => obtain ⟨D, h⟩ := (delete_only_unlinks s).1 k; simp only [Op.newId, Op.apply, okRes, h]; exact unlinkAll_noNew s D
  | deleteSection p k => obtain ⟨D, h⟩ := (delete_only_unlinks s).2.1 p k; simp only [Op.newId, Op.apply, okRes, h]; exact unlinkAll_noNew s D
  | deleteSubSource p k => obtain ⟨D, h⟩ := (delete_only_unlinks s).2.2.1 p k; simp only [Op.newId, Op.apply, okRes, h]; exact unlinkAll_noNew s D
  | deleteBlockSource b k => obtain ⟨D, h⟩ := (delete_only_unlinks s).2.2.2.1 b k; simp only [Op.newId, Op.apply, okRes, h]; exact unlinkAll_noNew s D
  | removeEntity b kd n i => obtain ⟨D, h⟩ := (delete_only_unlinks s).2.2.2.2 b kd n i; simp only [Op.newId, Op.apply, okRes, h]; exact unlinkAll_noNew s D
  | deleteProperty sec k => exact deleteProperty_noNew s sec k
  | removeReference t b k => exact removeReference_noNew s t b k
  | removeSource o id => exact removeSource_noNew s o id
  | removeMember g kd n i => exact removeMember_noNew s g kd n i

/-- the id handed to a creating entry point has never been written into this file (deleted objects keep theirs: the store never
    forgets an object) — what a generator that does not repeat itself provides (C12's other half) -/
def Op.freshId (s : Store) (op : Op) : Prop :=
  match op.newId with
  | some i => ∀ o, s.attr? o "entity_id" ≠ some i
  | none => True

/-- C12 / C03: EVERY entry point keeps the ids in the file pairwise distinct, given an id that is new to the file -/
theorem apply_idUniq (s : Store) (op : Op) (hU : IdUniq s) (hsafe : op.idSafe s) (hfresh : op.freshId s) : IdUniq (op.apply s).1 := by
  have hstep := apply_idStep s op hsafe
  unfold Op.freshId at hfresh
  cases hn : op.newId with
  | none =>
    simp only [hn] at hstep
    intro o1 o2 x h1 h2
    exact hU o1 o2 x (hstep o1 x h1) (hstep o2 x h2)
  | some i =>
    simp only [hn] at hstep hfresh
    obtain ⟨g, hg⟩ := hstep
    intro o1 o2 x h1 h2
    rcases hg o1 x h1 with a1 | ⟨e1, x1⟩ <;> rcases hg o2 x h2 with a2 | ⟨e2, x2⟩
    · exact hU o1 o2 x a1 a2
    · subst x2; exact absurd a1 (hfresh o1)
    · subst x1; exact absurd a2 (hfresh o2)
    · rw [e1, e2]

theorem newFile_idUniq (id created format version : String) : IdUniq (newFile id created format version) := by
  intro o1 o2 x h1 _
  exfalso
  simp only [newFile, attr?, obj?] at h1
  match o1 with
  | 0 => simp [List.lookup] at h1
  | 1 => simp [List.lookup] at h1
  | 2 => simp [List.lookup] at h1
  | (n + 3) => simp at h1

/-- a history in which every call meets the side conditions of `entity_id_immutable` and every creating call is handed an id
    that is new to the file -/
def FreshRun (s : Store) : List Op → Prop
  | [] => True
  | op :: ops => op.idSafe s ∧ op.freshId s ∧ FreshRun (op.apply s).1 ops

theorem run_idUniq (s : Store) (ops : List Op) (hU : IdUniq s) (hf : FreshRun s ops) : IdUniq (run s ops) := by
  induction ops generalizing s with
  | nil => exact hU
  | cons op ops ih =>
    simp only [run, List.foldl_cons]
    exact ih _ (apply_idUniq s op hU hf.1 hf.2.1) hf.2.2

end Nix.St
