import NixModel.Proofs.DimDescRefine
/-
  Helper lemmas for Props/C13.lean: the value constraints survive accepted calls; the observation of a state whose names are
  1..n satisfies the relation; the invariants travel along a history.
-/
set_option linter.unusedSectionVars false
set_option linter.unusedSimpArgs false
set_option linter.unusedVariables false
namespace Nix.C13
open Nix Nix.DimDesc
variable {α : Type} [Scalar α]

/-- a descriptor obeys the value constraints of its kind -/
def ValidDesc (d : Desc α) : Prop :=
  match d.body with
  | .range t => ascending t = true
  | .sampled si _ => positive si = true
  | _ => True

def ValidS (l : List (Desc α)) : Prop := ∀ d ∈ l, ValidDesc d
def Valid (a : Arr α) : Prop := ∀ g ∈ a.dims, ValidDesc g.d

theorem valid_iff (a : Arr α) : Valid a ↔ ValidS (toShadow a).dims := by
  unfold Valid ValidS toShadow
  simp

theorem validS_append {l : List (Desc α)} (h : ValidS l) {d : Desc α} (hd : ValidDesc d) : ValidS (l ++ [d]) := by
  intro x hx
  rcases List.mem_append.1 hx with hx | hx
  · exact h x hx
  · simp at hx; rw [hx]; exact hd

theorem mem_modify {β : Type} (f : β → β) : ∀ (l : List β) (n : Nat) (x : β), x ∈ l.modify n f → x ∈ l ∨ ∃ y ∈ l, x = f y
  | [], _, x, h => by simp at h
  | y :: rest, 0, x, h => by
    simp at h
    rcases h with h | h
    · right; exact ⟨y, List.mem_cons_self, h⟩
    · left; exact List.mem_cons_of_mem _ h
  | y :: rest, n + 1, x, h => by
    simp at h
    rcases h with h | h
    · left; rw [h]; exact List.mem_cons_self
    · rcases mem_modify f rest n x h with h | ⟨z, hz, hx⟩
      · left; exact List.mem_cons_of_mem _ h
      · right; exact ⟨z, List.mem_cons_of_mem _ hz, hx⟩

theorem validS_modifyAt {l : List (Desc α)} (h : ValidS l) (i : Nat) (f : Desc α → Desc α)
    (hf : ∀ d, ValidDesc d → ValidDesc (f d)) : ValidS (modifyAt i f l) := by
  unfold modifyAt
  split
  · exact h
  · intro x hx
    rcases mem_modify f l _ x hx with hx | ⟨y, hy, hx⟩
    · exact h x hx
    · rw [hx]; exact hf y (h y hy)

/-- the value constraints survive every accepted call (they are what `illegal` checks) -/
theorem validS_apply (env : Env α) (s : Shadow α) (h : ValidS s.dims) (op : Op α) (hl : illegal env s op = false) :
    ValidS (s.apply env op).dims := by
  cases op with
  | appendSet l => exact validS_append h (by simp [ValidDesc])
  | appendRange t l u =>
    simp [illegal] at hl
    exact validS_append h (by simp [ValidDesc, hl.1.2])
  | appendSampled si l u o =>
    simp [illegal] at hl
    exact validS_append h (by simp [ValidDesc, hl.1])
  | appendAlias => exact validS_append h (by simp [ValidDesc])
  | appendFrame f c => exact validS_append h (by simp [ValidDesc])
  | deleteDims => intro d hd; simp [Shadow.apply] at hd
  | setLabel i v =>
    simp only [Shadow.apply]
    cases s.get i with
    | none => exact h
    | some d => by_cases ha : isAlias d = true <;> simp only [ha, if_true, if_false]
                · exact h
                · exact validS_modifyAt h i _ (fun d hd => by simpa [ValidDesc] using hd)
  | setUnit i v =>
    simp only [Shadow.apply]
    cases s.get i with
    | none => exact h
    | some d => by_cases ha : isAlias d = true <;> simp only [ha, if_true, if_false]
                · exact h
                · exact validS_modifyAt h i _ (fun d hd => by simpa [ValidDesc] using hd)
  | setInterval i v =>
    simp only [Shadow.apply]
    have hp : positive v = true := by
      simp only [illegal] at hl
      cases hg : s.get i with
      | none => simp [hg] at hl
      | some d => simp [hg] at hl; exact hl.2
    exact validS_modifyAt h i _ (fun d hd => by
      cases hb : d.body <;> simp [ValidDesc, hb] at hd ⊢ <;> first | exact hp | exact hd)
  | setOffset i v =>
    simp only [Shadow.apply]
    exact validS_modifyAt h i _ (fun d hd => by
      cases hb : d.body <;> simp [ValidDesc, hb] at hd ⊢ <;> exact hd)
  | setTicks i v =>
    simp only [Shadow.apply]
    have hp : ascending v = true := by
      simp only [illegal] at hl
      cases hg : s.get i with
      | none => simp [hg] at hl
      | some d => simp [hg] at hl; exact hl.2
    cases s.get i with
    | none => exact h
    | some d => by_cases ha : isAlias d = true <;> simp only [ha, if_true, if_false]
                · exact h
                · exact validS_modifyAt h i _ (fun d hd => by simp [ValidDesc, hp])
  | setLabels i v =>
    simp only [Shadow.apply]
    exact validS_modifyAt h i _ (fun d hd => by simp [ValidDesc])
  | arrLabel v => exact h
  | arrUnit v => exact h
  | arrData v => exact h
  | arrExtent sh => simp only [Shadow.apply]; split <;> exact h
  | reopen r => exact h


theorem view_eq_viewD (env : Env α) (a : Arr α) (g : Grp α) : view env a g = viewD env a.label a.unit a.data g.d := by
  unfold view viewD; cases g.d.body <;> rfl

theorem getDimension_eq_expect (env : Env α) {a : Arr α} (h : GapFree a) (i : Nat) :
    getDimension env a i = (toShadow a).expect env i := by
  unfold getDimension Shadow.expect
  rw [get_toShadow h]
  cases a.lookup i with
  | none => rfl
  | some g => simp [view_eq_viewD, toShadow]

theorem filterMap_congr' {β γ : Type} {f g : β → Option γ} : ∀ (l : List β), (∀ x ∈ l, f x = g x) → l.filterMap f = l.filterMap g
  | [], _ => rfl
  | x :: rest, h => by
    have hx := h x List.mem_cons_self
    have ih := filterMap_congr' rest (fun y hy => h y (List.mem_cons_of_mem _ hy))
    simp [List.filterMap_cons, hx, ih]

theorem dimensionIndices_gapfree {a : Arr α} (h : GapFree a) : dimensionIndices a = List.range' 1 a.count := by
  unfold dimensionIndices
  have : ∀ i ∈ List.range a.count, ((a.lookup (i + 1)).map fun _ => i + 1) = some (i + 1) := by
    intro i hi
    rw [lookup_gapfree h]
    have hi : i < a.dims.length := by simpa [Arr.count] using hi
    simp [hi]
  rw [filterMap_congr' _ this, List.filterMap_eq_map', List.range'_eq_map_range]
  apply List.map_congr_left; intro i _; omega


section
variable [DecidableEq α]

theorem gets_ok (env : Env α) {a : Arr α} (hv : Valid a) (x : Option (Nat × View α))
    (hx : x ∈ (List.range (a.count + 2)).map (getDimension env a)) :
    ticksOk x = true ∧ intervalOk x = true ∧ aliasOk (observe env a) x = true := by
  simp only [List.mem_map] at hx
  obtain ⟨i, _, rfl⟩ := hx
  unfold getDimension
  cases hl : a.lookup i with
  | none => simp [ticksOk, intervalOk, aliasOk]
  | some g =>
    have hg := hv g (findName_name hl).2
    unfold ValidDesc at hg
    cases hb : g.d.body <;> simp [hb] at hg <;> simp [view, hb, ticksOk, intervalOk, aliasOk, observe, hg]

/-- **the relation holds of the model's observation** in every state whose names are 1..n and whose values are valid -/
theorem rel_observe (env : Env α) {a : Arr α} (h : GapFree a) (hv : Valid a) : Rel env (toShadow a) (observe env a) = true := by
  have hn : (toShadow a).dims.length = a.count := by simp [toShadow, Arr.count]
  have hgets : (observe env a).gets = (List.range ((toShadow a).dims.length + 2)).map ((toShadow a).expect env) := by
    simp only [observe, hn]
    apply List.map_congr_left; intro i _; exact getDimension_eq_expect env h i
  have hok := gets_ok env hv
  unfold Rel rules
  simp only [List.all_cons, List.all_nil, Bool.and_true, Bool.and_eq_true, decide_eq_true_eq, List.all_eq_true]
  refine ⟨by simp [observe, hn], by simp [observe, hn, dimensionIndices_gapfree h], ?_, hgets,
    fun x hx => (hok x hx).1, fun x hx => (hok x hx).2.1, fun x hx => (hok x hx).2.2, by simp [observe, toShadow]⟩
  rw [hgets]
  refine ⟨⟨by simp, ?_⟩, ?_⟩
  · simp [Shadow.expect, Shadow.get]
  · simp [Shadow.expect, Shadow.get]

end

theorem next_eq (env : Env α) (s : Shadow α) (op : Op α) :
    s.next env op (accepts env s op) = if accepts env s op then s.apply env op else s := by
  cases op with
  | reopen r => simp [Shadow.next, accepts, Shadow.apply]
  | _ => simp only [Shadow.next, accepts] <;> by_cases hr : s.ro = true <;> simp [hr] <;> split <;> simp_all

/-- the three facts that travel along a history -/
theorem run_invariant (env : Env α) : ∀ (ops : List (Op α)) (a : Arr α), GapFree a → Valid a →
    GapFree (run env a ops) ∧ Valid (run env a ops) ∧ toShadow (run env a ops) = shadowRun env (toShadow a) ops
  | [], a, h, hv => ⟨h, hv, rfl⟩
  | op :: rest, a, h, hv => by
    have hr := step_refines env h op
    unfold Refines at hr
    simp only [run, List.foldl_cons, shadowRun]
    have key : GapFree (next env a op) ∧ Valid (next env a op) ∧
        toShadow (next env a op) = (toShadow a).next env op (accepts env (toShadow a) op) := by
      rw [next_eq]
      unfold next
      cases hs : step env a op with
      | error e => rw [hs] at hr; simp [hr]; exact ⟨h, hv⟩
      | ok r =>
        obtain ⟨a', n⟩ := r
        rw [hs] at hr
        simp only [hr.1, if_true]
        refine ⟨hr.2.2, ?_, hr.2.1⟩
        rw [valid_iff, hr.2.1]
        cases op with
        | reopen r => exact (valid_iff a).1 hv
        | _ =>
          apply validS_apply env _ ((valid_iff a).1 hv)
          have := hr.1; simp [accepts] at this; exact this.2
    have ih := run_invariant env rest (next env a op) key.1 key.2.1
    simp only [run, shadowRun] at ih
    exact ⟨ih.1, ih.2.1, by rw [ih.2.2, key.2.2]⟩


/-- any property of the positional descriptor list that accepted calls preserve holds along every history -/
theorem run_shadow_invariant (env : Env α) (P : List (Desc α) → Prop)
    (hP : ∀ (s : Shadow α) (op : Op α), P s.dims → illegal env s op = false → P (s.apply env op).dims) :
    ∀ (ops : List (Op α)) (a : Arr α), GapFree a → P (toShadow a).dims → P (toShadow (run env a ops)).dims
  | [], a, _, hp => hp
  | op :: rest, a, h, hp => by
    have hr := step_refines env h op
    unfold Refines at hr
    simp only [run, List.foldl_cons]
    have key : GapFree (next env a op) ∧ P (toShadow (next env a op)).dims := by
      unfold next
      cases hs : step env a op with
      | error e => exact ⟨h, hp⟩
      | ok r =>
        obtain ⟨a', n⟩ := r
        rw [hs] at hr
        refine ⟨hr.2.2, ?_⟩
        rw [hr.2.1]
        cases op with
        | reopen r => exact hp
        | _ =>
          apply hP _ _ hp
          have := hr.1; simp [accepts] at this; exact this.2
    have := run_shadow_invariant env P hP rest (next env a op) key.1 key.2
    simpa [run] using this

/-- an alias, if any, is the first descriptor -/
def AliasFirstS (l : List (Desc α)) : Prop := ∀ k d, l[k]? = some d → isAlias d = true → k = 0

theorem aliasFirst_modifyAt {l : List (Desc α)} (h : AliasFirstS l) (i : Nat) (f : Desc α → Desc α)
    (hf : ∀ d, isAlias (f d) = true → isAlias d = true) : AliasFirstS (modifyAt i f l) := by
  unfold modifyAt
  split
  · exact h
  · intro k d hk hd
    rw [List.getElem?_modify] at hk
    split at hk
    · cases hl : l[k]? with
      | none => simp [hl] at hk
      | some d0 => simp [hl] at hk; exact h k d0 hl (hf d0 (hk ▸ hd))
    · simp at hk; exact h k d hk hd

theorem aliasFirst_append {l : List (Desc α)} (h : AliasFirstS l) (d : Desc α) (hd : isAlias d = false) : AliasFirstS (l ++ [d]) := by
  intro k x hk hx
  by_cases hlt : k < l.length
  · rw [List.getElem?_append_left hlt] at hk; exact h k x hk hx
  · rw [List.getElem?_append_right (by omega)] at hk
    cases hm : k - l.length with
    | zero => simp [hm] at hk; rw [← hk, hd] at hx; cases hx
    | succ m => simp [hm] at hk

theorem aliasFirst_apply (env : Env α) (s : Shadow α) (op : Op α) (h : AliasFirstS s.dims) (hl : illegal env s op = false) :
    AliasFirstS (s.apply env op).dims := by
  cases op with
  | appendSet l => exact aliasFirst_append h _ rfl
  | appendRange t l u => exact aliasFirst_append h _ rfl
  | appendSampled si l u o => exact aliasFirst_append h _ rfl
  | appendFrame f c => exact aliasFirst_append h _ rfl
  | appendAlias =>
    simp [illegal] at hl
    simp only [Shadow.apply, hl.1.2]
    intro k d hk _
    cases k with
    | zero => rfl
    | succ m => simp at hk
  | deleteDims => intro k d hk; simp [Shadow.apply] at hk
  | setLabel i v =>
    simp only [Shadow.apply]
    cases s.get i with
    | none => exact h
    | some d => by_cases ha : isAlias d = true <;> simp only [ha, if_true, if_false]
                · exact h
                · exact aliasFirst_modifyAt h i _ (fun d hd => by simpa [isAlias] using hd)
  | setUnit i v =>
    simp only [Shadow.apply]
    cases s.get i with
    | none => exact h
    | some d => by_cases ha : isAlias d = true <;> simp only [ha, if_true, if_false]
                · exact h
                · exact aliasFirst_modifyAt h i _ (fun d hd => by simpa [isAlias] using hd)
  | setInterval i v =>
    exact aliasFirst_modifyAt h i _ (fun d hd => by cases hb : d.body <;> simp [isAlias, hb] at hd ⊢)
  | setOffset i v =>
    exact aliasFirst_modifyAt h i _ (fun d hd => by cases hb : d.body <;> simp [isAlias, hb] at hd ⊢)
  | setTicks i v =>
    simp only [Shadow.apply]
    cases s.get i with
    | none => exact h
    | some d => by_cases ha : isAlias d = true <;> simp only [ha, if_true, if_false]
                · exact h
                · exact aliasFirst_modifyAt h i _ (fun d hd => by simp [isAlias] at hd)
  | setLabels i v => exact aliasFirst_modifyAt h i _ (fun d hd => by simp [isAlias] at hd)
  | arrLabel v => exact h
  | arrUnit v => exact h
  | arrData v => exact h
  | arrExtent sh => simp only [Shadow.apply]; split <;> exact h
  | reopen r => exact h


end Nix.C13
