import NixModel.Proofs.IndexSound
/-
  The range kernel `getIndex` satisfies the neighbour-local rule on every strictly ascending
  tick list.
-/
open Std
set_option linter.unusedSectionVars false
namespace Nix.C07
open Nix Scalar

variable {α : Type} [Scalar α] [IsLinearOrder α] [LawfulOrderLT α] [LawfulScalarEq α]

/-- strictly ascending -/
def Sorted (l : List α) : Prop := l.Pairwise (· < ·)

theorem lowerBound_le_length (p : α) (l : List α) : lowerBound p l ≤ l.length := by
  induction l with
  | nil => simp [lowerBound]
  | cons t ts ih => simp only [lowerBound]; split <;> simp <;> omega

theorem lt_lowerBound_iff (p : α) (l : List α) (hs : Sorted l) (i : Nat) (hi : i < l.length) :
    i < lowerBound p l ↔ l[i] < p := by
  induction l generalizing i with
  | nil => simp at hi
  | cons t ts ih =>
    have hs' : Sorted ts := (List.pairwise_cons.mp hs).2
    have hall := (List.pairwise_cons.mp hs).1
    simp only [lowerBound]
    split
    · rename_i htp
      cases i with
      | zero => simp [htp]
      | succ j =>
        simp only [List.length_cons, Nat.add_lt_add_iff_right] at hi
        simp [ih hs' j hi]
    · rename_i htp
      cases i with
      | zero => simp [htp]
      | succ j =>
        simp only [List.length_cons, Nat.add_lt_add_iff_right] at hi
        have h1 : t < ts[j] := hall _ (List.getElem_mem hi)
        simp only [Nat.not_lt_zero, List.getElem_cons_succ, false_iff]
        intro h2
        exact htp (Std.lt_trans h1 h2)

theorem Sorted.lt_of_lt {l : List α} (hs : Sorted l) {i j : Nat} (hj : j < l.length) (hij : i < j) :
    l[i]'(by omega) < l[j] := by
  have := List.pairwise_iff_getElem.mp hs i j (by omega) hj hij
  exact this

theorem rangeAxis_valid (ticks : List α) (i : Nat) : (rangeAxis ticks).valid i ↔ i < ticks.length := by
  simp [rangeAxis, Axis.valid]

theorem rangeAxis_coord (ticks : List α) (i : Nat) (h : i < ticks.length) : (rangeAxis ticks).coord i = ticks[i] := by
  simp [rangeAxis, List.getD, List.getElem?_eq_getElem h]

theorem rangeAxis_strictMono (ticks : List α) (hs : Sorted ticks) : (rangeAxis ticks).StrictMono := by
  intro i j hj hij
  have hj' := (rangeAxis_valid ticks j).1 hj
  rw [rangeAxis_coord ticks i (by omega), rangeAxis_coord ticks j hj']
  exact hs.lt_of_lt hj' hij

theorem beq_true_iff (a b : α) : Scalar.beq a b = true ↔ a = b := LawfulScalarEq.beq_iff a b
theorem beq_false_iff (a b : α) : Scalar.beq a b = false ↔ a ≠ b := by
  have := LawfulScalarEq.beq_iff a b
  cases h : Scalar.beq a b <;> simp_all

/-- what `getIndex` computes, with the raw accesses resolved -/
theorem getIndex_eq (p : α) (l : List α) (hne : l ≠ []) (hs : Sorted l) (m : PositionMatch) :
    let n := l.length
    have hn : 0 < n := List.length_pos_iff.mpr hne
    getIndex p l m =
      if p < l[0] then (if m.isGreater then some 0 else none)
      else if l[n-1] < p then (if m.isLess then some (n-1) else none)
      else
        let lo := lowerBound p l
        if h : lo < n then
          let tl := l[lo]
          if m.isGreater then
            if m == .greater && beq tl p then (if lo + 1 < n then some (lo+1) else none) else some lo
          else if m == .lessOrEqual && p < tl then (if 1 ≤ lo then some (lo-1) else none)
          else if m == .less && p ≤ tl then (if 1 ≤ lo then some (lo-1) else none)
          else if beq tl p then some lo else none
        else none := by
  cases l with
  | nil => simp at hne
  | cons t0 rest =>
    simp only [getIndex, List.getLast_eq_getElem, List.length_cons, List.getElem_cons_zero]
    simp only [Nat.add_sub_cancel]
    split
    · rfl
    · split
      · rfl
      · by_cases h : lowerBound p (t0 :: rest) < rest.length + 1
        · simp [h]
        · simp [h]

theorem rangeAxis_len (l : List α) : (rangeAxis l).len = some l.length := rfl

theorem range_rel (p : α) (l : List α) (hs : Sorted l) (m : PositionMatch) :
    relIndex (rangeAxis l) m p (getIndex p l m) (getIndex p l .lessOrEqual) = true := by
  by_cases hne : l = []
  · subst hne
    cases m <;> simp [getIndex, relIndex, rangeAxis, Axis.valid]
  have hn : 0 < l.length := List.length_pos_iff.mpr hne
  have hlb := lt_lowerBound_iff p l hs
  have hle := lowerBound_le_length p l
  have hc := rangeAxis_coord l
  have hsl : ∀ i j (hj : j < l.length) (hij : i < j), l[i]'(by omega) < l[j] := fun i j hj hij => hs.lt_of_lt hj hij
  have hbt := beq_true_iff (α := α)
  rw [getIndex_eq p l hne hs m, getIndex_eq p l hne hs .lessOrEqual]
  simp only []
  by_cases h1 : p < l[0]
  · simp only [h1, if_true]
    cases m <;> simp [relIndex, PositionMatch.isGreater, rangeAxis_valid, hn, hc 0 hn, h1] <;> grind
  · simp only [h1, if_false]
    by_cases h2 : l[l.length - 1] < p
    · simp only [h2, if_true]
      have hv : l.length - 1 < l.length := by omega
      cases m <;> simp [relIndex, PositionMatch.isLess, rangeAxis_valid, hv, hc _ hv, h2, rangeAxis_len] <;> grind
    · simp only [h2, if_false]
      have hlo : lowerBound p l < l.length := by
        have := hlb (l.length - 1) (by omega)
        grind
      simp only [hlo, dite_true]
      have hge : ¬ l[lowerBound p l] < p := by
        have := hlb (lowerBound p l) hlo
        grind
      generalize hlo' : lowerBound p l = lo at *
      cases m <;> simp only [PositionMatch.isGreater, PositionMatch.isLess, if_true, if_false, Bool.false_eq_true,
         beq_self_eq_true, Bool.true_and, Bool.false_and, reduceCtorEq, beq_iff_eq]
      all_goals
        have hv := rangeAxis_valid l
        split <;> (try split) <;> (try split) <;> simp only [relIndex, rangeAxis_len] <;> grind
end Nix.C07
