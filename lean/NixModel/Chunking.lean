/-
  `DataSet::guessChunking(NDSize, size_t)` (backend/hdf5/h5x/H5DataSet.cpp; a port of h5py's guess_chunk): the chunk shape a data set
  is created with.  Called by every createDataArray / createDataFrame / createProperty.

  The integer part is modelled over `Nat` with ndsize_t wrap-around (`nelms`); the floating-point part (target size from pow / log10,
  the test on the byte count) is a parameter `stop` for the theorems (Props/C16Chunk.lean: the `while (true)` loop terminates for
  every shape whatever the test answers) and `Float` for the driver, which replays the library's answers bit for bit.
-/
namespace Nix.Chunk

def W : Nat := 18446744073709551616

def halve (x : Nat) : Nat := if x > 1 then x / 2 else x

/-- one iteration of the loop at index k: `if (chunks[k] > 1) chunks[k] >>= 1` -/
def upd (c : Nat → Nat) (k : Nat) : Nat → Nat := fun j => if j = k then halve (c j) else c j

/-- `chunks.nelms()` in ndsize_t arithmetic -/
def nelms : Nat → (Nat → Nat) → Nat
  | 0, _ => 1
  | n + 1, c => nelms n c * c n % W

/-- the state after m iterations that did not break, started at loop counter i -/
def steps (n : Nat) : Nat → Nat → (Nat → Nat) → (Nat → Nat)
  | 0, _, c => c
  | m + 1, i, c => steps n m (i + 1) (upd c (i % n))

/-- the break test of the loop on the element count -/
def brk (n : Nat) (stop : Nat → Bool) (c : Nat → Nat) : Bool := nelms n c == 1 || stop (nelms n c)

/-- the loop with a bound on the number of iterations -/
def iter (n : Nat) (stop : Nat → Bool) : Nat → Nat → (Nat → Nat) → (Nat → Nat)
  | 0, _, c => c
  | f + 1, i, c => if brk n stop c then c else iter n stop f (i + 1) (upd c (i % n))

def mu : Nat → (Nat → Nat) → Nat
  | 0, _ => 0
  | n + 1, c => mu n c + (c n - 1)

/-- a whole round: every dimension halved once -/
def pre (k : Nat) (c : Nat → Nat) : Nat → Nat := fun j => if j < k then halve (c j) else c j


-- ---------------------------------------------------------------------------------------------------------
-- the whole function, with `double` = Float (what the driver runs)

def toFn (l : List Nat) : Nat → Nat := fun j => l.getD j 1
def ofFn (n : Nat) (c : Nat → Nat) : List Nat := (List.range n).map c

def CHUNK_BASE : Float := 16384.0
def CHUNK_MIN : Float := 8192.0
def CHUNK_MAX : Float := 1048576.0

/-- `target_size`: CHUNK_BASE * 2^log10(bytes / MiB), clamped to [CHUNK_MIN, CHUNK_MAX] -/
def targetSize (c0 : List Nat) (e : Nat) : Float :=
  let product : Float := c0.foldl (fun p v => p * Float.ofNat v) 1.0 * Float.ofNat e
  let t0 := CHUNK_BASE * Float.pow 2.0 (Float.log10 (product / (1024.0 * 1024.0)))
  if t0 > CHUNK_MAX then CHUNK_MAX else if t0 < CHUNK_MIN then CHUNK_MIN else t0

/-- the break test of the loop on the element count (as the C++ computes it in double) -/
def stopFloat (t : Float) (e : Nat) (cs : Nat) : Bool :=
  let cb := Float.ofNat cs * Float.ofNat e
  (cb < t || (Float.abs (cb - t) / t) < 0.5) && cb < CHUNK_MAX

/-- `guessChunking(dims, element_size)` for a non-empty shape and an element size ≥ 1 -/
def guess (dims : List Nat) (e : Nat) : List Nat :=
  let n := dims.length
  let c0 := dims.map fun v => if v == 0 then 1024 else v
  let t := targetSize c0 e
  let es : Float := Float.ceil (t / Float.ofNat e / Float.ofNat n)
  let c1 := if Float.ofNat (nelms n (toFn c0) * e % W) < t then List.replicate n es.toUInt64.toNat else c0
  -- the loop has no bound in the C++; `mu n c * n` iterations suffice (guess_loop_terminates), W * n is more than that
  ofFn n (iter n (stopFloat t e) (W * n) 0 (toFn c1))

end Nix.Chunk
