import NixModel.Err
/-
  C11 — model of a session's bookkeeping: what is in memory (`live`), what is completely on disk (`disk`), the dirty bit,
  the table of open HDF5 object ids of the file with their reference counts, `FileHDF5::flush`, `FileHDF5::close`
  (backend/hdf5/FileHDF5.cpp) with its force-close loop, reference-counted handles (backend/hdf5/h5x/H5Object.cpp inc / dec /
  close), and a crash of the process (everything but `disk` is lost).

  The store type `σ` is abstract: the theorems are about the bookkeeping.  That `H5Fflush(H5F_SCOPE_GLOBAL)` / `H5Fclose` really
  leave a self-consistent file on disk whose content is `live`, and that a killed process's written pages reach the file, is what
  the definitions of `flush` / `close` ASSUME about HDF5 and the OS; the correspondence run (crash family) enumerates kill points
  against the real library for that part.
-/
namespace Nix.Sess
open Nix

/-- open object ids (groups, datasets, named datatypes) of the file: `(id, reference count)`, what `H5Fget_obj_ids` /
    `H5Iget_ref` report -/
abbrev Table := List (Nat × Nat)

structure State (σ : Type) where
  live : σ                  -- the file as the session sees it
  disk : σ                  -- the last image that is completely on disk
  dirty : Bool              -- `live` has been modified since
  fileOpen : Bool           -- the file id is valid (`FileHDF5::isOpen`)
  ids : Table
  own : List Nat            -- the ids the File object itself holds (root, metadata, data)

/-- `H5Idec_ref` / `H5Oclose` on one id: the count drops, the id goes away at zero -/
def decRef (id : Nat) : Table → Table
  | [] => []
  | (i, n) :: t => if i = id then (if n ≤ 1 then t else (i, n - 1) :: t) else (i, n) :: decRef id t

/-- `H5Iinc_ref`, or a newly opened object -/
def incRef (id : Nat) : Table → Table
  | [] => [(id, 1)]
  | (i, n) :: t => if i = id then (i, n + 1) :: t else (i, n) :: incRef id t

/-- `H5Iget_ref` -/
def refCount (id : Nat) : Table → Nat
  | [] => 0
  | (i, n) :: t => if i = id then n else refCount id t

/-- `for (int j = 0; j < ref_count; j++) H5Oclose(obj);` -/
def decN (id : Nat) : Nat → Table → Table
  | 0, t => t
  | n + 1, t => decN id n (decRef id t)

/-- one iteration of the force-close loop: `ref_count = H5Iget_ref(obj)` is read when the object's turn comes -/
def closeObj (id : Nat) (t : Table) : Table := decN id (refCount id t) t

/-- `for (auto obj : objs) …` over the ids `H5Fget_obj_ids` returned before the loop started -/
def closeLoop (objs : List Nat) (t : Table) : Table := objs.foldl (fun t id => closeObj id t) t

inductive Op (σ : Type)
  | mutate (f : σ → σ)       -- a modifying call (succeeds only on an open file)
  | read                     -- a call that only reads
  | acquire (id : Nat)       -- a handle is obtained or copied
  | release (id : Nat)       -- a handle is destroyed (`H5Object::close`: dec, only if the id is still valid)
  | flush
  | close

def Op.isMutate {σ : Type} : Op σ → Bool
  | .mutate _ => true
  | _ => false

/-- `FileHDF5::flush`: `H5Fflush(hid, H5F_SCOPE_GLOBAL)`; on a closed file it fails (returns false) and does nothing -/
def flush {σ : Type} (s : State σ) : State σ :=
  if s.fileOpen then { s with disk := s.live, dirty := false } else s

/-- `FileHDF5::close`: nothing if not open; close data, metadata, root; enumerate the remaining open objects of the file and close each
    as often as its reference count says; close the file id.  HDF5 writes everything out; the file is released once no object is
    left open (otherwise it lingers until the last one goes). -/
def close {σ : Type} (s : State σ) : State σ :=
  if !s.fileOpen then s else
  let t₁ := s.own.foldl (fun t id => decRef id t) s.ids
  let objs := t₁.map (·.1)
  let t₂ := closeLoop objs t₁
  { s with ids := t₂, own := [], disk := s.live, dirty := false, fileOpen := !t₂.isEmpty }

def step {σ : Type} (s : State σ) : Op σ → State σ
  | .mutate f => if s.fileOpen then { s with live := f s.live, dirty := true } else s
  | .read => s
  | .acquire id => if s.fileOpen then { s with ids := incRef id s.ids } else s
  | .release id => { s with ids := decRef id s.ids }
  | .flush => flush s
  | .close => close s

def run {σ : Type} (s : State σ) (ops : List (Op σ)) : State σ := ops.foldl step s

/-- the process dies (SIGKILL, _exit, abort): what another process finds -/
def crash {σ : Type} (s : State σ) : σ := s.disk

/-- a call through a handle: needs the file and the handle's id to be alive -/
def useHandle {σ : Type} (s : State σ) (id : Nat) : Except Err Unit :=
  if s.fileOpen && s.ids.any (·.1 == id) then .ok () else .error .h5Error

/-- a fresh session on a file whose content is `c` -/
def init {σ : Type} (c : σ) (own : List Nat) : State σ :=
  { live := c, disk := c, dirty := false, fileOpen := true, ids := own.map (·, 1), own := own }

/-- well-formed id table: ids are unique and every count is positive -/
def TableOk (t : Table) : Prop := (t.map (·.1)).Nodup ∧ ∀ p ∈ t, 1 ≤ p.2

end Nix.Sess
